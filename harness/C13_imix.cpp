// C13_imix.cpp - integer utilities with the minimum and maximum of EVERY signed type (signed char, short, int, long,
// long long) in each argument position, same-type and MIXED-WIDTH pairs.  A negation / abs that overflows in the
// argument type (instead of the common / unsigned type) then shows up as not-constant-evaluable or as a value divergence.
// -DC13_GRP=
//   0 gcd + lcm          35 (M, N) type pairs: all 25 ordered pairs of the five signed types + 10 signed/unsigned mixes
//   1 cmp_* / in_range / saturate_cast for the same 35 type pairs (total functions: every value pair is in the domain)
//   2 same-type utilities per signed type: midpoint, add_sat, div_sat, abs/labs/llabs, div/ldiv/lldiv/imaxdiv, idiv
// Domain of gcd/lcm per [numeric.ops.gcd] / [numeric.ops.lcm]: |m| and |n| representable in common_type_t<M, N> (so
// gcd(INT_MIN, 6) with both int is undefined and skipped, gcd(INT_MIN, 6LL) is inside), lcm representable.  Computed in
// 128-bit arithmetic from the types.
#include "vf.hpp"
#include "vf_contract.hpp"

#include "vf_c13.hpp"

#include <etl/cmath.hpp>
#include <etl/cstdlib.hpp>
#include <etl/numeric.hpp>
#include <etl/utility.hpp>

#include <climits>

#ifndef C13_GRP
    #define C13_GRP 0
#endif

namespace {
using namespace c13;
using I128 = __int128;

struct MArg {
    long long m;
    long long n;
};
template <std::size_t CAP>
struct LBag {
    long long v[CAP]{};
    std::size_t n = 0;
    constexpr void add(long long x)
    {
        for (std::size_t i = 0; i < n; ++i) {
            if (v[i] == x) { return; }
        }
        v[n++] = x;
    }
};
template <typename T>
constexpr void add_limits(LBag<64>& b)
{
    using L = std::numeric_limits<T>;
    b.add(static_cast<long long>(L::min()));
    b.add(static_cast<long long>(L::min()) + 1);
    b.add(static_cast<long long>(L::max()) - 1);
    b.add(static_cast<long long>(L::max()));
}
constexpr auto value_bag()
{
    LBag<64> b;
    for (long long v : {0LL, 1LL, -1LL, 2LL, 3LL, -3LL, 6LL, -6LL, 7LL, 12LL, -12LL, 100LL}) { b.add(v); }
    add_limits<signed char>(b);
    add_limits<short>(b);
    add_limits<int>(b);
    add_limits<long long>(b);
    b.add(255);   // unsigned char max
    b.add(65535); // unsigned short max
    b.add(4294967295LL);
    b.add(4294967294LL);
    b.add(-2147483648LL / 2); // -2^30
    b.add(1LL << 62);
    b.add(-(1LL << 62));
    return b;
}
constexpr auto vbag = value_bag();
constexpr auto pair_table()
{
    std::array<MArg, vbag.n * vbag.n> r{};
    for (std::size_t i = 0; i < vbag.n; ++i) {
        for (std::size_t j = 0; j < vbag.n; ++j) { r[i * vbag.n + j] = MArg{vbag.v[i], vbag.v[j]}; }
    }
    return r;
}
inline constexpr auto tabM = pair_table();

template <typename T>
constexpr bool fits(I128 v)
{
    return v >= static_cast<I128>(std::numeric_limits<T>::min()) && v <= static_cast<I128>(std::numeric_limits<T>::max());
}
constexpr I128 iabs(I128 v) { return v < 0 ? -v : v; }
constexpr I128 igcd(I128 a, I128 b)
{
    while (b != 0) {
        I128 t = a % b;
        a      = b;
        b      = t;
    }
    return a;
}
template <typename T>
constexpr char const* tn()
{
    if constexpr (std::is_same_v<T, signed char>) { return "signed char"; }
    else if constexpr (std::is_same_v<T, short>) { return "short"; }
    else if constexpr (std::is_same_v<T, int>) { return "int"; }
    else if constexpr (std::is_same_v<T, long>) { return "long"; }
    else if constexpr (std::is_same_v<T, long long>) { return "long long"; }
    else if constexpr (std::is_same_v<T, unsigned char>) { return "unsigned char"; }
    else if constexpr (std::is_same_v<T, unsigned short>) { return "unsigned short"; }
    else if constexpr (std::is_same_v<T, unsigned>) { return "unsigned"; }
    else { return "unsigned long long"; }
}
// argument class relative to ITS OWN type: min / min+1 / neg / 0 / pos / max-1 / max
template <typename T>
constexpr char const* vclass(long long v)
{
    using L = std::numeric_limits<T>;
    if (std::is_signed_v<T> && v == static_cast<long long>(L::min())) { return "min"; }
    if (std::is_signed_v<T> && v == static_cast<long long>(L::min()) + 1) { return "min+1"; }
    if (static_cast<I128>(v) == static_cast<I128>(L::max())) { return "max"; }
    if (static_cast<I128>(v) == static_cast<I128>(L::max()) - 1) { return "max-1"; }
    return v == 0 ? "0" : v < 0 ? "neg" : "pos";
}
template <typename M, typename N>
struct ClsMN {
    static char const* sit(MArg const& p)
    {
        static char buf[64];
        std::snprintf(buf, sizeof buf, "m=%s,n=%s", vclass<M>(p.m), vclass<N>(p.n));
        return buf;
    }
    static std::string show(MArg const& p) { return std::to_string(p.m) + ", " + std::to_string(p.n); }
    static std::uint64_t hash(MArg const& p) { return vf::mix((std::uint64_t)p.m, (std::uint64_t)p.n); }
    static void const* arg0(MArg const&) { return nullptr; }
};

// ------------------------------------------------------------------ group 0: gcd + lcm
template <typename M, typename N>
struct F_gcd_lcm {
    static constexpr char const* name = "gcd+lcm";
    using R                           = std::common_type_t<M, N>;
    static constexpr bool gcd_ok(MArg const& p) { return fits<M>(p.m) && fits<N>(p.n) && fits<R>(iabs(p.m)) && fits<R>(iabs(p.n)); }
    static constexpr bool lcm_ok(MArg const& p)
    {
        if (!gcd_ok(p)) { return false; }
        if (p.m == 0 || p.n == 0) { return true; }
        I128 const a = iabs(p.m), b = iabs(p.n);
        return fits<R>(a / igcd(a, b) * b);
    }
    static bool in_domain(MArg const& p) { return gcd_ok(p); }
    constexpr auto operator()(MArg const& p) const
    {
        if (!gcd_ok(p)) { return Digest<2>{}; }
        M const m = static_cast<M>(p.m);
        N const n = static_cast<N>(p.n);
        auto u    = [](auto v) { return static_cast<std::uint64_t>(static_cast<long long>(v)); };
        return Digest<2>{{u(etl::gcd(m, n)), lcm_ok(p) ? u(etl::lcm(m, n)) : 0}};
    }
};
// ------------------------------------------------------------------ group 1: comparisons / range / saturation
template <typename M, typename N>
struct F_cmp_sat {
    static constexpr char const* name = "cmp_*/in_range/saturate_cast";
    static constexpr bool dom(MArg const& p) { return fits<M>(p.m) && fits<N>(p.n); }
    static bool in_domain(MArg const& p) { return dom(p); }
    constexpr auto operator()(MArg const& p) const
    {
        if (!dom(p)) { return Digest<3>{}; }
        M const m = static_cast<M>(p.m);
        N const n = static_cast<N>(p.n);
        std::uint64_t const bits = (etl::cmp_equal(m, n) ? 1u : 0u) | (etl::cmp_not_equal(m, n) ? 2u : 0u) | (etl::cmp_less(m, n) ? 4u : 0u) | (etl::cmp_greater(m, n) ? 8u : 0u)
                                 | (etl::cmp_less_equal(m, n) ? 16u : 0u) | (etl::cmp_greater_equal(m, n) ? 32u : 0u) | (etl::in_range<N>(m) ? 64u : 0u)
                                 | (etl::in_range<M>(n) ? 128u : 0u) | (etl::cmp_less(n, m) ? 256u : 0u);
        auto u = [](auto v) { return static_cast<std::uint64_t>(static_cast<long long>(v)); };
        return Digest<3>{{bits, u(etl::saturate_cast<N>(m)), u(etl::saturate_cast<M>(n))}};
    }
};
// ------------------------------------------------------------------ group 2: same-type utilities
template <typename T>
struct F_same {
    static constexpr char const* name = "midpoint/add_sat/div_sat";
    static constexpr bool dom(MArg const& p) { return fits<T>(p.m) && fits<T>(p.n); }
    static bool in_domain(MArg const& p) { return dom(p); }
    constexpr auto operator()(MArg const& p) const
    {
        if (!dom(p)) { return Digest<4>{}; }
        T const m = static_cast<T>(p.m);
        T const n = static_cast<T>(p.n);
        auto u    = [](auto v) { return static_cast<std::uint64_t>(static_cast<long long>(v)); };
        return Digest<4>{{u(etl::midpoint(m, n)), u(etl::add_sat(m, n)), n != T(0) ? u(etl::div_sat(m, n)) : 0, 0}};
    }
};
// abs family: |m| must be representable ([c.math.abs]); div family: y != 0 and the quotient representable
template <typename T>
constexpr bool abs_ok(MArg const& p)
{
    return fits<T>(p.m) && fits<T>(iabs(p.m));
}
template <typename T>
constexpr bool div_ok(MArg const& p)
{
    return fits<T>(p.m) && fits<T>(p.n) && p.n != 0 && fits<T>(static_cast<I128>(p.m) / static_cast<I128>(p.n));
}
#define ABSF(ID, T, NAME, CALL)                                                                                         \
    struct ID {                                                                                                        \
        static constexpr char const* name = NAME;                                                                      \
        static bool in_domain(MArg const& p) { return abs_ok<T>(p); }                                                  \
        constexpr auto operator()(MArg const& p) const -> long long                                                    \
        {                                                                                                              \
            if (!abs_ok<T>(p)) { return 0; }                                                                           \
            return static_cast<long long>(CALL(static_cast<T>(p.m)));                                                  \
        }                                                                                                              \
    };
ABSF(F_abs_int, int, "abs(int)", etl::abs)
ABSF(F_abs_long, long, "abs(long)", etl::abs)
ABSF(F_abs_llong, long long, "abs(long long)", etl::abs)
ABSF(F_labs, long, "labs", etl::labs)
ABSF(F_llabs, long long, "llabs", etl::llabs)
#define DIVF(ID, T, NAME, CALL)                                                                                         \
    struct ID {                                                                                                        \
        static constexpr char const* name = NAME;                                                                      \
        static bool in_domain(MArg const& p) { return div_ok<T>(p); }                                                  \
        constexpr auto operator()(MArg const& p) const                                                                 \
        {                                                                                                              \
            if (!div_ok<T>(p)) { return Digest<2>{}; }                                                                 \
            auto const r = CALL(static_cast<T>(p.m), static_cast<T>(p.n));                                             \
            return Digest<2>{{static_cast<std::uint64_t>(static_cast<long long>(r.quot)), static_cast<std::uint64_t>(static_cast<long long>(r.rem))}}; \
        }                                                                                                              \
    };
DIVF(F_div_int, int, "div(int)", etl::div)
DIVF(F_div_long, long, "div(long)", etl::div)
DIVF(F_div_llong, long long, "div(long long)", etl::div)
DIVF(F_ldiv, long, "ldiv", etl::ldiv)
DIVF(F_lldiv, long long, "lldiv", etl::lldiv)
DIVF(F_imaxdiv, etl::intmax_t, "imaxdiv", etl::imaxdiv)
DIVF(F_idiv_int, int, "idiv<int>", etl::idiv)
DIVF(F_idiv_s8, signed char, "idiv<signed char>", etl::idiv)
DIVF(F_idiv_llong, long long, "idiv<long long>", etl::idiv)

// ------------------------------------------------------------------ registry
template <template <typename, typename> class F, typename M, typename N>
Entry pair_entry()
{
    using FF = F<M, N>;
    return make_entry<FF, tabM, ClsMN<M, N>, 64>(std::string(FF::name) + "<" + tn<M>() + "," + tn<N>() + ">");
}
template <template <typename, typename> class F, typename M>
void add_row(std::vector<Entry>& es)
{
    es.push_back(pair_entry<F, M, signed char>());
    es.push_back(pair_entry<F, M, short>());
    es.push_back(pair_entry<F, M, int>());
    es.push_back(pair_entry<F, M, long>());
    es.push_back(pair_entry<F, M, long long>());
}
template <template <typename, typename> class F>
void add_matrix(std::vector<Entry>& es)
{
    add_row<F, signed char>(es);
    add_row<F, short>(es);
    add_row<F, int>(es);
    add_row<F, long>(es);
    add_row<F, long long>(es);
    // signed / unsigned mixes, both orders
    es.push_back(pair_entry<F, int, unsigned>());
    es.push_back(pair_entry<F, unsigned, int>());
    es.push_back(pair_entry<F, long long, unsigned>());
    es.push_back(pair_entry<F, unsigned, long long>());
    es.push_back(pair_entry<F, int, unsigned long long>());
    es.push_back(pair_entry<F, unsigned long long, int>());
    es.push_back(pair_entry<F, signed char, unsigned char>());
    es.push_back(pair_entry<F, unsigned char, signed char>());
    es.push_back(pair_entry<F, short, unsigned short>());
    es.push_back(pair_entry<F, unsigned short, long>());
}
template <typename T>
void add_same(std::vector<Entry>& es)
{
    es.push_back(make_entry<F_same<T>, tabM, ClsMN<T, T>, 64>(std::string(F_same<T>::name) + "<" + tn<T>() + ">"));
}
#define SE(F, T) make_entry<F, tabM, ClsMN<T, T>, 64>(F::name)

std::vector<Entry> const& entries()
{
    static std::vector<Entry> const es = [] {
        std::vector<Entry> v;
#if C13_GRP == 0
        add_matrix<F_gcd_lcm>(v);
#elif C13_GRP == 1
        add_matrix<F_cmp_sat>(v);
#else
        add_same<signed char>(v);
        add_same<short>(v);
        add_same<int>(v);
        add_same<long>(v);
        add_same<long long>(v);
        add_same<unsigned>(v);
        v.push_back(SE(F_abs_int, int));
        v.push_back(SE(F_abs_long, long));
        v.push_back(SE(F_abs_llong, long long));
        v.push_back(SE(F_labs, long));
        v.push_back(SE(F_llabs, long long));
        v.push_back(SE(F_div_int, int));
        v.push_back(SE(F_div_long, long));
        v.push_back(SE(F_div_llong, long long));
        v.push_back(SE(F_ldiv, long));
        v.push_back(SE(F_lldiv, long long));
        v.push_back(SE(F_imaxdiv, long));
        v.push_back(SE(F_idiv_int, int));
        v.push_back(SE(F_idiv_s8, signed char));
        v.push_back(SE(F_idiv_llong, long long));
#endif
        return v;
    }();
    return es;
}

vf::Spec spec(vf::Tier)
{
    vf::Spec s;
    s.n_enum     = total_cases(entries());
    s.n_random   = 0;
    s.batch      = 1;
    s.exhaustive = true;
    return s;
}
void run_case(vf::Case& c) { run_case_index(entries(), c.index); }

} // namespace

VF_MAIN("C13", "C13_imix", spec, run_case)
