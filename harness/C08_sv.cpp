// C08 - basic_string_view searches/comparisons vs std::basic_string_view (DESIGN 4, C08)
// Build: -DVF_CHAR=char|wchar_t|char16_t|char8_t|char32_t  -DVF_CHAR_NAME="char"
#include "vf.hpp"
#include "vf_contract.hpp"

#include <etl/string_view.hpp>

#include <string>
#include <string_view>

#ifndef VF_CHAR
    #define VF_CHAR char
    #define VF_CHAR_NAME "char"
#endif

namespace {
using Ch = VF_CHAR;
using E  = etl::basic_string_view<Ch>;
using S  = std::basic_string_view<Ch>;
using Str = std::basic_string<Ch>;
constexpr char const* SUBJ = "string_view<" VF_CHAR_NAME ">";
constexpr auto NPOS        = static_cast<std::size_t>(-1);

// alphabet: 'a', the all-ones character (negative where the type is signed, collides with eof()), the null character, and a fourth
// character for the random part
Ch alpha(unsigned i)
{
    switch (i) {
    case 0: return Ch('a');
    case 1: return static_cast<Ch>(-1); // all bits set: top bit (sign of compare for every character type) and equal to eof() after to_int_type for the wide types
    case 2: return Ch(0);
    case 3: return sizeof(Ch) == 1 ? Ch('b') : static_cast<Ch>(Ch('a') + 0x100); // wide: equal to 'a' modulo 256 (table/narrowing shortcuts collide)
    // the random part also uses neighbours that differ in one low bit (word-at-a-time / bit-trick scans confuse them)
    case 4: return Ch('c');
    case 5: return Ch('`');
    case 6: return static_cast<Ch>(-2);
    case 7: return Ch(1);
    default: return Ch('b');
    }
}
std::string show(Str const& s)
{
    std::string o = "'";
    for (Ch c : s) {
        if (c == Ch('a') || c == Ch('b') || c == Ch('c')) {
            o += (char)c;
        } else if (c == Ch(0)) {
            o += "\\0";
        } else if (c == static_cast<Ch>(0xE9)) {
            o += "\\xE9";
        } else {
            char b[16];
            std::snprintf(b, sizeof b, "\\x%X", (unsigned)c);
            o += b;
        }
    }
    return o + "'";
}
// k-th string over an alphabet of size A, lengths 0..maxlen, shortlex order
Str nth_string(std::uint64_t k, unsigned A, unsigned maxlen)
{
    std::uint64_t cnt = 1;
    for (unsigned len = 0; len <= maxlen; ++len, cnt *= A) {
        if (k < cnt) {
            Str s(len, Ch('a'));
            for (unsigned i = 0; i < len; ++i) {
                s[len - 1 - i] = alpha((unsigned)(k % A));
                k /= A;
            }
            return s;
        }
        k -= cnt;
    }
    return {};
}
std::uint64_t count_strings(unsigned A, unsigned maxlen)
{
    std::uint64_t t = 0, c = 1;
    for (unsigned l = 0; l <= maxlen; ++l, c *= A) { t += c; }
    return t;
}

struct Dims {
    unsigned A;
    unsigned hmax;
    unsigned nmax;
};
Dims dims(vf::Tier t) { return t == vf::Tier::thorough ? Dims{3, 5, 4} : Dims{3, 4, 3}; }

vf::Spec spec(vf::Tier t)
{
    Dims d = dims(t);
    vf::Spec s;
    s.n_enum     = count_strings(d.A, d.hmax) * count_strings(d.A, d.nmax);
    s.n_random   = t == vf::Tier::thorough ? 40000 : 3000;
    s.batch      = 32;
    s.exhaustive = true;
    return s;
}

char const* poscls(std::size_t pos, std::size_t size)
{
    if (pos == NPOS) { return "pos=npos"; }
    if (pos < size) { return "pos<size"; }
    if (pos == size) { return "pos=size"; }
    return "pos>size";
}

struct Ctx {
    E e;
    S s;
    E en;
    S sn;
    Ch const* nz; // null-terminated copy of the needle (exact-size block)
    std::size_t nlen;
    char const* pres;
    char const* hcls;
    char const* ncls;
    std::uint64_t hbase;
    std::string desc;
};

long long P(std::size_t v) { return v == NPOS ? -1 : (long long)v; }

#define SEARCH(OPNAME, POS, CNT, EEXPR, SEXPR)                                                                         \
    do {                                                                                                               \
        auto sv_ = (SEXPR);                                                                                            \
        char sit_[96];                                                                                                 \
        std::snprintf(sit_, sizeof sit_, "%s,%s,%s,%s", c.hcls, c.ncls, poscls((POS), c.s.size()),                    \
            sv_ == S::npos ? "absent" : "present");                                                                    \
        vf::crumb(SUBJ, OPNAME, sit_, "%s %s pos=%lld count=%lld", c.pres, c.desc.c_str(), P(POS), P(CNT));            \
        auto ev_ = (EEXPR);                                                                                            \
        vf::cover(OPNAME, vf::mix(c.hbase, vf::mix((POS), (CNT))), nontrivial);                                        \
        vf::eq_int("ret", P(ev_), P(sv_), true);                                                                       \
    } while (0)

#define BOOLOP(OPNAME, EEXPR, SEXPR)                                                                                   \
    do {                                                                                                               \
        bool sv_ = (SEXPR);                                                                                            \
        char sit_[96];                                                                                                 \
        std::snprintf(sit_, sizeof sit_, "%s,%s,%s", c.hcls, c.ncls, sv_ ? "true" : "false");                          \
        vf::crumb(SUBJ, OPNAME, sit_, "%s %s", c.pres, c.desc.c_str());                                                \
        bool ev_ = (EEXPR);                                                                                            \
        vf::cover(OPNAME, c.hbase, nontrivial);                                                                        \
        vf::eq_bool("ret", ev_, sv_);                                                                                  \
    } while (0)

#define SIGNOP(OPNAME, P1, C1, P2, C2, EEXPR, SEXPR)                                                                   \
    do {                                                                                                               \
        int sv_ = (SEXPR);                                                                                             \
        char sit_[96];                                                                                                 \
        std::snprintf(sit_, sizeof sit_, "%s,%s,%s,exp%+d", c.hcls, c.ncls, poscls((P1), c.s.size()), vf::sgn(sv_));   \
        vf::crumb(SUBJ, OPNAME, sit_, "%s %s pos1=%lld count1=%lld pos2=%lld count2=%lld", c.pres, c.desc.c_str(),    \
            P(P1), P(C1), P(P2), P(C2));                                                                               \
        int ev_ = (EEXPR);                                                                                             \
        vf::cover(OPNAME, vf::mix(vf::mix(c.hbase, vf::mix((P1), (C1))), vf::mix((P2), (C2))), nontrivial);           \
        vf::eq_sign("ret", ev_, sv_);                                                                                  \
    } while (0)

// every value 0..n for short needles, the edges and the middle for long ones
std::vector<std::size_t> upto(std::size_t n)
{
    std::vector<std::size_t> r;
    if (n <= 8) {
        for (std::size_t i = 0; i <= n; ++i) { r.push_back(i); }
    } else {
        r = {0, 1, 2, n / 2, n - 1, n};
    }
    return r;
}

void drive(Ctx& c, std::vector<std::size_t> const& poss, std::vector<std::size_t> const& counts)
{
    bool const nontrivial = !(c.s.empty() && c.sn.empty());
    E const& e            = c.e;
    S const& s            = c.s;
    Ch const ch           = c.nlen ? c.nz[0] : Ch('a');

    // ---- searches with explicit pos (and count for the (ptr,pos,count) overloads)
    for (std::size_t pos : poss) {
        SEARCH("find(sv,pos)", pos, NPOS, e.find(c.en, pos), s.find(c.sn, pos));
        SEARCH("find(ch,pos)", pos, NPOS, e.find(ch, pos), s.find(ch, pos));
        SEARCH("find(ptr,pos)", pos, NPOS, e.find(c.nz, pos), s.find(c.nz, pos));
        SEARCH("rfind(sv,pos)", pos, NPOS, e.rfind(c.en, pos), s.rfind(c.sn, pos));
        SEARCH("rfind(ch,pos)", pos, NPOS, e.rfind(ch, pos), s.rfind(ch, pos));
        SEARCH("rfind(ptr,pos)", pos, NPOS, e.rfind(c.nz, pos), s.rfind(c.nz, pos));
        SEARCH("find_first_of(sv,pos)", pos, NPOS, e.find_first_of(c.en, pos), s.find_first_of(c.sn, pos));
        SEARCH("find_first_of(ch,pos)", pos, NPOS, e.find_first_of(ch, pos), s.find_first_of(ch, pos));
        SEARCH("find_first_of(ptr,pos)", pos, NPOS, e.find_first_of(c.nz, pos), s.find_first_of(c.nz, pos));
        SEARCH("find_last_of(sv,pos)", pos, NPOS, e.find_last_of(c.en, pos), s.find_last_of(c.sn, pos));
        SEARCH("find_last_of(ch,pos)", pos, NPOS, e.find_last_of(ch, pos), s.find_last_of(ch, pos));
        SEARCH("find_last_of(ptr,pos)", pos, NPOS, e.find_last_of(c.nz, pos), s.find_last_of(c.nz, pos));
        SEARCH("find_first_not_of(sv,pos)", pos, NPOS, e.find_first_not_of(c.en, pos), s.find_first_not_of(c.sn, pos));
        SEARCH("find_first_not_of(ch,pos)", pos, NPOS, e.find_first_not_of(ch, pos), s.find_first_not_of(ch, pos));
        SEARCH("find_first_not_of(ptr,pos)", pos, NPOS, e.find_first_not_of(c.nz, pos), s.find_first_not_of(c.nz, pos));
        SEARCH("find_last_not_of(sv,pos)", pos, NPOS, e.find_last_not_of(c.en, pos), s.find_last_not_of(c.sn, pos));
        SEARCH("find_last_not_of(ch,pos)", pos, NPOS, e.find_last_not_of(ch, pos), s.find_last_not_of(ch, pos));
        SEARCH("find_last_not_of(ptr,pos)", pos, NPOS, e.find_last_not_of(c.nz, pos), s.find_last_not_of(c.nz, pos));
        for (std::size_t cnt : upto(c.nlen)) { // the standard requires [s, s+count) to be valid
            SEARCH("find(ptr,pos,count)", pos, cnt, e.find(c.en.data(), pos, cnt), s.find(c.en.data(), pos, cnt));
            SEARCH("rfind(ptr,pos,count)", pos, cnt, e.rfind(c.en.data(), pos, cnt), s.rfind(c.en.data(), pos, cnt));
            SEARCH("find_first_of(ptr,pos,count)", pos, cnt, e.find_first_of(c.en.data(), pos, cnt), s.find_first_of(c.en.data(), pos, cnt));
            SEARCH("find_last_of(ptr,pos,count)", pos, cnt, e.find_last_of(c.en.data(), pos, cnt), s.find_last_of(c.en.data(), pos, cnt));
            SEARCH("find_first_not_of(ptr,pos,count)", pos, cnt, e.find_first_not_of(c.nz, pos, cnt),
                s.find_first_not_of(c.nz, pos, cnt));
            SEARCH("find_last_not_of(ptr,pos,count)", pos, cnt, e.find_last_not_of(c.nz, pos, cnt),
                s.find_last_not_of(c.nz, pos, cnt));
        }
    }
    // ---- defaulted pos
    SEARCH("find(sv)", 0, NPOS, e.find(c.en), s.find(c.sn));
    SEARCH("find(ch)", 0, NPOS, e.find(ch), s.find(ch));
    SEARCH("find(ptr)", 0, NPOS, e.find(c.nz), s.find(c.nz));
    SEARCH("rfind(sv)", NPOS, NPOS, e.rfind(c.en), s.rfind(c.sn));
    SEARCH("rfind(ch)", NPOS, NPOS, e.rfind(ch), s.rfind(ch));
    SEARCH("rfind(ptr)", NPOS, NPOS, e.rfind(c.nz), s.rfind(c.nz));
    SEARCH("find_first_of(sv)", 0, NPOS, e.find_first_of(c.en), s.find_first_of(c.sn));
    SEARCH("find_first_of(ch)", 0, NPOS, e.find_first_of(ch), s.find_first_of(ch));
    SEARCH("find_first_of(ptr)", 0, NPOS, e.find_first_of(c.nz), s.find_first_of(c.nz));
    SEARCH("find_last_of(sv)", NPOS, NPOS, e.find_last_of(c.en), s.find_last_of(c.sn));
    SEARCH("find_last_of(ch)", NPOS, NPOS, e.find_last_of(ch), s.find_last_of(ch));
    SEARCH("find_last_of(ptr)", NPOS, NPOS, e.find_last_of(c.nz), s.find_last_of(c.nz));
    SEARCH("find_first_not_of(sv)", 0, NPOS, e.find_first_not_of(c.en), s.find_first_not_of(c.sn));
    SEARCH("find_first_not_of(ch)", 0, NPOS, e.find_first_not_of(ch), s.find_first_not_of(ch));
    SEARCH("find_first_not_of(ptr)", 0, NPOS, e.find_first_not_of(c.nz), s.find_first_not_of(c.nz));
    SEARCH("find_last_not_of(sv)", NPOS, NPOS, e.find_last_not_of(c.en), s.find_last_not_of(c.sn));
    SEARCH("find_last_not_of(ch)", NPOS, NPOS, e.find_last_not_of(ch), s.find_last_not_of(ch));
    SEARCH("find_last_not_of(ptr)", NPOS, NPOS, e.find_last_not_of(c.nz), s.find_last_not_of(c.nz));

    // ---- predicates
    BOOLOP("starts_with(sv)", e.starts_with(c.en), s.starts_with(c.sn));
    BOOLOP("starts_with(ch)", e.starts_with(ch), s.starts_with(ch));
    BOOLOP("starts_with(ptr)", e.starts_with(c.nz), s.starts_with(c.nz));
    BOOLOP("ends_with(sv)", e.ends_with(c.en), s.ends_with(c.sn));
    BOOLOP("ends_with(ch)", e.ends_with(ch), s.ends_with(ch));
    BOOLOP("ends_with(ptr)", e.ends_with(c.nz), s.ends_with(c.nz));
    BOOLOP("contains(sv)", e.contains(c.en), s.find(c.sn) != S::npos);
    BOOLOP("contains(ch)", e.contains(ch), s.find(ch) != S::npos);
    BOOLOP("contains(ptr)", e.contains(c.nz), s.find(c.nz) != S::npos);
    BOOLOP("operator==", e == c.en, s == c.sn);
    BOOLOP("operator!=", e != c.en, s != c.sn);
    BOOLOP("operator<", e < c.en, s < c.sn);
    BOOLOP("operator<=", e <= c.en, s <= c.sn);
    BOOLOP("operator>", e > c.en, s > c.sn);
    BOOLOP("operator>=", e >= c.en, s >= c.sn);

    // ---- compare family (only argument tuples the standard defines: pos1 <= size, pos2 <= needle size)
    SIGNOP("compare(sv)", 0, NPOS, 0, NPOS, e.compare(c.en), s.compare(c.sn));
    SIGNOP("compare(ptr)", 0, NPOS, 0, NPOS, e.compare(c.nz), s.compare(c.nz));
    for (std::size_t p1 : poss) {
        if (p1 > s.size()) { continue; }
        for (std::size_t c1 : counts) {
            SIGNOP("compare(pos1,count1,sv)", p1, c1, 0, NPOS, e.compare(p1, c1, c.en), s.compare(p1, c1, c.sn));
            SIGNOP("compare(pos1,count1,ptr)", p1, c1, 0, NPOS, e.compare(p1, c1, c.nz), s.compare(p1, c1, c.nz));
            for (std::size_t c2 : upto(c.nlen)) {
                SIGNOP("compare(pos1,count1,ptr,count2)", p1, c1, 0, c2, e.compare(p1, c1, c.en.data(), c2), s.compare(p1, c1, c.en.data(), c2));
            }
            for (std::size_t p2 : upto(c.sn.size())) {
                for (std::size_t c2 : counts) {
                    SIGNOP("compare(pos1,count1,sv,pos2,count2)", p1, c1, p2, c2, e.compare(p1, c1, c.en, p2, c2),
                        s.compare(p1, c1, c.sn, p2, c2));
                }
            }
        }
    }

    // ---- substr / copy / remove_prefix / remove_suffix  (pos <= size only; beyond is C05)
    for (std::size_t pos : poss) {
        if (pos > s.size()) { continue; }
        for (std::size_t cnt : counts) {
            {
                auto ss = s.substr(pos, cnt);
                char sit_[96];
                std::snprintf(sit_, sizeof sit_, "%s,%s,%s", c.hcls, poscls(pos, s.size()), cnt == NPOS ? "count=npos" : (cnt > NPOS / 2 ? "count-huge" : (cnt > s.size() - pos ? "count>rest" : "count<=rest")));
                vf::crumb(SUBJ, "substr(pos,count)", sit_, "%s %s pos=%lld count=%lld", c.pres, c.desc.c_str(), P(pos), P(cnt));
                auto es = e.substr(pos, cnt);
                vf::cover("substr(pos,count)", vf::mix(c.hbase, vf::mix(pos, cnt)), nontrivial);
                vf::eq_int("size", es.size(), ss.size());
                vf::eq_int("data-offset", es.data() - e.data(), ss.data() - s.data());
                // copy
                std::size_t rcount = ss.size();
                vf::Buf<Ch> de(rcount), ds(rcount);
                vf::crumb(SUBJ, "copy(dest,count,pos)", sit_, "%s %s pos=%lld count=%lld", c.pres, c.desc.c_str(), P(pos), P(cnt));
                auto rs = s.copy(ds.data(), cnt, pos);
                auto re = e.copy(de.data(), cnt, pos);
                vf::cover("copy(dest,count,pos)", vf::mix(c.hbase, vf::mix(pos, cnt)), nontrivial);
                vf::eq_int("ret", re, rs);
                if (rcount && std::memcmp(de.data(), ds.data(), rcount * sizeof(Ch)) != 0) { vf::diverge("dest-bytes", "differ", "equal"); }
                de.check("copy dest");
            }
        }
        {
            char sit_[96];
            std::snprintf(sit_, sizeof sit_, "%s,%s", c.hcls, pos == s.size() ? "n=size" : "n<size");
            S s2 = s;
            E e2 = e;
            vf::crumb(SUBJ, "remove_prefix(n)", sit_, "%s %s n=%lld", c.pres, c.desc.c_str(), P(pos));
            s2.remove_prefix(pos);
            e2.remove_prefix(pos);
            vf::cover("remove_prefix(n)", vf::mix(c.hbase, pos), nontrivial);
            vf::eq_int("size", e2.size(), s2.size());
            vf::eq_int("data-offset", e2.data() - e.data(), s2.data() - s.data());
            S s3 = s;
            E e3 = e;
            vf::crumb(SUBJ, "remove_suffix(n)", sit_, "%s %s n=%lld", c.pres, c.desc.c_str(), P(pos));
            s3.remove_suffix(pos);
            e3.remove_suffix(pos);
            vf::cover("remove_suffix(n)", vf::mix(c.hbase, pos), nontrivial);
            vf::eq_int("size", e3.size(), s3.size());
            vf::eq_int("data-offset", e3.data() - e.data(), s3.data() - s.data());
        }
    }
    // ---- element access / iteration
    {
        vf::crumb(SUBJ, "iterate", c.hcls, "%s %s", c.pres, c.desc.c_str());
        Str fw, bw;
        for (auto it = e.begin(); it != e.end(); ++it) { fw += *it; }
        for (auto it = e.rbegin(); it != e.rend(); ++it) { bw += *it; }
        Str sf(s.begin(), s.end()), sb(s.rbegin(), s.rend());
        vf::cover("iterate", c.hbase, nontrivial);
        if (fw != sf) { vf::diverge("forward", show(fw), show(sf)); }
        if (bw != sb) { vf::diverge("reverse", show(bw), show(sb)); }
        vf::eq_bool("empty", e.empty(), s.empty());
        vf::eq_int("size", e.size(), s.size());
        vf::eq_int("length", e.length(), s.length());
        if (!s.empty()) {
            vf::eq_int("front", (long long)e.front(), (long long)s.front());
            vf::eq_int("back", (long long)e.back(), (long long)s.back());
            for (std::size_t i = 0; i < s.size(); ++i) { vf::eq_int("operator[]", (long long)e[i], (long long)s[i]); }
        }
    }
}

void one_pair(Str const& h, Str const& n, std::vector<std::size_t> const& poss, std::vector<std::size_t> const& counts)
{
    std::string desc = "h=" + show(h) + " n=" + show(n);
    char const* hcls = h.empty() ? "h-empty" : "h-nonempty";
    char const* ncls = n.empty() ? "n-empty" : (n.size() > h.size() ? "n-longer" : "n-fits");
    std::uint64_t hb = vf::mix(vf::fnv_bytes(h.data(), h.size() * sizeof(Ch)), vf::fnv_bytes(n.data(), n.size() * sizeof(Ch)) + 77);
    if (vf::want_sample("pair")) { vf::sample("pair", "%s x %zu pos values x %zu counts, every overload", desc.c_str(), poss.size(), counts.size()); }

    // null-terminated needle in an exact-size block
    vf::Buf<Ch> nz(n.size() + 1);
    for (std::size_t i = 0; i < n.size(); ++i) { nz[i] = n[i]; }
    nz[n.size()] = Ch(0);

    // presentation A: exact-size heap blocks (ASan fences both ends to the byte)
    {
        vf::Buf<Ch> hb_(h.size()), nb(n.size());
        for (std::size_t i = 0; i < h.size(); ++i) { hb_[i] = h[i]; }
        for (std::size_t i = 0; i < n.size(); ++i) { nb[i] = n[i]; }
        Ctx c{E{hb_.data(), h.size()}, S{hb_.data(), h.size()}, E{nb.data(), n.size()}, S{nb.data(), n.size()}, nz.data(), n.size(),
            "exact", hcls, ncls, vf::mix(hb, 1), desc};
        drive(c, poss, counts);
        hb_.check("haystack");
        nb.check("needle");
    }
    // presentation B: trap suffix/prefix - the view sits inside a larger live buffer whose
    // neighbours complete a false match, so an over-read becomes a wrong answer in any flavour
    {
        Str big = n + h + n + n;
        if (n.empty()) { big = Str(1, alpha(1)) + h + Str(2, alpha(0)); }
        std::size_t off = n.empty() ? 1 : n.size();
        vf::Buf<Ch> bb(big.size());
        for (std::size_t i = 0; i < big.size(); ++i) { bb[i] = big[i]; }
        // needle presented as a sub-view too (followed by more characters)
        Str nbig = n + h + n;
        vf::Buf<Ch> nb(nbig.size());
        for (std::size_t i = 0; i < nbig.size(); ++i) { nb[i] = nbig[i]; }
        Ctx c{E{bb.data() + off, h.size()}, S{bb.data() + off, h.size()}, E{nb.data(), n.size()}, S{nb.data(), n.size()}, nz.data(),
            n.size(), "embedded", hcls, ncls, vf::mix(hb, 2), desc};
        drive(c, poss, counts);
    }
    // presentation C: the needle is a sub-view of the haystack's OWN buffer (first and last occurrence): pointer-identity shortcuts
    // must not change an answer
    if (!n.empty() || !h.empty()) {
        std::size_t first = h.find(n), last = h.rfind(n);
        if (first != Str::npos) {
            vf::Buf<Ch> hb_(h.size());
            for (std::size_t i = 0; i < h.size(); ++i) { hb_[i] = h[i]; }
            for (std::size_t off : {first, last}) {
                if (off == last && last == first && off != first) { continue; }
                Ctx c{E{hb_.data(), h.size()}, S{hb_.data(), h.size()}, E{hb_.data() + off, n.size()}, S{hb_.data() + off, n.size()}, nz.data(), n.size(),
                    off == 0 ? "needle-aliases-haystack-begin" : "needle-aliases-haystack-inner", hcls, ncls, vf::mix(hb, 3 + off), desc};
                drive(c, poss, counts);
                if (first == last) { break; }
            }
            hb_.check("haystack (aliased presentation)");
        }
    }
    nz.check("needle-z");
}

void run_case(vf::Case& c)
{
    Dims d = dims(c.tier);
    Str h, n;
    std::vector<std::size_t> poss, counts;
    if (c.enumerated) {
        std::uint64_t nn = count_strings(d.A, d.nmax);
        h = nth_string(c.index / nn, d.A, d.hmax);
        n = nth_string(c.index % nn, d.A, d.nmax);
        for (std::size_t p = 0; p <= h.size() + 2; ++p) { poss.push_back(p); }
        poss.push_back(NPOS);
        poss.push_back(NPOS - 1);
        for (std::size_t k = 0; k <= n.size() + 1; ++k) { counts.push_back(k); }
        counts.push_back(NPOS);
        counts.push_back(NPOS - 1);     // huge but not npos: pos + count must not wrap
        counts.push_back(NPOS / 2 + 2); // above PTRDIFF_MAX
    } else if (c.rng.chance(1, 16)) {
        // long, periodic strings: skip tables, block scans and byte-count arithmetic only go wrong beyond 8 / 128 / 256 characters
        unsigned A      = 2 + (unsigned)c.rng.below(8);
        std::size_t hl  = 130 + (std::size_t)c.rng.below(570);
        std::size_t per = 1 + (std::size_t)c.rng.below(5);
        Str pat;
        for (std::size_t i = 0; i < per; ++i) { pat += alpha((unsigned)c.rng.below(A)); }
        for (std::size_t i = 0; i < hl; ++i) { h += pat[i % per]; }
        for (int k = 0; k < 3; ++k) { h[c.rng.below(hl)] = alpha((unsigned)c.rng.below(A)); }
        std::size_t nl = c.rng.chance(1, 2) ? 1 + (std::size_t)c.rng.below(12) : 120 + (std::size_t)c.rng.below(300);
        if (nl > hl) { nl = hl; }
        std::size_t a = (std::size_t)c.rng.below(hl - nl + 1);
        n = h.substr(a, nl);
        if (c.rng.chance(1, 3)) { n[c.rng.below(n.size())] = alpha((unsigned)c.rng.below(A)); }
        if (c.rng.chance(1, 4)) { n = Str(1, h[a ? a - 1 : 0]) + n; } // shifted by one against the haystack's period
        poss   = {0, (std::size_t)c.rng.below(hl), hl, NPOS};
        counts = {0, 130 + (std::size_t)c.rng.below(200), NPOS};
        one_pair(h, n, poss, counts);
        return;
    } else {
        unsigned A   = 2 + (unsigned)c.rng.below(7);
        std::size_t hl = (std::size_t)c.rng.below(41);
        for (std::size_t i = 0; i < hl; ++i) { h += alpha((unsigned)c.rng.below(A)); }
        if (hl > 0 && c.rng.chance(2, 3)) {
            std::size_t a = (std::size_t)c.rng.below(hl), l = (std::size_t)c.rng.below(7);
            n = h.substr(a, l);
            if (c.rng.chance(1, 3) && !n.empty()) { n[c.rng.below(n.size())] = alpha((unsigned)c.rng.below(A)); }
        } else {
            std::size_t nl = (std::size_t)c.rng.below(7);
            for (std::size_t i = 0; i < nl; ++i) { n += alpha((unsigned)c.rng.below(A)); }
        }
        for (int i = 0; i < 4; ++i) { poss.push_back((std::size_t)c.rng.below(hl + 3)); }
        poss.push_back(hl);
        poss.push_back(NPOS);
        for (int i = 0; i < 2; ++i) { counts.push_back((std::size_t)c.rng.below(hl + 2)); }
        counts.push_back(0);
        counts.push_back(NPOS);
        counts.push_back(c.rng.chance(1, 2) ? NPOS - 1 - (std::size_t)c.rng.below(4) : NPOS / 2 + (std::size_t)c.rng.below(4));
    }
    one_pair(h, n, poss, counts);
}
} // namespace

VF_MAIN("C08", "C08_sv_" VF_CHAR_NAME, spec, run_case)
