// tetl_config.hpp - picked up by etl/_config/user.hpp when the harness is built
// with -DTETL_ENABLE_USER_CONFIG_HEADER_INCLUDE=1 (same mechanism tests/tetl_config.hpp uses).
// Contract trap: the assertion handler copies the assert_msg into the shared
// breadcrumb page and leaves the process with status 77; the exception handler
// throws so harnesses can compare with the throwing std counterpart.
#ifndef VF_TETL_CONFIG_HPP
#define VF_TETL_CONFIG_HPP

// the `ccnd` contract flavour models a release build (-DNDEBUG) that turns contract checks on WITHOUT turning tetl's own assertions on
#if !defined(VF_NO_ENABLE_ASSERTIONS)
    #define TETL_ENABLE_ASSERTIONS
#endif
#define TETL_ENABLE_CUSTOM_ASSERT_HANDLER
#define TETL_ENABLE_CUSTOM_EXCEPTION_HANDLER

#include <stdio.h>
#include <stdlib.h>
#include <unistd.h>

#include <etl/_config/_workarounds/001_avr_macros.hpp>

namespace vf {
// implemented in vf_contract.hpp (included by every harness TU after vf.hpp)
[[noreturn]] void on_contract(int line, char const* file, char const* func, char const* expr);
} // namespace vf

namespace etl {

template <typename Exception>
[[noreturn]] inline auto exception_handler(Exception const& e) -> void
{
    throw e;
}

template <typename Assertion>
[[noreturn]] auto assert_handler(Assertion const& msg) -> void
{
    ::vf::on_contract(msg.line, msg.file, msg.func, msg.expression);
}

} // namespace etl

#endif
