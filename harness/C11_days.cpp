// C11 - every sys_days value of the supported year range: sys_days -> year_month_day -> sys_days is the identity,
// the civil date equals libstdc++'s std::chrono::year_month_day AND an independent day-by-day walker,
// weekday(sys_days) == (d + 4) mod 7, last-day-of-month as the walker sees it.   (DESIGN 4, C11)
//
// plain flavour : all ~23.9 M days (one case = kChunk consecutive days);
// asan  flavour : quick = every 97th chunk + the chunks holding the range ends, day 0 and 0000-03-01 + seeded random chunks,
//                 thorough = all chunks.  UBSan sees signed overflow in the era/yoe/doy arithmetic.
#include "vf.hpp"
#include "vf_contract.hpp"
#include "vf_cal.hpp"

#include <etl/chrono.hpp>

#include <chrono>

namespace {
namespace ec = etl::chrono;
namespace sc = std::chrono;
using vfcal::fast_crumb;

constexpr std::int32_t kChunk  = 10000;
constexpr std::uint64_t kStride = 97;

std::int32_t first_day() { return vfcal::table().first_day(); }
std::int32_t last_day() { return vfcal::table().last_day(); }
std::uint64_t n_chunks() { return (std::uint64_t)(((std::int64_t)last_day() - first_day() + 1 + kChunk - 1) / kChunk); }
std::uint64_t chunk_holding(std::int32_t d) { return (std::uint64_t)(((std::int64_t)d - first_day()) / kChunk); }

bool strided(vf::Tier t) { return VF_ASAN && t == vf::Tier::quick; }

// quick asan: enumerated index -> chunk
std::vector<std::uint64_t> const& stride_chunks()
{
    static std::vector<std::uint64_t> v = [] {
        std::vector<std::uint64_t> r;
        std::uint64_t n = n_chunks();
        for (std::uint64_t i = 0; i < n; i += kStride) { r.push_back(i); }
        std::uint64_t extra[] = {1, n - 2, n - 1, chunk_holding(0), chunk_holding(-1), chunk_holding(-719468), chunk_holding(-719469),
            chunk_holding(-719468 + 146097), chunk_holding(-719468 - 146097), chunk_holding(11017) /*2000-03-01*/};
        for (std::uint64_t e : extra) {
            bool have = false;
            for (std::uint64_t x : r) { have = have || x == e; }
            if (!have) { r.push_back(e); }
        }
        return r;
    }();
    return v;
}

vf::Spec spec(vf::Tier t)
{
    vf::Spec s;
    s.n_enum     = strided(t) ? stride_chunks().size() : n_chunks();
    s.n_random   = VF_ASAN ? (t == vf::Tier::thorough ? 0 : 48) : 0;
    s.batch      = VF_ASAN ? 4 : 16;
    s.timeout_s  = 300;
    s.exhaustive = true; // plain: every day of the range; asan/quick: the stated stride (see rule)
    return s;
}

constexpr char const* SUBJ = "year_month_day";

struct Tally {
    std::uint64_t days = 0, lasts = 0;
};

void sweep(std::int32_t lo, std::int32_t hi /*inclusive*/, Tally& t)
{
    vfcal::Walker w(lo);
    for (std::int32_t d = lo;; ++d) {
        // ---- references first
        sc::sys_days const sd{sc::days{d}};
        sc::year_month_day const sy{sd};
        unsigned const swd = sc::weekday{sd}.c_encoding();
        int const ry       = w.c.y;
        unsigned const rm = w.c.m, rd = w.c.d;
        if (int(sy.year()) != ry || unsigned(sy.month()) != rm || unsigned(sy.day()) != rd || swd != w.wd) {
            // the two oracles disagree: this is a harness/oracle problem, never silently ignored
            fast_crumb("oracle", "std-vs-walker", "any", "d", d);
            char o[64], e[64];
            std::snprintf(o, sizeof o, "std %d-%u-%u wd%u", int(sy.year()), unsigned(sy.month()), unsigned(sy.day()), swd);
            std::snprintf(e, sizeof e, "walker %d-%u-%u wd%u", ry, rm, rd, w.wd);
            vf::diverge("oracles-disagree", o, e);
        }
        char const* sit = d >= 0 ? "d>=0" : (d >= -719468 ? "-719468<=d<0" : "d<era0");

        // ---- sys_days -> year_month_day
        fast_crumb(SUBJ, "year_month_day(sys_days)", sit, "d", d);
        ec::sys_days const ed{ec::days{d}};
        ec::year_month_day const ey{ed};
        int const oy       = int(ey.year());
        unsigned const om = unsigned(ey.month()), od = unsigned(ey.day());
        if (oy != ry || om != rm || od != rd) {
            char o[64], e[64];
            std::snprintf(o, sizeof o, "%d-%u-%u", oy, om, od);
            std::snprintf(e, sizeof e, "%d-%u-%u", ry, rm, rd);
            vf::diverge(oy != ry ? "civil:year" : (om != rm ? "civil:month" : "civil:day"), o, e);
        }
        fast_crumb(SUBJ, "ok()", "existing-date", "d", d);
        vf::eq_bool("ret", ey.ok(), true);

        // ---- back: the object just produced, and an object built from the reference components
        fast_crumb(SUBJ, "operator sys_days", sit, "d", d);
        ec::sys_days const back = ey;
        vf::eq_int("roundtrip", back.time_since_epoch().count(), d);
        ec::year_month_day const ey2{ec::year{ry}, ec::month{rm}, ec::day{rd}};
        ec::sys_days const back2 = ey2;
        vf::eq_int("from-components", back2.time_since_epoch().count(), d);
        vf::eq_bool("operator==", ey == ey2, true);

        // ---- local_days flavour of both directions
        fast_crumb(SUBJ, "year_month_day(local_days)", sit, "d", d);
        ec::year_month_day const el{ec::local_days{ec::days{d}}};
        if (int(el.year()) != ry || unsigned(el.month()) != rm || unsigned(el.day()) != rd) {
            char o[64], e[64];
            std::snprintf(o, sizeof o, "%d-%u-%u", int(el.year()), unsigned(el.month()), unsigned(el.day()));
            std::snprintf(e, sizeof e, "%d-%u-%u", ry, rm, rd);
            vf::diverge("civil", o, e);
        }
        fast_crumb(SUBJ, "operator local_days", sit, "d", d);
        auto const lback = static_cast<ec::local_days>(ey2);
        vf::eq_int("roundtrip", lback.time_since_epoch().count(), d);

        // ---- weekday
        fast_crumb("weekday", "weekday(sys_days)", sit, "d", d);
        ec::weekday const ew{ed};
        vf::eq_int("c_encoding", ew.c_encoding(), w.wd);
        vf::eq_int("iso_encoding", ew.iso_encoding(), w.wd == 0 ? 7u : w.wd);
        vf::eq_bool("ok", ew.ok(), true);
        fast_crumb("weekday", "weekday(local_days)", sit, "d", d);
        ec::weekday const ewl{ec::local_days{ec::days{d}}};
        vf::eq_int("c_encoding", ewl.c_encoding(), w.wd);

        // ---- last day of month, seen from the day sweep
        if (w.last_of_month()) {
            fast_crumb("year_month_day_last", "day()", rm == 2 ? (rd == 29 ? "february-leap" : "february-common") : "other-month", "d", d);
            ec::year_month_day_last const yl{ec::year{ry}, ec::month_day_last{ec::month{rm}}};
            vf::eq_int("ret", unsigned(yl.day()), rd);
            ec::year_month_day const viaLast{yl};
            vf::eq_bool("ymd(ymdl)==ymd(sys_days)", viaLast == ey, true);
            ++t.lasts;
        }
        ++t.days;
        if (d == hi) { break; }
        w.step();
    }
}

void run_case(vf::Case& c)
{
    std::int32_t lo, hi;
    if (c.enumerated) {
        std::uint64_t chunk = strided(c.tier) ? stride_chunks()[c.index] : c.index;
        lo                  = (std::int32_t)(first_day() + (std::int64_t)chunk * kChunk);
        hi                  = lo + kChunk - 1;
    } else {
        lo = (std::int32_t)c.rng.range(first_day(), last_day());
        hi = lo + 1999;
    }
    if (hi > last_day()) { hi = last_day(); }
    Tally t;
    sweep(lo, hi, t);
    std::uint64_t h = (std::uint64_t)(std::int64_t)lo;
    vf::cover_bulk("year_month_day(sys_days)", t.days, h, t.days);
    vf::cover_bulk("year_month_day::operator sys_days", 2 * t.days, h, t.days);
    vf::cover_bulk("year_month_day(local_days)+operator local_days", 2 * t.days, h, t.days);
    vf::cover_bulk("year_month_day::ok()", t.days, h, t.days);
    vf::cover_bulk("weekday(sys_days|local_days)", 2 * t.days, h, t.days);
    vf::cover_bulk("year_month_day_last::day()", t.lasts, h, t.lasts);
    if (vf::want_sample("day-chunk")) {
        vfcal::Walker a(lo), b(hi);
        vf::sample("day-chunk", "days [%d, %d] = %d-%02u-%02u .. %d-%02u-%02u, each: etl vs std::chrono vs day-by-day walker, round trip, weekday", lo,
            hi, a.c.y, a.c.m, a.c.d, b.c.y, b.c.m, b.c.d);
    }
}
} // namespace

VF_MAIN("C11", "C11_days", spec, run_case)
