// C10 (formatting half) - etl::to_chars, etl::strings::from_integer, etl::to_string
// vs std::to_chars / std::to_string, every output buffer length 0..digits+2(+1) in an
// exact-size heap block (DESIGN 4, C10).
#include "vf.hpp"
#include "vf_contract.hpp"
#include "vf_c10.hpp"

#include <etl/charconv.hpp>
#include <etl/string.hpp>
#include <etl/strings.hpp>

#include <charconv>
#include <string>

namespace {
using namespace c10;

constexpr unsigned kBases = 35; // 2..36

// ---- case space
//  [0, n8)              8-bit types x base                      : all 256 values
//  [n8, n8+n16)         16-bit types x base x 16 chunks         : 4096 values each (ASan quick: every 7th value)
//  [.., +nw)            32/64-bit types x base                  : boundary values + [-10^4, 10^4]
//  random               32/64-bit type, random base, 48 random values
constexpr std::uint64_t n8  = 3 * kBases;
constexpr std::uint64_t n16 = 2 * kBases * 16;
constexpr std::uint64_t nw  = 6 * kBases;

vf::Spec spec(vf::Tier t)
{
    vf::Spec s;
    s.n_enum     = n8 + n16 + nw;
    s.n_random   = t == vf::Tier::thorough ? 40000 : 2500;
    s.batch      = 8;
    s.exhaustive = !(VF_ASAN && t == vf::Tier::quick); // the ASan quick build thins the 16-bit sweep to every 7th value
    return s;
}

char const* sign_cls(i128 v) { return v < 0 ? "neg" : (v == 0 ? "zero" : "pos"); }
// buffer length L relative to the number of bytes the call needs
unsigned buf_idx(std::size_t L, std::size_t need)
{
    if (L == 0) { return 0; }
    if (L + 1 < need) { return 1; }
    if (L + 1 == need) { return 2; }
    if (L == need) { return 3; }
    if (L == need + 1) { return 4; }
    return 5;
}
char const* const kBuf[6] = {"buf=0", "buf=short", "buf=short-by-1", "buf=exact", "buf=exact+1", "buf=roomy"};

// symptom for wrong digits: the dropped sign is a class of its own
void digits_diverge(std::string const& obs, std::string const& exp)
{
    if (!exp.empty() && exp[0] == '-' && obs == exp.substr(1)) {
        vf::diverge("digits:sign-dropped", obs, exp);
        return;
    }
    vf::eq_str("digits", obs, exp);
}

template <typename T>
struct Fmt {
    char subj_tc[64], subj_fi[64], subj_ts[64];
    Pool& pool;
    Counts& cnt;
    std::size_t i_tc[6], i_tcd[6], i_fit[6], i_fin[6], i_ts[3];
    char const* tname;

    Fmt(char const* name, Pool& p, Counts& c) : pool(p), cnt(c), tname(name)
    {
        std::snprintf(subj_tc, sizeof subj_tc, "to_chars<%s>", name);
        std::snprintf(subj_fi, sizeof subj_fi, "from_integer<%s>", name);
        std::snprintf(subj_ts, sizeof subj_ts, "to_string<%s>", name);
        for (unsigned i = 0; i < 6; ++i) {
            i_tc[i]  = c.slot(std::string(subj_tc) + "|" + kBuf[i]);
            i_tcd[i] = c.slot(std::string(subj_tc) + "|default-base|" + kBuf[i]);
            i_fit[i] = c.slot(std::string(subj_fi) + "|term|" + kBuf[i]);
            i_fin[i] = c.slot(std::string(subj_fi) + "|noterm|" + kBuf[i]);
        }
        i_ts[0] = c.slot(std::string(subj_ts) + "|cap=exact");
        i_ts[1] = c.slot(std::string(subj_ts) + "|cap=exact+1");
        i_ts[2] = c.slot(std::string(subj_ts) + "|cap=roomy");
    }

    void crumb(char const* subj, char const* op, char const* sit, T v, int base, std::size_t L)
    {
        if constexpr (std::is_signed_v<T>) {
            vf::crumb(subj, op, sit, "value=%lld base=%d len=%zu", (long long)v, base, L);
        } else {
            vf::crumb(subj, op, sit, "value=%llu base=%d len=%zu", (unsigned long long)v, base, L);
        }
    }

    // ---- etl::to_chars(first, first+L, v, base) vs std::to_chars on the same length
    void to_chars_one(T v, int base, std::size_t L, std::size_t d)
    {
        char ref[80];
        auto const sr   = std::to_chars(ref, ref + L, v, base);
        unsigned const bi = buf_idx(L, d);
        char sit[64];
        std::snprintf(sit, sizeof sit, "%s,%s,%s", base_cls(base), sign_cls((i128)v), kBuf[bi]);
        vf::Buf<char>& b = pool.get(L);
        if (L) { std::memset(b.data(), 0xCD, L); }
        crumb(subj_tc, "to_chars(first,last,value,base)", sit, v, base, L);
        auto const er = etl::to_chars(b.data(), b.data() + L, v, base);
        cnt.bump(i_tc[bi]);
        check_and_repair(b, "to_chars output buffer");
        if (!eq_ec("ec", ec_of_etl(er.ec), ec_of(sr.ec))) { return; }
        if (sr.ec == std::errc{}) {
            if (er.ptr < b.data() || er.ptr > b.data() + L) {
                vf::diverge("ptr:outside-buffer", vf::to_s(er.ptr - b.data()), vf::to_s(sr.ptr - ref));
                return;
            }
            std::string const obs(b.data(), (std::size_t)(er.ptr - b.data())), exp(ref, (std::size_t)(sr.ptr - ref));
            if (obs != exp) { digits_diverge(obs, exp); } // equal strings imply equal ptr offsets
        } else if (er.ptr != b.data() + L) {
            vf::diverge("ptr:not-last", vf::to_s(er.ptr - b.data()), vf::to_s((long long)L));
        }
    }

    // ---- the overload with the defaulted base: etl::to_chars(first, last, v)
    void to_chars_default_base(T v, std::size_t L, std::string const& digits)
    {
        std::size_t const d = digits.size();
        unsigned const bi   = buf_idx(L, d);
        char sit[64];
        std::snprintf(sit, sizeof sit, "base10,%s,%s", sign_cls((i128)v), kBuf[bi]);
        vf::Buf<char>& b = pool.get(L);
        if (L) { std::memset(b.data(), 0xCD, L); }
        crumb(subj_tc, "to_chars(first,last,value)", sit, v, 10, L);
        auto const er = etl::to_chars(b.data(), b.data() + L, v);
        cnt.bump(i_tcd[bi]);
        check_and_repair(b, "to_chars output buffer");
        Ec const exp = d <= L ? Ec::ok : Ec::value_too_large;
        if (!eq_ec("ec", ec_of_etl(er.ec), exp)) { return; }
        if (exp == Ec::ok) {
            if (er.ptr < b.data() || er.ptr > b.data() + L) {
                vf::diverge("ptr:outside-buffer", vf::to_s(er.ptr - b.data()), vf::to_s((long long)d));
                return;
            }
            std::string const obs(b.data(), (std::size_t)(er.ptr - b.data()));
            if (obs != digits) { digits_diverge(obs, digits); }
        } else if (er.ptr != b.data() + L) {
            vf::diverge("ptr:not-last", vf::to_s(er.ptr - b.data()), vf::to_s((long long)L));
        }
    }

    // ---- strings::from_integer<T, {terminate}>(v, str, L, base)
    template <bool Term>
    void from_integer_one(T v, int base, std::size_t L, std::string const& digits)
    {
        std::size_t const d    = digits.size();
        std::size_t const need = d + (Term ? 1 : 0);
        unsigned const bi      = buf_idx(L, need);
        char sit[64];
        std::snprintf(sit, sizeof sit, "%s,%s,%s", base_cls(base), sign_cls((i128)v), kBuf[bi]);
        vf::Buf<char>& b = pool.get(L);
        if (L) { std::memset(b.data(), 0xCD, L); }
        constexpr auto opts = etl::strings::from_integer_options{.terminate_with_null = Term};
        crumb(subj_fi, Term ? "from_integer<terminate>(num,str,len,base)" : "from_integer<no-terminate>(num,str,len,base)", sit, v, base, L);
        auto const r = etl::strings::from_integer<T, opts>(v, b.data(), L, base);
        cnt.bump(Term ? i_fit[bi] : i_fin[bi]);
        check_and_repair(b, "from_integer output buffer");
        bool const fits    = need <= L;
        bool const obs_ok  = r.error == etl::strings::from_integer_error::none;
        if (obs_ok != fits) {
            vf::diverge(obs_ok ? "error:none-for-overflow" : "error:overflow-for-none", obs_ok ? "none" : "overflow", fits ? "none" : "overflow");
            return;
        }
        if (!fits) { return; } // end and buffer contents are unspecified on overflow
        if (r.end < b.data() || r.end > b.data() + L) {
            vf::diverge("end:outside-buffer", vf::to_s(r.end - b.data()), vf::to_s((long long)d));
            return;
        }
        std::string const obs(b.data(), (std::size_t)(r.end - b.data()));
        if (obs != digits) {
            digits_diverge(obs, digits);
            return;
        }
        if constexpr (Term) {
            if (b[d] != '\0') { vf::diverge("terminator:missing", vf::to_s((unsigned char)b[d]), "0"); }
        }
    }

    // ---- etl::to_string<Capacity>(v) (base 10) for the six overloaded types, only where the digits fit
    template <std::size_t Cap>
    void to_string_cap(T v, std::string const& exp)
    {
        if (exp.size() > Cap) { return; } // does not fit an inplace_string<Cap>: precondition territory (C05)
        unsigned const ci = exp.size() == Cap ? 0 : (exp.size() + 1 == Cap ? 1 : 2);
        char sit[64];
        std::snprintf(sit, sizeof sit, "%s,%s", sign_cls((i128)v), ci == 0 ? "cap=exact" : (ci == 1 ? "cap=exact+1" : "cap=roomy"));
        char op[48];
        std::snprintf(op, sizeof op, "to_string<%zu>(value)", Cap);
        if constexpr (std::is_signed_v<T>) {
            vf::crumb(subj_ts, op, sit, "value=%lld capacity=%zu", (long long)v, Cap);
        } else {
            vf::crumb(subj_ts, op, sit, "value=%llu capacity=%zu", (unsigned long long)v, Cap);
        }
        auto const s = etl::to_string<Cap>(v);
        cnt.bump(i_ts[ci]);
        std::string const obs(s.data(), s.size());
        if (obs != exp) {
            digits_diverge(obs, exp);
            return;
        }
        if (s.data()[s.size()] != '\0') { vf::diverge("terminator:missing", "non-zero", "0"); }
    }
    void to_string_all(T v)
    {
        if constexpr (std::is_same_v<T, int> || std::is_same_v<T, long> || std::is_same_v<T, long long> || std::is_same_v<T, unsigned>
                      || std::is_same_v<T, unsigned long> || std::is_same_v<T, unsigned long long>) {
            std::string const exp = std::to_string(v);
            to_string_cap<1>(v, exp);
            to_string_cap<2>(v, exp);
            to_string_cap<5>(v, exp);
            to_string_cap<10>(v, exp);
            to_string_cap<11>(v, exp);
            to_string_cap<19>(v, exp);
            to_string_cap<20>(v, exp);
            to_string_cap<21>(v, exp);
        }
    }

    void value(T v, int base)
    {
        char ref[80];
        auto const full = std::to_chars(ref, ref + sizeof ref, v, base);
        std::string const digits(ref, full.ptr);
        std::size_t const d = digits.size();
        for (std::size_t L = 0; L <= d + 2; ++L) { to_chars_one(v, base, L, d); }
        if (base == 10) {
            for (std::size_t L = 0; L <= d + 2; ++L) { to_chars_default_base(v, L, digits); }
        }
        for (std::size_t L = 0; L <= d + 2; ++L) { from_integer_one<false>(v, base, L, digits); }
        for (std::size_t L = 0; L <= d + 3; ++L) { from_integer_one<true>(v, base, L, digits); }
        if (base == 10) { to_string_all(v); }
        if (vf::want_sample(subj_tc)) {
            vf::sample(subj_tc, "value %s base %d -> '%s', every buffer length 0..%zu (to_chars, from_integer with/without terminator)",
                fmt_i128((i128)v, 10).c_str(), base, digits.c_str(), d + 3);
        }
    }
};

void run_case(vf::Case& c)
{
    Pool pool;
    Counts cnt(vf::mix(c.id, c.enumerated ? 0x10f : vf::g().seed));
    bool const thin = VF_ASAN && c.tier == vf::Tier::quick;
    if (c.enumerated && c.index < n8) {
        unsigned ti = (unsigned)(c.index / kBases);
        int base    = 2 + (int)(c.index % kBases);
        with_type(ti, [&](auto tag) {
            using T = typename decltype(tag)::type;
            Fmt<T> f(tag.name, pool, cnt);
            for (int v = (int)tmin<T>(); v <= (int)tmax<T>(); ++v) { f.value((T)v, base); }
        });
    } else if (c.enumerated && c.index < n8 + n16) {
        std::uint64_t k = c.index - n8;
        unsigned ti     = 3 + (unsigned)(k / (kBases * 16));
        int base        = 2 + (int)((k / 16) % kBases);
        int chunk       = (int)(k % 16);
        with_type(ti, [&](auto tag) {
            using T = typename decltype(tag)::type;
            if constexpr (sizeof(T) == 2) {
                Fmt<T> f(tag.name, pool, cnt);
                int lo = (int)tmin<T>() + chunk * 4096;
                // under ASan in the quick tier: every 7th value (phase varies with base and chunk) plus the chunk ends
                int step = thin ? 7 : 1;
                f.value((T)lo, base);
                f.value((T)(lo + 4095), base);
                for (int v = lo + 1 + (thin ? (base + chunk) % 7 : 0); v < lo + 4095; v += step) { f.value((T)v, base); }
            }
        });
    } else if (c.enumerated) {
        std::uint64_t k = c.index - n8 - n16;
        unsigned ti     = 5 + (unsigned)(k / kBases);
        int base        = 2 + (int)(k % kBases);
        with_type(ti, [&](auto tag) {
            using T = typename decltype(tag)::type;
            Fmt<T> f(tag.name, pool, cnt);
            for (T v : boundary_values<T>(base, thin ? 1500 : 10000)) { f.value(v, base); }
        });
    } else {
        unsigned ti = 5 + (unsigned)c.rng.below(6);
        int base    = c.rng.chance(1, 4) ? 10 : 2 + (int)c.rng.below(kBases);
        with_type(ti, [&](auto tag) {
            using T = typename decltype(tag)::type;
            Fmt<T> f(tag.name, pool, cnt);
            for (int i = 0; i < 48; ++i) { f.value(random_value<T>(c.rng), base); }
        });
    }
}
} // namespace

VF_MAIN("C10", "C10_fmt", spec, run_case)
