// C20 - inplace_function histories (DESIGN 4, C20 part 4).
// Two wrappers f, g of type etl::inplace_function<int(int), Cap> and a model (optional target state each).  Targets are
// closures of EVERY size 1..Cap bytes in three kinds: trivially copyable bytes, non-trivially copyable bytes (user
// copy/move/destructor) and self-referential (stores `this`, refreshed by its copy/move constructors: a closure that
// was relocated by anything but its own constructors answers with a sentinel).  A call mixes all captured bytes with the
// argument and then mutates the capture, so "equivalent target" is observable: a copy must continue from the source's
// state but independently of it, a moved/swapped/assigned wrapper must carry the state along.
// Enumerated: every history of depth <= 3 (quick: depth 3 over a boundary size set, thorough: all sizes) over
//   {assign closure (lvalue/rvalue), copy-construct, move-construct, converting copy/move to a larger capacity, f = g,
//    f = move(g), self-assign, assign nullptr, member/free/self swap, call, const call} from both-empty, plus a sweep of every
//   closure size x kind through construct/call/copy/move/swap.  An empty wrapper must report empty through operator bool,
//   ==nullptr, !=nullptr (both operand orders), and calling it must raise etl::bad_function_call without calling anything.
#include "vf.hpp"
#include "vf_contract.hpp"

#include <etl/functional.hpp>

#include <algorithm>
#include <optional>
#include <string>
#include <vector>
#include <utility>

#ifndef VF_CAP
    #define VF_CAP 8
#endif

namespace {

constexpr std::size_t Cap  = VF_CAP;
constexpr std::size_t MaxN = 64;
long long g_calls          = 0; // number of closure invocations (all kinds)
long long g_live           = 0; // live non-trivial closures

unsigned mixbytes(unsigned kind, unsigned n, unsigned char const* b, int x)
{
    unsigned r = static_cast<unsigned>(x) * 131u + n * 7u + kind;
    for (unsigned i = 0; i < n; ++i) { r = r * 31u + b[i]; }
    return r & 0x3fffffffu;
}
void fill(unsigned char* b, std::size_t n, int v)
{
    for (std::size_t i = 0; i < n; ++i) { b[i] = static_cast<unsigned char>(v * 37 + (int)i * 11 + 3); }
}

// kind 0: trivially copyable, exactly N bytes
template <std::size_t N>
struct ClT {
    unsigned char b[N];
    explicit ClT(int v) { fill(b, N, v); }
    int operator()(int x)
    {
        ++g_calls;
        int r = (int)mixbytes(0, N, b, x);
        ++b[0];
        return r;
    }
};
// kind 1: non-trivially copyable, exactly N bytes
template <std::size_t N>
struct ClN {
    unsigned char b[N];
    explicit ClN(int v)
    {
        fill(b, N, v);
        ++g_live;
    }
    ClN(ClN const& o)
    {
        for (std::size_t i = 0; i < N; ++i) { b[i] = o.b[i]; }
        ++g_live;
    }
    ClN(ClN&& o) noexcept
    {
        for (std::size_t i = 0; i < N; ++i) {
            b[i]   = o.b[i];
            o.b[i] = 0xEE; // a moved-from closure must never be called again
        }
        ++g_live;
    }
    ClN& operator=(ClN const&) = delete;
    ~ClN() { --g_live; }
    int operator()(int x)
    {
        ++g_calls;
        int r = (int)mixbytes(1, N, b, x);
        ++b[0];
        return r;
    }
};
// kind 2: self-referential, N = 8 + payload bytes (multiple of 8)
template <std::size_t N>
struct ClS {
    static_assert(N >= 16 && N % 8 == 0);
    ClS* self;
    unsigned char b[N - 8];
    explicit ClS(int v) : self(this)
    {
        fill(b, N - 8, v);
        ++g_live;
    }
    ClS(ClS const& o) : self(this)
    {
        for (std::size_t i = 0; i < N - 8; ++i) { b[i] = o.b[i]; }
        ++g_live;
    }
    ClS(ClS&& o) noexcept : self(this)
    {
        for (std::size_t i = 0; i < N - 8; ++i) { b[i] = o.b[i]; }
        o.self = nullptr;
        ++g_live;
    }
    ClS& operator=(ClS const&) = delete;
    ~ClS() { --g_live; }
    int operator()(int x)
    {
        ++g_calls;
        if (self != this) { return -7; } // relocated behind the closure's back
        int r = (int)mixbytes(2, N - 8, b, x);
        ++b[0];
        return r;
    }
};

struct Target {
    unsigned kind = 0;
    unsigned n    = 0; // payload bytes
    unsigned char b[MaxN]{};
    int call(int x)
    {
        int r = (int)mixbytes(kind, n, b, x);
        ++b[0];
        return r;
    }
};

using F    = etl::inplace_function<int(int), Cap>;
using FBig = etl::inplace_function<int(int), 2 * Cap>;

// closure descriptors available at this capacity: kind 0/1 sizes 1..Cap, kind 2 sizes 16,24,..<=Cap
struct Desc {
    unsigned kind;
    unsigned size;
};
constexpr std::size_t nS    = Cap >= 16 ? (Cap - 8) / 8 : 0;
constexpr std::size_t nDesc = 2 * Cap + nS;
constexpr Desc desc_at(std::size_t i)
{
    if (i < Cap) { return {0, (unsigned)i + 1}; }
    if (i < 2 * Cap) { return {1, (unsigned)(i - Cap) + 1}; }
    return {2, (unsigned)(i - 2 * Cap) * 8 + 16};
}
template <std::size_t I>
struct closure_of {
    static constexpr Desc d = desc_at(I);
    using type = std::conditional_t<d.kind == 0, ClT<d.size>, std::conditional_t<d.kind == 1, ClN<d.size>, ClS<(d.kind == 2 ? d.size : 16)>>>;
};
Target target_of(std::size_t i, int v)
{
    Desc d = desc_at(i);
    Target t;
    t.kind = d.kind;
    t.n    = d.kind == 2 ? d.size - 8 : d.size;
    fill(t.b, t.n, v);
    return t;
}
// assign closure #I to a wrapper, from an lvalue or an rvalue closure; mode 2: construct a fresh wrapper and move-assign it
template <typename W, std::size_t I>
void assign_closure(W& w, int v, int mode)
{
    using C = typename closure_of<I>::type;
    static_assert(sizeof(C) == desc_at(I).size, "closure size");
    if (mode == 0) {
        C c(v);
        w = c;
    } else if (mode == 1) {
        w = C(v);
    } else {
        W fresh{C(v)};
        w = std::move(fresh);
    }
}
template <typename W, std::size_t... I>
void assign_closure_at(W& w, std::size_t i, int v, int mode, std::index_sequence<I...>)
{
    using Fn = void (*)(W&, int, int);
    static constexpr Fn table[] = {&assign_closure<W, I>...};
    table[i](w, v, mode);
}
template <typename W>
void assign_closure_at(W& w, std::size_t i, int v, int mode)
{
    assign_closure_at(w, i, v, mode, std::make_index_sequence<nDesc>{});
}

char g_subj[64];
char const* kindname(unsigned k) { return k == 0 ? "trivial" : (k == 1 ? "nontrivial" : "selfref"); }
std::string st(std::optional<Target> const& m)
{
    if (!m) { return "empty"; }
    char b[48];
    unsigned size = m->kind == 2 ? m->n + 8 : m->n;
    char const* sz = size == 1 ? "1" : (size == Cap ? "cap" : (size + 1 == Cap ? "cap-1" : "mid"));
    std::snprintf(b, sizeof b, "%s/size-%s", kindname(m->kind), sz);
    return b;
}

struct Machine {
    F f, g;
    std::optional<Target> mf, mg;
    std::uint64_t h = 0x1bf;
    int step        = 0;

    std::string sit2() const { return "f:" + st(mf) + ",g:" + st(mg); }
    void crumb(char const* op, std::string const& sit, char const* extra = "") { vf::crumb(g_subj, op, sit.c_str(), "step %d %s", step, extra); }
    void cover(char const* op, std::uint64_t arg = 0)
    {
        h = vf::mix(h, vf::fnv(op) ^ arg);
        vf::cover(op, h, mf.has_value() || mg.has_value());
    }
    static std::uint64_t th(std::optional<Target> const& m) { return m ? vf::fnv_bytes(m->b, m->n, m->kind * 77 + m->n) : 7; }

    // call a wrapper and compare with the model (which mutates in step)
    template <typename W>
    void call_check(W& w, std::optional<Target>& m, char const* op, std::string const& sit, int x)
    {
        long long before = g_calls;
        crumb(op, sit);
        if (m) {
            int exp = m->call(x);
            int obs = 0;
            try {
                obs = w(x);
            } catch (etl::bad_function_call const&) {
                vf::diverge("raises-bad_function_call-with-a-target", "exception", "call");
                return;
            }
            if (obs == -7) {
                vf::diverge("target-relocated-without-its-constructors", "self != this", "self == this");
            } else {
                vf::eq_int("call-result", obs, exp);
            }
            vf::eq_int("targets-invoked", g_calls - before, 1);
        } else {
            bool raised = false;
            try {
                (void)w(x);
            } catch (etl::bad_function_call const&) {
                raised = true;
            } catch (...) {
                vf::diverge("raises-other-exception", "other", "etl::bad_function_call");
                raised = true;
            }
            vf::eq_bool("empty-call-raises", raised, true);
            vf::eq_int("targets-invoked", g_calls - before, 0);
        }
        vf::cover(op, vf::mix(h, th(m) ^ (unsigned)x), true);
    }
    template <typename W>
    void observers(W const& w, std::optional<Target> const& m, char const* which)
    {
        std::string sit = std::string(which) + ":" + st(m);
        crumb("operator bool", sit);
        vf::eq_bool("operator bool", static_cast<bool>(w), m.has_value());
        crumb("operator==(f,nullptr)", sit);
        vf::eq_bool("f==nullptr", w == nullptr, !m.has_value());
        vf::eq_bool("nullptr==f", nullptr == w, !m.has_value());
        crumb("operator!=(f,nullptr)", sit);
        vf::eq_bool("f!=nullptr", w != nullptr, m.has_value());
        vf::eq_bool("nullptr!=f", nullptr != w, m.has_value());
        vf::cover("observers", vf::mix(h, th(m)), m.has_value());
    }
    void check()
    {
        observers(f, mf, "f");
        observers(g, mg, "g");
        call_check(f, mf, "operator()", "f:" + st(mf), step + 1);
        call_check(std::as_const(g), mg, "operator() const", "g:" + st(mg), step + 2);
        // resynchronise after a divergence in emptiness
        if (static_cast<bool>(f) != mf.has_value()) { resync(f, mf); }
        if (static_cast<bool>(g) != mg.has_value()) { resync(g, mg); }
    }
    void resync(F& w, std::optional<Target>& m)
    {
        w = nullptr;
        m.reset();
    }

    // one operation; `sizes` restricts the closure descriptors drawn (indices into desc table)
    void op(vf::Chooser& ch, std::vector<unsigned> const& descs)
    {
        ++step;
        unsigned w = ch.pick(13);
        bool onf   = true;
        if (w != 9 && w != 10) { onf = ch.pick(2) == 0; }
        F& a                        = onf ? f : g;
        F& b                        = onf ? g : f;
        std::optional<Target>& ma   = onf ? mf : mg;
        std::optional<Target>& mb   = onf ? mg : mf;
        char const* an              = onf ? "f" : "g";
        std::string sit             = std::string(an) + ":" + st(ma) + ",other:" + st(mb);
        switch (w) {
        case 0: {
            unsigned di = descs[ch.pick((unsigned)descs.size())];
            int mode    = (int)ch.pick(3);
            int v       = step;
            char extra[64];
            std::snprintf(extra, sizeof extra, "closure kind=%s size=%u mode=%d", kindname(desc_at(di).kind), desc_at(di).size, mode);
            static char const* opn[3] = {"operator=(closure lvalue)", "operator=(closure rvalue)", "operator=(inplace_function(closure)&&)"};
            Target t                  = target_of(di, v);
            crumb(opn[mode], sit + ",new:" + st(std::optional<Target>(t)), extra);
            assign_closure_at(a, di, v, mode);
            ma = t;
            cover(opn[mode], di * 4 + (unsigned)mode);
            break;
        }
        case 1: {
            crumb("inplace_function(inplace_function const&)", sit);
            F x(a);
            std::optional<Target> mx = ma;
            cover("inplace_function(inplace_function const&)");
            observers(x, mx, "copy");
            // the copy continues from the source's state, independently of the source
            call_check(x, mx, "copy.operator()", sit, 11);
            call_check(x, mx, "copy.operator()", sit, 12);
            call_check(a, ma, "source.operator()", sit, 13);
            break;
        }
        case 2: {
            crumb("inplace_function(inplace_function&&)", sit);
            F x(std::move(a));
            std::optional<Target> mx = ma;
            ma.reset();
            cover("inplace_function(inplace_function&&)");
            observers(x, mx, "moved-to");
            observers(a, ma, "moved-from");
            call_check(x, mx, "moved-to.operator()", sit, 21);
            call_check(a, ma, "moved-from.operator()", sit, 22);
            break;
        }
        case 3: {
            crumb("inplace_function<2*Cap>(inplace_function<Cap> const&)", sit);
            FBig x(a);
            std::optional<Target> mx = ma;
            cover("inplace_function<2*Cap>(inplace_function<Cap> const&)");
            observers(x, mx, "converted-copy");
            call_check(x, mx, "converted-copy.operator()", sit, 31);
            call_check(a, ma, "source.operator()", sit, 32);
            FBig y;
            crumb("inplace_function<2*Cap>::operator=(inplace_function<Cap>)", sit);
            y                        = a;
            std::optional<Target> my = ma;
            cover("inplace_function<2*Cap>::operator=(inplace_function<Cap>)");
            call_check(y, my, "converted-assign.operator()", sit, 33);
            break;
        }
        case 4: {
            crumb("inplace_function<2*Cap>(inplace_function<Cap>&&)", sit);
            FBig x(std::move(a));
            std::optional<Target> mx = ma;
            ma.reset();
            cover("inplace_function<2*Cap>(inplace_function<Cap>&&)");
            observers(x, mx, "converted-move");
            observers(a, ma, "moved-from");
            call_check(x, mx, "converted-move.operator()", sit, 41);
            break;
        }
        case 5:
            crumb("operator=(inplace_function const&)", sit);
            a  = b;
            ma = mb;
            cover("operator=(inplace_function const&)");
            break;
        case 6:
            crumb("operator=(inplace_function&&)", sit);
            a  = std::move(b);
            ma = mb;
            mb.reset();
            cover("operator=(inplace_function&&)");
            break;
        case 7: {
            crumb("operator=(self)", sit);
            F const& r = a;
            a          = r;
            cover("operator=(self)");
            break;
        }
        case 8:
            crumb("operator=(nullptr)", sit);
            a = nullptr;
            ma.reset();
            cover("operator=(nullptr)");
            break;
        case 9: {
            unsigned how = ch.pick(3);
            static char const* opn[3] = {"f.swap(g)", "g.swap(f)", "swap(f,g)"};
            crumb(opn[how], sit2());
            if (how == 0) {
                f.swap(g);
            } else if (how == 1) {
                g.swap(f);
            } else {
                swap(f, g); // ADL
            }
            std::swap(mf, mg);
            cover(opn[how]);
            break;
        }
        case 10: {
            bool which = ch.pick(2) == 0;
            crumb("swap(self)", which ? "f:" + st(mf) : "g:" + st(mg));
            if (which) {
                f.swap(f);
            } else {
                g.swap(g);
            }
            cover("swap(self)", which);
            break;
        }
        case 11: call_check(a, ma, "operator()", sit, 100 + step); break;
        default: call_check(std::as_const(a), ma, "operator() const", sit, 200 + step); break;
        }
        check();
    }
};

std::vector<unsigned> desc_set(bool all)
{
    std::vector<unsigned> v;
    for (unsigned i = 0; i < nDesc; ++i) {
        Desc d = desc_at(i);
        bool boundary = d.size == 1 || d.size == Cap || d.size + 1 == Cap || d.size == Cap / 2 || d.kind == 2;
        if (all || boundary) { v.push_back(i); }
    }
    return v;
}

constexpr unsigned kOps = 13;
// every closure descriptor through construct / call / copy / move / swap (reaches every size 1..Cap in the quick tier)
void sweep(unsigned di)
{
    Machine m;
    Desc d = desc_at(di);
    for (int mode = 0; mode < 3; ++mode) {
        for (int v = 0; v < 2; ++v) {
            Target t        = target_of(di, v);
            std::string sit = "new:" + st(std::optional<Target>(t));
            char extra[64];
            std::snprintf(extra, sizeof extra, "closure kind=%s size=%u mode=%d", kindname(d.kind), d.size, mode);
            m.crumb("operator=(closure)", sit, extra);
            assign_closure_at(m.f, di, v, mode);
            m.mf = t;
            m.cover("sweep:operator=(closure)", di * 8 + (unsigned)(mode * 2 + v));
            m.check();
            {
                m.crumb("inplace_function(inplace_function const&)", sit, extra);
                F x(m.f);
                std::optional<Target> mx = m.mf;
                m.call_check(x, mx, "copy.operator()", sit, 5);
                m.call_check(m.f, m.mf, "source.operator()", sit, 6);
                m.crumb("inplace_function(inplace_function&&)", sit, extra);
                F y(std::move(x));
                std::optional<Target> my = mx;
                mx.reset();
                m.observers(x, mx, "moved-from");
                m.call_check(y, my, "moved-to.operator()", sit, 7);
                m.crumb("f.swap(g)", sit, extra);
                y.swap(m.g);
                std::swap(my, m.mg);
                m.call_check(m.g, m.mg, "swapped.operator()", sit, 8);
                m.observers(y, my, "swapped-with");
                m.crumb("operator=(inplace_function&&)", sit, extra);
                m.g = std::move(y);
                m.mg = my;
                m.crumb("inplace_function<2*Cap>(inplace_function<Cap>&&)", sit, extra);
                FBig big(std::move(m.f));
                std::optional<Target> mbig = m.mf;
                m.mf.reset();
                m.call_check(big, mbig, "converted-move.operator()", sit, 9);
                FBig big2(big);
                std::optional<Target> mbig2 = mbig;
                m.call_check(big2, mbig2, "copy.operator()", sit, 10);
                m.call_check(big, mbig, "source.operator()", sit, 11);
            }
            m.check();
        }
    }
}

// all choice sequences of ONE operation (the prefixes that cut the depth-3 odometer into cases)
struct Prefix {
    std::vector<unsigned> choice, limit;
};
std::vector<Prefix> prefixes(std::vector<unsigned> const& descs)
{
    std::vector<Prefix> out;
    vf::Chooser ch;
    do {
        ch.begin();
        {
            Machine m;
            m.op(ch, descs);
        }
        out.push_back(Prefix{ch.choice, ch.limit});
    } while (ch.next());
    return out;
}
bool all_sizes(vf::Tier t) { return t == vf::Tier::thorough && Cap <= 8; }

vf::Spec spec(vf::Tier t)
{
    vf::Spec s;
    g_live       = 0;
    s.n_enum     = prefixes(desc_set(all_sizes(t))).size() + nDesc; // one case per first operation (with its arguments) + one sweep per closure type
    g_live       = 0;
    s.n_random   = t == vf::Tier::thorough ? 20000 : 1500;
    s.batch      = 4;
    s.timeout_s  = 600;
    s.exhaustive = true;
    return s;
}
void end_of_history(char const* what)
{
    if (g_live != 0) {
        vf::crumb(g_subj, "end of history", what, "live closures=%lld", g_live);
        vf::diverge(g_live > 0 ? "closures-leaked" : "closures-destroyed-twice", std::to_string(g_live), "0");
        g_live = 0;
    }
}
void run_case(vf::Case& c)
{
    std::snprintf(g_subj, sizeof g_subj, "inplace_function<int(int),%zu>", Cap);
    auto const descs0 = desc_set(all_sizes(c.tier));
    std::size_t nprefix = 0;
    if (c.enumerated) {
        long long keep = g_live;
        nprefix        = prefixes(descs0).size();
        g_live         = keep;
    }
    if (c.enumerated && c.index < nprefix) {
        long long keep  = g_live;
        Prefix const pf = prefixes(descs0)[c.index];
        g_live          = keep;
        unsigned depth  = 3;
        vf::Chooser ch;
        ch.choice       = pf.choice;
        ch.limit        = pf.limit;
        std::uint64_t n = 0;
        for (;;) {
            ch.begin();
            {
                Machine m;
                for (unsigned s = 0; s < depth; ++s) { m.op(ch, descs0); }
            }
            end_of_history("enumerated");
            ++n;
            if (!ch.next()) { break; }
            if (ch.choice.size() < pf.choice.size() || !std::equal(pf.choice.begin(), pf.choice.end(), ch.choice.begin())) { break; }
        }
        if (vf::want_sample("enumerated")) {
            vf::sample("enumerated", "first operation #%llu: %llu complete histories of depth %u over %zu closure types", (unsigned long long)c.index,
                (unsigned long long)n, depth, descs0.size());
        }
    } else if (c.enumerated) {
        sweep((unsigned)(c.index - nprefix));
        end_of_history("sweep");
    } else {
        vf::Chooser ch(&c.rng);
        auto descs = desc_set(true);
        {
            Machine m;
            for (unsigned s = 0; s < 40; ++s) { m.op(ch, descs); }
        }
        end_of_history("random");
        if (vf::want_sample("random")) { vf::sample("random", "40 random operations over all %zu closure types", descs.size()); }
    }
}
} // namespace

VF_MAIN("C20", "C20_ipf", spec, run_case)
