// C13_chrono.cpp - chrono conversions with LARGE tick counts: intermediate-width errors must show up either as
// "not constant-evaluable" (signed overflow is rejected by the constant evaluator) or as a value divergence (the
// run-time product wraps).  -DC13_GRP=
//   0 duration_cast + time_point_cast   for a matrix of (From, To) duration pairs (all ordered pairs of the 32-bit
//                                       calendar durations minutes..years, two 32-bit sample-rate durations, narrow<->wide)
//   1 floor / ceil / round (duration and time_point) for the same matrix
//   2 calendar arithmetic with large counts: month +- months, weekday +- days, year +- years, year_month +- months/years,
//     year_month_day +- months/years, sys_days(ymd) + days -> ymd, differences
// Domain (computed in 128-bit arithmetic from the periods, nothing hand-maintained): [time.duration.cast] performs
// count * num / den in common_type<ToRep, Rep, intmax_t>, so a row is in the domain of duration_cast when the source
// fits From::rep, |count * num| fits intmax_t and the quotient fits To::rep.  floor/ceil/round additionally compare /
// subtract in common_type_t<To, From> (rep = common_type of the reps, period = gcd): both operands (+-2 ticks of To)
// must be representable there, exactly as for std::chrono.
#include "vf.hpp"
#include "vf_contract.hpp"

#include "vf_c13.hpp"

#include <etl/chrono.hpp>
#include <etl/cstdint.hpp>
#include <etl/ratio.hpp>

#include <climits>

#ifndef C13_GRP
    #define C13_GRP 0
#endif

namespace {
using namespace c13;
namespace ch = etl::chrono;
using I128   = __int128;

struct NArg {
    long long n;
};
template <typename V, std::size_t CAP>
struct VBag {
    V v[CAP]{};
    std::size_t n = 0;
    constexpr void add(V x)
    {
        for (std::size_t i = 0; i < n; ++i) {
            if (v[i] == x) { return; }
        }
        v[n++] = x;
    }
};
// generic magnitude ladder: every power of two with its neighbours, plus decimal counts that users actually write
constexpr auto ticks_bag()
{
    VBag<long long, 600> b;
    b.add(0);
    for (long long v : {1LL, 2LL, 3LL, 7LL, 12LL, 13LL, 817LL, 1000LL, 4083LL, 4084LL, 4900LL, 5000LL, 6000LL, 44100LL, 48000LL, 100000LL, 1000000LL, 14600000LL,
             20000000LL, 99999999LL, 2000000000LL, 2147483647LL, 2147483648LL, 4294967295LL, 4294967296LL, 1000000000000LL, 9223372036854775807LL}) {
        b.add(v);
        b.add(-v);
    }
    for (int k = 2; k <= 62; ++k) {
        long long const p = 1LL << k;
        b.add(p - 1);
        b.add(p);
        b.add(p + 1);
        b.add(-(p - 1));
        b.add(-p);
        b.add(-(p + 1));
    }
    b.add(LLONG_MIN);
    b.add(LLONG_MIN + 1);
    return b;
}
constexpr auto tbag = ticks_bag();
constexpr auto ticks_final()
{
    std::array<NArg, tbag.n> r{};
    for (std::size_t i = 0; i < r.size(); ++i) { r[i].n = tbag.v[i]; }
    return r;
}
inline constexpr auto tabTicks = ticks_final();

template <typename R>
constexpr bool fits(I128 v)
{
    return v >= static_cast<I128>(std::numeric_limits<R>::min()) && v <= static_cast<I128>(std::numeric_limits<R>::max());
}

// facts about one (To, From) pair, all derived from the types
template <typename To, typename From>
struct Pair {
    using cf                     = etl::ratio_divide<typename From::period, typename To::period>;
    using CD                     = etl::common_type_t<To, From>;
    using ff                     = etl::ratio_divide<typename From::period, typename CD::period>; // From ticks -> common ticks (den == 1)
    using ft                     = etl::ratio_divide<typename To::period, typename CD::period>;
    static constexpr I128 num    = cf::num;
    static constexpr I128 den    = cf::den;
    static constexpr bool cast_ok(long long n)
    {
        if (!fits<typename From::rep>(n)) { return false; }
        I128 const prod = static_cast<I128>(n) * num;
        if (!fits<long long>(prod)) { return false; }
        return fits<typename To::rep>(prod / den);
    }
    // floor / ceil / round: the cast, +-2 ticks of To, and both operands inside common_type_t<To, From>
    static constexpr bool fcr_ok(long long n)
    {
        if (!cast_ok(n)) { return false; }
        I128 const q = static_cast<I128>(n) * num / den;
        if (!fits<typename To::rep>(q - 2) || !fits<typename To::rep>(q + 2)) { return false; }
        using CR = typename CD::rep;
        if (!fits<CR>(static_cast<I128>(n) * ff::num) || !fits<long long>(static_cast<I128>(n) * ff::num)) { return false; }
        return fits<CR>((q - 2) * ft::num) && fits<CR>((q + 2) * ft::num) && fits<long long>((q - 2) * ft::num) && fits<long long>((q + 2) * ft::num);
    }
    static char const* sit(NArg const& p)
    {
        static char buf[96];
        I128 const n    = p.n;
        I128 const prod = n * num;
        I128 const ap   = prod < 0 ? -prod : prod;
        char const* pc  = ap < (static_cast<I128>(1) << 15) ? "|count*num|<2^15" : ap < (static_cast<I128>(1) << 31) ? "|count*num|<2^31"
                        : ap < (static_cast<I128>(1) << 32)                                                         ? "|count*num|<2^32"
                        : ap < (static_cast<I128>(1) << 47)                                                         ? "|count*num|<2^47"
                                                                                                                    : "|count*num|>=2^47";
        I128 const r    = prod % den;
        I128 const ar   = r < 0 ? -r : r;
        char const* rc  = r == 0 ? "exact" : ar * 2 == den ? "tie" : ar * 2 < den ? "below-half" : "above-half";
        std::snprintf(buf, sizeof buf, "%s,%s,%s", n == 0 ? "zero" : n < 0 ? "neg" : "pos", pc, rc);
        return buf;
    }
};
template <typename To, typename From>
struct ClsPair {
    static char const* sit(NArg const& p) { return Pair<To, From>::sit(p); }
    static std::string show(NArg const& p) { return std::to_string(p.n); }
    static std::uint64_t hash(NArg const& p) { return vf::mix(0x7c, (std::uint64_t)p.n); }
    static void const* arg0(NArg const&) { return nullptr; }
};

template <typename To, typename From>
struct F_cast {
    static constexpr char const* name = "duration_cast/time_point_cast";
    static bool in_domain(NArg const& p) { return Pair<To, From>::cast_ok(p.n); }
    constexpr auto operator()(NArg const& p) const
    {
        // rows outside the domain are never compared; they must not disturb the constant evaluation of their chunk
        if (!Pair<To, From>::cast_ok(p.n)) { return Digest<2>{}; }
        From const d{static_cast<typename From::rep>(p.n)};
        ch::time_point<ch::system_clock, From> const tp{d};
        return Digest<2>{{static_cast<std::uint64_t>(static_cast<long long>(ch::duration_cast<To>(d).count())),
            static_cast<std::uint64_t>(static_cast<long long>(ch::time_point_cast<To>(tp).time_since_epoch().count()))}};
    }
};
template <typename To, typename From>
struct F_fcr {
    static constexpr char const* name = "floor/ceil/round";
    static bool in_domain(NArg const& p) { return Pair<To, From>::fcr_ok(p.n); }
    constexpr auto operator()(NArg const& p) const
    {
        if (!Pair<To, From>::fcr_ok(p.n)) { return Digest<6>{}; }
        From const d{static_cast<typename From::rep>(p.n)};
        ch::time_point<ch::system_clock, From> const tp{d};
        auto u = [](auto v) { return static_cast<std::uint64_t>(static_cast<long long>(v)); };
        return Digest<6>{{u(ch::floor<To>(d).count()), u(ch::ceil<To>(d).count()), u(ch::round<To>(d).count()), u(ch::floor<To>(tp).time_since_epoch().count()),
            u(ch::ceil<To>(tp).time_since_epoch().count()), u(ch::round<To>(tp).time_since_epoch().count())}};
    }
};

using s48k  = ch::duration<etl::int32_t, etl::ratio<1, 48000>>;
using s44k1 = ch::duration<etl::int32_t, etl::ratio<1, 44100>>;
using cs16  = ch::duration<etl::int16_t, etl::ratio<1, 100>>; // centiseconds in 16 bits
using s16   = ch::duration<etl::int16_t>;

// ------------------------------------------------------------------ calendar arithmetic
struct CArg {
    int y;
    unsigned m;
    unsigned d;
    long long n;
};
constexpr auto cal_table()
{
    struct B {
        int y;
        unsigned m, d;
    };
    constexpr B bases[] = {{1970, 1, 1}, {2000, 2, 29}, {1999, 12, 31}, {0, 3, 1}, {-1, 12, 31}, {-32767, 1, 1}, {32767, 12, 31}, {2024, 1, 31}};
    std::array<CArg, 8 * tbag.n> r{};
    std::size_t o = 0;
    for (auto b : bases) {
        for (std::size_t i = 0; i < tbag.n; ++i) { r[o++] = CArg{b.y, b.m, b.d, tbag.v[i]}; }
    }
    return r;
}
#if C13_GRP == 2
inline constexpr auto tabCal = cal_table();
#endif
constexpr bool fits32(I128 v) { return fits<etl::int_least32_t>(v); }
constexpr bool year_ok(I128 y) { return y >= -32767 && y <= 32767; }
constexpr int h_days_from_civil(int y, unsigned m, unsigned d)
{
    y -= m <= 2;
    int const era      = (y >= 0 ? y : y - 399) / 400;
    unsigned const yoe = static_cast<unsigned>(y - era * 400);
    unsigned const doy = (153 * (m > 2 ? m - 3 : m + 9) + 2) / 5 + d - 1;
    unsigned const doe = yoe * 365 + yoe / 4 - yoe / 100 + doy;
    return era * 146097 + static_cast<int>(doe) - 719468;
}
struct ClsCal {
    static char const* sit(CArg const& p)
    {
        static char buf[96];
        I128 const a   = p.n < 0 ? -static_cast<I128>(p.n) : static_cast<I128>(p.n);
        char const* mc = a == 0 ? "n=0" : a < 12 ? "|n|<12" : a < (1 << 15) ? "|n|<2^15" : a < (static_cast<I128>(1) << 31) ? "|n|<2^31" : "|n|>=2^31";
        std::snprintf(buf, sizeof buf, "%s,%s,%s", p.y < 0 ? "year<0" : p.y == 0 ? "year=0" : "year>0", p.n < 0 ? "neg" : "nonneg", mc);
        return buf;
    }
    static std::string show(CArg const& p) { return std::to_string(p.y) + "-" + std::to_string(p.m) + "-" + std::to_string(p.d) + ", n=" + std::to_string(p.n); }
    static std::uint64_t hash(CArg const& p) { return vf::mix(vf::mix((std::uint64_t)(unsigned)p.y * 512 + p.m * 32 + p.d, 0x5), (std::uint64_t)p.n); }
    static void const* arg0(CArg const&) { return nullptr; }
};
// sys_days(y/m/d) advanced by n days.  (tetl has no non-member time_point + duration; `sys_days + days` would silently
// pick weekday + days through weekday's implicit constructor, so the member += is used.)
constexpr ch::sys_days sysdays_plus(int y, unsigned m, unsigned d, etl::int_least32_t n)
{
    auto sd = static_cast<ch::sys_days>(ch::year_month_day{ch::year{y}, ch::month{m}, ch::day{d}});
    sd += ch::days{n};
    return sd;
}
constexpr long long pack_ymd(ch::year_month_day const& ymd)
{
    return (static_cast<long long>(static_cast<int>(ymd.year())) + 40000) * 100000 + static_cast<long long>(static_cast<unsigned>(ymd.month())) * 1000
         + static_cast<long long>(static_cast<unsigned>(ymd.day()));
}
// DOMAIN is a constexpr predicate over (y, m, d, n); out-of-domain rows return 0 without touching tetl
#define CAL(ID, NAME, DOMAIN, EXPR)                                                                                    \
    struct ID {                                                                                                        \
        static constexpr char const* name = NAME;                                                                      \
        static constexpr bool dom(CArg const& p)                                                                       \
        {                                                                                                              \
            [[maybe_unused]] I128 const n = p.n;                                                                       \
            [[maybe_unused]] I128 const y = p.y;                                                                       \
            [[maybe_unused]] I128 const m = p.m;                                                                       \
            return DOMAIN;                                                                                             \
        }                                                                                                              \
        static bool in_domain(CArg const& p) { return dom(p); }                                                        \
        constexpr auto operator()(CArg const& p) const -> long long                                                    \
        {                                                                                                              \
            if (!dom(p)) { return 0; }                                                                                 \
            [[maybe_unused]] auto const n32 = static_cast<etl::int_least32_t>(p.n);                                    \
            return static_cast<long long>(EXPR);                                                                       \
        }                                                                                                              \
    };
// floor division helper for the domain of year_month + months
constexpr I128 fdiv12(I128 v) { return (v >= 0 ? v : v - 11) / 12; }
// [time.cal.month.nonmembers] itself forms y.count() - 1 in the rep of months: months::min() is outside the domain
CAL(F_month_plus, "month + months", fits32(n) && fits32(n - 1), static_cast<unsigned>(ch::month{p.m} + ch::months{n32}))
CAL(F_month_minus, "month - months", fits32(n) && fits32(-n), static_cast<unsigned>(ch::month{p.m} - ch::months{n32}))
CAL(F_month_diff, "month - month", n >= 1 && n <= 12, (ch::month{p.m} - ch::month{static_cast<unsigned>(p.n)}).count())
CAL(F_weekday_plus, "weekday + days", fits32(n), (ch::weekday{p.m % 7} + ch::days{n32}).c_encoding())
CAL(F_weekday_minus, "weekday - days", fits32(n), (ch::weekday{p.m % 7} - ch::days{n32}).c_encoding())
CAL(F_weekday_diff, "weekday - weekday", n >= 0 && n <= 6, (ch::weekday{p.m % 7} - ch::weekday{static_cast<unsigned>(p.n)}).count())
CAL(F_year_plus, "year + years", fits32(n) && year_ok(y + n), static_cast<int>(ch::year{p.y} + ch::years{n32}))
CAL(F_year_minus, "year - years", fits32(n) && fits32(-n) && year_ok(y - n), static_cast<int>(ch::year{p.y} - ch::years{n32}))
CAL(F_year_diff, "year - year", year_ok(n), (ch::year{p.y} - ch::year{static_cast<int>(p.n)}).count())
CAL(F_ym_plus_months, "year_month + months", fits32(n) && year_ok(y + fdiv12(m - 1 + n)),
    pack_ymd(ch::year_month_day{(ch::year_month{ch::year{p.y}, ch::month{p.m}} + ch::months{n32}).year(), (ch::year_month{ch::year{p.y}, ch::month{p.m}} + ch::months{n32}).month(), ch::day{1}}))
CAL(F_ym_minus_months, "year_month - months", fits32(n) && fits32(-n) && year_ok(y + fdiv12(m - 1 - n)),
    pack_ymd(ch::year_month_day{(ch::year_month{ch::year{p.y}, ch::month{p.m}} - ch::months{n32}).year(), (ch::year_month{ch::year{p.y}, ch::month{p.m}} - ch::months{n32}).month(), ch::day{1}}))
CAL(F_ym_plus_years, "year_month + years", fits32(n) && year_ok(y + n),
    pack_ymd(ch::year_month_day{(ch::year_month{ch::year{p.y}, ch::month{p.m}} + ch::years{n32}).year(), (ch::year_month{ch::year{p.y}, ch::month{p.m}} + ch::years{n32}).month(), ch::day{1}}))
CAL(F_ymd_plus_months, "year_month_day + months", fits32(n) && year_ok(y + fdiv12(m - 1 + n)),
    pack_ymd(ch::year_month_day{ch::year{p.y}, ch::month{p.m}, ch::day{p.d}} + ch::months{n32}))
CAL(F_ymd_minus_months, "year_month_day - months", fits32(n) && fits32(-n) && year_ok(y + fdiv12(m - 1 - n)),
    pack_ymd(ch::year_month_day{ch::year{p.y}, ch::month{p.m}, ch::day{p.d}} - ch::months{n32}))
CAL(F_ymd_plus_years, "year_month_day + years", fits32(n) && year_ok(y + n), pack_ymd(ch::year_month_day{ch::year{p.y}, ch::month{p.m}, ch::day{p.d}} + ch::years{n32}))
// sys_days(ymd) + days -> ymd: the resulting day count must stay inside the calendar range [-32767-01-01, 32767-12-31]
CAL(F_sysdays_plus, "year_month_day(sys_days(ymd) + days)",
    fits32(n) && h_days_from_civil(p.y, p.m, p.d) + n >= h_days_from_civil(-32767, 1, 1) && h_days_from_civil(p.y, p.m, p.d) + n <= h_days_from_civil(32767, 12, 31),
    pack_ymd(ch::year_month_day{sysdays_plus(p.y, p.m, p.d, n32)}))
// sys_days -> coarser / finer time points of narrow rep
CAL(F_sysdays_to_hours, "time_point_cast<hours>(sys_days(ymd) + days)",
    fits32(n) && fits32((static_cast<I128>(h_days_from_civil(p.y, p.m, p.d)) + n) * 24) && fits32(static_cast<I128>(h_days_from_civil(p.y, p.m, p.d)) + n),
    ch::time_point_cast<ch::hours>(sysdays_plus(p.y, p.m, p.d, n32)).time_since_epoch().count())

// abs of durations with narrow reps: domain = the negated count is representable ([time.duration.alg]: d >= zero ? d : -d)
template <typename D>
struct F_abs {
    static constexpr char const* name = "abs";
    static constexpr bool dom(NArg const& p) { return fits<typename D::rep>(p.n) && fits<typename D::rep>(-static_cast<I128>(p.n)); }
    static bool in_domain(NArg const& p) { return dom(p); }
    constexpr auto operator()(NArg const& p) const -> long long
    {
        if (!dom(p)) { return 0; }
        return static_cast<long long>(ch::abs(D{static_cast<typename D::rep>(p.n)}).count());
    }
};
#define ABS_E(D) make_entry<F_abs<D>, tabTicks, ClsPair<D, D>, 64>("chrono::abs(" #D ")")

// ------------------------------------------------------------------ registry
#define PAIR_CAST(TO, FROM) make_entry<F_cast<TO, FROM>, tabTicks, ClsPair<TO, FROM>, 64>("chrono::duration_cast/time_point_cast<" #TO ">(" #FROM ")")
#define PAIR_FCR(TO, FROM) make_entry<F_fcr<TO, FROM>, tabTicks, ClsPair<TO, FROM>, 64>("chrono::floor/ceil/round<" #TO ">(" #FROM ")")
#if C13_GRP == 0
    #define PAIR PAIR_CAST
#else
    #define PAIR PAIR_FCR
#endif
#define CE(F) make_entry<F, tabCal, ClsCal, 128>(std::string("chrono::") + F::name)

using minutes = ch::minutes;
using hours   = ch::hours;
using days    = ch::days;
using weeks   = ch::weeks;
using months  = ch::months;
using years   = ch::years;
using seconds = ch::seconds;
using milliseconds = ch::milliseconds;
using microseconds = ch::microseconds;

std::vector<Entry> const& entries()
{
    static std::vector<Entry> const es = {
#if C13_GRP == 0 || C13_GRP == 1
        // all ordered pairs of the six 32-bit calendar durations
        PAIR(hours, minutes), PAIR(days, minutes), PAIR(weeks, minutes), PAIR(months, minutes), PAIR(years, minutes),
        PAIR(minutes, hours), PAIR(days, hours), PAIR(weeks, hours), PAIR(months, hours), PAIR(years, hours),
        PAIR(minutes, days), PAIR(hours, days), PAIR(weeks, days), PAIR(months, days), PAIR(years, days),
        PAIR(minutes, weeks), PAIR(hours, weeks), PAIR(days, weeks), PAIR(months, weeks), PAIR(years, weeks),
        PAIR(minutes, months), PAIR(hours, months), PAIR(days, months), PAIR(weeks, months), PAIR(years, months),
        PAIR(minutes, years), PAIR(hours, years), PAIR(days, years), PAIR(weeks, years), PAIR(months, years),
        // user durations with narrow reps
        PAIR(s44k1, s48k), PAIR(s48k, s44k1), PAIR(s16, cs16), PAIR(cs16, s16), PAIR(minutes, s16), PAIR(cs16, minutes),
        // narrow <-> wide
        PAIR(seconds, years), PAIR(years, seconds), PAIR(milliseconds, minutes), PAIR(hours, milliseconds), PAIR(microseconds, days), PAIR(months, seconds),
        PAIR(s48k, seconds), PAIR(seconds, s48k),
#elif C13_GRP == 2
        CE(F_month_plus), CE(F_month_minus), CE(F_month_diff), CE(F_weekday_plus), CE(F_weekday_minus), CE(F_weekday_diff), CE(F_year_plus), CE(F_year_minus),
        CE(F_year_diff), CE(F_ym_plus_months), CE(F_ym_minus_months), CE(F_ym_plus_years), CE(F_ymd_plus_months), CE(F_ymd_minus_months), CE(F_ymd_plus_years),
        CE(F_sysdays_plus), CE(F_sysdays_to_hours),
        ABS_E(cs16), ABS_E(minutes), ABS_E(days), ABS_E(years), ABS_E(seconds),
#endif
    };
    return es;
}

vf::Spec spec(vf::Tier)
{
    vf::Spec s;
    s.n_enum     = total_cases(entries());
    s.n_random   = 0;
    s.batch      = 1;
    s.exhaustive = true;
    return s;
}
void run_case(vf::Case& c) { run_case_index(entries(), c.index); }

} // namespace

VF_MAIN("C13", "C13_chrono", spec, run_case)
