// C18 - mem*/wmem* reimplementations vs glibc (DESIGN 4, C18).   Build: -DVF_WIDE=0 (<etl/cstring.hpp>) | 1 (<etl/cwchar.hpp>)
//
// memcpy/memmove/memset/memcmp/memchr (and wmem*) are executed on two identical heap images, one by etl,
// one by the host C library (called through volatile pointers); compared: returned pointer as OFFSET-or-null,
// SIGN of the comparison, and the WHOLE image.  Contents deliberately contain zero elements: mem* must not
// treat them as terminators.
#include "vf.hpp"
#include "vf_contract.hpp"
#include "vf_cstr.hpp"

#include <climits>
#include <clocale>
#include <cstring>
#include <cwchar>

#include <etl/cstring.hpp>
#include <etl/cwchar.hpp>

#ifndef VF_WIDE
    #define VF_WIDE 0
#endif

#if VF_WIDE
    #define NM(s, w) w
    #define SUBJ     "cwchar"
    #define UNIT     "C18_mem_wchar_t"
using Ch   = wchar_t;
using Void = wchar_t; // wmem* take wchar_t*
using Val  = wchar_t; // wmemset/wmemchr take wchar_t
#else
    #define NM(s, w) s
    #define SUBJ     "cstring"
    #define UNIT     "C18_mem_char"
using Ch   = char;
using Void = void; // mem* take void*
using Val  = int;  // memset/memchr take int
#endif

namespace {
using C   = Ch const;
using Str = std::basic_string<Ch>;
using vfc::opaque;
constexpr std::size_t ARENA = 12;

namespace ref {
using cpy_t  = Void*(Void*, Void const*, std::size_t);
using set_t  = Void*(Void*, Val, std::size_t);
using cmp_t  = int(Void const*, Void const*, std::size_t);
using chr_t  = Void const*(Void const*, Val, std::size_t);
using chrm_t = Void*(Void*, Val, std::size_t);

cpy_t* volatile cpy   = static_cast<cpy_t*>(NM(&::memcpy, &::wmemcpy));
cpy_t* volatile move  = static_cast<cpy_t*>(NM(&::memmove, &::wmemmove));
set_t* volatile set   = static_cast<set_t*>(NM(&::memset, &::wmemset));
cmp_t* volatile cmp   = static_cast<cmp_t*>(NM(&::memcmp, &::wmemcmp));
// (overloaded const/non-const prototypes differ between compilers: go through captureless lambdas)
chr_t* volatile chr   = [](Void const* s, Val c, std::size_t n) -> Void const* { return NM(::memchr, ::wmemchr)(s, c, n); };
chrm_t* volatile chrm = [](Void* s, Val c, std::size_t n) -> Void* { return NM(::memchr, ::wmemchr)(s, c, n); };
} // namespace ref

#define E(s, w)   etl::NM(s, w)
#define OPN(s, w) NM(#s, #w)

// alphabet with the zero element: {a, b, 0xE9, 0}
Ch sym(unsigned i)
{
    switch (i) {
    case 0: return Ch('a');
    case 1: return Ch('b');
    case 2: return static_cast<Ch>(0xE9);
    default: return Ch(0);
    }
}
// boundary codes (short blocks only)
Ch symx(unsigned i)
{
#if VF_WIDE
    switch (i) {
    case 0: return Ch(1);
    case 1: return static_cast<Ch>(WCHAR_MAX);
    case 2: return static_cast<Ch>(WCHAR_MIN);
    default: return Ch(0);
    }
#else
    switch (i) {
    case 0: return Ch(0x7F);
    case 1: return static_cast<Ch>(0x80);
    case 2: return static_cast<Ch>(0xFF);
    default: return Ch(0);
    }
#endif
}
bool is_high(Ch c)
{
#if VF_WIDE
    return c < 0 || c >= 0x80;
#else
    return static_cast<unsigned char>(c) >= 0x80;
#endif
}
bool is_extreme(Ch c)
{
#if VF_WIDE
    return c < 0 || c > 0x10FFFF;
#else
    (void)c;
    return false;
#endif
}

struct Dims {
    unsigned lc; // memcmp/memchr/memcpy block length bound
    unsigned lx; // boundary alphabet length bound
};
Dims dims(vf::Tier t) { return t == vf::Tier::thorough ? Dims{5, 2} : Dims{4, 2}; }

// enumerated sections
struct Layout {
    std::uint64_t move, set, cmp, cmpx;
    std::uint64_t total() const { return move + set + cmp + cmpx; }
};
Layout layout(vf::Tier t)
{
    Dims d = dims(t);
    Layout l;
    l.move = (ARENA + 1) * (ARENA + 1); // (src offset, dst offset); n enumerated inside
    l.set  = ARENA + 1;                 // offset; n and value enumerated inside
    l.cmp  = vfc::count_strings(4, d.lc) * vfc::count_strings(4, d.lc);
    l.cmpx = vfc::count_strings(4, d.lx) * vfc::count_strings(4, d.lx);
    return l;
}
vf::Spec spec(vf::Tier t)
{
    vf::Spec s;
    s.n_enum     = layout(t).total();
    s.n_random   = t == vf::Tier::thorough ? 100000 : 6000;
    s.batch      = t == vf::Tier::thorough ? 1024 : 256;
    s.exhaustive = true;
    return s;
}

bool has_nul(std::vector<Ch> const& v, std::size_t lo, std::size_t n)
{
    for (std::size_t i = lo; i < lo + n; ++i) {
        if (v[i] == Ch(0)) { return true; }
    }
    return false;
}

// ------------------------------------------------------------------ memmove / memcpy inside one arena
void op_move(std::vector<Ch> const& arena, std::size_t so, std::size_t dof, std::size_t n, char const* pres)
{
    bool overlap = n != 0 && so < dof + n && dof < so + n;
    char sit[96];
    std::snprintf(sit, sizeof sit, "%s%s", n == 0 ? "n=0" : (so == dof ? "same" : (!overlap ? "disjoint" : (dof > so ? "overlap-dst-above-src" : "overlap-dst-below-src"))),
        n != 0 && has_nul(arena, so, n) ? ",src-has-zero" : "");
    auto const hs = vf::mix(vf::mix(vfc::hash(Str(arena.begin(), arena.end())), so * 64 + dof), n);
    {
        char const* op = OPN(memmove, wmemmove);
        vfc::Img<Ch> im(arena);
        vf::crumb(SUBJ, op, sit, "%s arena=%s src=+%zu dst=+%zu n=%zu", pres, vfc::show(arena.data(), arena.size()).c_str(), so, dof, n);
        Ch* dg = opaque(im.g.data() + dof);
        Ch* de = opaque(im.e.data() + dof);
        auto* rg = static_cast<Ch*>(ref::move(dg, opaque(im.g.data() + so), opaque(n)));
        auto* re = static_cast<Ch*>(E(memmove, wmemmove)(de, opaque(im.e.data() + so), opaque(n)));
        vf::cover(op, hs, n != 0);
        vfc::eq_off("ret", vfc::off<Ch>(re, de), vfc::off<Ch>(rg, dg));
        im.same("dest", dof, dof + n);
    }
    if (!overlap) {
        char const* op = OPN(memcpy, wmemcpy);
        vfc::Img<Ch> im(arena);
        vf::crumb(SUBJ, op, sit, "%s arena=%s src=+%zu dst=+%zu n=%zu", pres, vfc::show(arena.data(), arena.size()).c_str(), so, dof, n);
        Ch* dg = opaque(im.g.data() + dof);
        Ch* de = opaque(im.e.data() + dof);
        auto* rg = static_cast<Ch*>(ref::cpy(dg, opaque(im.g.data() + so), opaque(n)));
        auto* re = static_cast<Ch*>(E(memcpy, wmemcpy)(de, opaque(im.e.data() + so), opaque(n)));
        vf::cover(op, hs, n != 0);
        vfc::eq_off("ret", vfc::off<Ch>(re, de), vfc::off<Ch>(rg, dg));
        im.same("dest", dof, dof + n);
    }
}

// separate exact-size blocks: source of exactly n elements, destination of exactly n elements
void op_copy_blocks(Str const& x)
{
    std::size_t n = x.size();
    char sit[96];
    std::snprintf(sit, sizeof sit, "%s%s", n == 0 ? "n=0" : "disjoint", x.find(Ch(0)) != Str::npos ? ",src-has-zero" : "");
    auto const hs = vf::mix(vfc::hash(x), 0xB10C);
    for (int which = 0; which < 2; ++which) {
        char const* op = which ? OPN(memmove, wmemmove) : OPN(memcpy, wmemcpy);
        vfc::Src<Ch> src(x, false);
        vfc::Img<Ch> im(std::vector<Ch>(n, Ch(0x5A)));
        vf::crumb(SUBJ, op, sit, "blocks src=%s (exactly n elements) dst=exact block n=%zu", vfc::show(x).c_str(), n);
        Ch* dg = opaque(im.g.data());
        Ch* de = opaque(im.e.data());
        Ch* rg;
        Ch* re;
        if (which) {
            rg = static_cast<Ch*>(ref::move(dg, src.cp(), opaque(n)));
            re = static_cast<Ch*>(E(memmove, wmemmove)(de, src.cp(), opaque(n)));
        } else {
            rg = static_cast<Ch*>(ref::cpy(dg, src.cp(), opaque(n)));
            re = static_cast<Ch*>(E(memcpy, wmemcpy)(de, src.cp(), opaque(n)));
        }
        vf::cover(op, hs, n != 0);
        vfc::eq_off("ret", vfc::off<Ch>(re, de), vfc::off<Ch>(rg, dg));
        im.same("dest", 0, n);
        src.check("src");
    }
    // n = 0 with one-past-the-end pointers on both sides
    for (int which = 0; which < 2; ++which) {
        char const* op = which ? OPN(memmove, wmemmove) : OPN(memcpy, wmemcpy);
        vfc::Src<Ch> src(x, false);
        vfc::Img<Ch> im(std::vector<Ch>(n, Ch(0x5A)));
        vf::crumb(SUBJ, op, "n=0,one-past-pointers", "blocks src=%s dst/src = one past the end, n=0", vfc::show(x).c_str());
        Ch* dg = opaque(im.g.data() + n);
        Ch* de = opaque(im.e.data() + n);
        C* sp  = opaque(static_cast<C*>(src.b.data() + n));
        std::size_t z = opaque(std::size_t{0});
        Ch* rg;
        Ch* re;
        if (which) {
            rg = static_cast<Ch*>(ref::move(dg, sp, z));
            re = static_cast<Ch*>(E(memmove, wmemmove)(de, sp, z));
        } else {
            rg = static_cast<Ch*>(ref::cpy(dg, sp, z));
            re = static_cast<Ch*>(E(memcpy, wmemcpy)(de, sp, z));
        }
        vf::cover(op, vf::mix(hs, 1), false);
        vfc::eq_off("ret", vfc::off<Ch>(re, de), vfc::off<Ch>(rg, dg));
        im.same("dest", n, n);
        src.check("src");
    }
}

// ------------------------------------------------------------------ memset
void op_set(std::vector<Ch> const& arena, std::size_t o, std::size_t n, long long value, char const* vcls)
{
    char const* op = OPN(memset, wmemset);
    char sit[96];
    std::snprintf(sit, sizeof sit, "%s,%s", n == 0 ? "n=0" : "n>0", vcls);
    vfc::Img<Ch> im(arena);
    vf::crumb(SUBJ, op, sit, "arena=%s dst=+%zu value=%lld n=%zu", vfc::show(arena.data(), arena.size()).c_str(), o, value, n);
    Ch* dg   = opaque(im.g.data() + o);
    Ch* de   = opaque(im.e.data() + o);
    auto* rg = static_cast<Ch*>(ref::set(dg, opaque(static_cast<Val>(value)), opaque(n)));
    auto* re = static_cast<Ch*>(E(memset, wmemset)(de, opaque(static_cast<Val>(value)), opaque(n)));
    vf::cover(op, vf::mix(vf::mix(o, n), (std::uint64_t)value + arena.size() * 7919), n != 0);
    vfc::eq_off("ret", vfc::off<Ch>(re, de), vfc::off<Ch>(rg, dg));
    im.same("dest", o, o + n);
}
struct SetVal {
    long long v;
    char const* cls;
};
#if VF_WIDE
constexpr SetVal SETVALS[] = {{0, "val=0"}, {'a', "val=ascii"}, {0xE9, "val=high"}, {WCHAR_MAX, "val=max"}, {WCHAR_MIN, "val=min"}};
#else
constexpr SetVal SETVALS[] = {{0, "val=0"}, {'a', "val=ascii"}, {0xE9, "val=high"}, {0x1E9, "val=int-converts"}, {-1, "val=int-converts"}, {0x100, "val=int-converts-to-0"}};
#endif

// ------------------------------------------------------------------ memcmp
void op_cmp(Str const& x, Str const& y, std::size_t n) // n <= min(len)
{
    char const* op = OPN(memcmp, wmemcmp);
    std::size_t d  = 0;
    while (d < n && x[d] == y[d]) { ++d; }
    bool nul = false;
    for (std::size_t i = 0; i < d; ++i) { nul = nul || x[i] == Ch(0); }
    char sit[96];
    std::snprintf(sit, sizeof sit, "%s%s", n == 0 ? "n=0" : (d == n ? "equal" : (is_extreme(x[d]) || is_extreme(y[d]) ? "differ-extreme" : (is_high(x[d]) || is_high(y[d]) ? "differ-high" : "differ-ascii"))),
        nul ? (d == n ? ",has-zero" : ",zero-before-diff") : "");
    Str px = x.substr(0, n), py = y.substr(0, n);
    vfc::Src<Ch> sx(px, false), sy(py, false); // exactly n elements each
    vf::crumb(SUBJ, op, sit, "lhs=%s rhs=%s n=%zu (blocks of exactly n)", vfc::show(px).c_str(), vfc::show(py).c_str(), n);
    int g = ref::cmp(sx.cp(), sy.cp(), opaque(n));
    int e = E(memcmp, wmemcmp)(sx.cp(), sy.cp(), opaque(n));
    vf::cover(op, vf::mix(vf::mix(vfc::hash(px), vfc::hash(py)), n), n != 0);
    vf::eq_sign("ret", e, g);
    sx.check("lhs");
    sy.check("rhs");
}

// memcmp/wmemcmp with both pointers into ONE block (C allows read-only arguments to alias): identical pointer
// (i == j), overlapping ranges (|i-j| < n) and disjoint ranges of the same block; n <= size - max(i,j)
void op_cmp_alias(Str const& x, std::size_t i, std::size_t j, std::size_t n)
{
    char const* op = NM("memcmp[alias]", "wmemcmp[alias]");
    std::size_t d  = 0;
    while (d < n && x[i + d] == x[j + d]) { ++d; }
    std::size_t gap = i > j ? i - j : j - i;
    char sit[96];
    std::snprintf(sit, sizeof sit, "%s,%s", i == j ? "same-pointer" : (gap < n ? "overlapping-ranges" : "same-block-disjoint"),
        n == 0 ? "n=0" : (d == n ? "equal" : (is_extreme(x[i + d]) || is_extreme(x[j + d]) ? "differ-extreme" : (is_high(x[i + d]) || is_high(x[j + d]) ? "differ-high" : "differ-ascii"))));
    vfc::Src<Ch> sx(x, false);
    vf::crumb(SUBJ, op, sit, "one block %s: lhs=block+%zu rhs=block+%zu n=%zu", vfc::show(x).c_str(), i, j, n);
    C* pl = opaque(static_cast<C*>(sx.b.data() + i));
    C* pr = opaque(static_cast<C*>(sx.b.data() + j));
    int g = ref::cmp(pl, pr, opaque(n));
    int e = E(memcmp, wmemcmp)(pl, pr, opaque(n));
    vf::cover(op, vf::mix(vf::mix(vfc::hash(x), i * 128 + j), n), n != 0);
    vf::eq_sign("ret", e, g);
    sx.check("aliased block");
}
void cmp_alias_all(Str const& x)
{
    for (std::size_t i = 0; i <= x.size(); ++i) {
        for (std::size_t j = 0; j <= x.size(); ++j) {
            std::size_t mx = x.size() - (i > j ? i : j);
            for (std::size_t n = 0; n <= mx; ++n) { op_cmp_alias(x, i, j, n); }
        }
    }
}

// ------------------------------------------------------------------ memchr
void op_chr(Str const& x, std::size_t n, long long ch, bool converts, bool embedded) // n <= len; block holds n (exact) or len (embedded) elements
{
    Ch target        = static_cast<Ch>(ch);
    std::size_t pos = n;
    for (std::size_t i = 0; i < n; ++i) {
        if (x[i] == target) {
            pos = i;
            break;
        }
    }
    bool nulBefore = false;
    for (std::size_t i = 0; i < pos && i < n; ++i) { nulBefore = nulBefore || x[i] == Ch(0); }
    bool beyond = false;
    for (std::size_t i = n; embedded && i < x.size(); ++i) { beyond = beyond || x[i] == target; }
    char sit[120];
    std::snprintf(sit, sizeof sit, "%s%s%s%s", n == 0 ? "n=0" : (pos == n ? "absent" : (pos == 0 ? "present-at-0" : "present-later")), nulBefore ? ",zero-before" : "",
        beyond ? ",present-beyond-n" : "", converts ? ",int-converts" : "");
    Str blk = embedded ? x : x.substr(0, n);
    vfc::Src<Ch> sx(blk, false);
    auto const hs = vf::mix(vf::mix(vfc::hash(blk), n), (std::uint64_t)ch * 2 + embedded);
    {
        char const* op = NM("memchr(void const*)", "wmemchr(wchar_t const*)");
        vf::crumb(SUBJ, op, sit, "block=%s ch=%lld n=%zu", vfc::show(blk).c_str(), ch, n);
        auto* g = static_cast<C*>(ref::chr(sx.cp(), opaque(static_cast<Val>(ch)), opaque(n)));
        auto* e = static_cast<C*>(E(memchr, wmemchr)(static_cast<Void const*>(sx.cp()), opaque(static_cast<Val>(ch)), opaque(n)));
        vf::cover(op, hs, n != 0);
        vfc::eq_off("ret", vfc::off<Ch>(e, sx.b.data()), vfc::off<Ch>(g, sx.b.data()));
    }
    {
        char const* op = NM("memchr(void*)", "wmemchr(wchar_t*)");
        vf::crumb(SUBJ, op, sit, "block=%s ch=%lld n=%zu", vfc::show(blk).c_str(), ch, n);
        auto* g = static_cast<Ch*>(ref::chrm(sx.p(), opaque(static_cast<Val>(ch)), opaque(n)));
        auto* e = static_cast<Ch*>(E(memchr, wmemchr)(static_cast<Void*>(sx.p()), opaque(static_cast<Val>(ch)), opaque(n)));
        vf::cover(op, hs, n != 0);
        vfc::eq_off("ret", vfc::off<Ch>(e, sx.b.data()), vfc::off<Ch>(g, sx.b.data()));
    }
    sx.check("block");
}
// memchr/wmemchr with a count LARGER than the block while the character is present in the block: C11 7.24.5.1 requires
// memchr to behave as if it read sequentially and stopped at the first match, so memchr(p, c, SIZE_MAX) (the rawmemchr
// idiom) is defined; glibc treats wmemchr alike.  Only memchr/wmemchr: memcmp/memcpy/memmove/memset access all n elements.
struct BigN {
    std::size_t n;
    char const* cls;
    char const* name;
};
std::vector<BigN> big_counts(std::size_t size)
{
    constexpr auto SM = static_cast<std::size_t>(-1);
    std::vector<BigN> v{{size + 1, "n=size+1", "size+1"}, {2 * size, "n=2*size", "2*size"}, {static_cast<std::size_t>(PTRDIFF_MAX), "n=huge", "PTRDIFF_MAX"},
        {SM / 2 + 1, "n=huge", "SIZE_MAX/2+1"}, {SM - 1, "n=huge", "SIZE_MAX-1"}, {SM, "n=max", "SIZE_MAX"}};
    if (sizeof(Ch) > 1) {
        v.push_back({static_cast<std::size_t>(PTRDIFF_MAX) / sizeof(Ch), "n=huge", "PTRDIFF_MAX/sizeof(wchar_t)"});
        v.push_back({SM / sizeof(Ch), "n=huge", "SIZE_MAX/sizeof(wchar_t)"});
        v.push_back({SM / sizeof(Ch) + 1, "n=huge", "SIZE_MAX/sizeof(wchar_t)+1"});
    }
    return v;
}
void op_chr_big(Str const& x, Ch target) // target occurs in x; the block holds exactly x.size() elements
{
    std::size_t pos = x.find(target);
    if (pos == Str::npos) { return; }
    bool nulBefore = false;
    for (std::size_t i = 0; i < pos; ++i) { nulBefore = nulBefore || x[i] == Ch(0); }
    vfc::Src<Ch> sx(x, false);
    for (BigN const& b : big_counts(x.size())) {
        char sit[120];
        std::snprintf(sit, sizeof sit, "%s%s,count-beyond-block,%s", pos == 0 ? "present-at-0" : "present-later", nulBefore ? ",zero-before" : "", b.cls);
        auto const hs = vf::mix(vf::mix(vfc::hash(x), b.n), (std::uint64_t)target * 2 + 0xB16);
        {
            char const* op = NM("memchr(void const*)", "wmemchr(wchar_t const*)");
            vf::crumb(SUBJ, op, sit, "block=%s (exactly %zu elements) ch=%lld n=%s", vfc::show(x).c_str(), x.size(), (long long)target, b.name);
            auto* g = static_cast<C*>(ref::chr(sx.cp(), opaque(static_cast<Val>(target)), opaque(b.n)));
            auto* e = static_cast<C*>(E(memchr, wmemchr)(static_cast<Void const*>(sx.cp()), opaque(static_cast<Val>(target)), opaque(b.n)));
            vf::cover(op, hs, true);
            vfc::eq_off("ret", vfc::off<Ch>(e, sx.b.data()), vfc::off<Ch>(g, sx.b.data()));
        }
        {
            char const* op = NM("memchr(void*)", "wmemchr(wchar_t*)");
            vf::crumb(SUBJ, op, sit, "block=%s (exactly %zu elements) ch=%lld n=%s", vfc::show(x).c_str(), x.size(), (long long)target, b.name);
            auto* g = static_cast<Ch*>(ref::chrm(sx.p(), opaque(static_cast<Val>(target)), opaque(b.n)));
            auto* e = static_cast<Ch*>(E(memchr, wmemchr)(static_cast<Void*>(sx.p()), opaque(static_cast<Val>(target)), opaque(b.n)));
            vf::cover(op, hs, true);
            vfc::eq_off("ret", vfc::off<Ch>(e, sx.b.data()), vfc::off<Ch>(g, sx.b.data()));
        }
    }
    sx.check("block");
}
void chr_all(Str const& x, Ch (*sy)(unsigned))
{
    for (unsigned i = 0; i < 4; ++i) { op_chr_big(x, sy(i)); }
    for (std::size_t n = 0; n <= x.size(); ++n) {
        for (int emb = 0; emb < 2; ++emb) {
            if (emb && n == x.size()) { continue; }
            for (unsigned i = 0; i < 4; ++i) {
                Ch c = sy(i);
                op_chr(x, n, (long long)c, false, emb);
#if !VF_WIDE
                op_chr(x, n, (long long)(unsigned char)c, c < 0, emb);
                op_chr(x, n, (long long)(unsigned char)c + 256, true, emb);
#endif
            }
            op_chr(x, n, 'c', false, emb);
        }
    }
}

std::vector<Ch> arena_pattern(unsigned which, std::size_t size)
{
    std::vector<Ch> v(size);
    for (std::size_t i = 0; i < size; ++i) {
        switch (which) {
        case 0: v[i] = static_cast<Ch>('A' + i % 26); break;                                   // distinct, no zero element
        case 1: v[i] = (i % 3 == 1) ? Ch(0) : static_cast<Ch>('A' + i % 26); break;            // zero elements inside
        default: v[i] = (i % 4 == 0) ? Ch(0) : static_cast<Ch>(0xE0 + i % 16); break;          // high values and zeros
        }
    }
    return v;
}

void run_case(vf::Case& c)
{
    Dims d   = dims(c.tier);
    Layout l = layout(c.tier);
    if (c.enumerated) {
        std::uint64_t k = c.index;
        if (k < l.move) {
            std::size_t so = (std::size_t)(k / (ARENA + 1)), dof = (std::size_t)(k % (ARENA + 1));
            std::size_t mx = ARENA - (so > dof ? so : dof);
            if (vf::want_sample("arena")) { vf::sample("arena", "memmove/memcpy src=+%zu dst=+%zu n=0..%zu in a %zu-element arena, 3 content patterns", so, dof, mx, ARENA); }
            for (unsigned pat = 0; pat < 3; ++pat) {
                std::vector<Ch> a = arena_pattern(pat, ARENA);
                for (std::size_t n = 0; n <= mx; ++n) { op_move(a, so, dof, n, "arena"); }
            }
            return;
        }
        k -= l.move;
        if (k < l.set) {
            std::size_t o = (std::size_t)k;
            for (unsigned pat = 0; pat < 2; ++pat) {
                std::vector<Ch> a = arena_pattern(pat, ARENA);
                for (std::size_t n = 0; n <= ARENA - o; ++n) {
                    for (SetVal const& sv : SETVALS) { op_set(a, o, n, sv.v, sv.cls); }
                }
            }
            return;
        }
        k -= l.set;
        Ch (*sy)(unsigned) = sym;
        unsigned L          = d.lc;
        std::uint64_t N     = vfc::count_strings(4, d.lc);
        if (k >= l.cmp) {
            k -= l.cmp;
            sy = symx;
            L  = d.lx;
            N  = vfc::count_strings(4, d.lx);
        }
        Str x = vfc::nth_string<Ch>(k / N, 4, L, sy);
        Str y = vfc::nth_string<Ch>(k % N, 4, L, sy);
        if (vf::want_sample("blocks")) { vf::sample("blocks", "x=%s y=%s: memcmp for every n <= min length", vfc::show(x).c_str(), vfc::show(y).c_str()); }
        std::size_t mn = x.size() < y.size() ? x.size() : y.size();
        for (std::size_t n = 0; n <= mn; ++n) { op_cmp(x, y, n); }
        if (k % N == 0) {
            op_copy_blocks(x);
            chr_all(x, sy);
            cmp_alias_all(x);
        }
        return;
    }
    // ---- seeded random
    vf::Rng& r       = c.rng;
    std::size_t size = 1 + (std::size_t)r.below(96);
    bool boundary    = r.chance(1, 5);
    auto draw        = [&]() -> Ch {
        if (r.chance(1, 6)) { return Ch(0); }
        return boundary ? symx((unsigned)r.below(3)) : (r.coin() ? sym((unsigned)r.below(3)) : static_cast<Ch>(r.range(1, 255)));
    };
    std::vector<Ch> a(size);
    for (auto& e : a) { e = draw(); }
    for (int i = 0; i < 4; ++i) {
        std::size_t so = (std::size_t)r.below(size + 1), dof = (std::size_t)r.below(size + 1);
        std::size_t mx = size - (so > dof ? so : dof);
        std::size_t n  = (std::size_t)r.below(mx + 1);
        op_move(a, so, dof, n, "random");
        std::size_t o = (std::size_t)r.below(size + 1);
        SetVal sv     = SETVALS[r.below(sizeof SETVALS / sizeof SETVALS[0])];
        op_set(a, o, (std::size_t)r.below(size - o + 1), sv.v, sv.cls);
    }
    // memcmp: y = x with optional mutation; memchr on x
    std::size_t lx = (std::size_t)r.below(65);
    Str x;
    for (std::size_t i = 0; i < lx; ++i) { x += draw(); }
    Str y = x;
    if (!y.empty() && r.chance(3, 4)) { y[(std::size_t)r.below(y.size())] = draw(); }
    if (vf::want_sample("random")) { vf::sample("random", "arena of %zu elements; memcmp x=%s y=%s", size, vfc::show(x).c_str(), vfc::show(y).c_str()); }
    op_cmp(x, y, lx);
    op_cmp(x, y, (std::size_t)r.below(lx + 1));
    op_copy_blocks(x);
    for (int k = 0; k < 4; ++k) { // aliased memcmp: same pointer, then random pairs of offsets in the block of x
        std::size_t i = (std::size_t)r.below(lx + 1), j = k == 0 ? i : (std::size_t)r.below(lx + 1);
        std::size_t mx = lx - (i > j ? i : j);
        op_cmp_alias(x, i, j, k == 1 ? mx : (std::size_t)r.below(mx + 1));
    }
    for (int i = 0; i < 4; ++i) {
        std::size_t n = (std::size_t)r.below(lx + 1);
        Ch ch         = r.coin() && lx ? x[(std::size_t)r.below(lx)] : draw();
        op_chr(x, n, (long long)ch, false, r.coin() && n < lx);
    }
    if (lx) { op_chr_big(x, x[(std::size_t)r.below(lx)]); }
}
} // namespace

int main(int argc, char** argv)
{
    std::setlocale(LC_ALL, "C");
    return vf::run_main(argc, argv, "C18", UNIT, spec, run_case);
}
