// C16 - two- and three-argument <cmath> functions, lerp, hypot, midpoint vs glibc libm / libstdc++ (DESIGN 4, C16)
// Build: -DVF_T=float|double -DVF_T_NAME="float"|"double" [-DVF_T_IS_FLOAT=1]
//
// Enumerated part: case = (function f, row i): x = G[i], y ranges over the whole boundary grid G (~560 values:
// signed zeros, denormals, min/max normal, selected exponents x boundary mantissas, small integers and halves,
// 2^23/2^52/2^63 neighbourhoods, inf, quiet and signalling NaN); three-argument functions additionally range z
// (lerp: t) over a short list.  Random part (seeded): independent patterns, y near x, same exponent, y from grid.
// Oracle: exact set (copysign nextafter fmin fmax fdim fmod remainder fma midpoint) -> bit identical (both-NaN
// relaxation; copysign also on the NaN sign);  approximate set (atan2 hypot pow beta hypot(x,y,z) lerp pow(x,int))
// -> class equal + ulp distance <= committed bound on the committed domain; lerp/hypot documented special cases
// checked directly.  Signalling-NaN arguments: C leaves the result to the implementation, so the result may equal
// the reference for the signalling or for the quieted argument.
#include "vf.hpp"
#include "vf_contract.hpp"
#include "vf_float.hpp"

#include <etl/cmath.hpp>
#include <etl/numeric.hpp>

#include <algorithm>
#include <cmath>
#include <numeric>
#include <vector>

#include "C16_common.hpp"

namespace {
using namespace c16;
using W = std::conditional_t<IS_F, double, long double>; // wider type for references that libstdc++ computes in T

// ---------------------------------------------------------------- grid
std::vector<T> const& grid()
{
    static std::vector<T> const g = [] {
        std::vector<U> mags; // magnitudes as bit patterns (sign cleared)
        auto addm = [&](unsigned e, U m) { mags.push_back((U(e) << MB) | (m & (MTOP - 1))); };
        auto addv = [&](T v) { mags.push_back(fp::bits(v) & ~fp::sign_mask<T>); };
        // zero, denormals, first normals
        for (U m : {U(0), U(1), U(2), U(3), MTOP >> 1, (MTOP >> 1) + 1, MTOP - 2, MTOP - 1}) { addm(0, m); }
        for (int k = 2; k < MB; k += (MB / 6)) { addm(0, U(1) << k); }
        // selected exponents x boundary mantissas
        int const exps[] = {-BIAS + 1, -BIAS + 2, -BIAS + 3, -BIAS + MB, -BIAS / 2, -100, -64, -63, -2 * MB, -MB - 2, -MB - 1,
            -MB, -MB + 1, -12, -5, -3, -2, -1, 0, 1, 2, 3, 4, 5, 6, 7, 8, 10, 12, MB - 2, MB - 1, MB, MB + 1, MB + 2, 30, 31, 32, 33,
            61, 62, 63, 64, 65, 100, BIAS / 2, BIAS - 2, BIAS - 1, BIAS};
        U const ms[] = {U(0), U(1), MTOP >> 1, MTOP - 1, MTOP >> 2, (MTOP >> 1) | (MTOP >> 2)};
        for (int e : exps) {
            int be = e + BIAS;
            if (be < 1 || be > (int)NEXP - 2) { continue; }
            for (U m : ms) { addm((unsigned)be, m); }
        }
        // small integers, halves, quarters, a few "ordinary" values
        for (int i = 1; i <= 20; ++i) {
            addv(T(i));
            addv(T(i) + T(0.5));
        }
        for (T v : {T(0.1), T(0.25), T(0.75), T(1.0 / 3), T(3.14159265358979323846), T(1.5707963267948966), T(2.718281828459045),
                 T(100), T(1000), T(1e6), T(1e-3), T(1e-6), T(12345.678), T(0.999), T(1.001), T(88.7), T(89), T(709.7), T(710), T(171.6),
                 T(35.04), T(0.3), T(0.7)}) {
            addv(v);
        }
        // integer/fraction boundary neighbourhoods
        for (int p : {MB - 1, MB, MB + 1, 31, 32, 63, 64}) {
            T v = std::ldexp(T(1), p);
            addv(v);
            addv(std::nextafter(v, T(0)));
            addv(std::nextafter(v, std::numeric_limits<T>::infinity()));
        }
        // inf, quiet NaN, signalling NaN, NaN with payload
        addm(NEXP - 1, 0);
        addm(NEXP - 1, MTOP >> 1);
        addm(NEXP - 1, 1);
        addm(NEXP - 1, (MTOP >> 1) | 0x1234);
        std::sort(mags.begin(), mags.end());
        mags.erase(std::unique(mags.begin(), mags.end()), mags.end());
        std::vector<T> out;
        for (U m : mags) {
            out.push_back(fp::from_bits<T>(m));
            out.push_back(fp::from_bits<T>(m | fp::sign_mask<T>));
        }
        return out;
    }();
    return g;
}
// third arguments (also the t values of lerp, kept sorted for the monotonicity check)
std::vector<T> const& zlist()
{
    static std::vector<T> const z = {-std::numeric_limits<T>::infinity(), -std::numeric_limits<T>::max(), T(-2), T(-1), T(-0.5),
        -std::numeric_limits<T>::denorm_min(), T(-0.0), T(0), std::numeric_limits<T>::min(), T(0.25), T(0.5), T(0.75),
        std::nextafter(T(1), T(0)), T(1), std::nextafter(T(1), T(2)), T(1.5), T(2), T(1e10), std::numeric_limits<T>::max(),
        std::numeric_limits<T>::infinity(), std::numeric_limits<T>::quiet_NaN()};
    return z;
}

bool is_snan(T x) { return fp::is_nan(x) && (fp::mant(x) & (MTOP >> 1)) == 0; }
T quiet(T x) { return is_snan(x) ? fp::from_bits<T>(fp::bits(x) | (MTOP >> 1)) : x; }

enum Kind { EX, EXS, AP };

struct Ctx {
    char const* subject;
    char const* op;
    std::uint64_t bound = 0;
    std::uint64_t n     = 0;
    std::uint64_t skipped = 0;
    std::uint64_t maxulp = 0;
    T mx{}, my{}, mz{};
    bool three = false;
};

void crumb2(Ctx const& c, T x, T y)
{
    char sit[96], a[96], b[96];
    fp::pair_class(sit, sizeof sit, x, y);
    fp::show(a, sizeof a, x);
    fp::show(b, sizeof b, y);
    vf::crumb(c.subject, c.op, sit, "x=%s y=%s", a, b);
}
void crumb3(Ctx const& c, char const* sit, T x, T y, T z)
{
    char a[96], b[96], d[96];
    fp::show(a, sizeof a, x);
    fp::show(b, sizeof b, y);
    fp::show(d, sizeof d, z);
    vf::crumb(c.subject, c.op, sit, "x=%s y=%s z=%s", a, b, d);
}
void report(T obs, T exp, char const* sym)
{
    char o[96], e[96];
    fp::show(o, sizeof o, obs);
    fp::show(e, sizeof e, exp);
    vf::diverge(sym, o, e);
}
#if VF_ASAN
    #define PRE2(c, x, y)         crumb2(c, x, y)
    #define PRE3(c, sit, x, y, z) crumb3(c, sit, x, y, z)
    #define LATE3(c, sit, x, y, z) ((void)0)
#else
    #define PRE2(c, x, y)         ((void)0)
    #define PRE3(c, sit, x, y, z) ((void)0)
    #define LATE3(c, sit, x, y, z) crumb3(c, sit, x, y, z) // breadcrumb written only when something is reported
#endif

// ---- (T,T)->T exact
template <typename FE, typename FR>
[[gnu::always_inline]] inline void check_exact2(Ctx& c, T x, T y, bool nansign, FE fe, FR fr)
{
    T const r = fr(fp::launder(x), fp::launder(y));
    PRE2(c, x, y);
    T const g = fe(fp::launder(x), fp::launder(y));
    ++c.n;
    if (fp::bits(r) != fp::bits(g)) [[unlikely]] {
        char const* sym = fp::exact_symptom(g, r, x, nansign);
        if (sym && (is_snan(x) || is_snan(y))) {
            T const r2 = fr(quiet(x), quiet(y));
            if (!fp::exact_symptom(g, r2, x, nansign)) { sym = nullptr; }
        }
        if (sym) {
            crumb2(c, x, y);
            report(g, r, sym);
        }
    }
}
// ---- (T,T)->T approximate
template <typename FE, typename FR>
[[gnu::always_inline]] inline void check_approx2(Ctx& c, T x, T y, FE fe, FR fr)
{
    T const r = fr(fp::launder(x), fp::launder(y));
    PRE2(c, x, y);
    T const g = fe(fp::launder(x), fp::launder(y));
    ++c.n;
    if (fp::bits(r) != fp::bits(g)) [[unlikely]] {
        char buf[64];
        std::uint64_t ulps = 0;
        char const* sym    = fp::approx_symptom(g, r, c.bound, &ulps, buf, sizeof buf);
        if (sym && (is_snan(x) || is_snan(y))) {
            T const r2 = fr(quiet(x), quiet(y));
            std::uint64_t u2 = 0;
            char b2[64];
            if (!fp::approx_symptom(g, r2, c.bound, &u2, b2, sizeof b2)) { sym = nullptr; }
        }
        if (ulps > c.maxulp) {
            c.maxulp = ulps;
            c.mx     = x;
            c.my     = y;
        }
        if (sym) {
            crumb2(c, x, y);
            report(g, r, sym);
        }
    }
}

// ---------------------------------------------------------------- function table
struct Fn {
    char const* subject;
    char const* op;
    bool reduced;
    bool three;
    void (*pair)(Ctx&, T, T); // evaluates the function at (x, y) [and every z for three-argument functions]
};

template <typename F>
void for_z(F f)
{
    for (T z : zlist()) { f(z); }
}

// ---- special oracles
// beta: domain x, y in [2^-4, 16]; reference computed one precision up (libstdc++'s own beta works in T)
bool beta_domain(T x, T y) { return x >= T(0.0625) && x <= T(16) && y >= T(0.0625) && y <= T(16); }
T beta_ref(T x, T y) { return (T)std::beta((W)x, (W)y); }

// pow(x, int): exponent exactly representable in T so that the library's conversion is not the subject
int const kIntExps[] = {0, 1, -1, 2, -2, 3, -3, 4, 5, 7, 8, 10, -10, 16, 31, 32, 33, 63, 64, 100, -100, 127, 128, 149, -149, 150, 1000, 1023,
    1024, -1074, -1075, 65535, 1 << 20, -(1 << 20), (1 << 24) - 1, 1 << 24, -(1 << 24)};
char const* int_class(int n)
{
    if (n == 0) { return "n=0"; }
    if (n == 1 || n == -1) { return n > 0 ? "n=1" : "n=-1"; }
    bool odd = (n & 1) != 0;
    if (n > 0) { return odd ? "n>1,odd" : "n>1,even"; }
    return odd ? "n<-1,odd" : "n<-1,even";
}
void pow_int_row(Ctx& c, T x, T /*y*/)
{
    for (int n : kIntExps) {
        T const r = (T)std::pow((W)fp::launder(x), (W)n);
        char sit[96];
        std::snprintf(sit, sizeof sit, "%s,%s", fp::coarse_class(x), int_class(n));
        char a[96];
        fp::show(a, sizeof a, x);
        vf::crumb(c.subject, c.op, sit, "x=%s n=%d", a, n);
        T const g = etl::pow(fp::launder(x), n);
        ++c.n;
        if (fp::bits(r) != fp::bits(g)) {
            char buf[64];
            std::uint64_t ulps = 0;
            char const* sym    = fp::approx_symptom(g, r, c.bound, &ulps, buf, sizeof buf);
            if (sym && is_snan(x)) { sym = nullptr; } // pow(sNaN, 0): implementation-defined
            if (ulps > c.maxulp) {
                c.maxulp = ulps;
                c.mx     = x;
                c.my     = T(n);
            }
            if (sym) { report(g, r, sym); }
        }
    }
}

// hypot(x,y,z): C++17 [c.math.hypot3]; inf beats NaN (as for the two-argument form, C Annex F.10.4.3)
char const* h3_class(T x, T y, T z, char* buf, std::size_t cap)
{
    std::snprintf(buf, cap, "%s,%s,%s", fp::coarse_class(x), fp::coarse_class(y), fp::coarse_class(z));
    return buf;
}
void hypot3_row(Ctx& c, T x, T y)
{
    for_z([&](T z) {
        char sit[128];
        h3_class(x, y, z, sit, sizeof sit);
        PRE3(c, sit, x, y, z);
        T const g = etl::hypot(fp::launder(x), fp::launder(y), fp::launder(z));
        ++c.n;
        bool const any_inf = fp::is_inf(x) || fp::is_inf(y) || fp::is_inf(z);
        bool const any_nan = fp::is_nan(x) || fp::is_nan(y) || fp::is_nan(z);
        if (any_inf) {
            if (!(fp::is_inf(g) && !fp::sign(g))) {
                char b[64];
                std::snprintf(b, sizeof b, "class-differs:%s-for-inf", fp::res_class(g));
                LATE3(c, sit, x, y, z), report(g, std::numeric_limits<T>::infinity(), b);
            }
            return;
        }
        if (any_nan) {
            if (!fp::is_nan(g)) {
                char b[64];
                std::snprintf(b, sizeof b, "class-differs:%s-for-nan", fp::res_class(g));
                LATE3(c, sit, x, y, z), report(g, std::numeric_limits<T>::quiet_NaN(), b);
            }
            return;
        }
        T const r = std::hypot(fp::launder(x), fp::launder(y), fp::launder(z));
        if (fp::bits(r) != fp::bits(g)) {
            char buf[64];
            std::uint64_t ulps = 0;
            char const* sym    = fp::approx_symptom(g, r, c.bound, &ulps, buf, sizeof buf);
            if (ulps > c.maxulp) {
                c.maxulp = ulps;
                c.mx = x, c.my = y, c.mz = z;
            }
            if (sym) { LATE3(c, sit, x, y, z), report(g, r, sym); }
        }
    });
}

// fma: exact
void fma_row(Ctx& c, T x, T y)
{
    for_z([&](T z) {
        char sit[128];
        h3_class(x, y, z, sit, sizeof sit);
        T const r = std::fma(fp::launder(x), fp::launder(y), fp::launder(z));
        PRE3(c, sit, x, y, z);
        T const g = etl::fma(fp::launder(x), fp::launder(y), fp::launder(z));
        ++c.n;
        if (fp::bits(r) != fp::bits(g)) {
            char const* sym = fp::exact_symptom(g, r, x, false);
            if (sym && (is_snan(x) || is_snan(y) || is_snan(z))) { sym = nullptr; }
            if (sym) { LATE3(c, sit, x, y, z), report(g, r, sym); }
        }
    });
}

// lerp(a, b, t): documented guarantees for finite arguments (cppreference / [c.math.lerp]):
//   lerp(a,b,0) == a, lerp(a,b,1) == b (exact), a == b -> result == a, monotone in t, and (this framework's
//   tolerance part) within the committed bound of libstdc++'s std::lerp wherever that is finite.
int cmp3(T a, T b) { return (a > b) - (a < b); }
void lerp_row(Ctx& c, T a, T b)
{
    if (!fp::is_finite(a) || !fp::is_finite(b)) {
        ++c.skipped;
        return;
    }
    char const* rel = a == b ? "a=b" : (((a <= 0 && b >= 0) || (a >= 0 && b <= 0)) ? "opposite-signs-or-zero" : "same-sign");
    bool have_prev = false;
    T prev_t{}, prev_g{};
    for_z([&](T t) {
        if (!fp::is_finite(t)) { return; }
        char const* tc = t == 0 ? "t=0" : (t == 1 ? "t=1" : (t < 0 ? "t<0" : (t < 1 ? "0<t<1" : "t>1")));
        char sit[96];
        std::snprintf(sit, sizeof sit, "%s,%s", rel, tc);
        T const r = std::lerp(fp::launder(a), fp::launder(b), fp::launder(t));
        PRE3(c, sit, a, b, t);
        T const g = etl::lerp(fp::launder(a), fp::launder(b), fp::launder(t));
        ++c.n;
        if (t == 0 && !(g == a)) { LATE3(c, sit, a, b, t), report(g, a, "exactness:t=0-not-a"); }
        if (t == 1 && !(g == b)) { LATE3(c, sit, a, b, t), report(g, b, "exactness:t=1-not-b"); }
        if (a == b && !(g == a)) { LATE3(c, sit, a, b, t), report(g, a, "consistency:a=b-not-a"); }
        if (fp::is_finite(g) && have_prev && fp::is_finite(prev_g)) {
            // monotonicity: CMP(lerp(t2), lerp(t1)) * CMP(t2, t1) * CMP(b, a) >= 0
            if (cmp3(g, prev_g) * cmp3(t, prev_t) * cmp3(b, a) < 0) { LATE3(c, sit, a, b, t), report(g, prev_g, "monotonicity"); }
        }
        have_prev = true;
        prev_t    = t;
        prev_g    = g;
        if (fp::bits(r) != fp::bits(g)) {
            char buf[64];
            std::uint64_t ulps = 0;
            char const* sym    = fp::approx_symptom(g, r, c.bound, &ulps, buf, sizeof buf);
            if (ulps > c.maxulp) {
                c.maxulp = ulps;
                c.mx = a, c.my = b, c.mz = t;
            }
            if (sym) { LATE3(c, sit, a, b, t), report(g, r, sym); }
        }
    });
}

#if !VF_T_IS_FLOAT
void beta_pair(Ctx& c, T x, T y)
{
    if (!beta_domain(x, y)) {
        ++c.skipped;
        return;
    }
    check_approx2(
        c, x, y, [](T a, T b) { return (T)etl::beta(a, b); }, [](T a, T b) { return beta_ref(a, b); });
}
#else
void betaf_pair(Ctx& c, T x, T y)
{
    if (!beta_domain(x, y)) {
        ++c.skipped;
        return;
    }
    check_approx2(
        c, x, y, [](T a, T b) { return etl::betaf(a, b); }, [](T a, T b) { return beta_ref(a, b); });
}
#endif

#define F_EX(NAME, OPSTR, RED, NANSIGN, EEXPR, REXPR)                                                                  \
    Fn{NAME "<" VF_T_NAME ">", OPSTR, RED, false, [](Ctx& c, T x, T y) {                                               \
           check_exact2(c, x, y, NANSIGN, [](T a, T b) { return EEXPR; }, [](T a, T b) { return REXPR; });             \
       }},
#define F_AP(NAME, OPSTR, RED, EEXPR, REXPR)                                                                           \
    Fn{NAME "<" VF_T_NAME ">", OPSTR, RED, false, [](Ctx& c, T x, T y) {                                               \
           check_approx2(c, x, y, [](T a, T b) { return EEXPR; }, [](T a, T b) { return REXPR; });                     \
       }},
#define EXM(NAME, NS) F_EX(#NAME, #NAME "(" VF_T_NAME "," VF_T_NAME ")", false, NS, etl::NAME(a, b), std::NAME(a, b))
#define APM(NAME) F_AP(#NAME, #NAME "(" VF_T_NAME "," VF_T_NAME ")", false, etl::NAME(a, b), std::NAME(a, b))
#define EXF(NAME, NS) F_EX(#NAME, #NAME "f(float,float)", true, NS, etl::NAME##f(a, b), std::NAME(a, b))
#define APF(NAME) F_AP(#NAME, #NAME "f(float,float)", true, etl::NAME##f(a, b), std::NAME(a, b))

Fn const kFns[] = {
    EXM(copysign, true) EXM(nextafter, false) EXM(fmin, false) EXM(fmax, false) EXM(fdim, false) EXM(fmod, false)
    EXM(remainder, false) EXM(midpoint, false)
    APM(atan2) APM(hypot) APM(pow)
#if VF_T_IS_FLOAT
    Fn{"beta<float>", "betaf(float,float)", false, false, betaf_pair},
#else
    Fn{"beta<double>", "beta(double,double)", false, false, beta_pair},
#endif
    Fn{"pow_int<" VF_T_NAME ">", "pow(" VF_T_NAME ",int)", false, true, pow_int_row},
    Fn{"hypot3<" VF_T_NAME ">", "hypot(" VF_T_NAME "," VF_T_NAME "," VF_T_NAME ")", false, true, hypot3_row},
    Fn{"fma<" VF_T_NAME ">", "fma(" VF_T_NAME "," VF_T_NAME "," VF_T_NAME ")", false, true, fma_row},
    Fn{"lerp<" VF_T_NAME ">", "lerp(" VF_T_NAME "," VF_T_NAME "," VF_T_NAME ")", false, true, lerp_row},
#if VF_T_IS_FLOAT
    EXF(copysign, true) EXF(nextafter, false) EXF(fmin, false) EXF(fmax, false) EXF(fdim, false) EXF(fmod, false)
    EXF(remainder, false) APF(atan2) APF(hypot) APF(pow)
    Fn{"fma<float>", "fmaf(float,float,float)", true, true,
        [](Ctx& c, T x, T y) {
            for_z([&](T z) {
                char sit[128];
                h3_class(x, y, z, sit, sizeof sit);
                T const r = std::fma(fp::launder(x), fp::launder(y), fp::launder(z));
                PRE3(c, sit, x, y, z);
                T const g = etl::fmaf(fp::launder(x), fp::launder(y), fp::launder(z));
                ++c.n;
                if (fp::bits(r) != fp::bits(g)) {
                    char const* sym = fp::exact_symptom(g, r, x, false);
                    if (sym && (is_snan(x) || is_snan(y) || is_snan(z))) { sym = nullptr; }
                    if (sym) { LATE3(c, sit, x, y, z), report(g, r, sym); }
                }
            });
        }},
#endif
};
constexpr unsigned NF = sizeof kFns / sizeof kFns[0];

bool is_approx_subject(char const* s)
{
    for (char const* p : {"atan2<", "hypot<", "pow<", "beta<", "pow_int<", "hypot3<", "lerp<"}) {
        if (std::strncmp(s, p, std::strlen(p)) == 0) { return true; }
    }
    return false;
}

unsigned random_cases_per_fn(vf::Tier t)
{
    if (VF_ASAN) { return 4; }
    return t == vf::Tier::thorough ? 153 : 16;
}
unsigned random_per_case(vf::Tier t, Fn const& f)
{
    unsigned n = VF_ASAN ? 512 : (t == vf::Tier::thorough ? 65536 : 8192);
    if (f.reduced) { n = 512; }
    if (f.three) { n /= 16; } // each pair is combined with the whole z list
    return n;
}

vf::Spec spec(vf::Tier t)
{
    vf::Spec s;
    s.n_enum     = (std::uint64_t)NF * grid().size();
    s.n_random   = (std::uint64_t)NF * random_cases_per_fn(t);
    s.batch      = VF_ASAN ? 256 : 16; // forking an ASan process is expensive
    s.timeout_s  = 900;
    s.exhaustive = true;
    return s;
}

void random_pair(vf::Rng& r, T& x, T& y)
{
    auto const& g = grid();
    x             = fp::from_bits<T>(random_pattern(r));
    switch (r.below(8)) {
    case 0:
    case 1: y = fp::from_bits<T>(random_pattern(r)); break;
    case 2: { // a few ulps away
        auto d = (std::int64_t)r.range(-4, 4);
        y      = fp::from_bits<T>((U)(fp::bits(x) + (U)d));
        break;
    }
    case 3: y = make(r.coin(), fp::biased_exp(x), (U)r.next()); break;               // same exponent
    case 4: y = g[r.below(g.size())]; break;                                             // boundary value
    case 5: y = x * T((int)r.range(-9, 9)); break;                                       // small integer multiple
    case 6: y = make(r.coin(), (unsigned)r.range(BIAS - 3, BIAS + 3), (U)r.next()); break; // |y| ~ 1
    default: {
        int de = (int)r.range(-3, 3);
        int e  = (int)fp::biased_exp(x) + de;
        e      = e < 0 ? 0 : (e > (int)NEXP - 1 ? (int)NEXP - 1 : e);
        y      = make(r.coin(), (unsigned)e, (U)r.next());
        break;
    }
    }
    if (r.chance(1, 2)) { std::swap(x, y); }
}

void run_case(vf::Case& c)
{
    auto const& g = grid();
    unsigned f;
    Ctx x{};
    std::uint64_t h;
    bool row = c.enumerated;
    std::uint64_t i = 0;
    if (c.enumerated) {
        f = (unsigned)(c.index / g.size());
        i = c.index % g.size();
        h = vf::mix(c.index, 0xB16);
    } else {
        f = (unsigned)(c.index / random_cases_per_fn(c.tier));
        h = vf::mix(c.index, vf::g().seed);
    }
    Fn const& fn = kFns[f];
    x.subject    = fn.subject;
    x.op         = fn.op;
    x.three      = fn.three;
    if (is_approx_subject(fn.subject) && !need_bound(fn.subject, fn.op, &x.bound)) { return; }
    if (row) {
        T const xv = g[i];
        vf::crumb(x.subject, x.op, fp::coarse_class(xv), "grid row %llu", (unsigned long long)i);
        if (fn.pair == pow_int_row) {
            fn.pair(x, xv, T(0));
        } else if (fn.reduced) {
            for (std::size_t j = (std::size_t)(i % 4); j < g.size(); j += 4) { fn.pair(x, xv, g[j]); }
        } else if (VF_ASAN) {
            // sanitizer stratum: every row, every 4th (three-argument functions: 16th) column, rotating with the row
            std::size_t const st = fn.three ? 16 : 4;
            for (std::size_t j = (std::size_t)(i % st); j < g.size(); j += st) { fn.pair(x, xv, g[j]); }
        } else {
            for (T yv : g) { fn.pair(x, xv, yv); }
        }
    } else {
        unsigned const n = random_per_case(c.tier, fn);
        vf::crumb(x.subject, x.op, "random", "%u seeded pairs", n);
        for (unsigned k = 0; k < n; ++k) {
            T a, b;
            random_pair(c.rng, a, b);
            fn.pair(x, a, b);
        }
    }
    fp::cover_block(x.op, x.n, h, row ? x.n : 0);
    if (vf::want_sample(x.op)) {
        char a[96];
        fp::show(a, sizeof a, row ? g[i] : T(0));
        vf::sample(x.op, "%s: %s: %llu argument tuples compared, %llu outside the committed domain", x.subject,
            row ? a : "seeded random pairs", (unsigned long long)x.n, (unsigned long long)x.skipped);
    }
    if (x.maxulp) {
        char a[96], b[96], d[96], at[320];
        fp::show(a, sizeof a, x.mx);
        fp::show(b, sizeof b, x.my);
        fp::show(d, sizeof d, x.mz);
        std::snprintf(at, sizeof at, "x=%s y=%s z=%s", a, b, d);
        note_maxulp(x.subject, x.maxulp, at);
    }
}
} // namespace

VF_MAIN("C16", "C16_binary_" VF_T_NAME, spec, run_case)
