// C13_kern.cpp - scripted kernels: a fixed operation sequence over a container / string / view / algorithm that
// returns a digest; the compiler evaluates the kernel on every row of an input table as a constexpr initialiser,
// the harness evaluates it again at run time on laundered copies of the same rows and compares the digests.
// -DC13_GRP=
//   0 algorithms A (non-modifying + searching + sorted-range queries)
//   1 algorithms B (modifying, sorting, partitioning, set operations, numeric)
//   2 static_vector<int,8>, inplace_vector<int,8>, array<int,8>, span<int>
//   3 inplace_string<15>, string_view
//   4 bitset<13>/<64>/<70>, optional<int>, pair/tuple, static_set<int,8>, flat_set
#include "vf.hpp"
#include "vf_contract.hpp"

#include "vf_c13.hpp"

#include <etl/algorithm.hpp>
#include <etl/array.hpp>
#include <etl/bitset.hpp>
#include <etl/functional.hpp>
#include <etl/inplace_vector.hpp>
#include <etl/iterator.hpp>
#include <etl/numeric.hpp>
#include <etl/optional.hpp>
#include <etl/set.hpp>
#include <etl/span.hpp>
#include <etl/string.hpp>
#include <etl/string_view.hpp>
#include <etl/tuple.hpp>
#include <etl/utility.hpp>
#include <etl/vector.hpp>

#ifndef C13_GRP
    #define C13_GRP 0
#endif

namespace {
using namespace c13;

// =================================================================== inputs
struct KArg {
    int a[8];
    int n; // number of valid elements, 0..8
    int k; // parameter: value searched / pivot / rotation / count
};
constexpr auto kern_inputs()
{
    struct Row {
        int a[8];
        int n;
    };
    constexpr Row rows[] = {
        {{0, 0, 0, 0, 0, 0, 0, 0}, 0},
        {{5, 0, 0, 0, 0, 0, 0, 0}, 1},
        {{1, 2, 0, 0, 0, 0, 0, 0}, 2},
        {{2, 1, 0, 0, 0, 0, 0, 0}, 2},
        {{3, 3, 0, 0, 0, 0, 0, 0}, 2},
        {{1, 2, 3, 0, 0, 0, 0, 0}, 3},
        {{3, 2, 1, 0, 0, 0, 0, 0}, 3},
        {{2, 3, 1, 0, 0, 0, 0, 0}, 3},
        {{1, 1, 2, 2, 3, 3, 0, 0}, 6},
        {{1, 2, 3, 4, 5, 6, 7, 8}, 8},
        {{8, 7, 6, 5, 4, 3, 2, 1}, 8},
        {{4, 4, 4, 4, 4, 4, 4, 4}, 8},
        {{1, 3, 5, 7, 2, 4, 6, 8}, 8},
        {{2, 4, 6, 8, 1, 3, 5, 7}, 8},
        {{-3, 7, 0, -3, 9, 2, 2, -8}, 8},
        {{5, 1, 4, 1, 5, 9, 2, 6}, 8},
        {{3, 1, 4, 1, 5, 0, 0, 0}, 5},
        {{1, 2, 2, 2, 3, 3, 4, 0}, 7},
        {{-2147483647 - 1, 2147483647, 0, -1, 1, 0, 0, 0}, 5},
        {{9, 8, 9, 8, 9, 8, 9, 0}, 7},
        {{1, 2, 1, 2, 3, 1, 2, 3}, 8},
        {{0, 0, 1, 0, 0, 1, 1, 1}, 8},
    };
    constexpr int ks[] = {0, 1, 2, 3, 4, 8, -3};
    constexpr std::size_t NR = sizeof rows / sizeof rows[0], NK = sizeof ks / sizeof ks[0];
    std::array<KArg, NR * NK> r{};
    for (std::size_t i = 0; i < NR; ++i) {
        for (std::size_t j = 0; j < NK; ++j) {
            for (int e = 0; e < 8; ++e) { r[i * NK + j].a[e] = rows[i].a[e]; }
            r[i * NK + j].n = rows[i].n;
            r[i * NK + j].k = ks[j];
        }
    }
    return r;
}
inline constexpr auto tabK = kern_inputs();

struct ClsK {
    static char const* sit(KArg const& p)
    {
        static char buf[96];
        bool asc = true, desc = true, dup = false, present = false;
        for (int i = 0; i < p.n; ++i) {
            if (i > 0 && p.a[i - 1] > p.a[i]) { asc = false; }
            if (i > 0 && p.a[i - 1] < p.a[i]) { desc = false; }
            for (int j = 0; j < i; ++j) { dup |= p.a[i] == p.a[j]; }
            present |= p.a[i] == p.k;
        }
        char const* sz = p.n == 0 ? "empty" : p.n == 1 ? "one" : p.n == 8 ? "full" : "some";
        char const* od = p.n < 2 ? "trivial-order" : (asc && desc) ? "all-equal" : asc ? "ascending" : desc ? "descending" : "unordered";
        char const* kc = p.k < 0 ? "k<0" : p.k == 0 ? "k=0" : p.k < p.n ? "0<k<n" : p.k == p.n ? "k=n" : "k>n";
        std::snprintf(buf, sizeof buf, "%s,%s,%s,%s,%s", sz, od, dup ? "dups" : "distinct", kc, present ? "k-present" : "k-absent");
        return buf;
    }
    static std::string show(KArg const& p)
    {
        std::string s = "{";
        for (int i = 0; i < p.n; ++i) { s += (i ? "," : "") + std::to_string(p.a[i]); }
        return s + "} k=" + std::to_string(p.k);
    }
    static std::uint64_t hash(KArg const& p) { return vf::fnv_bytes(&p, sizeof p); }
    static void const* arg0(KArg const&) { return nullptr; }
};

// digest helpers (constexpr)
struct Acc {
    std::uint64_t h = 0xcbf29ce484222325ull;
    constexpr void add(long long v) { h = (h ^ static_cast<std::uint64_t>(v)) * 0x100000001b3ull + 0x9E37ull; }
    template <typename It>
    constexpr void range(It f, It l)
    {
        add(0x7777);
        for (; f != l; ++f) { add(static_cast<long long>(*f)); }
    }
};
using D2 = Digest<2>;
constexpr bool is_odd(int x) { return (x & 1) != 0; }
constexpr bool lt3(int x) { return x < 3; }

// kernel skeleton: v = copy of the row, [v, v+n) valid, 8 slots of room; w = scratch output of 16
#define KERNEL(ID, NAME, DOMAIN, ...)                                                                                   \
    struct ID {                                                                                                        \
        static constexpr char const* name = NAME;                                                                      \
        static bool in_domain(KArg const& p)                                                                           \
        {                                                                                                              \
            [[maybe_unused]] int const n = p.n, k = p.k;                                                               \
            return DOMAIN;                                                                                             \
        }                                                                                                              \
        constexpr auto operator()(KArg const& p) const                                                                 \
        {                                                                                                              \
            int v[8] = {p.a[0], p.a[1], p.a[2], p.a[3], p.a[4], p.a[5], p.a[6], p.a[7]};                               \
            int w[16]{};                                                                                               \
            [[maybe_unused]] int const n = p.n, k = p.k;                                                               \
            [[maybe_unused]] int* const b = v;                                                                         \
            [[maybe_unused]] int* const e = v + n;                                                                     \
            long long ret = 0;                                                                                         \
            __VA_ARGS__;                                                                                                   \
            Acc acc;                                                                                                   \
            acc.range(v, v + 8);                                                                                       \
            acc.range(w, w + 16);                                                                                      \
            return D2{{acc.h, static_cast<std::uint64_t>(ret)}};                                                       \
        }                                                                                                              \
    };

// ---- group 0: non-modifying
KERNEL(K_all_any_none, "all_of/any_of/none_of", true, ret = (etl::all_of(b, e, is_odd) ? 1 : 0) | (etl::any_of(b, e, is_odd) ? 2 : 0) | (etl::none_of(b, e, is_odd) ? 4 : 0))
KERNEL(K_for_each, "for_each/for_each_n", k >= 0 && k <= n, { long long s = 0; etl::for_each(b, e, [&s](int x) { s = s * 3 + x % 100; }); auto it = etl::for_each_n(b, k, [](int& x) { x = x / 2; }); ret = s * 16 + (it - b); })
KERNEL(K_count, "count/count_if", true, ret = etl::count(b, e, k) * 100 + etl::count_if(b, e, is_odd))
KERNEL(K_find, "find/find_if/find_if_not", true, ret = (etl::find(b, e, k) - b) * 100 + (etl::find_if(b, e, is_odd) - b) * 10 + (etl::find_if_not(b, e, is_odd) - b))
KERNEL(K_find_end, "find_end/find_first_of/search", true, { int const pat[2] = {1, 2}; ret = (etl::find_end(b, e, pat, pat + 2) - b) * 100 + (etl::find_first_of(b, e, pat, pat + 2) - b) * 10 + (etl::search(b, e, pat, pat + 2) - b); })
KERNEL(K_search_n, "search_n", k >= 0, ret = (etl::search_n(b, e, k, 4) - b) * 10 + (etl::search_n(b, e, 2, 2) - b))
KERNEL(K_adjacent_find, "adjacent_find", true, ret = (etl::adjacent_find(b, e) - b) * 10 + (etl::adjacent_find(b, e, etl::greater<int>{}) - b))
KERNEL(K_mismatch_equal, "mismatch/equal", true, { int const o[8] = {1, 2, 3, 4, 5, 6, 7, 8}; auto m = etl::mismatch(b, e, o, o + 8); ret = (m.first - b) * 100 + (m.second - o) * 10 + (etl::equal(b, e, o, o + n) ? 1 : 0) + (etl::equal(b, e, b) ? 2 : 0); })
KERNEL(K_lexcmp, "lexicographical_compare", true, { int const o[4] = {1, 2, 3, 4}; ret = (etl::lexicographical_compare(b, e, o, o + 4) ? 1 : 0) + (etl::lexicographical_compare(o, o + 4, b, e) ? 2 : 0) + (etl::lexicographical_compare(b, e, b, e) ? 4 : 0); })
KERNEL(K_is_sorted, "is_sorted/is_sorted_until", true, ret = (etl::is_sorted(b, e) ? 1 : 0) + (etl::is_sorted(b, e, etl::greater<int>{}) ? 2 : 0) + (etl::is_sorted_until(b, e) - b) * 10)
KERNEL(K_is_partitioned, "is_partitioned/partition_point", true, { bool const ip = etl::is_partitioned(b, e, lt3); ret = ip ? 100 + (etl::partition_point(b, e, lt3) - b) : 0; })
KERNEL(K_is_permutation, "is_permutation", true, { int const o[8] = {8, 7, 6, 5, 4, 3, 2, 1}; ret = (etl::is_permutation(b, e, o) ? 1 : 0) + (etl::is_permutation(b, e, o, o + n) ? 2 : 0) + (etl::is_permutation(b, e, b, e) ? 4 : 0); })
KERNEL(K_bounds, "lower_bound/upper_bound/equal_range/binary_search", true, { etl::sort(b, e); auto er = etl::equal_range(b, e, k); ret = (etl::lower_bound(b, e, k) - b) * 1000 + (etl::upper_bound(b, e, k) - b) * 100 + (er.first - b) * 10 + (er.second - b) + (etl::binary_search(b, e, k) ? 10000 : 0); })
KERNEL(K_minmax_element, "min_element/max_element/minmax_element", true, { auto mm = etl::minmax_element(b, e); ret = (etl::min_element(b, e) - b) * 1000 + (etl::max_element(b, e) - b) * 100 + (mm.first - b) * 10 + (mm.second - b); })
KERNEL(K_minmax, "min/max/minmax/clamp", true, { auto mm = etl::minmax(p.a[0], k); ret = (long long)etl::min(p.a[0], k) * 7 + (long long)etl::max(p.a[1], k) * 5 + mm.first % 100 + mm.second % 10 + etl::clamp(p.a[2], -1, 4); })
KERNEL(K_includes, "includes", true, { etl::sort(b, e); int const o[3] = {1, 2, 3}; ret = (etl::includes(b, e, o, o + 3) ? 1 : 0) + (etl::includes(o, o + 3, b, e) ? 2 : 0) + (etl::includes(b, e, b, b) ? 4 : 0); })
KERNEL(K_accumulate, "accumulate/reduce/inner_product/transform_reduce", true, { int const o[8] = {1, 0, -1, 2, 0, -2, 3, 0}; for (int i = 0; i < n; ++i) { v[i] %= 1000; } ret = (long long)etl::accumulate(b, e, 0) * 3 + (long long)etl::reduce(b, e, 0) + (long long)etl::inner_product(b, e, o, 1) * 7 + (long long)etl::transform_reduce(b, e, o, 2) * 11 + (long long)etl::accumulate(b, e, 1, [](int x, int y) { return (x * 3 + y) % 1009; }); })

// ---- group 1: modifying
KERNEL(K_copy, "copy/copy_n/copy_if/copy_backward", k >= 0 && k <= n, { ret = (etl::copy(b, e, w) - w); ret = ret * 10 + (etl::copy_n(b, k, w + 8) - (w + 8)); ret = ret * 10 + (etl::copy_if(b, e, w + 4, is_odd) - (w + 4)); etl::copy_backward(b, b + k, w + 16); })
KERNEL(K_move, "move/move_backward", k >= 0 && k <= n, { ret = (etl::move(b, e, w) - w) * 10; ret += (etl::move_backward(b, b + k, w + 16) - w); })
KERNEL(K_fill, "fill/fill_n/generate/generate_n", k >= 0 && k <= 8, { etl::fill(b, e, k); auto it = etl::fill_n(w, k, 9); ret = it - w; int c = 0; etl::generate(w + 8, w + 12, [&c] { return ++c; }); etl::generate_n(w + 12, 2, [&c] { return c += 2; }); })
KERNEL(K_transform, "transform", true, { ret = (etl::transform(b, e, w, [](int x) { return x % 100 * 2; }) - w) * 10; ret += etl::transform(b, e, w, w + 8, [](int x, int y) { return x % 50 - y % 50; }) - (w + 8); })
KERNEL(K_replace, "replace/replace_if", true, { etl::replace(b, e, k, 42); etl::replace_if(b, e, is_odd, -1); })
KERNEL(K_remove, "remove/remove_if/remove_copy/remove_copy_if", true, { ret = (etl::remove_copy(b, e, w, k) - w) * 1000 + (etl::remove_copy_if(b, e, w + 8, is_odd) - (w + 8)) * 100; auto r1 = etl::remove(b, e, k); ret += (r1 - b) * 10; Acc a; a.range(b, r1); auto r2 = etl::remove_if(b, r1, is_odd); a.range(b, r2); ret += (r2 - b); ret = ret * 1000003 + (long long)(a.h % 1000003); for (int i = 0; i < 8; ++i) { v[i] = 0; } })
KERNEL(K_unique, "unique/unique_copy", true, { ret = (etl::unique_copy(b, e, w) - w) * 10; auto u = etl::unique(b, e); ret += u - b; Acc a; a.range(b, u); ret = ret * 1000003 + (long long)(a.h % 1000003); for (int i = 0; i < 8; ++i) { v[i] = 0; } })
KERNEL(K_reverse, "reverse/reverse_copy", true, { ret = etl::reverse_copy(b, e, w) - w; etl::reverse(b, e); })
KERNEL(K_rotate, "rotate/rotate_copy", k >= 0 && k <= n, { ret = (etl::rotate_copy(b, b + k, e, w) - w) * 10; ret += etl::rotate(b, b + k, e) - b; })
KERNEL(K_shift, "shift_left/shift_right", k >= 0, { int u[8] = {v[0], v[1], v[2], v[3], v[4], v[5], v[6], v[7]}; auto l = etl::shift_left(b, e, k); Acc a; a.range(b, l); ret = (l - b) * 10; auto r = etl::shift_right(u, u + n, k); a.range(r, u + n); ret += (r - u); ret = ret * 1000003 + (long long)(a.h % 1000003); for (int i = 0; i < 8; ++i) { v[i] = 0; } })
KERNEL(K_swap_ranges, "swap_ranges/iter_swap", true, { for (int i = 0; i < 16; ++i) { w[i] = 100 + i; } ret = etl::swap_ranges(b, e, w) - w; if (n >= 2) { etl::iter_swap(b, e - 1); } })
KERNEL(K_partition, "partition/stable_partition", true, { int u[8] = {v[0], v[1], v[2], v[3], v[4], v[5], v[6], v[7]}; auto pp = etl::partition(b, e, lt3); ret = (pp - b) * 10; etl::sort(b, pp); etl::sort(pp, e); auto sp = etl::stable_partition(u, u + n, lt3); ret += sp - u; etl::copy(u, u + n, w); })
KERNEL(K_sort, "sort/stable_sort/partial_sort/nth_element", k >= 0 && k <= n, { int u[8] = {v[0], v[1], v[2], v[3], v[4], v[5], v[6], v[7]}; etl::sort(b, e); etl::stable_sort(u, u + n, etl::greater<int>{}); etl::copy(u, u + n, w); int t[8] = {p.a[0], p.a[1], p.a[2], p.a[3], p.a[4], p.a[5], p.a[6], p.a[7]}; etl::partial_sort(t, t + k, t + n); etl::copy(t, t + k, w + 8); int q[8] = {p.a[0], p.a[1], p.a[2], p.a[3], p.a[4], p.a[5], p.a[6], p.a[7]}; if (k < n) { etl::nth_element(q, q + k, q + n); ret = q[k]; } })
KERNEL(K_sorts2, "insertion_sort/bubble_sort/gnome_sort/merge_sort/exchange_sort", true, { int u[8] = {v[0], v[1], v[2], v[3], v[4], v[5], v[6], v[7]}; etl::insertion_sort(b, e); etl::bubble_sort(u, u + n); etl::copy(u, u + n, w); int t[8] = {p.a[0], p.a[1], p.a[2], p.a[3], p.a[4], p.a[5], p.a[6], p.a[7]}; etl::gnome_sort(t, t + n); etl::copy(t, t + n, w + 8); int q[8] = {p.a[0], p.a[1], p.a[2], p.a[3], p.a[4], p.a[5], p.a[6], p.a[7]}; etl::merge_sort(q, q + n); Acc a; a.range(q, q + n); int x[8] = {p.a[0], p.a[1], p.a[2], p.a[3], p.a[4], p.a[5], p.a[6], p.a[7]}; if (n > 0) { etl::exchange_sort(x, x + n); } a.range(x, x + n); ret = (long long)(a.h % 1000003); })
KERNEL(K_merge, "merge/inplace_merge", k >= 0 && k <= n, { etl::sort(b, b + k); etl::sort(b + k, e); int const o[4] = {0, 2, 2, 9}; ret = etl::merge(b, e - (e - (b + k)), o, o + 4, w) - w; etl::inplace_merge(b, b + k, e); })
KERNEL(K_setops, "set_union/set_intersection/set_difference/set_symmetric_difference", true, { etl::sort(b, e); int const o[5] = {1, 2, 2, 4, 9}; int u1[16]{}; int u2[16]{}; ret = (etl::set_union(b, e, o, o + 5, w) - w); ret = ret * 16 + (etl::set_intersection(b, e, o, o + 5, u1) - u1); ret = ret * 16 + (etl::set_difference(b, e, o, o + 5, u2) - u2); Acc a; a.range(u1, u1 + 16); a.range(u2, u2 + 16); int u3[16]{}; ret = ret * 16 + (etl::set_symmetric_difference(b, e, o, o + 5, u3) - u3); a.range(u3, u3 + 16); ret = ret * 1000003 + (long long)(a.h % 1000003); })
KERNEL(K_numeric, "iota/partial_sum/adjacent_difference", true, { for (int i = 0; i < n; ++i) { v[i] %= 1000; } ret = (etl::partial_sum(b, e, w) - w) * 10 + (etl::adjacent_difference(b, e, w + 8) - (w + 8)); etl::iota(b, e, k); })

// ---- group 2: sequence containers
template <typename Vec>
constexpr D2 vector_script(KArg const& p)
{
    Acc acc;
    Vec v;
    for (int i = 0; i < p.n; ++i) { v.push_back(p.a[i]); }
    acc.add(static_cast<long long>(v.size()));
    acc.add(v.empty() ? 1 : 0);
    acc.range(v.begin(), v.end());
    if (p.n > 0) {
        acc.add(v.front());
        acc.add(v.back());
        acc.add(v[static_cast<etl::size_t>(p.n / 2)]);
    }
    Vec c = v; // copy
    if (p.n < 8) {
        v.insert(v.begin() + p.n / 2, 77);
        acc.range(v.begin(), v.end());
        v.erase(v.begin() + p.n / 2);
    }
    if (p.n >= 2) {
        v.erase(v.begin(), v.begin() + 2);
        acc.range(v.begin(), v.end());
    }
    if (p.n >= 1) {
        c.pop_back();
        acc.range(c.begin(), c.end());
    }
    if (p.k >= 0 && p.k <= 8) {
        c.resize(static_cast<etl::size_t>(p.k));
        acc.range(c.begin(), c.end());
    }
    v.clear();
    acc.add(static_cast<long long>(v.size()));
    if (p.n >= 1) { v.assign(static_cast<etl::size_t>(p.n), p.k); }
    acc.range(v.begin(), v.end());
    acc.add(v == c ? 1 : 0);
    acc.add(v < c ? 1 : 0);
    Vec m = etl::move(c);
    acc.range(m.begin(), m.end());
    acc.range(m.rbegin(), m.rend());
    return D2{{acc.h, static_cast<std::uint64_t>(m.size())}};
}
struct K_static_vector {
    static constexpr char const* name = "static_vector<int,8> script";
    constexpr auto operator()(KArg const& p) const { return vector_script<etl::static_vector<int, 8>>(p); }
};
struct K_inplace_vector {
    static constexpr char const* name = "inplace_vector<int,8> script";
    constexpr auto operator()(KArg const& p) const
    {
        Acc acc;
        etl::inplace_vector<int, 8> v{}; // value-initialised: default-initialisation leaves _size indeterminate (open C02 finding)
        for (int i = 0; i < p.n; ++i) {
            if ((i & 1) != 0) {
                v.unchecked_push_back(p.a[i]);
            } else {
                acc.add(v.try_push_back(p.a[i]) != nullptr ? 1 : 0);
            }
        }
        acc.add(static_cast<long long>(v.size()));
        acc.range(v.begin(), v.end());
        if (p.n > 0) {
            acc.add(v.front());
            acc.add(v.back());
            v.pop_back();
        }
        acc.add(v.try_emplace_back(p.k) != nullptr ? 1 : 0);
        if (v.size() < 8) { acc.add(v.unchecked_emplace_back(p.n)); }
        acc.add(v.size() == 8 && v.try_push_back(1) == nullptr ? 1 : 0);
        acc.range(v.begin(), v.end());
        auto c = v;
        acc.range(c.begin(), c.end());
        v.clear();
        acc.add(v.empty() ? 1 : 0);
        return D2{{acc.h, static_cast<std::uint64_t>(c.size())}};
    }
};
struct K_array_span {
    static constexpr char const* name = "array<int,8>/span<int> script";
    constexpr auto operator()(KArg const& p) const
    {
        Acc acc;
        etl::array<int, 8> a{};
        for (int i = 0; i < 8; ++i) { a[static_cast<etl::size_t>(i)] = p.a[i]; }
        acc.range(a.begin(), a.end());
        acc.range(a.rbegin(), a.rend());
        acc.add(a.front());
        acc.add(a.back());
        acc.add(etl::get<3>(a));
        etl::array<int, 8> b2{};
        b2.fill(p.k);
        acc.add(a == b2 ? 1 : 0);
        acc.add(a < b2 ? 1 : 0);
        a.swap(b2);
        acc.range(a.begin(), a.end());
        etl::span<int> s{b2.data(), static_cast<etl::size_t>(p.n)};
        acc.add(static_cast<long long>(s.size()));
        acc.add(static_cast<long long>(s.size_bytes()));
        acc.add(s.empty() ? 1 : 0);
        acc.range(s.begin(), s.end());
        if (p.n >= 2) {
            auto f = s.first(2);
            auto l = s.last(1);
            auto m = s.subspan(1, static_cast<etl::size_t>(p.n - 1));
            acc.range(f.begin(), f.end());
            acc.range(l.begin(), l.end());
            acc.range(m.begin(), m.end());
            acc.add(s.front());
            acc.add(s.back());
            acc.add(s[1]);
        }
        return D2{{acc.h, static_cast<std::uint64_t>(s.size())}};
    }
};

// ---- group 3: strings
struct SKArg {
    char s[12]; // subject (NUL-terminated, <= 11 chars)
    char t[6];  // needle / argument (<= 5 chars)
    int pos;
    int cnt;
};
constexpr auto str_inputs()
{
    constexpr char const* ss[] = {"", "a", "ab", "aba", "abab", "abcabc", "aaaa", "hello world", "\xE9x\xE9", "xyzzy"};
    constexpr char const* ts[] = {"", "a", "ab", "ba", "abc", "\xE9", "zy"};
    constexpr int poss[]       = {0, 1, 5, 11};
    constexpr int cnts[]       = {0, 2, 20};
    constexpr std::size_t NS = 10, NT = 7, NP = 4, NC = 3;
    std::array<SKArg, NS * NT * NP * NC> r{};
    std::size_t o = 0;
    for (auto s : ss) {
        for (auto t : ts) {
            for (int pos : poss) {
                for (int cnt : cnts) {
                    SKArg a{};
                    for (int i = 0; s[i] != 0; ++i) { a.s[i] = s[i]; }
                    for (int i = 0; t[i] != 0; ++i) { a.t[i] = t[i]; }
                    a.pos  = pos;
                    a.cnt  = cnt;
                    r[o++] = a;
                }
            }
        }
    }
    return r;
}
#if C13_GRP == 3
inline constexpr auto tabStr = str_inputs();
#endif
constexpr int clen(char const* s)
{
    int n = 0;
    while (s[n] != 0) { ++n; }
    return n;
}
struct ClsStr {
    static char const* sit(SKArg const& p)
    {
        static char buf[96];
        int const ls = clen(p.s), lt = clen(p.t);
        bool found   = false;
        for (int i = 0; i + lt <= ls && !found; ++i) { found = std::memcmp(p.s + i, p.t, (std::size_t)lt) == 0; }
        std::snprintf(buf, sizeof buf, "s:%s,t:%s,%s,%s,%s", ls == 0 ? "empty" : ls == 11 ? "len11" : "some", lt == 0 ? "empty" : lt == 1 ? "len1" : "len>1",
            p.pos == 0 ? "pos=0" : p.pos < ls ? "pos<size" : p.pos == ls ? "pos=size" : "pos>size", p.cnt == 0 ? "cnt=0" : p.cnt >= ls ? "cnt>=size" : "cnt<size",
            found ? "t-in-s" : "t-not-in-s");
        return buf;
    }
    static std::string show(SKArg const& p)
    {
        return std::string("\"") + p.s + "\", \"" + p.t + "\", pos " + std::to_string(p.pos) + ", cnt " + std::to_string(p.cnt);
    }
    static std::uint64_t hash(SKArg const& p) { return vf::fnv_bytes(&p, sizeof p); }
    static void const* arg0(SKArg const&) { return nullptr; }
};
struct K_string_view {
    static constexpr char const* name = "string_view script";
    constexpr auto operator()(SKArg const& p) const
    {
        Acc acc;
        etl::string_view const s{p.s};
        etl::string_view const t{p.t};
        auto const pos = static_cast<etl::size_t>(p.pos);
        auto const cnt = static_cast<etl::size_t>(p.cnt);
        acc.add(static_cast<long long>(s.size()));
        acc.add(s.empty() ? 1 : 0);
        acc.range(s.begin(), s.end());
        acc.range(s.rbegin(), s.rend());
        acc.add(static_cast<long long>(s.find(t)));
        acc.add(static_cast<long long>(s.find(t, pos)));
        acc.add(static_cast<long long>(s.rfind(t)));
        acc.add(static_cast<long long>(s.rfind(t, pos)));
        acc.add(static_cast<long long>(s.find_first_of(t)));
        acc.add(static_cast<long long>(s.find_first_of(t, pos)));
        acc.add(static_cast<long long>(s.find_last_of(t)));
        acc.add(static_cast<long long>(s.find_first_not_of(t)));
        acc.add(static_cast<long long>(s.find_last_not_of(t)));
        acc.add(static_cast<long long>(s.find('a', pos)));
        acc.add(s.starts_with(t) ? 1 : 0);
        acc.add(s.ends_with(t) ? 1 : 0);
        acc.add(s.contains(t) ? 1 : 0);
        acc.add(s.compare(t) < 0 ? -1 : s.compare(t) > 0 ? 1 : 0);
        acc.add(s == t ? 1 : 0);
        acc.add(s < t ? 1 : 0);
        if (pos <= s.size()) {
            auto sub = s.substr(pos, cnt);
            acc.add(static_cast<long long>(sub.size()));
            acc.range(sub.begin(), sub.end());
            int const c = s.compare(pos, cnt, t);
            acc.add(c < 0 ? -1 : c > 0 ? 1 : 0);
            char out[12]{};
            acc.add(static_cast<long long>(s.copy(out, cnt < 12 ? cnt : 11, pos)));
            acc.range(out, out + 12);
        }
        auto r = s;
        if (pos <= r.size()) {
            r.remove_prefix(pos);
            acc.range(r.begin(), r.end());
        }
        auto q = s;
        if (cnt <= q.size()) {
            q.remove_suffix(cnt);
            acc.range(q.begin(), q.end());
        }
        if (!s.empty()) {
            acc.add(s.front());
            acc.add(s.back());
        }
        return D2{{acc.h, static_cast<std::uint64_t>(s.size())}};
    }
};
struct K_inplace_string {
    static constexpr char const* name = "inplace_string<15> script";
    constexpr auto operator()(SKArg const& p) const
    {
        using Str = etl::inplace_string<15>;
        Acc acc;
        auto const pos = static_cast<etl::size_t>(p.pos);
        auto const cnt = static_cast<etl::size_t>(p.cnt);
        Str s{p.s};
        Str const t{p.t};
        auto dump = [&acc](Str const& x) {
            acc.add(static_cast<long long>(x.size()));
            acc.range(x.begin(), x.end());
            acc.add(x.c_str()[x.size()]); // terminator
        };
        dump(s);
        acc.add(s.empty() ? 1 : 0);
        acc.add(s.full() ? 1 : 0);
        acc.add(static_cast<long long>(s.find(t)));
        acc.add(static_cast<long long>(s.find(t, pos)));
        acc.add(static_cast<long long>(s.find_first_of(t)));
        acc.add(static_cast<long long>(s.find_first_not_of(t)));
        acc.add(s.starts_with(t) ? 1 : 0);
        acc.add(s.ends_with(t) ? 1 : 0);
        acc.add(s.compare(t) < 0 ? -1 : s.compare(t) > 0 ? 1 : 0);
        acc.add(s == t ? 1 : 0);
        acc.add(s < t ? 1 : 0);
        if (s.size() + t.size() <= 15) {
            Str a = s;
            a.append(t);
            dump(a);
            Str b2 = s;
            b2 += t;
            b2.push_back('!' );
            if (b2.size() > 0) { b2.pop_back(); }
            dump(b2);
            if (pos <= s.size()) {
                Str c = s;
                c.insert(pos, t);
                dump(c);
            }
        }
        if (pos <= s.size()) {
            Str d = s;
            d.erase(pos, cnt);
            dump(d);
            auto sub = s.substr(pos, cnt);
            dump(sub);
        }
        if (cnt <= 15) {
            Str r = s;
            r.resize(cnt, 'x');
            dump(r);
        }
        Str m = s;
        m.clear();
        dump(m);
        m.assign(t);
        dump(m);
        s.swap(m);
        dump(s);
        dump(m);
        if (!m.empty()) {
            acc.add(m.front());
            acc.add(m.back());
            acc.add(m[m.size() / 2]);
        }
        return D2{{acc.h, static_cast<std::uint64_t>(m.size())}};
    }
};

// ---- group 4: bitset / optional / pair / tuple / sets
template <etl::size_t N>
constexpr D2 bitset_script(KArg const& p)
{
    Acc acc;
    etl::bitset<N> bs;
    for (int i = 0; i < p.n; ++i) { bs.set(static_cast<etl::size_t>(static_cast<unsigned>(p.a[i]) % N)); }
    auto dump = [&acc](etl::bitset<N> const& x) {
        acc.add(static_cast<long long>(x.count()));
        acc.add(x.all() ? 1 : 0);
        acc.add(x.any() ? 1 : 0);
        acc.add(x.none() ? 1 : 0);
        for (etl::size_t i = 0; i < N; ++i) { acc.add(x.test(i) ? 1 : 0); }
    };
    dump(bs);
    auto f = bs;
    f.flip();
    dump(f);
    dump(bs & f);
    dump(bs | f);
    auto g2 = f;
    g2.flip(static_cast<etl::size_t>(static_cast<unsigned>(p.n) % N));
    dump(bs ^ g2);
    g2 &= bs;
    dump(g2);
    g2 |= f;
    g2 ^= bs;
    dump(g2);
    dump(~bs);
    acc.add(bs[0] ? 1 : 0);
    bs[N - 1] = !bs[N - 1];
    dump(bs);
    acc.add(bs == f ? 1 : 0);
    f.reset(static_cast<etl::size_t>(static_cast<unsigned>(p.k < 0 ? -p.k : p.k) % N));
    f.flip(0);
    dump(f);
    if constexpr (N <= 64) { acc.add(static_cast<long long>(bs.to_ullong())); }
    bs.reset();
    dump(bs);
    bs.set();
    dump(bs);
    return D2{{acc.h, static_cast<std::uint64_t>(bs.count())}};
}
struct K_bitset13 {
    static constexpr char const* name = "bitset<13> script";
    constexpr auto operator()(KArg const& p) const { return bitset_script<13>(p); }
};
struct K_bitset64 {
    static constexpr char const* name = "bitset<64> script";
    constexpr auto operator()(KArg const& p) const { return bitset_script<64>(p); }
};
struct K_bitset70 {
    static constexpr char const* name = "bitset<70> script";
    constexpr auto operator()(KArg const& p) const { return bitset_script<70>(p); }
};
struct K_optional_pair_tuple {
    static constexpr char const* name = "optional<int>/pair/tuple script";
    constexpr auto operator()(KArg const& p) const
    {
        Acc acc;
        etl::optional<int> o;
        acc.add(o.has_value() ? 1 : 0);
        acc.add(o.value_or(p.k));
        if (p.n > 0) { o = p.a[0]; }
        acc.add(o.has_value() ? 1 : 0);
        acc.add(o.value_or(-7));
        etl::optional<int> q{p.k};
        acc.add(o == q ? 1 : 0);
        acc.add(o < q ? 1 : 0);
        acc.add(o == etl::nullopt ? 1 : 0);
        o.swap(q);
        acc.add(o.value_or(-9));
        acc.add(q.value_or(-9));
        q.reset();
        acc.add(q.has_value() ? 1 : 0);
        auto& ref = o.emplace(p.n);
        acc.add(ref);
        auto pr = etl::make_pair(p.a[0], p.a[1]);
        auto p2 = etl::make_pair(p.k, p.n);
        acc.add(pr == p2 ? 1 : 0);
        acc.add(pr < p2 ? 1 : 0);
        pr.swap(p2);
        acc.add(pr.first);
        acc.add(p2.second);
        auto tp = etl::make_tuple(p.a[0], p.a[1], p.k);
        acc.add(etl::get<0>(tp));
        acc.add(etl::get<2>(tp));
        auto t2 = etl::make_tuple(p.a[0], p.a[1], p.n);
        acc.add(tp == t2 ? 1 : 0);
        return D2{{acc.h, static_cast<std::uint64_t>(o.has_value())}};
    }
};
template <typename Set>
constexpr D2 set_script(KArg const& p)
{
    Acc acc;
    Set s;
    for (int i = 0; i < p.n; ++i) {
        auto r = s.insert(p.a[i]);
        acc.add(r.second ? 1 : 0);
    }
    acc.add(static_cast<long long>(s.size()));
    acc.range(s.begin(), s.end());
    acc.add(s.contains(p.k) ? 1 : 0);
    acc.add(static_cast<long long>(s.count(p.k)));
    acc.add(s.find(p.k) == s.end() ? -1 : *s.find(p.k));
    acc.add(s.lower_bound(p.k) - s.begin());
    acc.add(s.upper_bound(p.k) - s.begin());
    acc.add(static_cast<long long>(s.erase(p.k)));
    acc.range(s.begin(), s.end());
    Set c = s;
    acc.add(c == s ? 1 : 0);
    if (!c.empty()) {
        c.erase(c.begin());
        acc.range(c.begin(), c.end());
        acc.add(c < s ? 1 : 0);
    }
    s.clear();
    acc.add(s.empty() ? 1 : 0);
    return D2{{acc.h, static_cast<std::uint64_t>(c.size())}};
}
struct K_static_set {
    static constexpr char const* name = "static_set<int,8> script";
    constexpr auto operator()(KArg const& p) const { return set_script<etl::static_set<int, 8>>(p); }
};

// =================================================================== registry
#define EK(F) make_entry<F, tabK, ClsK, 32>(F::name)

std::vector<Entry> const& entries()
{
    static std::vector<Entry> const es = {
#if C13_GRP == 0
    EK(K_all_any_none), EK(K_for_each), EK(K_count), EK(K_find), EK(K_find_end), EK(K_search_n), EK(K_adjacent_find), EK(K_mismatch_equal),
    EK(K_lexcmp), EK(K_is_sorted), EK(K_is_partitioned), EK(K_is_permutation), EK(K_bounds), EK(K_minmax_element), EK(K_minmax), EK(K_includes),
    EK(K_accumulate),
#elif C13_GRP == 1
    EK(K_copy), EK(K_move), EK(K_fill), EK(K_transform), EK(K_replace), EK(K_remove), EK(K_unique), EK(K_reverse), EK(K_rotate), EK(K_shift),
    EK(K_swap_ranges), EK(K_partition), EK(K_sort), EK(K_sorts2), EK(K_merge), EK(K_setops), EK(K_numeric),
#elif C13_GRP == 2
    EK(K_static_vector), EK(K_inplace_vector), EK(K_array_span),
#elif C13_GRP == 3
    make_entry<K_string_view, tabStr, ClsStr, 32>(K_string_view::name),
    make_entry<K_inplace_string, tabStr, ClsStr, 32>(K_inplace_string::name),
#elif C13_GRP == 4
    EK(K_bitset13), EK(K_bitset64), EK(K_bitset70), EK(K_optional_pair_tuple), EK(K_static_set),
#endif
};
    return es;
}

vf::Spec spec(vf::Tier)
{
    vf::Spec s;
    s.n_enum     = total_cases(entries());
    s.n_random   = 0;
    s.batch      = 1;
    s.exhaustive = true;
    return s;
}
void run_case(vf::Case& c) { run_case_index(entries(), c.index); }

} // namespace

VF_MAIN("C13", "C13_kern", spec, run_case)
