// C15_table.hpp - shared part of the GENERATED table programs of property C15
// (type traits, concepts, numeric_limits, ratio, cstdint agree with the language and std).
// The translation units themselves are emitted by gen/c15_matrix.py: one cell per source
// line, each cell a consteval call that evaluates the std side first and the etl side only
// where the standard defines a result.  This header holds the type zoo, the cell record,
// the small constexpr helpers used by the generated cell functions and the runner glue
// (one vf case = one block of cells, walked at run time).
#pragma once
// the library under test first: clang turns builtins such as __is_scalar into plain identifiers once libstdc++ has
// declared its helper structs of the same name, so tetl must be parsed before any std header (second front end)
#include <etl/concepts.hpp>
#include <etl/cstddef.hpp>
#include <etl/cstdint.hpp>
#include <etl/functional.hpp>
#include <etl/limits.hpp>
#include <etl/ratio.hpp>
#include <etl/type_traits.hpp>
#include <etl/utility.hpp>

#include "vf.hpp"
#include "vf_contract.hpp"

#include <compare>
#include <concepts>
#include <cstddef>
#include <cstdint>
#include <functional>
#include <limits>
#include <ratio>
#include <type_traits>
#include <utility>

// ---------------------------------------------------------------------------------- zoo
namespace zoo {
struct Incomplete;
struct Empty { };
struct EmptyFinal final { };
struct Pod {
    int a;
    double b;
};
struct NoPad {
    int a;
    int b;
};
struct Padded {
    char c;
    int i;
};
struct WithFloat {
    float f;
};
struct Agg {
    int a;
    int b[2];
};
struct AggTwo {
    int a;
    double b;
};
struct Base {
    int x;
};
struct Derived : Base {
    int y;
};
struct Derived2 : Base { };
struct PrivDerived : private Base { };
struct Ambiguous : Derived, Derived2 { };
struct VirtDerived : virtual Base { };
struct Polymorphic {
    virtual void f() { }
};
struct VirtDtor {
    virtual ~VirtDtor() { }
};
struct VirtDtorDerived : VirtDtor { };
struct Abstract {
    virtual void f() = 0;
};
struct AbstractProtDtor {
    virtual void f() = 0;

protected:
    ~AbstractProtDtor() = default;
};
struct AbstractImpl final : Abstract {
    void f() override { }
};
struct Final final {
    int x;
};
struct MixedAccess {
    int a;

private:
    int b;
};
struct alignas(32) OverAligned {
    char c;
};
struct BitField {
    int a : 3;
    int b : 5;
};
union U {
    int i;
    float f;
};
struct NonTrivDtor {
    ~NonTrivDtor() { }
};
union UDel {
    NonTrivDtor m;
    int i;
};
struct DelDtor {
    ~DelDtor() = delete;
};
struct PrivDtor {
private:
    ~PrivDtor() = default;
};
struct ProtDtor {
protected:
    ~ProtDtor() = default;
};
struct ThrowDtor {
    ~ThrowDtor() noexcept(false) { }
};
struct DelDefault {
    DelDefault() = delete;
};
struct NoDefault {
    NoDefault(int) { }
};
struct ExplicitDefault {
    explicit ExplicitDefault() = default;
};
struct ThrowDefault {
    ThrowDefault() noexcept(false) { }
};
struct NothrowDefault {
    NothrowDefault() noexcept { }
    int x;
};
struct MemberInit {
    int x = 3;
};
struct DelCopy {
    DelCopy()                          = default;
    DelCopy(DelCopy const&)            = delete;
    DelCopy& operator=(DelCopy const&) = delete;
};
struct MoveOnly {
    MoveOnly()                      = default;
    MoveOnly(MoveOnly&&)            = default;
    MoveOnly& operator=(MoveOnly&&) = default;
};
struct DelMove {
    DelMove()                          = default;
    DelMove(DelMove const&)            = default;
    DelMove& operator=(DelMove const&) = default;
    DelMove(DelMove&&)                 = delete;
    DelMove& operator=(DelMove&&)      = delete;
};
struct ThrowCopy {
    ThrowCopy() noexcept { }
    ThrowCopy(ThrowCopy const&) noexcept(false) { }
    ThrowCopy& operator=(ThrowCopy const&) noexcept(false) { return *this; }
};
struct NothrowCopy {
    NothrowCopy() noexcept { }
    NothrowCopy(NothrowCopy const&) noexcept { }
    NothrowCopy& operator=(NothrowCopy const&) noexcept { return *this; }
};
struct ThrowMove {
    ThrowMove() noexcept { }
    ThrowMove(ThrowMove&&) noexcept(false) { }
    ThrowMove& operator=(ThrowMove&&) noexcept(false) { return *this; }
};
struct NothrowMoveThrowCopy {
    NothrowMoveThrowCopy() noexcept { }
    NothrowMoveThrowCopy(NothrowMoveThrowCopy const&) noexcept(false) { }
    NothrowMoveThrowCopy(NothrowMoveThrowCopy&&) noexcept { }
    NothrowMoveThrowCopy& operator=(NothrowMoveThrowCopy const&) noexcept(false) { return *this; }
    NothrowMoveThrowCopy& operator=(NothrowMoveThrowCopy&&) noexcept { return *this; }
};
struct ProtCopy {
    ProtCopy() = default;

protected:
    ProtCopy(ProtCopy const&)            = default;
    ProtCopy& operator=(ProtCopy const&) = default;
};
struct DelAssign {
    DelAssign()                            = default;
    DelAssign(DelAssign const&)            = default;
    DelAssign& operator=(DelAssign const&) = delete;
};
struct NonTrivAssign {
    NonTrivAssign& operator=(NonTrivAssign const&) noexcept { return *this; }
};
struct ConstMember {
    int const c = 0;
};
struct RefMember {
    int& r;
};
struct MutCopy {
    MutCopy() = default;
    MutCopy(MutCopy&) { }
};
struct ImplicitFromInt {
    ImplicitFromInt(int) { }
};
struct ExplicitFromInt {
    explicit ExplicitFromInt(int) noexcept { }
};
struct ConvToInt {
    operator int() const noexcept { return 1; }
};
struct ExplicitConvToInt {
    explicit operator int() const { return 1; }
};
struct TwoArgs {
    TwoArgs(int, double) noexcept { }
};
struct Functor {
    int operator()(int) const noexcept { return 0; }
};
struct NonConstFunctor {
    void operator()() { }
};
struct BoolPred {
    bool operator()(int, int) const { return true; }
    bool operator()(long, long) const { return true; }
    bool operator()(int, long) const { return true; }
    bool operator()(long, int) const { return true; }
};
struct AdlSwap {
    AdlSwap()                     = default;
    AdlSwap(AdlSwap&&)            = delete;
    AdlSwap& operator=(AdlSwap&&) = delete;
    friend void swap(AdlSwap&, AdlSwap&) noexcept(false) { }
};
struct AdlSwapNothrow {
    friend void swap(AdlSwapNothrow&, AdlSwapNothrow&) noexcept { }
};
struct DeletedSwap {
    friend void swap(DeletedSwap&, DeletedSwap&) = delete;
};
struct EqComparable {
    int v;
    friend bool operator==(EqComparable const&, EqComparable const&) = default;
};
struct WithMembers {
    int data;
    int const cdata = 0;
    void f() { }
    int g(int) const noexcept { return 0; }
};
// ---- adversarial conversions: the implicit and the explicit form of a conversion disagree, are ambiguous, ref-qualified or deleted
struct ConvSrc;
struct ExplDelDst { // copy-initialisation from ConvSrc works (conversion function), direct-initialisation picks the deleted explicit ctor
    ExplDelDst() = default;
    explicit ExplDelDst(ConvSrc const&) = delete;
};
struct ConvSrc {
    operator ExplDelDst() const { return ExplDelDst{}; }
};
struct AmbSrc;
struct AmbDst { // converting constructor AND conversion function: ambiguous for copy-initialisation
    AmbDst() = default;
    AmbDst(AmbSrc const&) { }
};
struct AmbSrc {
    operator AmbDst() const { return AmbDst{}; }
};
struct TwoWayA;
struct TwoWayB { // mutually convertible (common_type / common_reference ambiguity)
    TwoWayB() = default;
    TwoWayB(TwoWayA const&) { }
};
struct TwoWayA {
    TwoWayA() = default;
    TwoWayA(TwoWayB const&) { }
};
struct LvalConv {
    operator int() & { return 1; }
};
struct RvalConv {
    operator int() && { return 1; }
};
struct ConstLvalOnlyConv {
    operator int() const& { return 1; }
    operator int() && = delete;
};
struct DelFromInt { // the best constructor for an int argument is deleted, long is fine
    DelFromInt(int) = delete;
    DelFromInt(long) { }
};
struct ExplicitCopy { // copy constructor is explicit: T(t) works, T x = t does not
    ExplicitCopy() = default;
    explicit ExplicitCopy(ExplicitCopy const&) = default;
};
struct ConvToArrayRef {
    using Arr = int[3];
    operator Arr&() const;
};
struct ConvToFnPtr {
    using Fn = void (*)();
    operator Fn() const { return nullptr; }
};
struct ThrowingConvToInt {
    operator int() const noexcept(false) { return 1; }
};
struct AssignFromIntOnly {
    AssignFromIntOnly& operator=(int) { return *this; }
};
struct AssignReturnsVoid {
    void operator=(int) { }
};
struct AssignRvalueOnly {
    AssignRvalueOnly& operator=(int) && { return *this; }
};
// ---- boolean-testable proxies
struct Verdict { // model of boolean-testable
    operator bool() const { return true; }
    bool operator!() const { return false; }
};
struct WeirdBool { // implicit conversion fine, static_cast<bool>(rvalue) picks the deleted explicit overload
    operator bool() const { return true; }
    explicit operator bool() = delete;
    bool operator!() const { return false; }
};
struct ExplicitBool {
    explicit operator bool() const { return true; }
    bool operator!() const { return false; }
};
struct NotIsVoid {
    operator bool() const { return true; }
    void operator!() const { }
};
struct NotIsWeird {
    operator bool() const { return true; }
    WeirdBool operator!() const { return {}; }
};
struct NotIsVerdict {
    operator bool() const { return true; }
    Verdict operator!() const { return {}; }
};
struct LvalueOnlyBool {
    operator bool() & { return true; }
    bool operator!() & { return false; }
};
struct CmpVerdict {
    friend Verdict operator==(CmpVerdict const&, CmpVerdict const&) { return {}; }
    friend Verdict operator!=(CmpVerdict const&, CmpVerdict const&) { return {}; }
};
struct CmpWeird {
    friend WeirdBool operator==(CmpWeird const&, CmpWeird const&) { return {}; }
    friend WeirdBool operator!=(CmpWeird const&, CmpWeird const&) { return {}; }
};
struct CmpExplicitBool {
    friend ExplicitBool operator==(CmpExplicitBool const&, CmpExplicitBool const&) { return {}; }
    friend ExplicitBool operator!=(CmpExplicitBool const&, CmpExplicitBool const&) { return {}; }
};
struct CmpVoid {
    friend void operator==(CmpVoid const&, CmpVoid const&) { }
    friend void operator!=(CmpVoid const&, CmpVoid const&) { }
};
struct CmpEqOnlyBool { // != is the rewritten candidate
    friend bool operator==(CmpEqOnlyBool const&, CmpEqOnlyBool const&) { return true; }
};
struct CmpNonConst { // only comparable as non-const lvalues
    friend bool operator==(CmpNonConst&, CmpNonConst&) { return true; }
    friend bool operator!=(CmpNonConst&, CmpNonConst&) { return false; }
};
struct CmpNeDeleted {
    friend bool operator==(CmpNeDeleted const&, CmpNeDeleted const&) { return true; }
    friend bool operator!=(CmpNeDeleted const&, CmpNeDeleted const&) = delete;
};
struct PredVerdict {
    Verdict operator()(int, int) const { return {}; }
};
struct PredWeird {
    WeirdBool operator()(int, int) const { return {}; }
};
struct PredExplicitBool {
    ExplicitBool operator()(int, int) const { return {}; }
};
struct PredVoid {
    void operator()(int, int) const { }
};
struct PredIntOnlyFirst { // callable with (int,int) but not with (int,Empty)/(Empty,int): relation needs all four
    bool operator()(int, int) const { return true; }
    bool operator()(int, Empty) const { return true; }
};
// ---- n-ary folds (round 3): pairwise common types that are not associative
struct CycA;
struct CycB;
struct CycC;
struct CycA { // implicit conversions form a cycle: B -> A, A -> C, C -> B (common_type<A,B> = A, <A,C> = C, <B,C> = B)
    CycA() = default;
    CycA(CycB const&) { }
};
struct CycC {
    CycC() = default;
    CycC(CycA const&) { }
};
struct CycB {
    CycB() = default;
    CycB(CycC const&) { }
};
struct UserL { }; // program-defined, NOT symmetric specialisations of common_type (both libraries get the same ones, see below)
struct UserR { };
struct UserX { };
template <typename T>
struct Boom { // ::value must never be instantiated (conjunction / disjunction short circuit with a non-instantiable tail)
    static constexpr bool value = T::this_member_does_not_exist;
};
// ---- round 4: invocation cross product and asymmetric witnesses
struct Inv {
    int data;
    MoveOnly mo;
};
struct InvDerived : Inv { };
template <typename T>
struct Ref { }; // marker: replaced by etl::reference_wrapper<T> on the etl side and std::reference_wrapper<T> on the std side
// functor whose operator() takes P with qualifier Q: 0 none, 1 const, 2 &, 3 &&, 4 const&, 5 const noexcept
template <typename P, int Q>
struct Fun;
template <typename P>
struct Fun<P, 0> {
    int operator()(P) { return 0; }
};
template <typename P>
struct Fun<P, 1> {
    int operator()(P) const { return 0; }
};
template <typename P>
struct Fun<P, 2> {
    int operator()(P) & { return 0; }
};
template <typename P>
struct Fun<P, 3> {
    int operator()(P) && { return 0; }
};
template <typename P>
struct Fun<P, 4> {
    int operator()(P) const& { return 0; }
};
template <typename P>
struct Fun<P, 5> {
    int operator()(P) const noexcept { return 0; }
};
// overload pair on the value category of the argument: different result types
struct FunOvl {
    int operator()(int&) const { return 0; }
    long operator()(int&&) const { return 0; }
    char operator()(int const&) const { return 0; }
};
struct FunOvlObj { // overload pair on the value category of the object
    int operator()(int) & { return 0; }
    long operator()(int) && { return 0; }
    char operator()(int) const& { return 0; }
};
template <typename P>
inline constexpr auto lam_p = [](P) -> int { return 0; };
template <typename P>
using LamP = decltype(lam_p<P>);
// asymmetric witnesses: everything a concept needs except exactly one requirement
struct Absent { };
struct Deleted { };
struct WA { };
struct WB { };
// binary callable over {WA, WB}: slot 0 (A,A), 1 (B,B), 2 (A,B), 3 (B,A); the slot is absent / deleted / returns Ret; Slot -1: complete
template <int Slot, typename Ret>
struct Rel {
    template <int S>
    static constexpr bool good = Slot != S;
    template <int S>
    static constexpr bool bad = Slot == S and not std::is_same_v<Ret, Absent> and not std::is_same_v<Ret, Deleted>;
    template <int S>
    static constexpr bool del = Slot == S and std::is_same_v<Ret, Deleted>;
    using B = std::conditional_t<std::is_same_v<Ret, Absent> or std::is_same_v<Ret, Deleted>, bool, Ret>;
    bool operator()(WA, WA) const requires good<0>;
    bool operator()(WB, WB) const requires good<1>;
    bool operator()(WA, WB) const requires good<2>;
    bool operator()(WB, WA) const requires good<3>;
    B operator()(WA, WA) const requires bad<0>;
    B operator()(WB, WB) const requires bad<1>;
    B operator()(WA, WB) const requires bad<2>;
    B operator()(WB, WA) const requires bad<3>;
    bool operator()(WA, WA) const requires del<0> = delete;
    bool operator()(WB, WB) const requires del<1> = delete;
    bool operator()(WA, WB) const requires del<2> = delete;
    bool operator()(WB, WA) const requires del<3> = delete;
};
// heterogeneous ==/!=: slot 0 L==R, 1 L!=R, 2 R==L, 3 R!=L is deleted / returns Ret (absent is meaningless: C++20 rewrites it)
template <int Slot, typename Ret>
struct EqL { };
template <int Slot, typename Ret>
struct EqR { };
template <int Slot, typename Ret>
using EqB = std::conditional_t<std::is_same_v<Ret, Deleted>, bool, Ret>;
template <int S, typename R> bool operator==(EqL<S, R> const&, EqR<S, R> const&) requires(S != 0);
template <int S, typename R> bool operator!=(EqL<S, R> const&, EqR<S, R> const&) requires(S != 1);
template <int S, typename R> bool operator==(EqR<S, R> const&, EqL<S, R> const&) requires(S != 2);
template <int S, typename R> bool operator!=(EqR<S, R> const&, EqL<S, R> const&) requires(S != 3);
template <int S, typename R> EqB<S, R> operator==(EqL<S, R> const&, EqR<S, R> const&) requires(S == 0 and not std::is_same_v<R, Deleted>);
template <int S, typename R> EqB<S, R> operator!=(EqL<S, R> const&, EqR<S, R> const&) requires(S == 1 and not std::is_same_v<R, Deleted>);
template <int S, typename R> EqB<S, R> operator==(EqR<S, R> const&, EqL<S, R> const&) requires(S == 2 and not std::is_same_v<R, Deleted>);
template <int S, typename R> EqB<S, R> operator!=(EqR<S, R> const&, EqL<S, R> const&) requires(S == 3 and not std::is_same_v<R, Deleted>);
template <int S, typename R> bool operator==(EqL<S, R> const&, EqR<S, R> const&) requires(S == 0 and std::is_same_v<R, Deleted>) = delete;
template <int S, typename R> bool operator!=(EqL<S, R> const&, EqR<S, R> const&) requires(S == 1 and std::is_same_v<R, Deleted>) = delete;
template <int S, typename R> bool operator==(EqR<S, R> const&, EqL<S, R> const&) requires(S == 2 and std::is_same_v<R, Deleted>) = delete;
template <int S, typename R> bool operator!=(EqR<S, R> const&, EqL<S, R> const&) requires(S == 3 and std::is_same_v<R, Deleted>) = delete;
// homogeneous ==/!=: slot 0 ==, 1 !=
template <int Slot, typename Ret>
struct EqS { };
template <int S, typename R> bool operator==(EqS<S, R> const&, EqS<S, R> const&) requires(S != 0);
template <int S, typename R> bool operator!=(EqS<S, R> const&, EqS<S, R> const&) requires(S != 1);
template <int S, typename R> EqB<S, R> operator==(EqS<S, R> const&, EqS<S, R> const&) requires(S == 0 and not std::is_same_v<R, Deleted>);
template <int S, typename R> EqB<S, R> operator!=(EqS<S, R> const&, EqS<S, R> const&) requires(S == 1 and not std::is_same_v<R, Deleted>);
template <int S, typename R> bool operator==(EqS<S, R> const&, EqS<S, R> const&) requires(S == 0 and std::is_same_v<R, Deleted>) = delete;
template <int S, typename R> bool operator!=(EqS<S, R> const&, EqS<S, R> const&) requires(S == 1 and std::is_same_v<R, Deleted>) = delete;
// one-directional swap, assignment with the wrong result type, construction without (nothrow) destruction
struct SwA { };
struct SwB { };
inline void swap(SwA&, SwB&) noexcept { }
struct SwC { };
struct SwD { };
inline void swap(SwC&, SwD&) noexcept { }
inline void swap(SwD&, SwC&) noexcept(false) { }
struct AssignReturnsValue {
    AssignReturnsValue operator=(int) { return *this; }
};
struct AssignReturnsConstRef {
    AssignReturnsConstRef const& operator=(int) { return *this; }
};
struct AssignReturnsInt {
    int operator=(int) { return 0; }
};
struct DelDtorFromInt {
    DelDtorFromInt(int) { }
    ~DelDtorFromInt() = delete;
};
struct ThrowDtorFromInt {
    ThrowDtorFromInt(int) noexcept { }
    ~ThrowDtorFromInt() noexcept(false) { }
};
// ---- round 5: ADL swap whose noexcept-ness is independent of the moves; const&-only conversions to a CLASS target
template <bool SwapNoexcept, int Move>
struct SwZ; // Move: 0 noexcept moves, 1 throwing moves, 2 deleted moves
template <bool SN>
struct SwZ<SN, 0> {
    SwZ() = default;
    SwZ(SwZ&&) noexcept { }
    SwZ& operator=(SwZ&&) noexcept { return *this; }
    friend void swap(SwZ&, SwZ&) noexcept(SN) { }
};
template <bool SN>
struct SwZ<SN, 1> {
    SwZ() = default;
    SwZ(SwZ&&) noexcept(false) { }
    SwZ& operator=(SwZ&&) noexcept(false) { return *this; }
    friend void swap(SwZ&, SwZ&) noexcept(SN) { }
};
template <bool SN>
struct SwZ<SN, 2> {
    SwZ()                 = default;
    SwZ(SwZ&&)            = delete;
    SwZ& operator=(SwZ&&) = delete;
    friend void swap(SwZ&, SwZ&) noexcept(SN) { }
};
struct CrefTarget { };
struct CrefConvA { // only a const lvalue converts: "false ? A&& : B&&" is ill-formed, the const& form yields a prvalue "CrefTarget const"
    operator CrefTarget() const& { return {}; }
    operator CrefTarget() && = delete;
};
struct CtorD { };
struct CtorC { // constructible from a const lvalue CtorD only
    CtorC() = default;
    CtorC(CtorD const&) { }
    CtorC(CtorD&&) = delete;
};
using FnPtr = void (*)();
struct NoValue { }; // has no ::value (conjunction / disjunction short-circuit probes)
enum E { e0, e1 };
enum EU8 : unsigned char { eu0 };
enum ES16 : short { es0 };
enum class SE { a, b };
enum class SEC : char { a };
enum class SEU64 : unsigned long long { a };
inline constexpr auto lam_plain = [](int x) { return x; };
using Lambda                    = decltype(lam_plain);
inline int lam_capture_target   = 0;
inline auto const lam_cap       = [p = &lam_capture_target](int x) { return *p + x; };
using LambdaCap                 = decltype(lam_cap);
} // namespace zoo

namespace c15 {
template <typename T> struct to_etl { using type = T; };
template <typename T> struct to_etl<zoo::Ref<T>> { using type = etl::reference_wrapper<T>; };
template <typename T> struct to_etl<zoo::Ref<T>&> { using type = etl::reference_wrapper<T>&; };
template <typename T> struct to_etl<zoo::Ref<T> const&> { using type = etl::reference_wrapper<T> const&; };
template <typename T> struct to_std { using type = T; };
template <typename T> struct to_std<zoo::Ref<T>> { using type = std::reference_wrapper<T>; };
template <typename T> struct to_std<zoo::Ref<T>&> { using type = std::reference_wrapper<T>&; };
template <typename T> struct to_std<zoo::Ref<T> const&> { using type = std::reference_wrapper<T> const&; };
template <typename T> using E = typename to_etl<T>::type;
template <typename T> using S = typename to_std<T>::type;
} // namespace c15

// the same program-defined specialisations for both libraries: <L,R> = L, <R,L> = R (asymmetric), <L,X> = <X,L> = X, (R,X): none
template <> struct std::common_type<zoo::UserL, zoo::UserR> { using type = zoo::UserL; };
template <> struct std::common_type<zoo::UserR, zoo::UserL> { using type = zoo::UserR; };
template <> struct std::common_type<zoo::UserL, zoo::UserX> { using type = zoo::UserX; };
template <> struct std::common_type<zoo::UserX, zoo::UserL> { using type = zoo::UserX; };
template <> struct etl::common_type<zoo::UserL, zoo::UserR> { using type = zoo::UserL; };
template <> struct etl::common_type<zoo::UserR, zoo::UserL> { using type = zoo::UserR; };
template <> struct etl::common_type<zoo::UserL, zoo::UserX> { using type = zoo::UserX; };
template <> struct etl::common_type<zoo::UserX, zoo::UserL> { using type = zoo::UserX; };

// exposition-only concepts of [concept.booleantestable] / [concept.equalitycomparable], transcribed with std components
namespace stdx {
template <class T>
concept boolean_testable_impl = std::convertible_to<T, bool>;
template <class T>
concept boolean_testable = boolean_testable_impl<T> && requires(T&& t) {
    { !std::forward<T>(t) } -> boolean_testable_impl;
};
template <class T, class U>
concept weakly_equality_comparable_with = requires(std::remove_reference_t<T> const& t, std::remove_reference_t<U> const& u) {
    { t == u } -> boolean_testable;
    { t != u } -> boolean_testable;
    { u == t } -> boolean_testable;
    { u != t } -> boolean_testable;
};
} // namespace stdx

// ---------------------------------------------------------------------------------- cell record
namespace c15 {

enum St : unsigned char {
    ok          = 0, // both sides gave a result: compared
    std_undef   = 1, // the standard gives no result here: skipped, not counted
    etl_absent  = 2, // std has a result, etl fails softly (substitution failure)
    hard        = 3, // excluded by the isolation loop: hard error located inside tetl
    hard_other  = 4, // excluded by the isolation loop: hard error not located in tetl (harness/std side)
    both_absent = 5, // both sides (correctly) name no member / are not satisfied: agreement
    etl_extra   = 6, // etl names a result where std (SFINAE-friendly trait) names none
};
enum Kind : unsigned char { k_bool = 0, k_int = 1, k_type = 2, k_bits = 3, k_ldbl = 4 };

struct R {
    unsigned char st   = ok;
    unsigned char kind = k_bool;
    long long e        = 0; // etl value   (k_type: 1)
    long long s        = 0; // std value   (k_type: 1 iff same type)
    long long e2       = 0; // second access path on the etl side (_v / _t), must equal e
    long long e3       = 0; // third access path (::type::value), must equal e
    unsigned long long eh = 0, sh = 0; // high words for k_bits
    long double le = 0, ls = 0;        // k_ldbl
    char const* en = nullptr;          // k_type: etl type name / message
    char const* sn = nullptr;          // k_type: std type name
};
struct Cell {
    unsigned short trait;
    unsigned subj;
    R r;
};
struct Subject {
    char const* spell;
    char const* cat;
};

template <typename T>
constexpr auto tname() -> char const*
{
    return __PRETTY_FUNCTION__;
}

consteval auto st(St s) -> R
{
    R r;
    r.st = s;
    return r;
}
consteval auto hard_cell(char const* msg, bool in_tetl) -> R
{
    R r;
    r.st = in_tetl ? hard : hard_other;
    r.en = msg;
    return r;
}
consteval auto vbool(bool e, bool s, bool e2, bool e3) -> R
{
    R r;
    r.kind = k_bool;
    r.e    = e;
    r.s    = s;
    r.e2   = e2;
    r.e3   = e3;
    return r;
}
consteval auto vbool(bool e, bool s) -> R { return vbool(e, s, e, e); }
consteval auto vint(long long e, long long s, long long e2, long long e3) -> R
{
    R r;
    r.kind = k_int;
    r.e    = e;
    r.s    = s;
    r.e2   = e2;
    r.e3   = e3;
    return r;
}
consteval auto vint(long long e, long long s) -> R { return vint(e, s, e, e); }
template <typename ET, typename ST, typename ET2 = ET>
consteval auto vtype() -> R
{
    R r;
    r.kind = k_type;
    r.e    = 1;
    r.s    = std::is_same_v<ET, ST>;
    r.e2   = std::is_same_v<ET, ET2>;
    r.e3   = 1;
    r.en   = tname<ET>();
    r.sn   = tname<ST>();
    return r;
}
template <typename ST>
consteval auto absent_type() -> R
{
    R r;
    r.st   = etl_absent;
    r.kind = k_type;
    r.sn   = tname<ST>();
    return r;
}
template <typename ET>
consteval auto extra_type() -> R
{
    R r;
    r.st   = etl_extra;
    r.kind = k_type;
    r.en   = tname<ET>();
    return r;
}
// value of an arithmetic type compared by representation (floats) or value (integers)
template <typename T>
consteval auto vrepr(T e, T s) -> R
{
    R r;
    if constexpr (std::is_same_v<T, long double>) {
        r.kind = k_ldbl;
        r.le   = e;
        r.ls   = s;
    } else if constexpr (std::is_same_v<T, float>) {
        r.kind = k_bits;
        r.e    = (long long)__builtin_bit_cast(unsigned, e);
        r.s    = (long long)__builtin_bit_cast(unsigned, s);
    } else if constexpr (std::is_same_v<T, double>) {
        r.kind = k_bits;
        r.e    = (long long)__builtin_bit_cast(unsigned long long, e);
        r.s    = (long long)__builtin_bit_cast(unsigned long long, s);
    } else {
        r.kind = k_bits;
        r.e    = (long long)e;
        r.s    = (long long)s;
        r.eh   = (e < T(0)) ? ~0ull : 0ull;
        r.sh   = (s < T(0)) ? ~0ull : 0ull;
    }
    r.e2 = r.e;
    r.e3 = r.e;
    return r;
}

struct Table {
    char const* family;
    Cell const* cells;
    std::size_t n;
    Subject const* subj;
    char const* const* traits;
};

constexpr std::size_t block = 64;

inline auto pretty_type(char const* pf) -> std::string
{
    if (pf == nullptr) { return "(none)"; }
    std::string s = pf;
    auto p        = s.find("T = ");
    if (p == std::string::npos) { return s; }
    s = s.substr(p + 4);
    if (!s.empty() && s.back() == ']') { s.pop_back(); }
    return s;
}

inline void run_block(Table const& t, vf::Case& c)
{
    std::size_t lo = (std::size_t)c.index * block;
    std::size_t hi = lo + block < t.n ? lo + block : t.n;
    for (std::size_t i = lo; i < hi; ++i) {
        Cell const& x    = t.cells[i];
        R const& r       = x.r;
        char const* tr   = t.traits[x.trait];
        Subject const& s = t.subj[x.subj];
        vf::crumb(tr, t.family, s.cat, "T = %s", s.spell);
        std::uint64_t h = vf::mix(vf::fnv(tr), vf::fnv(s.spell));
        switch (r.st) {
        case std_undef: continue;
        case hard:
            vf::record("compile-failure", "hard-error-in-tetl", r.en ? r.en : "hard error", "well-formed, same result as std");
            continue;
        case hard_other:
            vf::record("compile-failure", "hard-error-outside-tetl", r.en ? r.en : "hard error", "well-formed cell (generator or std side)");
            continue;
        case etl_absent:
            vf::cover(tr, h);
            vf::diverge("no-result-where-std-has-one", "substitution failure / not provided for this type",
                r.kind == k_type ? pretty_type(r.sn) : std::string("a value"));
            continue;
        case etl_extra:
            vf::cover(tr, h);
            vf::diverge("result-where-std-has-none", r.kind == k_type ? pretty_type(r.en) : std::string("a value"), "no member");
            continue;
        case both_absent: vf::cover(tr, h); continue;
        default: break;
        }
        vf::cover(tr, h);
        // samples: prefer cells where the trait holds / the type is transformed (more telling than "is_void<bool> = 0")
        if ((r.kind == k_type || r.s != 0 || (i % 97) == 0) && vf::want_sample(tr)) {
            if (r.kind == k_type) {
                vf::sample(tr, "%s<%s> -> etl: %s | std: %s", tr, s.spell, pretty_type(r.en).c_str(), pretty_type(r.sn).c_str());
            } else {
                vf::sample(tr, "%s<%s> -> etl: %lld | std: %lld", tr, s.spell, r.e, r.s);
            }
        }
        switch (r.kind) {
        case k_bool: vf::eq_bool("value", r.e != 0, r.s != 0); break;
        case k_int: vf::eq_int("value", r.e, r.s); break;
        case k_type:
            if (!r.s) { vf::diverge("type:differs", pretty_type(r.en), pretty_type(r.sn)); }
            break;
        case k_bits:
            if (r.e != r.s || r.eh != r.sh) {
                char a[64], b[64];
                std::snprintf(a, sizeof a, "0x%016llx", (unsigned long long)r.e);
                std::snprintf(b, sizeof b, "0x%016llx", (unsigned long long)r.s);
                vf::diverge("bits:differ", a, b);
            }
            break;
        case k_ldbl:
            if (std::memcmp(&r.le, &r.ls, 10) != 0) {
                char a[64], b[64];
                std::snprintf(a, sizeof a, "%La", r.le);
                std::snprintf(b, sizeof b, "%La", r.ls);
                vf::diverge("bits:differ", a, b);
            }
            break;
        default: break;
        }
        if (r.e2 != r.e) { vf::diverge("inconsistent:_v/_t-vs-member", vf::to_s(r.e2), vf::to_s(r.e)); }
        if (r.e3 != r.e) { vf::diverge("inconsistent:type::value-vs-value", vf::to_s(r.e3), vf::to_s(r.e)); }
    }
}

} // namespace c15

#define C15_MAIN(UNIT, TABLE)                                                                                          \
    namespace {                                                                                                        \
    vf::Spec c15_spec(vf::Tier)                                                                                        \
    {                                                                                                                  \
        vf::Spec s;                                                                                                    \
        s.n_enum     = ((TABLE).n + c15::block - 1) / c15::block;                                                      \
        s.n_random   = 0;                                                                                              \
        s.batch      = 8;                                                                                              \
        s.exhaustive = true;                                                                                           \
        return s;                                                                                                      \
    }                                                                                                                  \
    void c15_run(vf::Case& c) { c15::run_block((TABLE), c); }                                                          \
    }                                                                                                                  \
    VF_MAIN("C15", UNIT, c15_spec, c15_run)
