// C11 - the calendar members that are *declared but not defined* on the snapshot tree (so a valid program using them
// does not link): year_month_day_last -> sys_days/local_days, year_month_weekday <-> sys_days/local_days and its
// compound += / -=, and (with -DC11_CONV_YMWDL=1, a separate unit) the whole of year_month_weekday_last.
// Kept apart from C11_cal.cpp so that a missing definition costs one unit (reported as compile-failure), not the harness.
// With the definitions present everything is compared with std::chrono and the day-by-day walker.   (DESIGN 4, C11)
#include "vf.hpp"
#include "vf_contract.hpp"
#include "vf_cal.hpp"

#include <etl/chrono.hpp>

#include <chrono>

namespace {
namespace ec = etl::chrono;
namespace sc = std::chrono;

constexpr std::int32_t kChunk = 10000;
std::int32_t first_day() { return vfcal::table().first_day(); }
std::int32_t last_day() { return vfcal::table().last_day(); }
std::uint64_t n_chunks() { return (std::uint64_t)(((std::int64_t)last_day() - first_day() + 1 + kChunk - 1) / kChunk); }

std::vector<int> years(vf::Tier t)
{
    std::vector<int> r = vfcal::boundary_years();
    for (int y = vfcal::kYearMin + 7; y <= vfcal::kYearMax; y += (t == vf::Tier::thorough ? 53 : 997)) { r.push_back(y); }
    return r;
}

long long fdiv(long long a, long long b) { return a / b - ((a % b != 0) && ((a < 0) != (b < 0))); }
bool year_in_range(long long y) { return y >= vfcal::kYearMin && y <= vfcal::kYearMax; }
char const* carry_sit(unsigned m, long long k)
{
    long long dy = fdiv((long long)m - 1 + k, 12);
    if (dy == 0) { return k >= 0 ? "dm>=0,same-year" : "dm<0,same-year"; }
    if (dy == 1) { return "dm>0,carry-into-next-year"; }
    if (dy > 1) { return "dm>0,carry-several-years"; }
    if (dy == -1) { return "dm<0,borrow-from-previous-year"; }
    return "dm<0,borrow-several-years";
}
std::vector<long long> month_deltas()
{
    std::vector<long long> v;
    for (int k = -40; k <= 40; ++k) { v.push_back(k); }
    long long extra[] = {47, 48, 49, 1199, 1200, 1201, 393203};
    for (long long e : extra) {
        v.push_back(e);
        v.push_back(-e);
    }
    return v;
}
// months for the compound-assignment sweeps: the twelve ok ones and not-ok stored values (the standard defines ym + months for those
// too: the z with z.ok() && z - ym == dm); 255 last, so that a precondition rejecting it only costs the tail of the case
std::vector<unsigned> sweep_months() { return {1, 2, 3, 4, 5, 6, 7, 8, 9, 10, 11, 12, 0, 13, 24, 25, 100, 254, 255}; }
char const* month_sit(unsigned m, long long k)
{
    if (m >= 1 && m <= 12) { return carry_sit(m, k); }
    if (m == 0) { return k == 0 ? "month-stored=0,delta=0" : (k > 0 ? "month-stored=0,delta>0" : "month-stored=0,delta<0"); }
    if (m == 255) { return k == 0 ? "month-stored=255,delta=0" : (k > 0 ? "month-stored=255,delta>0" : "month-stored=255,delta<0"); }
    return k == 0 ? "month-stored-13..254,delta=0" : (k > 0 ? "month-stored-13..254,delta>0" : "month-stored-13..254,delta<0");
}
std::vector<long long> year_deltas(int y) { return {0, 1, -1, 4, -4, 400, -400, (long long)vfcal::kYearMax - y, (long long)vfcal::kYearMin - y}; }

struct Val {
    int n = 0;
    long long v[8];
    char const* nm[8];
    Val& add(char const* name, long long x)
    {
        nm[n]  = name;
        v[n++] = x;
        return *this;
    }
};
std::string show(Val const& a)
{
    std::string s;
    for (int i = 0; i < a.n; ++i) { s += (i ? " " : ""); s += a.nm[i]; s += "="; s += std::to_string(a.v[i]); }
    return s;
}
void check(Val const& e, Val const& s)
{
    for (int i = 0; i < e.n && i < s.n; ++i) {
        if (e.v[i] != s.v[i]) {
            char sym[64];
            long long d = e.v[i] - s.v[i];
            if (d >= -2 && d <= 2) {
                std::snprintf(sym, sizeof sym, "%s:%+lld", e.nm[i], d);
            } else {
                std::snprintf(sym, sizeof sym, "%s:%s", e.nm[i], d > 0 ? "greater" : "less");
            }
            vf::diverge(sym, show(e), show(s));
            return;
        }
    }
}
#define CMPV(SUBJ, OP, SIT, HASH, ARGSTR, SEXPR, EEXPR)                                                                \
    do {                                                                                                               \
        Val const s_ = (SEXPR);                                                                                        \
        vf::crumb(SUBJ, OP, SIT, "%s", ARGSTR);                                                                        \
        Val const e_ = (EEXPR);                                                                                        \
        vf::cover(SUBJ " " OP, (HASH), true);                                                                          \
        check(e_, s_);                                                                                                 \
    } while (0)

#if !defined(C11_CONV_YMWDL)
// =================================================================== year_month_day_last / year_month_weekday
constexpr char const* UNIT = "C11_conv";

template <typename T> Val v_ymwd(T const& x)
{
    return Val{}.add("year", int(x.year())).add("month", unsigned(x.month())).add("weekday", x.weekday().c_encoding()).add("index", x.index()).add("ok", x.ok());
}
ec::year_month_weekday e_ymwd(int y, unsigned m, unsigned wd, unsigned i) { return {ec::year{y}, ec::month{m}, ec::weekday_indexed{ec::weekday{wd}, i}}; }
sc::year_month_weekday s_ymwd(int y, unsigned m, unsigned wd, unsigned i) { return {sc::year{y}, sc::month{m}, sc::weekday_indexed{sc::weekday{wd}, i}}; }

// a stride of days through the whole range: sys_days -> year_month_weekday -> sys_days, vs std and vs the walker
void day_chunk(std::int32_t lo, std::int32_t hi, unsigned stride)
{
    std::uint64_t n = 0, nl = 0;
    vfcal::Walker w(lo);
    for (std::int32_t d = lo; d <= hi; ++d, w.step()) {
        bool const take = ((std::uint32_t)(d - first_day()) % stride) == 0 || w.c.d <= 1 || w.last_of_month();
        if (!take) { continue; }
        sc::sys_days const sd{sc::days{d}};
        sc::year_month_weekday const sw{sd};
        unsigned const ridx = (w.c.d - 1) / 7 + 1;
        if (int(sw.year()) != w.c.y || unsigned(sw.month()) != w.c.m || sw.weekday().c_encoding() != w.wd || sw.index() != ridx) {
            vfcal::fast_crumb("oracle", "std-vs-walker", "ymwd", "d", d);
            vf::diverge("oracles-disagree", "std", "walker");
        }
        char const* sit = ridx == 5 ? "fifth-weekday" : (ridx == 1 ? "first-weekday" : "index-2..4");
        vfcal::fast_crumb("year_month_weekday", "year_month_weekday(sys_days)", sit, "d", d);
        ec::year_month_weekday const ew{ec::sys_days{ec::days{d}}};
        check(v_ymwd(ew), v_ymwd(sw));
        vfcal::fast_crumb("year_month_weekday", "operator sys_days", sit, "d", d);
        ec::sys_days const back = ew;
        vf::eq_int("roundtrip", back.time_since_epoch().count(), d);
        vfcal::fast_crumb("year_month_weekday", "year_month_weekday(local_days)", sit, "d", d);
        ec::year_month_weekday const el{ec::local_days{ec::days{d}}};
        check(v_ymwd(el), v_ymwd(sw));
        vfcal::fast_crumb("year_month_weekday", "operator local_days", sit, "d", d);
        auto const lback = static_cast<ec::local_days>(ew);
        vf::eq_int("roundtrip", lback.time_since_epoch().count(), d);
        ++n;
        if (w.last_of_month()) {
            vfcal::fast_crumb("year_month_day_last", "operator sys_days", w.c.m == 2 ? (w.c.d == 29 ? "february-leap" : "february-common") : "other-month", "d", d);
            ec::year_month_day_last const yl{ec::year{w.c.y}, ec::month_day_last{ec::month{w.c.m}}};
            ec::sys_days const ld = yl;
            vf::eq_int("days", ld.time_since_epoch().count(), d);
            vfcal::fast_crumb("year_month_day_last", "operator local_days", w.c.m == 2 ? (w.c.d == 29 ? "february-leap" : "february-common") : "other-month", "d", d);
            auto const ll = static_cast<ec::local_days>(yl);
            vf::eq_int("days", ll.time_since_epoch().count(), d);
            ++nl;
        }
    }
    std::uint64_t h = (std::uint64_t)(std::int64_t)lo;
    vf::cover_bulk("year_month_weekday(sys_days|local_days)", 2 * n, h, n);
    vf::cover_bulk("year_month_weekday::operator sys_days|local_days", 2 * n, h, n);
    vf::cover_bulk("year_month_day_last::operator sys_days|local_days", 2 * nl, h, nl);
    if (vf::want_sample("conv-chunk")) { vf::sample("conv-chunk", "days [%d, %d]: every %u-th day plus every first/last day of a month", lo, hi, stride); }
}

template <typename N, typename V> Val ymwd_addeq_m(V v, long long k) { auto&& r = (v += typename N::months{(typename N::months::rep)k}); return v_ymwd(v).add("returns-self", &r == &v); }
template <typename N, typename V> Val ymwd_subeq_m(V v, long long k) { auto&& r = (v -= typename N::months{(typename N::months::rep)k}); return v_ymwd(v).add("returns-self", &r == &v); }
template <typename N, typename V> Val ymwd_addeq_y(V v, long long k) { auto&& r = (v += typename N::years{(typename N::years::rep)k}); return v_ymwd(v).add("returns-self", &r == &v); }
template <typename N, typename V> Val ymwd_subeq_y(V v, long long k) { auto&& r = (v -= typename N::years{(typename N::years::rep)k}); return v_ymwd(v).add("returns-self", &r == &v); }
template <typename N, typename V> Val ymwd_ch_addsub_m(V v, long long k) { (v += typename N::months{(typename N::months::rep)k}) -= typename N::months{(typename N::months::rep)k}; return v_ymwd(v); }
template <typename N, typename V> Val ymwd_ch_subadd_m(V v, long long k) { (v -= typename N::months{(typename N::months::rep)k}) += typename N::months{(typename N::months::rep)k}; return v_ymwd(v); }
template <typename N, typename V> Val ymwd_ch_addsub_y(V v, long long k) { (v += typename N::years{(typename N::years::rep)k}) -= typename N::years{(typename N::years::rep)k}; return v_ymwd(v); }
template <typename N, typename V> Val ymwd_ch_subadd_y(V v, long long k) { (v -= typename N::years{(typename N::years::rep)k}) += typename N::years{(typename N::years::rep)k}; return v_ymwd(v); }
struct EN { using months = ec::months; using years = ec::years; };
struct SN { using months = sc::months; using years = sc::years; };

void year_case(int y)
{
    char args[96];
    // ---- sys_days of every (month, weekday, index 0..5): index 0 and a non-existing fifth are defined by the standard
    for (unsigned m = 1; m <= 12; ++m) {
        for (unsigned wd = 0; wd <= 6; ++wd) {
            for (unsigned i = 0; i <= 5; ++i) {
                std::snprintf(args, sizeof args, "y=%d m=%u wd=%u index=%u", y, m, wd, i);
                auto const sv   = s_ymwd(y, m, wd, i);
                long long sdays = sc::sys_days{sv}.time_since_epoch().count();
                // independent rule: first such weekday of the month + 7*(index-1)
                vfcal::Walker w(vfcal::days_of(y, m, 1));
                long long rule = (long long)w.n + ((int)wd - (int)w.wd + 7) % 7 + 7ll * ((int)i - 1);
                if (rule != sdays) {
                    vf::crumb("oracle", "std-vs-rule", "ymwd->sys_days", "%s", args);
                    vf::diverge("oracles-disagree", vf::to_s(sdays), vf::to_s(rule));
                }
                if (sdays < first_day() || sdays > last_day()) { continue; }
                char const* sit = i == 0 ? "index=0 (7 days before the first)" : (i <= 4 ? "index-1..4" : (sv.ok() ? "index=5,exists" : "index=5,spills-into-next-month"));
                std::uint64_t h = vf::mix((std::uint64_t)(y + 40000), m * 64 + wd * 8 + i);
                CMPV("year_month_weekday", "operator sys_days", sit, h, args, Val{}.add("days", sdays),
                    Val{}.add("days", static_cast<ec::sys_days>(e_ymwd(y, m, wd, i)).time_since_epoch().count()));
            }
        }
    }
    // ---- compound assignment
    struct WI { unsigned wd, i; };
    WI const wis[] = {{0, 1}, {3, 5}, {6, 4}};
    for (unsigned m : sweep_months()) {
        for (WI wi : wis) {
            for (long long k : month_deltas()) {
                std::snprintf(args, sizeof args, "y=%d m=%u wd=%u[%u] dm=%lld", y, m, wi.wd, wi.i, k);
                std::uint64_t h = vf::mix(vf::mix((std::uint64_t)(y + 40000), m * 64 + wi.wd * 8 + wi.i), (std::uint64_t)k);
                if (year_in_range((long long)y + fdiv((long long)m - 1 + k, 12))) {
                    CMPV("year_month_weekday", "ymwd+=months", month_sit(m, k), h, args, (ymwd_addeq_m<SN>(s_ymwd(y, m, wi.wd, wi.i), k)), (ymwd_addeq_m<EN>(e_ymwd(y, m, wi.wd, wi.i), k)));
                    CMPV("year_month_weekday", "(ymwd+=months)-=months", month_sit(m, k), h, args, (ymwd_ch_addsub_m<SN>(s_ymwd(y, m, wi.wd, wi.i), k)), (ymwd_ch_addsub_m<EN>(e_ymwd(y, m, wi.wd, wi.i), k)));
                }
                if (year_in_range((long long)y + fdiv((long long)m - 1 - k, 12))) {
                    CMPV("year_month_weekday", "ymwd-=months", month_sit(m, -k), h, args, (ymwd_subeq_m<SN>(s_ymwd(y, m, wi.wd, wi.i), k)), (ymwd_subeq_m<EN>(e_ymwd(y, m, wi.wd, wi.i), k)));
                    CMPV("year_month_weekday", "(ymwd-=months)+=months", month_sit(m, -k), h, args, (ymwd_ch_subadd_m<SN>(s_ymwd(y, m, wi.wd, wi.i), k)), (ymwd_ch_subadd_m<EN>(e_ymwd(y, m, wi.wd, wi.i), k)));
                }
            }
            for (long long k : year_deltas(y)) {
                std::snprintf(args, sizeof args, "y=%d m=%u wd=%u[%u] dy=%lld", y, m, wi.wd, wi.i, k);
                std::uint64_t h = vf::mix(vf::mix((std::uint64_t)(y + 40000), m * 64 + wi.wd * 8 + wi.i + 5000), (std::uint64_t)k);
                char const* sit = k == 0 ? "delta=0" : (k > 0 ? "delta>0" : "delta<0");
                if (year_in_range((long long)y + k)) {
                    CMPV("year_month_weekday", "ymwd+=years", sit, h, args, (ymwd_addeq_y<SN>(s_ymwd(y, m, wi.wd, wi.i), k)), (ymwd_addeq_y<EN>(e_ymwd(y, m, wi.wd, wi.i), k)));
                    CMPV("year_month_weekday", "(ymwd+=years)-=years", sit, h, args, (ymwd_ch_addsub_y<SN>(s_ymwd(y, m, wi.wd, wi.i), k)), (ymwd_ch_addsub_y<EN>(e_ymwd(y, m, wi.wd, wi.i), k)));
                }
                if (year_in_range((long long)y - k)) {
                    CMPV("year_month_weekday", "ymwd-=years", sit, h, args, (ymwd_subeq_y<SN>(s_ymwd(y, m, wi.wd, wi.i), k)), (ymwd_subeq_y<EN>(e_ymwd(y, m, wi.wd, wi.i), k)));
                    CMPV("year_month_weekday", "(ymwd-=years)+=years", sit, h, args, (ymwd_ch_subadd_y<SN>(s_ymwd(y, m, wi.wd, wi.i), k)), (ymwd_ch_subadd_y<EN>(e_ymwd(y, m, wi.wd, wi.i), k)));
                }
            }
        }
    }
}

#else
// =================================================================== year_month_weekday_last
constexpr char const* UNIT = "C11_conv_ymwdl";

template <typename T> Val v_ymwdl(T const& x)
{
    return Val{}.add("year", int(x.year())).add("month", unsigned(x.month())).add("weekday", x.weekday().c_encoding()).add("weekday_last", x.weekday_last().weekday().c_encoding()).add("ok", x.ok());
}
ec::year_month_weekday_last e_mk(int y, unsigned m, unsigned wd) { return {ec::year{y}, ec::month{m}, ec::weekday_last{ec::weekday{wd}}}; }
sc::year_month_weekday_last s_mk(int y, unsigned m, unsigned wd) { return {sc::year{y}, sc::month{m}, sc::weekday_last{sc::weekday{wd}}}; }
struct EN { using months = ec::months; using years = ec::years; };
struct SN { using months = sc::months; using years = sc::years; };
template <typename N, typename V> Val add_m(V v, long long k) { return v_ymwdl(v + typename N::months{(typename N::months::rep)k}); }
template <typename N, typename V> Val radd_m(V v, long long k) { return v_ymwdl(typename N::months{(typename N::months::rep)k} + v); }
template <typename N, typename V> Val sub_m(V v, long long k) { return v_ymwdl(v - typename N::months{(typename N::months::rep)k}); }
template <typename N, typename V> Val add_y(V v, long long k) { return v_ymwdl(v + typename N::years{(typename N::years::rep)k}); }
template <typename N, typename V> Val radd_y(V v, long long k) { return v_ymwdl(typename N::years{(typename N::years::rep)k} + v); }
template <typename N, typename V> Val sub_y(V v, long long k) { return v_ymwdl(v - typename N::years{(typename N::years::rep)k}); }
template <typename N, typename V> Val ch_addsub_m(V v, long long k) { (v += typename N::months{(typename N::months::rep)k}) -= typename N::months{(typename N::months::rep)k}; return v_ymwdl(v); }
template <typename N, typename V> Val ch_subadd_m(V v, long long k) { (v -= typename N::months{(typename N::months::rep)k}) += typename N::months{(typename N::months::rep)k}; return v_ymwdl(v); }
template <typename N, typename V> Val ch_addsub_y(V v, long long k) { (v += typename N::years{(typename N::years::rep)k}) -= typename N::years{(typename N::years::rep)k}; return v_ymwdl(v); }
template <typename N, typename V> Val ch_subadd_y(V v, long long k) { (v -= typename N::years{(typename N::years::rep)k}) += typename N::years{(typename N::years::rep)k}; return v_ymwdl(v); }
template <typename N, typename V> Val addeq_m(V v, long long k) { auto&& r = (v += typename N::months{(typename N::months::rep)k}); return v_ymwdl(v).add("returns-self", &r == &v); }
template <typename N, typename V> Val subeq_m(V v, long long k) { auto&& r = (v -= typename N::months{(typename N::months::rep)k}); return v_ymwdl(v).add("returns-self", &r == &v); }
template <typename N, typename V> Val addeq_y(V v, long long k) { auto&& r = (v += typename N::years{(typename N::years::rep)k}); return v_ymwdl(v).add("returns-self", &r == &v); }
template <typename N, typename V> Val subeq_y(V v, long long k) { auto&& r = (v -= typename N::years{(typename N::years::rep)k}); return v_ymwdl(v).add("returns-self", &r == &v); }

void day_chunk(std::int32_t lo, std::int32_t hi, unsigned)
{
    // every month whose last day falls into [lo, hi]: the last <weekday> of that month for all 7 weekdays
    std::uint64_t n = 0;
    vfcal::Walker w(lo);
    for (std::int32_t d = lo; d <= hi; ++d, w.step()) {
        if (!w.last_of_month()) { continue; }
        for (unsigned wd = 0; wd <= 6; ++wd) {
            long long const rule  = (long long)d - ((int)w.wd - (int)wd + 7) % 7; // walk back from the last day to that weekday
            long long const sdays = sc::sys_days{s_mk(w.c.y, w.c.m, wd)}.time_since_epoch().count();
            if (rule != sdays) {
                vfcal::fast_crumb("oracle", "std-vs-walker", "ymwdl->sys_days", "d", d);
                vf::diverge("oracles-disagree", vf::to_s(sdays), vf::to_s(rule));
            }
            if (sdays < first_day()) { continue; }
            char const* sit = wd == w.wd ? "last-day-is-that-weekday" : "walks-back-1..6-days";
            vfcal::fast_crumb("year_month_weekday_last", "operator sys_days", sit, "d", d);
            auto const ev           = e_mk(w.c.y, w.c.m, wd);
            ec::sys_days const esd = ev;
            vf::eq_int("days", esd.time_since_epoch().count(), sdays);
            vfcal::fast_crumb("year_month_weekday_last", "operator local_days", sit, "d", d);
            auto const eld = static_cast<ec::local_days>(ev);
            vf::eq_int("days", eld.time_since_epoch().count(), sdays);
            ++n;
        }
    }
    vf::cover_bulk("year_month_weekday_last::operator sys_days|local_days", 2 * n, (std::uint64_t)(std::int64_t)lo, n);
    if (vf::want_sample("conv-chunk")) { vf::sample("conv-chunk", "days [%d, %d]: last <weekday> of every month ending in the chunk, 7 weekdays", lo, hi); }
}

void year_case(int y)
{
    char args[96];
    for (unsigned m = 0; m <= 13; ++m) {
        for (unsigned wd = 0; wd <= 8; ++wd) {
            std::snprintf(args, sizeof args, "y=%d m=%u wd=%u", y, m, wd);
            char const* sit = (m == 0 || m > 12) ? "month-not-ok" : (wd > 7 ? "weekday-not-ok" : "all-ok");
            CMPV("year_month_weekday_last", "accessors/ok()", sit, vf::mix((std::uint64_t)(y + 40000), m * 16 + wd), args, v_ymwdl(s_mk(y, m, wd)), v_ymwdl(e_mk(y, m, wd)));
        }
    }
    for (unsigned m : sweep_months()) {
        unsigned const wd = (m * 3) % 7;
        for (long long k : month_deltas()) {
            std::snprintf(args, sizeof args, "y=%d m=%u wd=%u[last] dm=%lld", y, m, wd, k);
            std::uint64_t h = vf::mix(vf::mix((std::uint64_t)(y + 40000), m), (std::uint64_t)k);
            if (year_in_range((long long)y + fdiv((long long)m - 1 + k, 12))) {
                CMPV("year_month_weekday_last", "ymwdl+months", month_sit(m, k), h, args, add_m<SN>(s_mk(y, m, wd), k), add_m<EN>(e_mk(y, m, wd), k));
                CMPV("year_month_weekday_last", "months+ymwdl", month_sit(m, k), h, args, radd_m<SN>(s_mk(y, m, wd), k), radd_m<EN>(e_mk(y, m, wd), k));
                CMPV("year_month_weekday_last", "ymwdl+=months", month_sit(m, k), h, args, addeq_m<SN>(s_mk(y, m, wd), k), addeq_m<EN>(e_mk(y, m, wd), k));
                CMPV("year_month_weekday_last", "(ymwdl+=months)-=months", month_sit(m, k), h, args, ch_addsub_m<SN>(s_mk(y, m, wd), k), ch_addsub_m<EN>(e_mk(y, m, wd), k));
            }
            if (year_in_range((long long)y + fdiv((long long)m - 1 - k, 12))) {
                CMPV("year_month_weekday_last", "ymwdl-months", month_sit(m, -k), h, args, sub_m<SN>(s_mk(y, m, wd), k), sub_m<EN>(e_mk(y, m, wd), k));
                CMPV("year_month_weekday_last", "ymwdl-=months", month_sit(m, -k), h, args, subeq_m<SN>(s_mk(y, m, wd), k), subeq_m<EN>(e_mk(y, m, wd), k));
                CMPV("year_month_weekday_last", "(ymwdl-=months)+=months", month_sit(m, -k), h, args, ch_subadd_m<SN>(s_mk(y, m, wd), k), ch_subadd_m<EN>(e_mk(y, m, wd), k));
            }
        }
        for (long long k : year_deltas(y)) {
            std::snprintf(args, sizeof args, "y=%d m=%u wd=%u[last] dy=%lld", y, m, wd, k);
            std::uint64_t h = vf::mix(vf::mix((std::uint64_t)(y + 40000), m + 50), (std::uint64_t)k);
            char const* sit = k == 0 ? "delta=0" : (k > 0 ? "delta>0" : "delta<0");
            if (year_in_range((long long)y + k)) {
                CMPV("year_month_weekday_last", "ymwdl+years", sit, h, args, add_y<SN>(s_mk(y, m, wd), k), add_y<EN>(e_mk(y, m, wd), k));
                CMPV("year_month_weekday_last", "years+ymwdl", sit, h, args, radd_y<SN>(s_mk(y, m, wd), k), radd_y<EN>(e_mk(y, m, wd), k));
                CMPV("year_month_weekday_last", "ymwdl+=years", sit, h, args, addeq_y<SN>(s_mk(y, m, wd), k), addeq_y<EN>(e_mk(y, m, wd), k));
                CMPV("year_month_weekday_last", "(ymwdl+=years)-=years", sit, h, args, ch_addsub_y<SN>(s_mk(y, m, wd), k), ch_addsub_y<EN>(e_mk(y, m, wd), k));
            }
            if (year_in_range((long long)y - k)) {
                CMPV("year_month_weekday_last", "ymwdl-years", sit, h, args, sub_y<SN>(s_mk(y, m, wd), k), sub_y<EN>(e_mk(y, m, wd), k));
                CMPV("year_month_weekday_last", "ymwdl-=years", sit, h, args, subeq_y<SN>(s_mk(y, m, wd), k), subeq_y<EN>(e_mk(y, m, wd), k));
                CMPV("year_month_weekday_last", "(ymwdl-=years)+=years", sit, h, args, ch_subadd_y<SN>(s_mk(y, m, wd), k), ch_subadd_y<EN>(e_mk(y, m, wd), k));
            }
        }
        std::snprintf(args, sizeof args, "y=%d m=%u", y, m);
        CMPV("year_month_weekday_last", "operator==", "any", vf::mix((std::uint64_t)(y + 40000), m + 900), args,
            Val{}.add("same", s_mk(y, m, wd) == s_mk(y, m, wd)).add("other-month", s_mk(y, m, wd) == s_mk(y, 1 + m % 12, wd)).add("other-weekday", s_mk(y, m, wd) == s_mk(y, m, (wd + 1) % 7)),
            Val{}.add("same", e_mk(y, m, wd) == e_mk(y, m, wd)).add("other-month", e_mk(y, m, wd) == e_mk(y, 1 + m % 12, wd)).add("other-weekday", e_mk(y, m, wd) == e_mk(y, m, (wd + 1) % 7)));
    }
}
#endif

// quick: every 23rd chunk of 10000 days (+ ends, epoch, era 0); thorough: all chunks.  stride inside a chunk: 7 (+1) days
std::vector<std::uint64_t> chunks(vf::Tier t)
{
    std::vector<std::uint64_t> r;
    std::uint64_t n = n_chunks();
    for (std::uint64_t i = 0; i < n; i += (t == vf::Tier::thorough ? 1 : 23)) { r.push_back(i); }
    if (t != vf::Tier::thorough) {
        auto holding      = [](std::int32_t d) { return (std::uint64_t)(((std::int64_t)d - first_day()) / kChunk); };
        std::uint64_t ex[] = {n - 1, holding(0), holding(-1), holding(-719468), holding(-719469), holding(11017)};
        for (std::uint64_t e : ex) {
            bool have = false;
            for (std::uint64_t x : r) { have = have || x == e; }
            if (!have) { r.push_back(e); }
        }
    }
    return r;
}

vf::Spec spec(vf::Tier t)
{
    vf::Spec s;
    s.n_enum     = chunks(t).size() + years(t).size();
    s.n_random   = t == vf::Tier::thorough ? 400 : 60;
    s.batch      = 4;
    s.timeout_s  = 300;
    s.exhaustive = true;
    return s;
}

void run_case(vf::Case& c)
{
    if (c.enumerated) {
        auto ch = chunks(c.tier);
        if (c.index < ch.size()) {
            std::int32_t lo = (std::int32_t)(first_day() + (std::int64_t)ch[c.index] * kChunk);
            std::int32_t hi = lo + kChunk - 1 > last_day() ? last_day() : lo + kChunk - 1;
            day_chunk(lo, hi, 8);
        } else {
            year_case(years(c.tier)[c.index - ch.size()]);
        }
        return;
    }
    if (c.rng.coin()) {
        std::int32_t lo = (std::int32_t)c.rng.range(first_day(), last_day() - 3000);
        day_chunk(lo, lo + 2999, 1 + (unsigned)c.rng.below(5));
    } else {
        year_case((int)c.rng.range(vfcal::kYearMin, vfcal::kYearMax));
    }
}
} // namespace

int main(int argc, char** argv) { return vf::run_main(argc, argv, "C11", UNIT, spec, run_case); }
