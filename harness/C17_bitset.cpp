// C17 - etl::bitset<N> / etl::basic_bitset<N,Word> vs std::bitset<N> (DESIGN 4, C17)
//
// Build parameters:
//   -DVF_KIND=0  subjects etl::bitset<W>                                   for W in {VF_W0..VF_W3}
//   -DVF_KIND=1  subjects etl::basic_bitset<W,uint8_t>, <W,uint16_t>       for W in {VF_W0..VF_W3}
//   -DVF_KIND=2  subjects etl::basic_bitset<W,uint32_t>, <W,uint64_t>      for W in {VF_W0..VF_W3}
//   -DVF_UNIT="C17_..."  unit name
//
// Case space (per unit, per subject "config"):
//   enumerated  : one case per *value* a of the config's value set (all 2^N values for N <= 9,
//                 a fixed set of 16 boundary patterns for wider N).  The case applies, from value a,
//                 every construction route, every single-bit operation at every position, every
//                 whole-set operation, every binary operation with every value b of the value set,
//                 the integer constructors and the string constructors, and compares ALL observers
//                 with std::bitset after each step.  Plus one case per config with strings longer than N.
//   random      : seeded histories of 64 steps (thorough: every 8th 256 steps) mixing all of the above.
#include "vf.hpp"
#include "vf_contract.hpp"

#include <etl/bitset.hpp>
#include <etl/string.hpp>
#include <etl/string_view.hpp>

#include <bitset>
#include <cstdint>
#include <limits>
#include <stdexcept>
#include <string>
#include <vector>

#ifndef VF_KIND
    #define VF_KIND 0
#endif
#ifndef VF_W0
    #define VF_W0 9
    #define VF_W1 15
    #define VF_W2 64
    #define VF_W3 129
#endif
#ifndef VF_UNIT
    #define VF_UNIT "C17_bitset"
#endif

namespace {

using std::size_t;
using u64 = std::uint64_t;

// ------------------------------------------------------------------ user-supplied character traits (case-insensitive eq/lt/compare/find)
constexpr char ci_lower(char c) { return (c >= 'A' && c <= 'Z') ? static_cast<char>(c - 'A' + 'a') : c; }
struct etl_ci_traits : etl::char_traits<char> {
    static constexpr auto eq(char a, char b) noexcept -> bool { return ci_lower(a) == ci_lower(b); }
    static constexpr auto lt(char a, char b) noexcept -> bool { return ci_lower(a) < ci_lower(b); }
    static constexpr auto compare(char const* a, char const* b, etl::size_t n) -> int
    {
        for (etl::size_t i = 0; i < n; ++i) {
            if (lt(a[i], b[i])) { return -1; }
            if (lt(b[i], a[i])) { return 1; }
        }
        return 0;
    }
    static constexpr auto find(char const* s, etl::size_t n, char const& c) -> char const*
    {
        for (etl::size_t i = 0; i < n; ++i) {
            if (eq(s[i], c)) { return s + i; }
        }
        return nullptr;
    }
};
struct std_ci_traits : std::char_traits<char> {
    static constexpr bool eq(char a, char b) noexcept { return ci_lower(a) == ci_lower(b); }
    static constexpr bool lt(char a, char b) noexcept { return ci_lower(a) < ci_lower(b); }
    static constexpr int compare(char const* a, char const* b, std::size_t n)
    {
        for (std::size_t i = 0; i < n; ++i) {
            if (lt(a[i], b[i])) { return -1; }
            if (lt(b[i], a[i])) { return 1; }
        }
        return 0;
    }
    static constexpr char const* find(char const* s, std::size_t n, char const& c)
    {
        for (std::size_t i = 0; i < n; ++i) {
            if (eq(s[i], c)) { return s + i; }
        }
        return nullptr;
    }
};

// ------------------------------------------------------------------ subject description (public facts only)
template <typename T>
struct WordName;
template <>
struct WordName<std::uint8_t> {
    static constexpr char const* v = "u8";
};
template <>
struct WordName<std::uint16_t> {
    static constexpr char const* v = "u16";
};
template <>
struct WordName<std::uint32_t> {
    static constexpr char const* v = "u32";
};
template <>
struct WordName<std::uint64_t> {
    static constexpr char const* v = "u64";
};

template <typename E>
struct Info;
template <size_t N>
struct Info<etl::bitset<N>> {
    static constexpr size_t bits     = N;
    static constexpr size_t wordbits = std::numeric_limits<etl::size_t>::digits; // reference = basic_bitset<N,size_t>::reference
    static void name(char* b, size_t n) { std::snprintf(b, n, "bitset<%zu>", N); }
};
template <size_t N, typename W>
struct Info<etl::basic_bitset<N, W>> {
    static constexpr size_t bits     = N;
    static constexpr size_t wordbits = std::numeric_limits<W>::digits;
    static void name(char* b, size_t n) { std::snprintf(b, n, "basic_bitset<%zu,%s>", N, WordName<W>::v); }
};

// ------------------------------------------------------------------ API detection (absence of API is not a divergence)
// clang-format off
template <typename E> concept has_set_pos   = requires(E& e, size_t p, bool v) { e.set(p, v); e.set(p); };
template <typename E> concept has_reset_pos = requires(E& e, size_t p) { e.reset(p); };
template <typename E> concept has_flip_pos  = requires(E& e, size_t p) { e.flip(p); };
template <typename E> concept has_test      = requires(E const& e, size_t p) { { e.test(p) } -> std::convertible_to<bool>; };
template <typename E> concept has_uset      = requires(E& e, size_t p, bool v) { e.unchecked_set(p, v); e.unchecked_set(p); };
template <typename E> concept has_ureset    = requires(E& e, size_t p) { e.unchecked_reset(p); };
template <typename E> concept has_uflip     = requires(E& e, size_t p) { e.unchecked_flip(p); };
template <typename E> concept has_utest     = requires(E const& e, size_t p) { { e.unchecked_test(p) } -> std::convertible_to<bool>; };
template <typename E> concept has_not       = requires(E const& e) { { ~e } -> std::convertible_to<E>; };
template <typename E> concept has_band      = requires(E const& a, E const& b) { { a & b } -> std::convertible_to<E>; { a | b } -> std::convertible_to<E>; { a ^ b } -> std::convertible_to<E>; };
template <typename E> concept has_ne        = requires(E const& a, E const& b) { { a != b } -> std::convertible_to<bool>; };
template <typename E> concept has_to_ulong  = requires(E const& e) { { e.to_ulong() } -> std::convertible_to<unsigned long>; };
template <typename E> concept has_to_ullong = requires(E const& e) { { e.to_ullong() } -> std::convertible_to<unsigned long long>; };
template <typename E> concept has_shl_assign = requires(E& e, size_t p) { e <<= p; };
template <typename E> concept has_shr_assign = requires(E& e, size_t p) { e >>= p; };
template <typename E> concept has_shl        = requires(E const& e, size_t p) { { e << p } -> std::convertible_to<E>; };
template <typename E> concept has_shr        = requires(E const& e, size_t p) { { e >> p } -> std::convertible_to<E>; };
template <typename E, typename C> concept has_sv_ctor   = requires(etl::basic_string_view<C> sv, size_t p, size_t n, C z, C o) { E(sv, p, n, z, o); E(sv); };
template <typename E, typename C> concept has_cstr_ctor = requires(C const* s, size_t n, C z, C o) { E(s, n, z, o); E(s); };
template <typename E, size_t Cap, typename C> concept has_to_string = requires(E const& e, C z, C o) { e.template to_string<Cap, C>(z, o); };
template <typename E, size_t Cap> concept has_to_string_default = requires(E const& e) { e.template to_string<Cap>(); };
// clang-format on

// ------------------------------------------------------------------ cheap per-call breadcrumb refinement
// vf::crumb() (full, formatted) is issued once per step; every further library call of the step
// (observers, per-bit construction calls) overwrites the first 24 bytes of the args field.
constexpr int kSub = 24;
inline void sub(char const* name, long pos = -1)
{
    vf::Shared* sh = vf::g().sh;
    if (!sh) { return; }
    char* a = sh->args;
    int i   = 0;
    for (; name[i] && i < 18; ++i) { a[i] = name[i]; }
    if (pos >= 0) {
        a[i++] = '@';
        char t[8];
        int k = 0;
        do {
            t[k++] = (char)('0' + pos % 10);
            pos /= 10;
        } while (pos && k < 5);
        while (k) { a[i++] = t[--k]; }
    }
    for (; i < kSub; ++i) { a[i] = ' '; }
    sh->step++;
    if (vf::g().verbose) { std::fprintf(stderr, "      . %.24s\n", a); }
}

inline u64 recs()
{
    vf::Shared* sh = vf::g().sh;
    return sh ? sh->records_emitted + sh->records_suppressed : 0;
}

std::string narrow(std::basic_string<char> const& s) { return s; }
std::string narrow(std::basic_string<wchar_t> const& s)
{
    std::string o;
    for (wchar_t c : s) { o += (c >= 0x20 && c < 0x7f) ? (char)c : '?'; }
    return o;
}

enum Obs {
    O_TEST, O_UTEST, O_IDX_CONST, O_IDX_REF, O_IDX_REF_NOT, O_COUNT, O_ALL, O_ANY, O_NONE, O_SIZE, O_EQ, O_NE, O_TO_ULONG,
    O_TO_ULLONG, O_TO_STRING, O_RET, O_NUM
};
constexpr char const* kObsLabel[O_NUM] = {"obs:test(pos)", "obs:unchecked_test(pos)", "obs:operator[](pos)const",
    "obs:operator[](pos)->bool", "obs:~operator[](pos)", "obs:count", "obs:all", "obs:any", "obs:none", "obs:size", "obs:operator==",
    "obs:operator!=", "obs:to_ulong", "obs:to_ullong", "obs:to_string", "obs:return-value"};

enum Op {
    // single bit
    S_SET1, S_SETV, S_RESET1, S_FLIP1, S_USET1, S_USETV, S_URESET, S_UFLIP, S_REF_ASSIGN, S_REF_ASSIGN_REF, S_REF_FLIP,
    // chained single-bit expressions (every modifier must return *this / the proxy itself, not a copy)
    C_SET_RESETP, C_RESET_SETP, C_FLIP_FLIPP, C_SETP_FLIPQ, C_RESETP_SETQV, C_FLIPP_RESETQ, C_REF_ASSIGN_FLIP, C_REF_FLIP_ASSIGN,
    C_REF_CHAIN_ASSIGN,
    // whole set
    W_SET, W_RESET, W_FLIP, W_NOT, W_COPY,
    // the same object on both sides
    X_AND_A_SELF, X_OR_A_SELF, X_XOR_A_SELF, X_AND_SELF, X_OR_SELF, X_XOR_SELF,
    // binary
    B_AND_A, B_OR_A, B_XOR_A, B_AND, B_OR, B_XOR,
    // chained binary expressions
    C_ANDA_FLIP, C_ORA_XORA, C_XORA_ANDA,
    // shifts (only if provided)
    H_SHL_A, H_SHR_A, H_SHL, H_SHR,
    OP_NUM
};
constexpr char const* kOpLabel[] = {"set(pos)", "set(pos,val)", "reset(pos)", "flip(pos)", "unchecked_set(pos)",
    "unchecked_set(pos,val)", "unchecked_reset(pos)", "unchecked_flip(pos)", "operator[]=bool", "operator[]=reference",
    "operator[].flip()", "chain:set().reset(pos)", "chain:reset().set(pos)", "chain:flip().flip(pos)", "chain:set(pos).flip(pos2)",
    "chain:reset(pos).set(pos2,val)", "chain:flip(pos).reset(pos2)", "chain:(b[pos]=val).flip()", "chain:b[pos].flip()=val",
    "chain:b[pos]=b[pos2]=val", "set()", "reset()", "flip()", "operator~", "operator=(copy)", "operator&=(self)", "operator|=(self)",
    "operator^=(self)", "operator&(self,self)", "operator|(self,self)", "operator^(self,self)", "operator&=", "operator|=", "operator^=",
    "operator&", "operator|", "operator^", "chain:(b&=x).flip()", "chain:(b|=x)^=x", "chain:(b^=x)&=x", "operator<<=", "operator>>=", "operator<<", "operator>>"};
static_assert(sizeof(kOpLabel) / sizeof(kOpLabel[0]) == OP_NUM);

constexpr unsigned kRoutes = 8;
constexpr char const* kRouteLabel[kRoutes] = {"build:default+set-bits", "build:set()+reset-bits", "build:complement+flip()",
    "build:complement+operator~", "build:|=all-ones,^=complement", "build:ctor(ull)", "build:operator[]=bool", "build:flip()x2+flip-bits"};

// ------------------------------------------------------------------ the monitor for one subject type
template <typename E>
struct H {
    static constexpr size_t N  = Info<E>::bits;
    static constexpr size_t WB = Info<E>::wordbits;
    using M                    = std::bitset<N>;

    char subj[48];
    u64 cfgh;
    vf::Tier tier;
    E e{};
    M m{};
    u64 obs_n[O_NUM]{};

    explicit H(vf::Tier t) : tier(t)
    {
        Info<E>::name(subj, sizeof subj);
        cfgh = vf::fnv(subj);
    }
    ~H() { flush(); }
    void flush()
    {
        for (int i = 0; i < O_NUM; ++i) {
            if (obs_n[i]) { vf::cover_bulk(kObsLabel[i], obs_n[i], 0, 0); }
            obs_n[i] = 0;
        }
    }

    // ---------------------------------------------------------------- labels
    static char const* stcls(M const& x) { return x.none() ? "none" : (x.all() ? "all" : "mixed"); }
    static char const* poscls(size_t p)
    {
        if (p == N - 1) { return "pos=last"; }
        if (p == 0) { return "pos=first"; }
        if (p % WB == WB - 1) { return "pos=word-hi"; }
        if (p % WB == 0) { return "pos=word-lo"; }
        return "pos=mid";
    }
    __attribute__((format(printf, 4, 5))) void crumbf(char const* op, char const* sit, char const* fmt, ...)
    {
        char buf[520];
        va_list ap;
        va_start(ap, fmt);
        std::vsnprintf(buf, sizeof buf, fmt, ap);
        va_end(ap);
        vf::crumb(subj, op, sit, "%-24s| %s", "", buf);
    }

    // ---------------------------------------------------------------- comparisons
    // All disagreements of one step are folded into ONE record: the symptom is the first disagreeing
    // observer (fixed observer order) with a classification of the wrong value; the record text lists
    // every disagreeing observer.
    struct Fails {
        int n = 0;
        std::string sym, names, obs, exp;
    };
    Fails F;
    bool on_operand = false; // observers are looking at the (const) right-hand operand of a binary operation
    void fail(char const* name, char const* cls, std::string const& obs, std::string const& exp)
    {
        std::string nm = std::string(on_operand ? "operand-after:" : "") + name;
        if (F.n == 0) {
            F.sym = nm + ":" + cls;
            F.obs = obs;
            F.exp = exp;
        }
        if (F.n < 24) { F.names += (F.n ? "," : "") + nm; }
        ++F.n;
    }
    void begin_step() { F = Fails{}; }
    // returns true when the step diverged (one record emitted)
    bool end_step()
    {
        if (F.n == 0) { return false; }
        std::string o = F.obs + "  [" + std::to_string(F.n) + " disagreeing observer(s): " + F.names + "]";
        vf::diverge(F.sym.substr(0, 90).c_str(), o, F.exp);
        F = Fails{};
        return true;
    }
    void eqb(Obs o, char const* name, bool obs, bool exp)
    {
        ++obs_n[o];
        if (obs != exp) { fail(name, obs ? "true-for-false" : "false-for-true", obs ? "true" : "false", exp ? "true" : "false"); }
    }
    void eqn(Obs o, char const* name, size_t obs, size_t exp)
    {
        ++obs_n[o];
        if (obs == exp) { return; }
        char cls[32];
        long long d = (long long)obs - (long long)exp;
        if (d >= -2 && d <= 2) {
            std::snprintf(cls, sizeof cls, "%+lld", d);
        } else {
            std::snprintf(cls, sizeof cls, "%s", obs == 0 ? "zero" : (d > 0 ? "greater" : "less"));
        }
        fail(name, cls, std::to_string(obs), std::to_string(exp));
    }
    void equ(Obs o, char const* name, unsigned long long obs, unsigned long long exp)
    {
        ++obs_n[o];
        if (obs == exp) { return; }
        char const* cls = "differs";
        if ((obs & exp) == exp) {
            cls = "extra-bits";
        } else if ((obs & exp) == obs) {
            cls = "missing-bits";
        }
        char a[32], b[32];
        std::snprintf(a, sizeof a, "0x%llx", obs);
        std::snprintf(b, sizeof b, "0x%llx", exp);
        fail(name, cls, a, b);
    }
    // a whole bit vector as seen through one per-position observer
    void eqbits(Obs o, char const* name, M const& obs, M const& exp)
    {
        obs_n[o] += N;
        if (obs == exp) { return; }
        M rev;
        for (size_t i = 0; i < N; ++i) { rev[i] = exp[N - 1 - i]; }
        char const* cls = "differs";
        if (obs == rev) {
            cls = "reversed";
        } else if (obs == ~exp) {
            cls = "complement";
        } else if ((obs & exp) == exp) {
            cls = "extra-bits";
        } else if ((obs & exp) == obs) {
            cls = "missing-bits";
        }
        fail(name, cls, obs.to_string(), exp.to_string());
    }
    void eqs(Obs o, char const* name, std::string const& obs, std::string const& exp)
    {
        ++obs_n[o];
        if (obs == exp) { return; }
        char const* cls = "differs";
        std::string rev(exp.rbegin(), exp.rend());
        if (obs == rev) {
            cls = "reversed";
        } else if (obs.size() < exp.size()) {
            cls = exp.compare(0, obs.size(), obs) == 0 ? "prefix-of-expected" : (exp.compare(exp.size() - obs.size(), obs.size(), obs) == 0 ? "suffix-of-expected" : "shorter");
        } else if (obs.size() > exp.size()) {
            cls = "longer";
        } else {
            cls = "same-length-differs";
        }
        fail(name, cls, obs, exp);
    }
    // the result of a modifier, bound with auto&&-semantics: must be an lvalue of type E designating the object itself
    template <typename R>
    void ret_is_self(R&& r, E const& self)
    {
        ++obs_n[O_RET];
        if constexpr (!std::is_lvalue_reference_v<R> || !std::is_same_v<std::remove_cvref_t<R>, E> || std::is_const_v<std::remove_reference_t<R>>) {
            fail("ret-type", "not-E&", "not an E&", "E&");
        } else if (static_cast<void const*>(&r) != static_cast<void const*>(&self)) {
            fail("ret", "not-*this", "other object", "*this");
        }
    }
    // the result of a proxy modifier: an lvalue of the proxy type that still designates bit `pos` of e
    template <typename R>
    void ret_is_proxy(R&& r, bool expect)
    {
        using Ref = decltype(std::declval<E&>()[size_t(0)]);
        ++obs_n[O_RET];
        if constexpr (!std::is_lvalue_reference_v<R> || !std::is_same_v<std::remove_cvref_t<R>, std::remove_cvref_t<Ref>>) {
            fail("ret-type", "not-reference&", "not a reference&", "reference&");
        } else {
            bool got = static_cast<bool>(r);
            if (got != expect) { fail("ret(reference->bool)", got ? "true-for-false" : "false-for-true", got ? "true" : "false", expect ? "true" : "false"); }
        }
    }

    // ---------------------------------------------------------------- single-bit primitives used by construction routes
    static void set1(E& x, size_t i, bool v)
    {
        if constexpr (has_set_pos<E>) {
            x.set(i, v);
        } else {
            x.unchecked_set(i, v);
        }
    }
    static E fresh(M const& v)
    {
        E x{};
        for (size_t i = 0; i < N; ++i) {
            if (v[i]) {
                sub("fresh.set", (long)i);
                set1(x, i, true);
            }
        }
        return x;
    }
    static bool route_ok(M const& v, unsigned r)
    {
        if (r == 5) { return N <= 64 || (v >> 64).none(); }
        return true;
    }
    static unsigned long long low64(M const& v)
    {
        unsigned long long r = 0;
        for (size_t i = 0; i < N && i < 64; ++i) {
            if (v[i]) { r |= 1ull << i; }
        }
        return r;
    }
    // Build an E holding the value v through a given history ("route").  Several routes transiently
    // set every storage bit (set(), flip(), ~, |= all-ones).
    static E make(M const& v, unsigned r)
    {
        if (!route_ok(v, r)) { r = 0; }
        M const nv = ~v;
        switch (r) {
        default:
        case 0: return fresh(v);
        case 1: {
            E x{};
            sub("mk.set()");
            x.set();
            for (size_t i = 0; i < N; ++i) {
                if (!v[i]) {
                    sub("mk.reset", (long)i);
                    if constexpr (has_reset_pos<E>) {
                        x.reset(i);
                    } else {
                        x.unchecked_reset(i);
                    }
                }
            }
            return x;
        }
        case 2: {
            E x = fresh(nv);
            sub("mk.flip()");
            x.flip();
            return x;
        }
        case 3: {
            E x = make(nv, 1);
            if constexpr (has_not<E>) {
                sub("mk.~");
                E y = ~x;
                return y;
            } else {
                sub("mk.flip()");
                x.flip();
                return x;
            }
        }
        case 4: {
            E x{};
            E ones{};
            sub("mk.ones.set()");
            ones.set();
            sub("mk.|=ones");
            x |= ones;
            E c = fresh(nv);
            sub("mk.^=");
            x ^= c;
            return x;
        }
        case 5: {
            unsigned long long val = low64(v);
            if constexpr (N < 64) { val |= (~0ull << N) & 0xA5A5A5A5A5A5A5A5ull; }
            sub("mk.ctor(ull)");
            E x(val);
            return x;
        }
        case 6: {
            E x{};
            sub("mk.set()");
            x.set();
            for (size_t i = 0; i < N; ++i) {
                sub("mk.[]=", (long)i);
                x[i] = static_cast<bool>(v[i]);
            }
            return x;
        }
        case 7: {
            E x{};
            sub("mk.flip()");
            x.flip();
            sub("mk.flip()");
            x.flip();
            for (size_t i = 0; i < N; ++i) {
                if (v[i]) {
                    sub("mk.flip", (long)i);
                    if constexpr (has_flip_pos<E>) {
                        x.flip(i);
                    } else {
                        x.unchecked_flip(i);
                    }
                }
            }
            return x;
        }
        }
    }

    // ---------------------------------------------------------------- ALL observers of x against the model value v
    template <typename C, size_t Cap>
    void obs_to_string(E const& x, M const& v, C zero, C one, char const* name, bool dflt)
    {
        if constexpr (has_to_string<E, Cap, C>) {
            std::basic_string<C> exp = v.template to_string<C>(zero, one);
            std::basic_string<C> got;
            sub(name);
            if constexpr (std::is_same_v<C, char> && has_to_string_default<E, Cap>) {
                if (dflt) {
                    auto s = x.template to_string<Cap>();
                    for (size_t i = 0; i < s.size(); ++i) { got += s[i]; }
                } else {
                    auto s = x.template to_string<Cap, C>(zero, one);
                    for (size_t i = 0; i < s.size(); ++i) { got += s[i]; }
                }
            } else {
                auto s = x.template to_string<Cap, C>(zero, one);
                for (size_t i = 0; i < s.size(); ++i) { got += s[i]; }
            }
            eqs(O_TO_STRING, name, narrow(got), narrow(exp));
        }
    }

    void observe(E& x, M const& v, bool full = true)
    {
        E const& cx = x;
        if (full) {
            M t, ut, ic, ir, inr;
            for (size_t i = 0; i < N; ++i) {
                if constexpr (has_test<E>) {
                    sub("test", (long)i);
                    t[i] = cx.test(i);
                }
                if constexpr (has_utest<E>) {
                    sub("unchecked_test", (long)i);
                    ut[i] = cx.unchecked_test(i);
                }
                sub("[]const", (long)i);
                ic[i] = cx[i];
                sub("[]ref->bool", (long)i);
                ir[i] = static_cast<bool>(x[i]);
                sub("~[]ref", (long)i);
                inr[i] = !(~x[i]);
            }
            if constexpr (has_test<E>) { eqbits(O_TEST, "test(pos)", t, v); }
            if constexpr (has_utest<E>) { eqbits(O_UTEST, "unchecked_test(pos)", ut, v); }
            eqbits(O_IDX_CONST, "operator[](pos)const", ic, v);
            eqbits(O_IDX_REF, "operator[](pos)->bool", ir, v);
            eqbits(O_IDX_REF_NOT, "~operator[](pos)", inr, v);
        }
        sub("count");
        eqn(O_COUNT, "count", cx.count(), v.count());
        sub("all");
        eqb(O_ALL, "all", cx.all(), v.all());
        sub("any");
        eqb(O_ANY, "any", cx.any(), v.any());
        sub("none");
        eqb(O_NONE, "none", cx.none(), v.none());
        sub("size");
        eqn(O_SIZE, "size", cx.size(), v.size());
        // equality: against an object that reached the same value through single-bit sets on a
        // value-initialised object (its storage never held anything else), and against a neighbour value
        {
            E f = fresh(v);
            sub("==fresh");
            eqb(O_EQ, "operator==(same-value)", cx == f, true);
            sub("fresh==");
            eqb(O_EQ, "operator==(same-value,reversed)", f == cx, true);
            if constexpr (has_ne<E>) {
                sub("!=fresh");
                eqb(O_NE, "operator!=(same-value)", cx != f, false);
            }
            if (full) {
                size_t q = (size_t)(std::hash<M>{}(v) % N);
                sub("near.set", (long)q);
                set1(f, q, !v[q]);
                sub("==near");
                eqb(O_EQ, "operator==(other-value)", cx == f, false);
                if constexpr (has_ne<E>) {
                    sub("!=near");
                    eqb(O_NE, "operator!=(other-value)", cx != f, true);
                }
                sub("==self");
                eqb(O_EQ, "operator==(self)", cx == cx, true);
                if constexpr (has_ne<E>) {
                    sub("!=self");
                    eqb(O_NE, "operator!=(self)", cx != cx, false);
                }
                sub("copy");
                E c(cx);
                sub("==copy");
                eqb(O_EQ, "operator==(copy)", c == cx, true);
            }
        }
        if constexpr (has_to_ulong<E>) {
            // etl provides it only where every value fits; std would throw overflow_error otherwise
            if constexpr (N <= (size_t)std::numeric_limits<unsigned long>::digits) {
                sub("to_ulong");
                equ(O_TO_ULONG, "to_ulong", cx.to_ulong(), v.to_ulong());
            }
        }
        if constexpr (has_to_ullong<E>) {
            if constexpr (N <= (size_t)std::numeric_limits<unsigned long long>::digits) {
                sub("to_ullong");
                equ(O_TO_ULLONG, "to_ullong", cx.to_ullong(), v.to_ullong());
            }
        }
        if (full) {
            obs_to_string<char, N>(cx, v, '0', '1', "to_string<N>()", true);
            obs_to_string<char, N + 3>(cx, v, 'o', 'X', "to_string<N+3>(zero,one)", false);
            obs_to_string<wchar_t, N + 1>(cx, v, L'0', L'1', "to_string<N+1,wchar_t>(zero,one)", false);
        }
    }

    void resync()
    {
        sub("resync");
        e = fresh(m);
    }

    // ---------------------------------------------------------------- one mutating step
    struct Arg {
        size_t p  = 0;
        size_t q  = 0;
        bool v    = false;
        M const* b = nullptr;  // model value of the other operand
        E const* ob = nullptr; // the other operand
    };
    static bool supported(int op)
    {
        switch (op) {
        case S_SET1:
        case S_SETV: return has_set_pos<E>;
        case S_RESET1: return has_reset_pos<E>;
        case S_FLIP1: return has_flip_pos<E>;
        case S_USET1:
        case S_USETV: return has_uset<E>;
        case S_URESET: return has_ureset<E>;
        case S_UFLIP: return has_uflip<E>;
        case W_NOT: return has_not<E>;
        case B_AND:
        case B_OR:
        case B_XOR:
        case X_AND_SELF:
        case X_OR_SELF:
        case X_XOR_SELF: return has_band<E>;
        case H_SHL_A: return has_shl_assign<E>;
        case H_SHR_A: return has_shr_assign<E>;
        case H_SHL: return has_shl<E>;
        case H_SHR: return has_shr<E>;
        default: return true;
        }
    }
    static bool is_single(int op) { return op <= C_REF_CHAIN_ASSIGN; }
    static bool is_binary(int op) { return op >= B_AND_A && op <= C_XORA_ANDA; }
    static bool needs_val(int op)
    {
        return op == S_SETV || op == S_USETV || op == S_REF_ASSIGN || op == C_RESETP_SETQV || op == C_REF_ASSIGN_FLIP || op == C_REF_FLIP_ASSIGN
            || op == C_REF_CHAIN_ASSIGN;
    }
    static bool needs_pos2(int op)
    {
        return op == S_REF_ASSIGN_REF || op == C_SETP_FLIPQ || op == C_RESETP_SETQV || op == C_FLIPP_RESETQ || op == C_REF_CHAIN_ASSIGN;
    }
    static bool is_shift(int op) { return op >= H_SHL_A; }

    // applies op to (e, m); model first, then breadcrumb, then tetl, then all observers
    bool step(int op, Arg const& a)
    {
        if (!supported(op)) { return false; }
        M const before = m;
        u64 const hb   = std::hash<M>{}(before);
        char sit[96];
        char args[200];
        u64 argh = 0;
        if (is_single(op)) {
            std::snprintf(sit, sizeof sit, "%s,%s", stcls(before), poscls(a.p));
            if (needs_pos2(op)) {
                std::snprintf(args, sizeof args, "pos=%zu pos2=%zu val=%d", a.p, a.q, (int)a.v);
            } else {
                std::snprintf(args, sizeof args, "pos=%zu val=%d", a.p, (int)a.v);
            }
            argh = vf::mix(a.p * 4 + (a.v ? 1 : 0), a.q);
        } else if (is_binary(op)) {
            std::snprintf(sit, sizeof sit, "%s,other=%s", stcls(before), stcls(*a.b));
            std::snprintf(args, sizeof args, "other=%s", a.b->to_string().c_str());
            argh = std::hash<M>{}(*a.b) + 0x1234;
        } else if (is_shift(op)) {
            std::snprintf(sit, sizeof sit, "%s,%s", stcls(before), a.p == 0 ? "shift=0" : (a.p >= N ? "shift>=N" : "0<shift<N"));
            std::snprintf(args, sizeof args, "shift=%zu", a.p);
            argh = a.p;
        } else {
            std::snprintf(sit, sizeof sit, "%s", stcls(before));
            args[0] = 0;
        }
        // ---- model
        switch (op) {
        case S_SET1:
        case S_USET1: m.set(a.p); break;
        case S_SETV:
        case S_USETV: m.set(a.p, a.v); break;
        case S_RESET1:
        case S_URESET: m.reset(a.p); break;
        case S_FLIP1:
        case S_UFLIP:
        case S_REF_FLIP: m.flip(a.p); break;
        case C_SET_RESETP: m.set().reset(a.p); break;
        case C_RESET_SETP: m.reset().set(a.p); break;
        case C_FLIP_FLIPP: m.flip().flip(a.p); break;
        case C_SETP_FLIPQ: m.set(a.p).flip(a.q); break;
        case C_RESETP_SETQV: m.reset(a.p).set(a.q, a.v); break;
        case C_FLIPP_RESETQ: m.flip(a.p).reset(a.q); break;
        case C_REF_ASSIGN_FLIP: (m[a.p] = a.v).flip(); break;
        case C_REF_FLIP_ASSIGN: m[a.p].flip() = a.v; break;
        case C_REF_CHAIN_ASSIGN: m[a.p] = m[a.q] = a.v; break;
        case S_REF_ASSIGN: m[a.p] = a.v; break;
        case S_REF_ASSIGN_REF: {
            bool t = m[a.q];
            m[a.p] = t;
            break;
        }
        case W_SET: m.set(); break;
        case W_RESET: m.reset(); break;
        case W_FLIP: m.flip(); break;
        case W_NOT: m = ~m; break;
        case W_COPY: break;
        case X_AND_A_SELF:
        case X_AND_SELF: {
            M const& alias = m;
            m &= alias;
            break;
        }
        case X_OR_A_SELF:
        case X_OR_SELF: {
            M const& alias = m;
            m |= alias;
            break;
        }
        case X_XOR_A_SELF:
        case X_XOR_SELF: {
            M const& alias = m;
            m ^= alias;
            break;
        }
        case C_ANDA_FLIP: (m &= *a.b).flip(); break;
        case C_ORA_XORA: (m |= *a.b) ^= *a.b; break;
        case C_XORA_ANDA: (m ^= *a.b) &= *a.b; break;
        case B_AND_A:
        case B_AND: m &= *a.b; break;
        case B_OR_A:
        case B_OR: m |= *a.b; break;
        case B_XOR_A:
        case B_XOR: m ^= *a.b; break;
        case H_SHL_A:
        case H_SHL: m <<= a.p; break;
        case H_SHR_A:
        case H_SHR: m >>= a.p; break;
        default: break;
        }
        char const* label = kOpLabel[op];
        crumbf(label, sit, "state=%s %s", before.to_string().c_str(), args);
        begin_step();
        // ---- tetl
        switch (op) {
        case S_SET1:
            if constexpr (has_set_pos<E>) { ret_is_self(e.set(a.p), e); }
            break;
        case S_SETV:
            if constexpr (has_set_pos<E>) { ret_is_self(e.set(a.p, a.v), e); }
            break;
        case S_RESET1:
            if constexpr (has_reset_pos<E>) { ret_is_self(e.reset(a.p), e); }
            break;
        case S_FLIP1:
            if constexpr (has_flip_pos<E>) { ret_is_self(e.flip(a.p), e); }
            break;
        case S_USET1:
            if constexpr (has_uset<E>) { ret_is_self(e.unchecked_set(a.p), e); }
            break;
        case S_USETV:
            if constexpr (has_uset<E>) { ret_is_self(e.unchecked_set(a.p, a.v), e); }
            break;
        case S_URESET:
            if constexpr (has_ureset<E>) { ret_is_self(e.unchecked_reset(a.p), e); }
            break;
        case S_UFLIP:
            if constexpr (has_uflip<E>) { ret_is_self(e.unchecked_flip(a.p), e); }
            break;
        case S_REF_ASSIGN: {
            auto ref = e[a.p];
            ret_is_proxy(ref = a.v, (bool)m[a.p]);
            break;
        }
        case S_REF_ASSIGN_REF: {
            auto ref = e[a.p];
            ret_is_proxy(ref = e[a.q], (bool)m[a.p]);
            break;
        }
        case S_REF_FLIP: {
            auto ref = e[a.p];
            ret_is_proxy(ref.flip(), (bool)m[a.p]);
            break;
        }
        case C_SET_RESETP:
            if constexpr (has_reset_pos<E>) {
                ret_is_self(e.set().reset(a.p), e);
            } else {
                ret_is_self(e.set().unchecked_reset(a.p), e);
            }
            break;
        case C_RESET_SETP:
            if constexpr (has_set_pos<E>) {
                ret_is_self(e.reset().set(a.p), e);
            } else {
                ret_is_self(e.reset().unchecked_set(a.p), e);
            }
            break;
        case C_FLIP_FLIPP:
            if constexpr (has_flip_pos<E>) {
                ret_is_self(e.flip().flip(a.p), e);
            } else {
                ret_is_self(e.flip().unchecked_flip(a.p), e);
            }
            break;
        case C_SETP_FLIPQ:
            if constexpr (has_set_pos<E> && has_flip_pos<E>) {
                ret_is_self(e.set(a.p).flip(a.q), e);
            } else {
                ret_is_self(e.unchecked_set(a.p).unchecked_flip(a.q), e);
            }
            break;
        case C_RESETP_SETQV:
            if constexpr (has_set_pos<E> && has_reset_pos<E>) {
                ret_is_self(e.reset(a.p).set(a.q, a.v), e);
            } else {
                ret_is_self(e.unchecked_reset(a.p).unchecked_set(a.q, a.v), e);
            }
            break;
        case C_FLIPP_RESETQ:
            if constexpr (has_flip_pos<E> && has_reset_pos<E>) {
                ret_is_self(e.flip(a.p).reset(a.q), e);
            } else {
                ret_is_self(e.unchecked_flip(a.p).unchecked_reset(a.q), e);
            }
            break;
        case C_REF_ASSIGN_FLIP: {
            auto ref = e[a.p];
            ret_is_proxy((ref = a.v).flip(), (bool)m[a.p]);
            break;
        }
        case C_REF_FLIP_ASSIGN: {
            auto ref = e[a.p];
            ret_is_proxy(ref.flip() = a.v, (bool)m[a.p]);
            break;
        }
        case C_REF_CHAIN_ASSIGN: {
            auto rp = e[a.p];
            auto rq = e[a.q];
            ret_is_proxy(rp = rq = a.v, (bool)m[a.p]);
            break;
        }
        case W_SET: ret_is_self(e.set(), e); break;
        case W_RESET: ret_is_self(e.reset(), e); break;
        case W_FLIP: ret_is_self(e.flip(), e); break;
        case W_NOT:
            if constexpr (has_not<E>) {
                E const& ce = e;
                E t         = ~ce;
                e           = t;
            }
            break;
        case W_COPY: {
            E t(e);
            E u{};
            u = t;
            e = u;
            break;
        }
        case X_AND_A_SELF: {
            E const& alias = e;
            ret_is_self(e &= alias, e);
            break;
        }
        case X_OR_A_SELF: {
            E const* alias = &e;
            ret_is_self(e |= *alias, e);
            break;
        }
        case X_XOR_A_SELF: {
            E const& alias = e;
            ret_is_self(e ^= alias, e);
            break;
        }
        case X_AND_SELF:
            if constexpr (has_band<E>) {
                E const& ce = e;
                E t         = ce & ce;
                e           = t;
            }
            break;
        case X_OR_SELF:
            if constexpr (has_band<E>) {
                E const& ce = e;
                E t         = ce | ce;
                e           = t;
            }
            break;
        case X_XOR_SELF:
            if constexpr (has_band<E>) {
                E const& ce = e;
                E t         = ce ^ ce;
                e           = t;
            }
            break;
        case C_ANDA_FLIP: ret_is_self((e &= *a.ob).flip(), e); break;
        case C_ORA_XORA: ret_is_self((e |= *a.ob) ^= *a.ob, e); break;
        case C_XORA_ANDA: ret_is_self((e ^= *a.ob) &= *a.ob, e); break;
        case B_AND_A: ret_is_self(e &= *a.ob, e); break;
        case B_OR_A: ret_is_self(e |= *a.ob, e); break;
        case B_XOR_A: ret_is_self(e ^= *a.ob, e); break;
        case B_AND:
            if constexpr (has_band<E>) {
                E const& ce = e;
                E t         = ce & *a.ob;
                e           = t;
            }
            break;
        case B_OR:
            if constexpr (has_band<E>) {
                E const& ce = e;
                E t         = ce | *a.ob;
                e           = t;
            }
            break;
        case B_XOR:
            if constexpr (has_band<E>) {
                E const& ce = e;
                E t         = ce ^ *a.ob;
                e           = t;
            }
            break;
        case H_SHL_A:
            if constexpr (has_shl_assign<E>) { e <<= a.p; }
            break;
        case H_SHR_A:
            if constexpr (has_shr_assign<E>) { e >>= a.p; }
            break;
        case H_SHL:
            if constexpr (has_shl<E>) {
                E const& ce = e;
                E t         = ce << a.p;
                e           = t;
            }
            break;
        case H_SHR:
            if constexpr (has_shr<E>) {
                E const& ce = e;
                E t         = ce >> a.p;
                e           = t;
            }
            break;
        default: break;
        }
        vf::cover(label, vf::mix(vf::mix(cfgh, hb), argh), true);
        if ((N == 1 || (before.any() && !before.all())) && vf::want_sample(label)) {
            vf::sample(label, "%s: %s %s : %s -> %s, then every observer compared", subj, label, args, before.to_string().c_str(),
                m.to_string().c_str());
        }
        observe(e, m);
        if (is_binary(op)) { // the operand must be unchanged
            E ob2(*a.ob);
            sub("operand-after");
            on_operand = true;
            observe(ob2, *a.b, false);
            on_operand = false;
        }
        if (end_step()) { resync(); }
        return true;
    }

    // e/m := object built by `route` from value v, fully observed
    void build_state(M const& v, unsigned route)
    {
        if (!route_ok(v, route)) { route = 0; }
        char const* label = kRouteLabel[route];
        crumbf(label, stcls(v), "value=%s", v.to_string().c_str());
        begin_step();
        e            = make(v, route);
        m            = v;
        vf::cover(label, vf::mix(cfgh, std::hash<M>{}(v)), v.any());
        if ((N == 1 || (v.any() && !v.all())) && vf::want_sample(label)) { vf::sample(label, "%s: %s value=%s, then every observer compared", subj, label, v.to_string().c_str()); }
        observe(e, m);
        if (end_step()) { resync(); }
    }
    E build_operand(M const& v, unsigned route)
    {
        if (!route_ok(v, route)) { route = 0; }
        char const* label = kRouteLabel[route];
        crumbf(label, stcls(v), "operand value=%s", v.to_string().c_str());
        begin_step();
        E o          = make(v, route);
        vf::cover(label, vf::mix(cfgh, std::hash<M>{}(v)) + 1, v.any());
        observe(o, v, false);
        if (end_step()) { o = fresh(v); }
        return o;
    }


    // ---------------------------------------------------------------- long-lived proxies
    // One or two proxies of e (positions i, j), a proxy copy-constructed from the first, and a proxy of a
    // DIFFERENT bitset are HELD while the owner is modified through another path; then they are read
    // (bool, ~), written, flipped, assigned to each other in both directions, used as a source for another
    // element, and assigned across the two bitsets - std::bitset<N>::reference objects held and driven
    // identically are the oracle.  A proxy must be a live view of its bit, not a snapshot.
    enum HM {
        HM_NONE, HM_SET_ALL, HM_RESET_ALL, HM_FLIP_ALL, HM_NOT, HM_SETP, HM_SETPV, HM_RESETP, HM_FLIPP, HM_AND_A, HM_OR_A, HM_XOR_A,
        HM_XOR_SELF, HM_ASSIGN, HM_SWAP, HM_P2_FLIP, HM_P2_ASSIGN, HM_P2_FROM, HM_SHL_A, HM_SHR_A, HM_NUM
    };
    enum HU { HU_READ, HU_WRITE, HU_FLIP, HU_R1_R2, HU_R2_R1, HU_SOURCE, HU_COPY_WRITE, HU_CROSS_TO, HU_CROSS_FROM, HU_NUM };
    static char const* hm_label(int mod)
    {
        constexpr bool chk = has_set_pos<E>;
        switch (mod) {
        case HM_NONE: return "held-proxy across nothing";
        case HM_SET_ALL: return "held-proxy across set()";
        case HM_RESET_ALL: return "held-proxy across reset()";
        case HM_FLIP_ALL: return "held-proxy across flip()";
        case HM_NOT: return "held-proxy across b=~b";
        case HM_SETP: return chk ? "held-proxy across set(pos)" : "held-proxy across unchecked_set(pos)";
        case HM_SETPV: return chk ? "held-proxy across set(pos,val)" : "held-proxy across unchecked_set(pos,val)";
        case HM_RESETP: return chk ? "held-proxy across reset(pos)" : "held-proxy across unchecked_reset(pos)";
        case HM_FLIPP: return chk ? "held-proxy across flip(pos)" : "held-proxy across unchecked_flip(pos)";
        case HM_AND_A: return "held-proxy across operator&=";
        case HM_OR_A: return "held-proxy across operator|=";
        case HM_XOR_A: return "held-proxy across operator^=";
        case HM_XOR_SELF: return "held-proxy across operator^=(self)";
        case HM_ASSIGN: return "held-proxy across operator=(other)";
        case HM_SWAP: return "held-proxy across swap(other)";
        case HM_P2_FLIP: return "held-proxy across b[pos].flip()";
        case HM_P2_ASSIGN: return "held-proxy across b[pos]=val";
        case HM_P2_FROM: return "held-proxy across b[pos]=b[pos2]";
        case HM_SHL_A: return "held-proxy across operator<<=";
        default: return "held-proxy across operator>>=";
        }
    }
    static char const* hu_label(int use)
    {
        constexpr char const* l[HU_NUM] = {"read", "write(r=val)", "r.flip()", "r=r2", "r2=r", "b[pos3]=r", "write-through-copy", "r=other-bitset-proxy",
            "other-bitset-proxy=r"};
        return l[use];
    }
    static bool hm_supported(int mod)
    {
        if (mod == HM_NOT) { return has_not<E>; }
        if (mod == HM_SHL_A) { return has_shl_assign<E>; }
        if (mod == HM_SHR_A) { return has_shr_assign<E>; }
        return true;
    }
    template <typename RE, typename RS>
    void held_read(RE const& re, RS const& rs, char const* which, char const* phase)
    {
        sub(which);
        bool const got = static_cast<bool>(re), exp = static_cast<bool>(rs);
        ++obs_n[O_IDX_REF];
        if (got != exp) {
            char nm[96];
            std::snprintf(nm, sizeof nm, "%s->bool@%s", which, phase);
            fail(nm, got ? "true-for-false" : "false-for-true", got ? "true" : "false", exp ? "true" : "false");
        }
        bool const ngot = ~re, nexp = ~rs;
        ++obs_n[O_IDX_REF_NOT];
        if (ngot != nexp) {
            char nm[96];
            std::snprintf(nm, sizeof nm, "~%s@%s", which, phase);
            fail(nm, ngot ? "true-for-false" : "false-for-true", ngot ? "true" : "false", nexp ? "true" : "false");
        }
    }
    // operates on the current (e, m); b/ob = value and object of the other bitset
    bool held(int mod, size_t i, size_t j, size_t k3, bool v, int use, M const& b, E const& ob)
    {
        if (!hm_supported(mod)) { return false; }
        M const before = m;
        u64 const hb   = std::hash<M>{}(before);
        char const* rel = i == j ? "same-pos" : (i / WB == j / WB ? "same-word" : "other-word");
        char sit[96];
        std::snprintf(sit, sizeof sit, "%s,%s", rel, hu_label(use));
        char const* label = hm_label(mod);
        crumbf(label, sit, "state=%s pos=%zu pos2=%zu pos3=%zu val=%d other=%s", before.to_string().c_str(), i, j, k3, (int)v, b.to_string().c_str());
        begin_step();
        E o(ob);
        M mo(b);
        // ---- acquire and hold
        sub("hold b[pos]", (long)i);
        auto r1 = e[i];
        auto s1 = m[i];
        sub("hold b[pos2]", (long)j);
        auto r2 = e[j];
        auto s2 = m[j];
        sub("copy-construct proxy");
        auto r1c(r1);
        auto s1c(s1);
        sub("hold other[pos2]", (long)j);
        auto ro = o[j];
        auto so = mo[j];
        held_read(r1, s1, "held-proxy", "acquired");
        // ---- modify the owner through another path (model and tetl side by side)
        sub("modifier");
        switch (mod) {
        case HM_SET_ALL:
            m.set();
            e.set();
            break;
        case HM_RESET_ALL:
            m.reset();
            e.reset();
            break;
        case HM_FLIP_ALL:
            m.flip();
            e.flip();
            break;
        case HM_NOT:
            if constexpr (has_not<E>) {
                m           = ~m;
                E const& ce = e;
                e           = ~ce;
            }
            break;
        case HM_SETP:
            m.set(i);
            if constexpr (has_set_pos<E>) {
                e.set(i);
            } else {
                e.unchecked_set(i);
            }
            break;
        case HM_SETPV:
            m.set(i, v);
            if constexpr (has_set_pos<E>) {
                e.set(i, v);
            } else {
                e.unchecked_set(i, v);
            }
            break;
        case HM_RESETP:
            m.reset(i);
            if constexpr (has_reset_pos<E>) {
                e.reset(i);
            } else {
                e.unchecked_reset(i);
            }
            break;
        case HM_FLIPP:
            m.flip(i);
            if constexpr (has_flip_pos<E>) {
                e.flip(i);
            } else {
                e.unchecked_flip(i);
            }
            break;
        case HM_AND_A:
            m &= mo;
            e &= o;
            break;
        case HM_OR_A:
            m |= mo;
            e |= o;
            break;
        case HM_XOR_A:
            m ^= mo;
            e ^= o;
            break;
        case HM_XOR_SELF: {
            M const& am = m;
            m ^= am;
            E const& ae = e;
            e ^= ae;
            break;
        }
        case HM_ASSIGN:
            m = mo;
            e = o;
            break;
        case HM_SWAP:
            std::swap(m, mo);
            std::swap(e, o);
            break;
        case HM_P2_FLIP:
            m[i].flip();
            e[i].flip();
            break;
        case HM_P2_ASSIGN:
            m[i] = v;
            e[i] = v;
            break;
        case HM_P2_FROM: {
            bool t = m[j];
            m[i]   = t;
            e[i]   = e[j];
            break;
        }
        case HM_SHL_A:
            if constexpr (has_shl_assign<E>) {
                m <<= k3;
                e <<= k3;
            }
            break;
        case HM_SHR_A:
            if constexpr (has_shr_assign<E>) {
                m >>= k3;
                e >>= k3;
            }
            break;
        default: break;
        }
        // ---- read through every held proxy
        held_read(r1, s1, "held-proxy", "after-modifier");
        held_read(r2, s2, "held-proxy2", "after-modifier");
        held_read(r1c, s1c, "held-proxy-copy", "after-modifier");
        held_read(ro, so, "other-bitset-proxy", "after-modifier");
        // ---- use them
        sub("use");
        switch (use) {
        case HU_WRITE:
            s1 = v;
            ret_is_proxy(r1 = v, static_cast<bool>(s1));
            break;
        case HU_FLIP:
            s1.flip();
            ret_is_proxy(r1.flip(), static_cast<bool>(s1));
            break;
        case HU_R1_R2:
            s1 = s2;
            ret_is_proxy(r1 = r2, static_cast<bool>(s1));
            break;
        case HU_R2_R1:
            s2 = s1;
            ret_is_proxy(r2 = r1, static_cast<bool>(s2));
            break;
        case HU_SOURCE:
            m[k3 % N] = s1;
            e[k3 % N] = r1;
            break;
        case HU_COPY_WRITE:
            s1c = v;
            ret_is_proxy(r1c = v, static_cast<bool>(s1c));
            break;
        case HU_CROSS_TO:
            s1 = so;
            ret_is_proxy(r1 = ro, static_cast<bool>(s1));
            break;
        case HU_CROSS_FROM:
            so = s1;
            ret_is_proxy(ro = r1, static_cast<bool>(so));
            break;
        default: break;
        }
        held_read(r1, s1, "held-proxy", "after-use");
        held_read(r2, s2, "held-proxy2", "after-use");
        held_read(r1c, s1c, "held-proxy-copy", "after-use");
        held_read(ro, so, "other-bitset-proxy", "after-use");
        vf::cover(label, vf::mix(vf::mix(cfgh, hb), vf::mix(vf::mix(i * 1024 + j, k3 * 2 + (v ? 1 : 0)), vf::mix((u64)use, std::hash<M>{}(b)))), true);
        if ((N == 1 || (before.any() && !before.all())) && vf::want_sample(label)) {
            vf::sample(label, "%s: %s, pos=%zu pos2=%zu, then %s: %s -> %s (other bitset %s -> %s); proxies read before and after, every observer compared", subj,
                label, i, j, hu_label(use), before.to_string().c_str(), m.to_string().c_str(), b.to_string().c_str(), mo.to_string().c_str());
        }
        observe(e, m);
        sub("other-bitset-after");
        on_operand = true;
        observe(o, mo, false);
        on_operand = false;
        if (end_step()) { resync(); }
        return true;
    }

    // ---------------------------------------------------------------- constructors
    void ctor_ull(unsigned long long val)
    {
        M nm(val);
        char const* sit = N >= 64 ? "N>=64" : ((N < 64 && (val >> (N < 64 ? N : 0)) != 0) ? "bits-above-N" : "fits");
        crumbf("ctor(ull)", sit, "val=0x%llx", val);
        begin_step();
        E ne(val);
        e = ne;
        m = nm;
        vf::cover("ctor(ull)", vf::mix(cfgh, val), true);
        if (vf::want_sample("ctor(ull)")) { vf::sample("ctor(ull)", "%s(0x%llx) -> %s", subj, val, m.to_string().c_str()); }
        observe(e, m);
        if (end_step()) { resync(); }
    }

    static char const* lencls(size_t L)
    {
        if (L == 0) { return "len=0"; }
        if (L < N) { return "len<N"; }
        if (L == N) { return "len=N"; }
        return "len>N";
    }
    template <typename C>
    static char const* chcls(C zero, C one)
    {
        if (zero == C('0') && one == C('1')) { return "chars=default"; }
        if (zero == C('1') && one == C('0')) { return "chars=swapped"; }
        if (zero == C(0)) { return "chars=zero-is-NUL"; }
        if (one == C(0)) { return "chars=one-is-NUL"; }
        return "chars=custom";
    }
    template <typename C>
    static std::string chs(C c)
    {
        if (c == C(0)) { return "\\0"; }
        return std::string(1, (c >= C(0x20) && c < C(0x7f)) ? (char)c : '?');
    }
    template <typename C>
    static C junk(C zero, C one, unsigned k)
    {
        C const cand[4] = {C('x'), C('2'), C('1'), C('0')};
        for (unsigned i = 0; i < 4; ++i) {
            C c = cand[(k + i) % 4];
            if (c != zero && c != one) { return c; }
        }
        return C('?');
    }

    // string_view constructor.  payload: text over {'0','1'}, L characters, most significant first.
    // layout handed to tetl: [P junk][L payload][S junk]; pos = P; n by nmode: 0 n=L, 1 n=npos (S==0), 2 n>rest (S==0)
    template <typename C>
    void ctor_sv(std::string const& payload, size_t P, size_t S, int nmode, C zero, C one, int form)
    {
        if constexpr (has_sv_ctor<E, C>) {
            using SV       = etl::basic_string_view<C>;
            size_t const L = payload.size();
            if (nmode != 0) { S = 0; }
            size_t const total = P + L + S;
            vf::Buf<C> buf(total);
            for (size_t i = 0; i < P; ++i) { buf[i] = junk(zero, one, (unsigned)i); }
            for (size_t i = 0; i < L; ++i) { buf[P + i] = payload[i] == '1' ? one : zero; }
            for (size_t i = 0; i < S; ++i) { buf[P + L + i] = junk(zero, one, (unsigned)i + 1); }
            size_t const npos = SV::npos;
            size_t n          = nmode == 0 ? L : (nmode == 1 ? npos : L + 1 + (P % 3));
            bool const dch    = zero == C('0') && one == C('1');
            // the call form (how many defaulted arguments) must denote the same call
            if (form == 0 && !(dch && n == npos && P == 0)) { form = 4; }
            if (form == 1 && !(dch && n == npos)) { form = 4; }
            if (form == 2 && !dch) { form = 4; }
            if (form == 3 && one != C('1')) { form = 4; }
            char const* label = "ctor(string_view,pos,n,zero,one)";
            char sit[96];
            std::snprintf(sit, sizeof sit, "%s,%s,%s,%s", lencls(L), P ? "pos>0" : "pos=0",
                n == npos ? "n=npos" : (S ? "n<rest" : (n == L ? "n=rest" : "n>rest")), chcls(zero, one));
            M nm;
            try {
                std::basic_string<C> ss(buf.data(), total);
                nm = M(ss, P, n, zero, one);
            } catch (std::exception const& ex) {
                crumbf(label, sit, "harness generated an invalid string");
                vf::record("inconclusive", "harness:std-threw", ex.what(), "valid arguments");
                return;
            }
            crumbf(label, sit, "payload=%s P=%zu S=%zu n=%lld zero=%s one=%s form=%d", payload.c_str(), P, S,
                n == npos ? -1LL : (long long)n, chs(zero).c_str(), chs(one).c_str(), form);
            begin_step();
            SV sv(buf.data(), total);
            switch (form) {
            case 0: e = E(sv); break;
            case 1: e = E(sv, P); break;
            case 2: e = E(sv, P, n); break;
            case 3: e = E(sv, P, n, zero); break;
            default: e = E(sv, P, n, zero, one); break;
            }
            m = nm;
            buf.check("string_view ctor source");
            vf::cover(label, vf::mix(vf::mix(cfgh, vf::fnv(payload.c_str())), vf::mix(P * 8 + S, (u64)nmode * 1000 + (u64)zero * 7 + (u64)one + (u64)form * 131)), true);
            if (vf::want_sample(label)) {
                vf::sample(label, "%s(sv[%zu junk + '%s' + %zu junk], pos=%zu, n=%lld, '%s', '%s') -> %s", subj, P, payload.c_str(), S, P,
                    n == npos ? -1LL : (long long)n, chs(zero).c_str(), chs(one).c_str(), m.to_string().c_str());
            }
            observe(e, m);
            if (end_step()) { resync(); }
        }
    }
    // string_view constructor with USER-SUPPLIED TRAITS: the characters are matched with Traits::eq (here case-insensitive),
    // not with ==.  zero/one are letters; every payload character appears in the case selected by `casing`
    // (bit i of casing ^ position parity), so characters that are eq to zero/one but not identical occur.
    void ctor_sv_ci(std::string const& payload, size_t P, size_t S, int nmode, char zero, char one, unsigned casing, int form)
    {
        if constexpr (requires(etl::basic_string_view<char, etl_ci_traits> sv, size_t p, size_t n, char z, char o) { E(sv, p, n, z, o); }) {
            using SV       = etl::basic_string_view<char, etl_ci_traits>;
            size_t const L = payload.size();
            if (nmode != 0) { S = 0; }
            size_t const total = P + L + S;
            vf::Buf<char> buf(total);
            auto other_case = [](char c) { return (c >= 'a' && c <= 'z') ? (char)(c - 'a' + 'A') : ((c >= 'A' && c <= 'Z') ? (char)(c - 'A' + 'a') : c); };
            for (size_t i = 0; i < P; ++i) { buf[i] = (i & 1) ? '-' : '2'; }
            for (size_t i = 0; i < L; ++i) {
                char c     = payload[i] == '1' ? one : zero;
                bool alt   = ((casing >> (i % 8)) ^ (casing >> 9) ^ i) & 1;
                buf[P + i] = alt ? other_case(c) : c;
            }
            for (size_t i = 0; i < S; ++i) { buf[P + L + i] = (i & 1) ? '2' : '-'; }
            size_t const npos = SV::npos;
            size_t n          = nmode == 0 ? L : (nmode == 1 ? npos : L + 2);
            if (form == 2 && !(zero == '0' && one == '1')) { form = 4; }
            char const* label = "ctor(string_view<custom-traits>,pos,n,zero,one)";
            char sit[96];
            std::snprintf(sit, sizeof sit, "%s,%s,%s,case-insensitive-traits", lencls(L), P ? "pos>0" : "pos=0",
                n == npos ? "n=npos" : (S ? "n<rest" : (n == L ? "n=rest" : "n>rest")));
            std::string text(buf.data(), total);
            M nm;
            try {
                std::basic_string<char, std_ci_traits> ss(buf.data(), total);
                nm = M(ss, P, n, zero, one);
            } catch (std::exception const& ex) {
                crumbf(label, sit, "harness generated an invalid string");
                vf::record("inconclusive", "harness:std-threw", ex.what(), "valid arguments");
                return;
            }
            crumbf(label, sit, "text='%s' pos=%zu n=%lld zero=%c one=%c form=%d", text.c_str(), P, n == npos ? -1LL : (long long)n, zero, one, form);
            begin_step();
            SV sv(buf.data(), total);
            if (form == 2) {
                e = E(sv, P, n);
            } else {
                e = E(sv, P, n, zero, one);
            }
            m = nm;
            buf.check("string_view<custom-traits> ctor source");
            vf::cover(label, vf::mix(vf::mix(cfgh, vf::fnv(text.c_str())), vf::mix(P * 8 + S, (u64)nmode * 1000 + (u64)zero * 7 + (u64)one)), true);
            if (vf::want_sample(label)) {
                vf::sample(label, "%s(ci_view('%s'), pos=%zu, n=%lld, '%c', '%c') -> %s", subj, text.c_str(), P, n == npos ? -1LL : (long long)n, zero,
                    one, m.to_string().c_str());
            }
            observe(e, m);
            if (end_step()) { resync(); }
        }
    }
    // char const* constructor: [P junk skipped by the caller][L payload][S junk] [NUL] ; n: nmode 0 -> L, 1 -> npos (S==0).
    // term == false (only with an explicit n): the exact-size block has NO terminator, so an implementation that
    // measures the string instead of taking exactly n characters reads out of the block (std: basic_string(str, n)).
    // zero or one may be the NUL character: then NULs lie inside the first n characters.
    template <typename C>
    void ctor_cstr(std::string const& payload, size_t P, size_t S, int nmode, C zero, C one, int form, bool term = true)
    {
        if constexpr (has_cstr_ctor<E, C>) {
            using SV       = etl::basic_string_view<C>;
            size_t const L = payload.size();
            if (nmode != 0) {
                S    = 0;
                term = true;
            }
            size_t const total = P + L + S + (term ? 1 : 0);
            vf::Buf<C> buf(total);
            for (size_t i = 0; i < P; ++i) { buf[i] = junk(zero, one, (unsigned)i); }
            for (size_t i = 0; i < L; ++i) { buf[P + i] = payload[i] == '1' ? one : zero; }
            for (size_t i = 0; i < S; ++i) { buf[P + L + i] = junk(zero, one, (unsigned)i + 1); }
            if (term) { buf[total - 1] = C(0); }
            size_t const npos = SV::npos;
            size_t n          = nmode == 0 ? L : npos;
            bool const dch    = zero == C('0') && one == C('1');
            if (form == 0 && !(dch && n == npos)) { form = 3; }
            if (form == 1 && !dch) { form = 3; }
            if (form == 2 && one != C('1')) { form = 3; }
            char const* label = "ctor(char const*,n,zero,one)";
            char sit[96];
            std::snprintf(sit, sizeof sit, "%s,%s,%s%s", lencls(L), n == npos ? "n=npos" : (S ? "n<strlen" : "n=strlen"), chcls(zero, one),
                term ? "" : ",unterminated");
            C const* ptr = buf.data() + P;
            M nm;
            try {
                nm = M(ptr, n, zero, one);
            } catch (std::exception const& ex) {
                crumbf(label, sit, "harness generated an invalid string");
                vf::record("inconclusive", "harness:std-threw", ex.what(), "valid arguments");
                return;
            }
            crumbf(label, sit, "payload=%s S=%zu n=%lld zero=%s one=%s form=%d terminated=%d", payload.c_str(), S,
                n == npos ? -1LL : (long long)n, chs(zero).c_str(), chs(one).c_str(), form, (int)term);
            begin_step();
            switch (form) {
            case 0: e = E(ptr); break;
            case 1: e = E(ptr, n); break;
            case 2: e = E(ptr, n, zero); break;
            default: e = E(ptr, n, zero, one); break;
            }
            m = nm;
            buf.check("char const* ctor source");
            vf::cover(label, vf::mix(vf::mix(cfgh, vf::fnv(payload.c_str())), vf::mix(S + (term ? 0 : 64), (u64)nmode * 1000 + (u64)zero * 7 + (u64)one + (u64)form * 131)), true);
            if (vf::want_sample(label)) {
                vf::sample(label, "%s('%s'+%zu junk%s, n=%lld, '%s', '%s') -> %s", subj, payload.c_str(), S, term ? "+NUL" : " (no terminator)",
                    n == npos ? -1LL : (long long)n, chs(zero).c_str(), chs(one).c_str(), m.to_string().c_str());
            }
            observe(e, m);
            if (end_step()) { resync(); }
        }
    }

    // top L characters' worth of a: the text of the low L bits of a (most significant first); L may exceed N
    static std::string payload_of(M const& a, size_t L)
    {
        std::string s = a.to_string(); // N chars, bit N-1 first
        if (L <= N) { return s.substr(N - L); }
        std::string extra;
        for (size_t i = 0; i < L - N; ++i) { extra += ((i + a.count()) & 1) ? '1' : '0'; }
        return s + extra; // std uses the first N characters only
    }

    // unterminated == false: every call on NUL-terminated sources; == true: only the char const* calls with an explicit n on
    // exact-size blocks without terminator (run last: if one of them trips ASan the rest of the case is lost)
    template <typename C>
    void string_ctor_sweep(M const& a, bool long_only, bool unterminated = false)
    {
        struct CP {
            C z, o;
        };
        CP const chars[5] = {{C('0'), C('1')}, {C('A'), C('B')}, {C('1'), C('0')}, {C(0), C('1')}, {C('0'), C(0)}};
        std::vector<size_t> lens;
        if (long_only) {
            lens = {N + 1, N + 3};
        } else {
            lens = {N, 0};
            if (N > 1) {
                lens.push_back(N - 1);
                lens.push_back(1);
            }
            if (N > 9) { lens.push_back(N / 2); }
        }
        for (size_t L : lens) {
            std::string pl = payload_of(a, L);
            if constexpr (std::is_same_v<C, char>) {
                if (!unterminated) {
                    unsigned cs = (unsigned)(a.count() * 37 + L);
                    ctor_sv_ci(pl, 0, 0, 1, 'x', 'y', cs, 4);
                    ctor_sv_ci(pl, 2, 3, 0, 'X', 'y', cs + 1, 4);
                    ctor_sv_ci(pl, 0, 0, 2, 'a', 'B', cs + 2, 4);
                    ctor_sv_ci(pl, 2, 0, 1, 'Q', 'Z', 0x155, 4); // every character in the other case
                    ctor_sv_ci(pl, 0, 0, 0, '0', '1', cs, 2);    // digits: the traits change nothing
                }
            }
            for (CP const& cp : chars) {
                for (size_t P : {size_t(0), size_t(2)}) {
                    if (unterminated) { break; }
                    for (int nmode = 0; nmode < 3; ++nmode) {
                        size_t S = nmode == 0 ? (P ? 3 : 0) : 0;
                        for (int form = 0; form < 5; ++form) {
                            // forms with defaulted arguments are only distinct calls where they apply
                            bool dch = cp.z == C('0') && cp.o == C('1');
                            if (form == 0 && !(dch && nmode == 1 && P == 0)) { continue; }
                            if (form == 1 && !(dch && nmode == 1)) { continue; }
                            if (form == 2 && !dch) { continue; }
                            if (form == 3 && cp.o != C('1')) { continue; }
                            ctor_sv<C>(pl, P, S, nmode, cp.z, cp.o, form);
                        }
                    }
                    if (P == 0) { ctor_sv<C>(pl, 0, 2, 0, cp.z, cp.o, 4); } // n<rest with pos=0
                }
                for (int nmode = 0; nmode < 2; ++nmode) {
                    for (size_t S : {size_t(0), size_t(2)}) {
                        if (nmode == 1 && S) { continue; }
                        for (int form = 0; form < 4; ++form) {
                            bool dch = cp.z == C('0') && cp.o == C('1');
                            if (form == 0 && !(dch && nmode == 1)) { continue; }
                            if (form == 1 && !dch) { continue; }
                            if (form == 2 && cp.o != C('1')) { continue; }
                            if (!unterminated) {
                                ctor_cstr<C>(pl, S ? 1 : 0, S, nmode, cp.z, cp.o, form);
                            } else if (nmode == 0) {
                                ctor_cstr<C>(pl, S ? 1 : 0, S, nmode, cp.z, cp.o, form, false); // exactly n characters, no NUL
                            }
                        }
                    }
                }
            }
        }
    }

    // ---------------------------------------------------------------- value sets
    static constexpr bool small = N <= 9;
    static constexpr bool big   = N > 129;   // widths beyond a word type's range of counts: per-position sweeps use edge positions only
    static constexpr bool giant = N > 4096;  // thorough only: whole-set operations and observers on a few values
    static std::vector<size_t> sweep_positions()
    {
        std::vector<size_t> ps;
        if constexpr (!big) {
            for (size_t p = 0; p < N; ++p) { ps.push_back(p); }
        } else {
            size_t const cand[14] = {0, 1, 7, 8, N - 1, N - 2, 254, 255, 256, WB - 1, WB, N / 2, 65535, 65536};
            for (size_t c : cand) {
                size_t p = c % N;
                bool dup = false;
                for (size_t x : ps) { dup = dup || x == p; }
                if (!dup) { ps.push_back(p); }
            }
        }
        return ps;
    }
    static u64 n_values() { return small ? (1ull << N) : 16; }
    static M value(u64 k)
    {
        M v;
        if constexpr (small) {
            v = M(k);
            return v;
        }
        size_t const lastbyte = 8 * ((N - 1) / 8);
        switch (k) {
        case 0: break;
        case 1: v.set(); break;
        case 2:
            for (size_t i = 0; i < N; i += 2) { v.set(i); }
            break;
        case 3:
            for (size_t i = 1; i < N; i += 2) { v.set(i); }
            break;
        case 4: v.set(N - 1); break;
        case 5: v.set(0); break;
        case 6: v.set().reset(N - 1); break;
        case 7: v.set().reset(0); break;
        case 8:
            for (size_t i = 0; i < lastbyte; ++i) { v.set(i); }
            break;
        case 9:
            for (size_t i = lastbyte; i < N; ++i) { v.set(i); }
            break;
        case 10:
        case 11: {
            u64 s = 0xC17 + N;
            for (size_t i = 0; i < N; ++i) {
                if (vf::splitmix(s) & 1) { v.set(i); }
            }
            if (k == 11) { v.flip(); }
            break;
        }
        case 12:
            for (size_t i = 0; i < N && i < 64; ++i) { v.set(i); }
            break;
        case 13:
            for (size_t i = 64; i < N; ++i) { v.set(i); }
            if (N <= 64) { v.set(N / 2); }
            break;
        case 14:
            for (size_t i = 0; i < N && i < 32; ++i) { v.set(i); }
            break;
        default:
            for (size_t i = 32; i < N; ++i) { v.set(i); }
            if (N <= 32) {
                v.set(N / 3);
                v.set(N - 2);
            }
            break;
        }
        return v;
    }
    static M random_value(vf::Rng& r)
    {
        M v;
        switch (r.below(10)) {
        case 0: break;
        case 1: v.set(); break;
        case 2: v.set((size_t)r.below(N)); break;
        case 3: v.set().reset((size_t)r.below(N)); break;
        case 4:
            for (size_t i = 0; i < N; ++i) {
                if (r.below(8) == 0) { v.set(i); }
            }
            break;
        case 5:
            for (size_t i = 0; i < N; ++i) {
                if (r.below(8) != 0) { v.set(i); }
            }
            break;
        case 6: { // one byte-aligned run
            size_t lo = 8 * (size_t)r.below(N / 8 + 1), hi = 8 * (size_t)r.below(N / 8 + 2);
            if (lo > hi) { std::swap(lo, hi); }
            for (size_t i = lo; i < hi && i < N; ++i) { v.set(i); }
            break;
        }
        default:
            for (size_t i = 0; i < N; ++i) {
                if (r.coin()) { v.set(i); }
            }
            break;
        }
        return v;
    }
    static size_t random_pos(vf::Rng& r)
    {
        if (r.coin()) { return (size_t)r.below(N); }
        size_t k = 8 * (size_t)r.below(N / 8 + 2);
        size_t p = r.coin() ? k : (k ? k - 1 : 0);
        if (p >= N) { p = N - 1; }
        return p;
    }

    // ---------------------------------------------------------------- enumerated case: everything from value #k
    // widths in the tens of thousands (thorough): construction routes, whole-set and binary operations, single-bit
    // operations at word/count-range edges, every observer after each step
    void giant_case(u64 k)
    {
        M const a = value(k);
        unsigned const routes[4] = {0, 1, 2, 4};
        for (unsigned r : routes) { build_state(a, r); }
        E const base = e;
        auto from_base = [&] {
            sub("copy-from-base");
            e = base;
            m = a;
        };
        int const whole[5] = {W_SET, W_RESET, W_FLIP, W_NOT, X_XOR_A_SELF};
        for (int op : whole) {
            if (!supported(op)) { continue; }
            from_base();
            step(op, Arg{});
        }
        for (u64 j : {u64(1), u64(3), u64(6)}) {
            M const b = value(j);
            E ob      = build_operand(b, (unsigned)((k + j) % 3));
            Arg ar;
            ar.b  = &b;
            ar.ob = &ob;
            for (int op = B_AND_A; op <= B_XOR_A; ++op) {
                from_base();
                step(op, ar);
            }
        }
        int const singles[6] = {S_SET1, S_RESET1, S_USET1, S_URESET, S_UFLIP, S_REF_FLIP};
        for (int op : singles) {
            if (!supported(op)) { continue; }
            for (size_t p : {size_t(0), size_t(65535) % N, size_t(65536) % N, N - 1}) {
                Arg ar;
                ar.p = p;
                from_base();
                step(op, ar);
            }
        }
        ctor_ull(low64(a) | 1ull << 63);
    }

    void enum_case(u64 k)
    {
        if constexpr (giant) {
            giant_case(k);
            return;
        }
        M const a = value(k);
        std::vector<E> bases;
        for (unsigned r = 0; r < kRoutes; ++r) {
            build_state(a, r);
            bases.push_back(e);
        }
        unsigned rot = (unsigned)k;
        auto from_base = [&] {
            sub("copy-from-base");
            e = bases[rot++ % kRoutes];
            m = a;
        };
        // single-bit operations x every position
        for (int op = 0; op <= C_REF_CHAIN_ASSIGN; ++op) {
            if (!supported(op)) { continue; }
            for (size_t p : sweep_positions()) {
                std::vector<size_t> qs{0};
                if (needs_pos2(op)) {
                    qs.clear();
                    if constexpr (small) {
                        for (size_t q = 0; q < N; ++q) { qs.push_back(q); }
                    } else {
                        qs = {0, N - 1, (p + 1) % N, (p + WB) % N, (p + N - 8) % N, p};
                    }
                }
                for (size_t q : qs) {
                    for (int v = 0; v < (needs_val(op) ? 2 : 1); ++v) {
                        Arg ar;
                        ar.p = p;
                        ar.q = q;
                        ar.v = v != 0;
                        from_base();
                        step(op, ar);
                    }
                }
            }
        }
        // whole-set operations
        for (int op = W_SET; op <= X_XOR_SELF; ++op) {
            if (!supported(op)) { continue; }
            from_base();
            step(op, Arg{});
            // and twice in a row (flip().flip(), set().set(), ...)
            step(op, Arg{});
        }
        // long-lived proxies: every owner modifier x held positions x (same position / same word / other word),
        // the use of the proxies rotates so that over the value set every (modifier, relation, use) is reached
        {
            std::vector<size_t> is;
            if constexpr (small) {
                for (size_t p = 0; p < N; ++p) { is.push_back(p); }
            } else {
                size_t const cand[8] = {0, N - 1, 7, 8, WB - 1, WB, N / 2, N - 2};
                for (size_t c : cand) {
                    size_t p = c % N;
                    bool dup = false;
                    for (size_t x : is) { dup = dup || x == p; }
                    if (!dup) { is.push_back(p); }
                }
            }
            u64 const nv = n_values();
            M const hb0  = value((k + 1) % nv);
            M const hb1  = value((k * 7 + 3) % nv);
            E const ho0  = build_operand(hb0, (unsigned)(k % kRoutes));
            E const ho1  = build_operand(hb1, (unsigned)((k + 3) % kRoutes));
            u64 rotu     = k;
            for (int mod = 0; mod < HM_NUM; ++mod) {
                if (!hm_supported(mod)) { continue; }
                for (size_t i : is) {
                    for (int jsel = 0; jsel < 3; ++jsel) {
                        size_t j = i;
                        if (jsel == 1) { j = (i ^ 1) < N ? (i ^ 1) : (i ? i - 1 : 0); }
                        if (jsel == 2) { j = N > WB ? (i + WB) % N : (i + N / 2) % N; }
                        bool const odd = (rotu / HU_NUM) & 1;
                        from_base();
                        held(mod, i, j, (i + 3) % N, ((rotu / (2 * HU_NUM)) & 1) != 0, (int)(rotu % HU_NUM), odd ? hb1 : hb0, odd ? ho1 : ho0);
                        ++rotu;
                    }
                }
                ++rotu;
            }
        }
        // binary operations with every value of the value set
        for (u64 j = 0; j < n_values(); ++j) {
            M const b = value(j);
            E ob      = build_operand(b, (unsigned)((k + j) % kRoutes));
            Arg ar;
            ar.b  = &b;
            ar.ob = &ob;
            for (int op = B_AND_A; op <= C_XORA_ANDA; ++op) {
                // chained binary expressions: with every 4th operand on the exhaustively enumerated widths, every operand otherwise
                if (small && N > 2 && op > B_XOR && (j + k) % 4 != 0) { continue; }
                from_base();
                step(op, ar);
            }
        }
        // shifts, if tetl ever provides them
        for (int op = H_SHL_A; op <= H_SHR; ++op) {
            if (!supported(op)) { continue; }
            for (size_t s = 0; s <= N + 1; ++s) {
                Arg ar;
                ar.p = s;
                from_base();
                step(op, ar);
            }
        }
        // integer constructor: the value, and the value with bits above N
        {
            unsigned long long const lo = low64(a);
            ctor_ull(lo);
            if constexpr (N < 64) {
                unsigned long long const above = ~0ull << N;
                ctor_ull(lo | above);
                ctor_ull(lo | (1ull << N));
                ctor_ull(lo | (1ull << 63));
                ctor_ull(lo | (above & 0x5555555555555555ull));
            } else {
                ctor_ull(~lo);
            }
        }
        // string constructors (valid strings, len <= N)
        bool const wide_too = !small || k % 8 == 0 || tier == vf::Tier::thorough;
        string_ctor_sweep<char>(a, false);
        if (wide_too) { string_ctor_sweep<wchar_t>(a, false); }
        string_ctor_sweep<char>(a, false, true);
        if (wide_too) { string_ctor_sweep<wchar_t>(a, false, true); }
    }
    // strings longer than N: std uses the first N characters (kept in a case of their own)
    void long_string_case()
    {
        u64 const nv = n_values();
        for (u64 k = 0; k < nv; k += (small ? (nv > 16 ? nv / 16 : 1) : 1)) {
            M a = value(k);
            string_ctor_sweep<char>(a, true);
        }
        string_ctor_sweep<wchar_t>(value(nv - 1), true);
        string_ctor_sweep<wchar_t>(value(nv / 3), true);
        string_ctor_sweep<char>(value(nv - 1), true, true);
        string_ctor_sweep<wchar_t>(value(nv / 3), true, true);
    }

    // ---------------------------------------------------------------- random history
    void random_case(vf::Rng& r, int len)
    {
        build_state(random_value(r), (unsigned)r.below(kRoutes));
        std::vector<int> ops;
        for (int op = 0; op < OP_NUM; ++op) {
            if (supported(op)) { ops.push_back(op); }
        }
        for (int s = 0; s < len; ++s) {
            unsigned pick = (unsigned)r.below(ops.size() + 8);
            if (pick >= ops.size()) {
                switch (pick - ops.size()) {
                case 4:
                case 5:
                case 6:
                case 7: { // long-lived proxies
                    M b      = r.below(4) == 0 ? (r.coin() ? m : ~m) : random_value(r);
                    E ob     = build_operand(b, (unsigned)r.below(kRoutes));
                    size_t i = random_pos(r);
                    size_t j = r.below(3) == 0 ? i : random_pos(r);
                    int mod  = (int)r.below(HM_NUM);
                    held(mod, i, j, mod >= HM_SHL_A && r.below(4) == 0 ? N + (size_t)r.below(2) : random_pos(r), r.coin(), (int)r.below(HU_NUM), b, ob);
                    break;
                }
                case 0: {
                    unsigned long long val = r.next();
                    if (r.coin()) { val &= (N < 64 ? (1ull << (N < 64 ? N : 0)) - 1 : ~0ull); }
                    if (r.below(4) == 0) { val = low64(m) | (N < 64 ? (~0ull << (N < 64 ? N : 0)) : 0); }
                    ctor_ull(val);
                    break;
                }
                case 1:
                case 2: {
                    if constexpr (has_sv_ctor<E, char>) {
                        size_t L       = r.coin() ? N : (size_t)r.below(N + 1);
                        M pv           = random_value(r);
                        std::string pl = payload_of(pv, L);
                        size_t P       = (size_t)r.below(4);
                        size_t S       = (size_t)r.below(4);
                        int nmode      = (int)r.below(3);
                        int cs         = (int)r.below(5);
                        bool term      = r.below(3) != 0;
                        int form       = (int)r.below(5);
                        bool cstr      = pick - ops.size() == 2;
                        if (r.below(6) == 0) {
                            char const zs2[3] = {'x', 'N', 'a'}, os2[3] = {'y', 'e', 'A' + 1};
                            unsigned w = (unsigned)r.below(3);
                            ctor_sv_ci(pl, P, S, nmode, zs2[w], os2[w], (unsigned)r.next(), 4);
                            break;
                        }
                        if (r.below(4) == 0) {
                            wchar_t const zs[5] = {L'0', L'-', L'1', L'\0', L'0'}, os[5] = {L'1', L'+', L'0', L'1', L'\0'};
                            wchar_t z = zs[cs], o = os[cs];
                            if (cstr) {
                                ctor_cstr<wchar_t>(pl, P, S, nmode % 2, z, o, form % 4, term);
                            } else {
                                ctor_sv<wchar_t>(pl, P, S, nmode, z, o, form);
                            }
                        } else {
                            char const zs[5] = {'0', '.', '1', '\0', '0'}, os[5] = {'1', '#', '0', '1', '\0'};
                            char z = zs[cs], o = os[cs];
                            if (cstr) {
                                ctor_cstr<char>(pl, P, S, nmode % 2, z, o, form % 4, term);
                            } else {
                                ctor_sv<char>(pl, P, S, nmode, z, o, form);
                            }
                        }
                    }
                    break;
                }
                default: { // |= all-ones then a history continues from the full state
                    M b;
                    b.set();
                    E ob = build_operand(b, (unsigned)r.below(kRoutes));
                    Arg ar;
                    ar.b  = &b;
                    ar.ob = &ob;
                    step(B_OR_A, ar);
                    break;
                }
                }
                continue;
            }
            int op = ops[pick];
            Arg ar;
            if (is_single(op)) {
                ar.p = random_pos(r);
                ar.q = random_pos(r);
                ar.v = r.coin();
                step(op, ar);
            } else if (is_binary(op)) {
                M b   = r.below(5) == 0 ? (r.coin() ? m : ~m) : random_value(r);
                E ob  = build_operand(b, (unsigned)r.below(kRoutes));
                ar.b  = &b;
                ar.ob = &ob;
                step(op, ar);
            } else if (is_shift(op)) {
                ar.p = r.below(8) == 0 ? N + (size_t)r.below(3) : random_pos(r);
                step(op, ar);
            } else {
                step(op, ar);
            }
        }
    }

    // ---------------------------------------------------------------- static entry points
    static u64 n_enum_cases() { return n_values() + 1; }
    static void run_enum(u64 k, vf::Case& c)
    {
        H h(c.tier);
        if (k < n_values()) {
            h.enum_case(k);
        } else {
            h.long_string_case();
        }
    }
    static void run_random(vf::Case& c)
    {
        H h(c.tier);
        // thorough: every 8th history is 256 steps long
        h.random_case(c.rng, giant ? 3 : (big ? 24 : ((c.tier == vf::Tier::thorough && vf::mix(c.index, 17) % 8 == 0) ? 256 : 64)));
    }
};

// ------------------------------------------------------------------ configs of this unit
struct Cfg {
    u64 n_enum;
    void (*run_enum)(u64, vf::Case&);
    void (*run_random)(vf::Case&);
};
template <typename E>
Cfg cfg()
{
    return Cfg{H<E>::n_enum_cases(), &H<E>::run_enum, &H<E>::run_random};
}

#if VF_KIND == 0
    #define VF_SUBJECTS(W) cfg<etl::bitset<W>>()
#elif VF_KIND == 1
    #define VF_SUBJECTS(W) cfg<etl::basic_bitset<W, std::uint8_t>>(), cfg<etl::basic_bitset<W, std::uint16_t>>()
#elif VF_KIND == 2
    #define VF_SUBJECTS(W) cfg<etl::basic_bitset<W, std::uint32_t>>(), cfg<etl::basic_bitset<W, std::uint64_t>>()
#elif VF_KIND == 3 // widths beyond uint8_t's range of counts
    #define VF_SUBJECTS(W) cfg<etl::basic_bitset<W, std::uint8_t>>()
#else // VF_KIND == 4: widths beyond uint16_t's range of counts (thorough)
    #define VF_SUBJECTS(W) cfg<etl::basic_bitset<W, std::uint16_t>>()
#endif

std::vector<Cfg> const& configs()
{
    static std::vector<Cfg> const v = {VF_SUBJECTS(VF_W0)
#ifdef VF_W1
                                           ,
        VF_SUBJECTS(VF_W1)
#endif
#ifdef VF_W2
            ,
        VF_SUBJECTS(VF_W2)
#endif
#ifdef VF_W3
            ,
        VF_SUBJECTS(VF_W3)
#endif
    };
    return v;
}

vf::Spec spec(vf::Tier t)
{
    vf::Spec s;
    for (Cfg const& c : configs()) { s.n_enum += c.n_enum; }
    s.n_random   = configs().size() * (VF_KIND == 4 ? 40u : (t == vf::Tier::thorough ? 3000u : 150u));
    s.batch      = 16;
    s.timeout_s  = 300;
    s.exhaustive = true;
    return s;
}

void run_case(vf::Case& c)
{
    auto const& cf = configs();
    if (c.enumerated) {
        u64 k = c.index;
        for (Cfg const& x : cf) {
            if (k < x.n_enum) {
                x.run_enum(k, c);
                return;
            }
            k -= x.n_enum;
        }
        return;
    }
    cf[c.index % cf.size()].run_random(c);
}
} // namespace

VF_MAIN("C17", VF_UNIT, spec, run_case)
