// C07 - probe units: valid programs (per the std counterparts) that did not compile against the tree this monitor
// was written on.  One probe per binary (-DVF_PROBE=n) so that a compile failure of one cannot hide the others or
// break the main monitors.  A probe that builds is an ordinary small monitor of the same property.
//   1 optional <=, >, >= nullopt (both argument orders)            [std: all six relations exist for nullopt]
//   2 optional<T const&> from / assigned from a NON-const optional<T&> / optional<T> lvalue, and converting assignment
//   3 visit whose visitor returns a reference; visit with no variant
//   4 and_then / or_else / value_or on rvalue optional / expected with a move-only payload and rvalue-only callables
//   5 variant with a REPEATED alternative type: "is it constructible / assignable from U?" must be answerable (false, as for
//     std::variant) and an overload set containing such a variant parameter must still resolve - on the tree this was
//     written against the alternative selector derived twice from the same base class, a hard error
#include "vf.hpp"
#include "vf_contract.hpp"
#include "vf_tracked.hpp"

#include "vf_c07.hpp"

#include <functional>

#ifndef VF_PROBE
    #error "VF_PROBE required"
#endif

namespace {
using namespace c07;

#if VF_PROBE == 1
    #define VF_UNIT "C07_probe_nullopt_rel"
template <typename NS, typename T>
void rel_nullopt(Obs& r, int y)
{
    using O   = typename NS::template optional<T>;
    O const o = y > 0 ? O(NS::in_place, y - 1) : O();
    r.b("a==nullopt", o == NS::nullopt);
    r.b("a!=nullopt", o != NS::nullopt);
    r.b("a<nullopt", o < NS::nullopt);
    r.b("a<=nullopt", o <= NS::nullopt);
    r.b("a>nullopt", o > NS::nullopt);
    r.b("a>=nullopt", o >= NS::nullopt);
    r.b("nullopt==a", NS::nullopt == o);
    r.b("nullopt!=a", NS::nullopt != o);
    r.b("nullopt<a", NS::nullopt < o);
    r.b("nullopt<=a", NS::nullopt <= o);
    r.b("nullopt>a", NS::nullopt > o);
    r.b("nullopt>=a", NS::nullopt >= o);
}
template <typename T>
void one(char const* subj)
{
    for (int y = 0; y <= 3; ++y) {
        vf::crumb(subj, "relational(optional,nullopt) all six", y == 0 ? "empty" : "engaged", "y=%d", y);
        Obs so, eo;
        rel_nullopt<Std, T>(so, y);
        rel_nullopt<Etl, T>(eo, y);
        vf::cover("optional vs nullopt: all six relations", vf::mix(vf::fnv(subj), y), true);
        compare(eo, so);
    }
}
void run_all()
{
    one<int>("optional<int>");
    one<TCM>("optional<tracked-cm>");
    vf::registry().reset();
    // optional<T&>: expected values from the definition (nullopt compares like an empty optional)
    int target = 1;
    for (int y = 0; y < 2; ++y) {
        etl::optional<int&> const o = y ? etl::optional<int&>(target) : etl::optional<int&>();
        vf::crumb("optional<int&>", "relational(optional,nullopt) all six", y == 0 ? "empty" : "bound", "y=%d", y);
        vf::eq_bool("a<=nullopt", o <= etl::nullopt, y == 0);
        vf::eq_bool("a>nullopt", o > etl::nullopt, y != 0);
        vf::eq_bool("a>=nullopt", o >= etl::nullopt, true);
        vf::eq_bool("nullopt<=a", etl::nullopt <= o, true);
        vf::eq_bool("nullopt>a", etl::nullopt > o, false);
        vf::eq_bool("nullopt>=a", etl::nullopt >= o, y == 0);
        vf::cover("optional vs nullopt: all six relations", vf::mix(vf::fnv("optional<int&>"), y), true);
    }
}

#elif VF_PROBE == 2
    #define VF_UNIT "C07_probe_optref_conv"
void run_all()
{
    int a = 5, b = 6;
    for (int y = 0; y < 2; ++y) {
        char const* sit = y ? "source-bound" : "source-empty";
        {
            etl::optional<int&> src = y ? etl::optional<int&>(a) : etl::optional<int&>();
            vf::crumb("optional<int const&>", "ctor(optional<U&>&) non-const lvalue source", sit, "-");
            etl::optional<int const&> c(src);
            vf::eq_bool("converted.has_value", c.has_value(), y != 0);
            vf::eq_bool("converted-binds-same-object", c.operator->() == (y ? &a : nullptr), true);
            vf::cover("optional<T&> conversions from non-const lvalues", vf::mix(1, y), true);
        }
        {
            etl::optional<int> src = y ? etl::optional<int>(7) : etl::optional<int>();
            vf::crumb("optional<int const&>", "ctor(optional<U>&) non-const lvalue source", sit, "-");
            etl::optional<int const&> c(src);
            vf::eq_bool("converted.has_value", c.has_value(), y != 0);
            vf::eq_bool("converted-binds-contained-value", c.operator->() == (y ? src.operator->() : nullptr), true);
            vf::cover("optional<T&> conversions from non-const lvalues", vf::mix(2, y), true);
        }
        for (int st = 0; st < 2; ++st) {
            etl::optional<int&> src       = y ? etl::optional<int&>(a) : etl::optional<int&>();
            etl::optional<int&> const csrc = src;
            etl::optional<int const&> dst = st ? etl::optional<int const&>(b) : etl::optional<int const&>();
            vf::crumb("optional<int const&>", "operator=(optional<U&> const&) converting", sit, "dst %s", st ? "bound" : "empty");
            dst = csrc;
            vf::eq_bool("assigned.has_value", dst.has_value(), y != 0);
            vf::eq_bool("assigned-binds-same-object", dst.operator->() == (y ? &a : nullptr), true);
            etl::optional<int const&> dst2 = st ? etl::optional<int const&>(b) : etl::optional<int const&>();
            vf::crumb("optional<int const&>", "operator=(optional<U&>&) converting, non-const lvalue source", sit, "dst %s", st ? "bound" : "empty");
            dst2 = src;
            vf::eq_bool("assigned.has_value", dst2.has_value(), y != 0);
            vf::eq_bool("assigned-binds-same-object", dst2.operator->() == (y ? &a : nullptr), true);
            vf::eq_int("old-target-untouched", b, 6);
            vf::cover("optional<T&> conversions from non-const lvalues", vf::mix(3, y * 2 + st), true);
        }
    }
}

#elif VF_PROBE == 3
    #define VF_UNIT "C07_probe_visit_ref"
long g_slot[3] = {10, 11, 12};
struct RefVisitor {
    template <typename A>
    long& operator()(A const& a) const
    {
        return g_slot[enc(a) % 3];
    }
};
template <typename NS>
void visit_ref(Obs& r, int j, int v)
{
    using V = typename NS::template variant<int, TCM, char>;
    V x     = j == 0 ? V(NS::template ipi<0>, v) : j == 1 ? V(NS::template ipi<1>, v) : V(NS::template ipi<2>, v);
    long& got = NS::visit(RefVisitor{}, x);
    long long const expect_slot = (j == 2 ? 1000 + v : v) % 3; // RefVisitor picks the slot from the encoded active value
    r.b("visit-returns-the-visitor's-reference", &got == &g_slot[expect_slot]);
    r.i("returned-slot", (long long)(&got - g_slot));
    got += 100; // write through
    r.i("slot-after-write", g_slot[expect_slot]);
    got -= 100;
    int calls = 0;
    int ret   = NS::visit([&] { ++calls; return 42; });
    r.i("visit(f) no variant: calls", calls);
    r.i("visit(f) no variant: result", ret);
}
void run_all()
{
    for (int j = 0; j < 3; ++j) {
        for (int v = 0; v < 3; ++v) {
            char sit[32];
            std::snprintf(sit, sizeof sit, "from-index-%d", j);
            vf::crumb("variant<int,tracked-cm,char>", "visit(f returning T&, v)", sit, "v=%d", v);
            Obs so, eo;
            visit_ref<Std>(so, j, v);
            visit_ref<Etl>(eo, j, v);
            vf::cover("visit returning a reference", vf::mix(j, v), true);
            compare(eo, so);
        }
    }
    vf::registry().reset();
}

#elif VF_PROBE == 5
    #define VF_UNIT "C07_probe_repeated_alt_traits"
template <typename V>
int pick_overload(V const&) { return 1; }
template <typename V>
int pick_overload_set(short x)
{
    struct S {
        static int f(V const&) { return 1; }
        static int f(short) { return 2; }
    };
    return S::f(x);
}
template <typename EV, typename SV>
void one(char const* subj)
{
    vf::crumb(subj, "is_constructible / is_assignable / overload resolution with a non-alternative argument", "repeated-alternative-type", "-");
    vf::eq_bool("is_constructible<V,short>", std::is_constructible_v<EV, short>, std::is_constructible_v<SV, short>);
    vf::eq_bool("is_constructible<V,char const*>", std::is_constructible_v<EV, char const*>, std::is_constructible_v<SV, char const*>);
    vf::eq_bool("is_assignable<V&,short>", std::is_assignable_v<EV&, short>, std::is_assignable_v<SV&, short>);
    vf::eq_bool("is_convertible<short,V>", std::is_convertible_v<short, EV>, std::is_convertible_v<short, SV>);
    vf::eq_bool("is_copy_constructible<V>", std::is_copy_constructible_v<EV>, std::is_copy_constructible_v<SV>);
    vf::eq_int("overload set f(V const&) / f(short) called with short", pick_overload_set<EV>(short{1}), pick_overload_set<SV>(short{1}));
    vf::cover("repeated alternative types: constructibility queries", vf::fnv(subj), true);
}
void run_all()
{
    one<etl::variant<int, int>, std::variant<int, int>>("variant<int,int>");
    one<etl::variant<TCM, int, TCM>, std::variant<TCM, int, TCM>>("variant<tracked-cm,int,tracked-cm>");
    one<etl::variant<StrLike, StrLike, char>, std::variant<StrLike, StrLike, char>>("variant<string-like,string-like,char>");
    vf::registry().reset();
}

#else
    #define VF_UNIT "C07_probe_rvalue_monadic"
    #if __cplusplus <= 202002L
        #error "needs -std=c++23"
    #endif
template <typename NS>
void opt_part(Obs& r, int y, int f)
{
    using O  = typename NS::template optional<TMO>;
    using OL = typename NS::template optional<long>;
    O o      = y > 0 ? O(NS::in_place, y - 1) : O();
    int calls = 0;
    OL ret = static_cast<O&&>(o).and_then([&](TMO&& x) -> OL {
        ++calls;
        TMO taken(static_cast<TMO&&>(x));
        return f ? OL(taken.value() + 10L) : OL();
    });
    r.i("and_then&&: f.calls", calls);
    r.b("and_then&&: ret.has_value", ret.has_value());
    r.i("and_then&&: ret.value", ret.has_value() ? *ret : kAbsent);
    r.b("source.has_value-after", o.has_value());
    r.i("source.value-after", o.has_value() ? enc(*o) : kAbsent);
    O o2    = y > 0 ? O(NS::in_place, y - 1) : O();
    TMO got = static_cast<O&&>(o2).value_or(9);
    r.i("value_or&&", enc(got));
    O o3   = y > 0 ? O(NS::in_place, y - 1) : O();
    O ret3 = static_cast<O&&>(o3).or_else([&]() -> O { return O(NS::in_place, 8); });
    r.b("or_else&&: ret.has_value", ret3.has_value());
    r.i("or_else&&: ret.value", ret3.has_value() ? enc(*ret3) : kAbsent);
}
// std side of expected::and_then / or_else: [expected.object.monadic] written out (libstdc++ 12 lacks the members)
template <typename X, typename F>
auto ref_and_then(X&& x, F&& f)
{
    using U = std::remove_cvref_t<std::invoke_result_t<F, decltype(*std::forward<X>(x))>>;
    if (x.has_value()) { return std::invoke(std::forward<F>(f), *std::forward<X>(x)); }
    return U(std::unexpect, std::forward<X>(x).error());
}
template <typename X, typename F>
auto ref_or_else(X&& x, F&& f)
{
    using G = std::remove_cvref_t<std::invoke_result_t<F, decltype(std::forward<X>(x).error())>>;
    if (x.has_value()) { return G(std::in_place, *std::forward<X>(x)); }
    return std::invoke(std::forward<F>(f), std::forward<X>(x).error());
}
template <typename NS>
void exp_part(Obs& r, int y, int f)
{
    using X  = typename NS::template expected<TMO, TMO>;
    using XL = typename NS::template expected<long, TMO>;
    using XG = typename NS::template expected<TMO, long>;
    X x      = y < 3 ? X(NS::in_place, y) : X(NS::unexpect, y - 3);
    int calls = 0;
    auto fa   = [&](TMO&& v) -> XL {
        ++calls;
        TMO taken(static_cast<TMO&&>(v));
        return f ? XL(NS::in_place, taken.value() + 10L) : XL(NS::unexpect, 7);
    };
    XL ret = [&] {
        if constexpr (NS::is_etl) {
            return static_cast<X&&>(x).and_then(fa);
        } else {
            return ref_and_then(static_cast<X&&>(x), fa);
        }
    }();
    r.i("and_then&&: f.calls", calls);
    r.b("and_then&&: ret.has_value", ret.has_value());
    r.i("and_then&&: ret.payload", ret.has_value() ? *ret : enc(ret.error()));
    r.b("source.has_value-after", x.has_value());
    r.i("source.payload-after", x.has_value() ? enc(*x) : enc(x.error()));
    X x2      = y < 3 ? X(NS::in_place, y) : X(NS::unexpect, y - 3);
    int calls2 = 0;
    auto fo    = [&](TMO&& e) -> XG {
        ++calls2;
        TMO taken(static_cast<TMO&&>(e));
        return f ? XG(NS::in_place, taken.value() + 20) : XG(NS::unexpect, 9L);
    };
    XG ret2 = [&] {
        if constexpr (NS::is_etl) {
            return static_cast<X&&>(x2).or_else(fo);
        } else {
            return ref_or_else(static_cast<X&&>(x2), fo);
        }
    }();
    r.i("or_else&&: f.calls", calls2);
    r.b("or_else&&: ret.has_value", ret2.has_value());
    r.i("or_else&&: ret.payload", ret2.has_value() ? enc(*ret2) : ret2.error());
    r.i("source2.payload-after", x2.has_value() ? enc(*x2) : enc(x2.error()));
    X x3    = y < 3 ? X(NS::in_place, y) : X(NS::unexpect, y - 3);
    TMO got = static_cast<X&&>(x3).value_or(9);
    r.i("value_or&&", enc(got));
}
void run_all()
{
    for (int f = 0; f < 2; ++f) {
        for (int y = 0; y <= 3; ++y) {
            vf::crumb("optional<tracked-mo>", "and_then/value_or/or_else on rvalue, rvalue-only callable", y ? "engaged" : "empty", "y=%d f=%d", y, f);
            Obs so, eo;
            opt_part<Std>(so, y, f);
            opt_part<Etl>(eo, y, f);
            vf::cover("rvalue monadic with move-only payload", vf::mix(1, vf::mix(y, f)), true);
            compare(eo, so);
        }
        for (int y = 0; y < 6; ++y) {
            vf::crumb("expected<tracked-mo,tracked-mo>", "and_then/or_else/value_or on rvalue, rvalue-only callable", y < 3 ? "has-value" : "has-error", "y=%d f=%d", y, f);
            Obs so, eo;
            exp_part<Std>(so, y, f);
            exp_part<Etl>(eo, y, f);
            vf::cover("rvalue monadic with move-only payload", vf::mix(2, vf::mix(y, f)), true);
            compare(eo, so);
        }
    }
    vf::registry().reset();
}
#endif

vf::Spec spec(vf::Tier)
{
    vf::Spec s;
    s.n_enum     = 1;
    s.n_random   = 0;
    s.batch      = 1;
    s.exhaustive = true;
    return s;
}
void run_case(vf::Case&) { run_all(); }
} // namespace

VF_MAIN("C07", VF_UNIT, spec, run_case)
