// C17 - constant-evaluation twin of the bitset observers (DESIGN 4, C17; complements C13)
//
// The same constexpr function computes, for a table of values, every observer of etl::bitset<N> /
// etl::basic_bitset<N,W>:   once in a constant expression (static constexpr table, so the
// is_constant_evaluated() branches of tetl - e.g. popcount's fallback - are the ones that run) and once at
// run time on values laundered through volatile.  Both are compared with std::bitset<N> computed at run
// time (std::bitset is not constexpr in C++20).
// Table: every nibble value 0x0..0xF in every nibble position of a 64-bit word (256 values), all-ones,
// alternating patterns, 0xDD.., sparse patterns; bits above 64 are derived from the same value.
#include "vf.hpp"
#include "vf_contract.hpp"

#include <etl/bitset.hpp>
#include <etl/string.hpp>

#include <array>
#include <bitset>
#include <cstdint>
#include <limits>
#include <string>

namespace {
using std::size_t;
using u64 = std::uint64_t;

constexpr int kVals = 256 + 10;
constexpr u64 table_value(int k)
{
    if (k < 256) { return static_cast<u64>(k % 16) << (4 * (k / 16)); }
    constexpr u64 extra[10] = {~0ull, 0x5555555555555555ull, 0xAAAAAAAAAAAAAAAAull, 0xDDDDDDDDDDDDDDDDull, 0xD0D0D0D0D0D0D0D0ull, 0x8000000000000001ull,
        0ull, 0xFFFFFFFF00000000ull, 0x0123456789ABCDEFull, 0xFEDCBA9876543210ull};
    return extra[k - 256];
}
// bit i (i >= 64) of the value derived from v
constexpr bool high_bit(u64 v, size_t i) { return ((v >> ((i * 7 + 3) % 64)) & 1u) != 0; }

enum Field {
    QF_COUNT, QF_ALL, QF_ANY, QF_NONE, QF_TEST, QF_IDX_CONST, QF_IDX_PROXY, QF_TO_ULLONG, QF_TO_ULONG, QF_EQ_SAME, QF_EQ_NEAR, QF_NE_NEAR, QF_FLIP_COUNT,
    QF_FLIP2_COUNT, QF_SET_COUNT, QF_SET_ALL, QF_RESET_NONE, QF_AND_COUNT, QF_OR_COUNT, QF_XOR_COUNT, QF_XOR_SELF_COUNT, QF_NOT_COUNT, QF_TO_STRING,
    QF_PROXY_WRITE_COUNT, QF_NUM
};
constexpr char const* kField[QF_NUM] = {"count", "all", "any", "none", "test(pos)", "operator[](pos)const", "operator[](pos)->bool", "to_ullong",
    "to_ulong", "operator==(same-value)", "operator==(other-value)", "operator!=(other-value)", "flip().count", "flip().flip().count", "set().count",
    "set().all", "reset().none", "operator&.count", "operator|.count", "operator^.count", "operator^=(self).count", "operator~.count", "to_string",
    "proxy-writes.count"};
using Row = std::array<u64, QF_NUM>;

// the per-bit observers (test/operator[]/proxy hashes, ==, to_string, proxy writes) run on the extra patterns and on every 7th
// nibble value; the word-wise ones (count/all/any/none/flip/set/reset/&|^/to_ullong) on every value (constexpr step budget)
constexpr bool is_heavy(int k) { return k >= 256 || k % 7 == 0; }
constexpr u64 hstep(u64 h, u64 x) { return (h ^ x) * 1099511628211ull + 0x9E37ull; }

// ------------------------------------------------------------------ tetl side (constexpr)
template <typename E>
constexpr void e_set(E& x, size_t i, bool v)
{
    if constexpr (requires { x.set(i, v); }) {
        x.set(i, v);
    } else {
        x.unchecked_set(i, v);
    }
}
template <typename E>
constexpr bool e_test(E const& x, size_t i)
{
    if constexpr (requires { x.test(i); }) {
        return x.test(i);
    } else {
        return x.unchecked_test(i);
    }
}
template <typename E>
constexpr E e_make(u64 v)
{
    E x(static_cast<unsigned long long>(v));
    for (size_t i = 64; i < x.size(); ++i) { e_set(x, i, high_bit(v, i)); }
    return x;
}
template <typename E>
constexpr E e_make_bitwise(u64 v)
{
    E x{};
    for (size_t i = 0; i < x.size(); ++i) {
        bool b = i < 64 ? ((v >> i) & 1u) != 0 : high_bit(v, i);
        if (b) { e_set(x, i, true); }
    }
    return x;
}
template <typename E>
constexpr Row etl_row(u64 v, u64 w, bool heavy)
{
    constexpr size_t N = E{}.size();
    Row r{};
    E x        = e_make<E>(v);
    E const& c = x;
    E const ow = e_make<E>(w);
    r[QF_COUNT] = c.count();
    r[QF_ALL]   = c.all();
    r[QF_ANY]   = c.any();
    r[QF_NONE]  = c.none();
    u64 ht = 1, hi = 1, hp = 1;
    for (size_t i = 0; heavy && i < N; ++i) {
        ht = hstep(ht, e_test(c, i));
        hi = hstep(hi, c[i]);
        hp = hstep(hp, static_cast<bool>(x[i]) ? 1 : 0);
        hp = hstep(hp, (~x[i]) ? 0 : 1);
    }
    r[QF_TEST]      = ht;
    r[QF_IDX_CONST] = hi;
    r[QF_IDX_PROXY] = hp;
    if constexpr (requires { c.to_ullong(); }) { r[QF_TO_ULLONG] = c.to_ullong(); }
    if constexpr (requires { c.to_ulong(); }) { r[QF_TO_ULONG] = c.to_ulong(); }
    if (heavy) {
        E y          = e_make_bitwise<E>(v);
        r[QF_EQ_SAME] = (c == y) && (y == c);
        e_set(y, static_cast<size_t>(v % N), !e_test(y, static_cast<size_t>(v % N)));
        r[QF_EQ_NEAR] = (c == y);
        r[QF_NE_NEAR] = (c != y);
    }
    {
        E t = x;
        t.flip();
        r[QF_FLIP_COUNT] = t.count();
        t.flip();
        r[QF_FLIP2_COUNT] = t.count() + (t == c ? 1000000 : 0);
    }
    {
        E t = x;
        t.set();
        r[QF_SET_COUNT] = t.count();
        r[QF_SET_ALL]   = t.all();
        t.reset();
        r[QF_RESET_NONE] = t.none() && t.count() == 0;
    }
    {
        E t = x;
        t &= ow;
        r[QF_AND_COUNT] = t.count();
        t              = x;
        t |= ow;
        r[QF_OR_COUNT] = t.count();
        t             = x;
        t ^= ow;
        r[QF_XOR_COUNT] = t.count();
        E const& a     = t;
        t ^= a;
        r[QF_XOR_SELF_COUNT] = t.count() + (t.none() ? 0 : 1000000);
    }
    if constexpr (requires { ~c; }) {
        E t            = ~c;
        r[QF_NOT_COUNT] = t.count();
    } else {
        E t = x;
        t.flip();
        r[QF_NOT_COUNT] = t.count();
    }
    if constexpr (requires { c.template to_string<N>(); }) {
        if (heavy) {
        auto s = c.template to_string<N>();
        u64 h  = s.size();
        for (size_t i = 0; i < s.size(); ++i) { h = hstep(h, static_cast<unsigned char>(s[i])); }
        r[QF_TO_STRING] = h;
        }
    }
    if (heavy) {
        // writes through the proxy: b[i] = b[N-1-i] for the low half, then flip every third bit
        E t = x;
        for (size_t i = 0; i < N / 2; ++i) { t[i] = t[N - 1 - i]; }
        for (size_t i = 0; i < N; i += 3) { t[i].flip(); }
        r[QF_PROXY_WRITE_COUNT] = t.count();
    }
    return r;
}
template <typename E>
constexpr std::array<Row, kVals> etl_table_constant()
{
    std::array<Row, kVals> t{};
    for (int k = 0; k < kVals; ++k) { t[static_cast<size_t>(k)] = etl_row<E>(table_value(k), table_value((k + 17) % kVals), is_heavy(k)); }
    return t;
}

// ------------------------------------------------------------------ std side (run time)
template <size_t N>
std::bitset<N> s_make(u64 v)
{
    std::bitset<N> x(static_cast<unsigned long long>(v));
    for (size_t i = 64; i < N; ++i) { x[i] = high_bit(v, i); }
    return x;
}
template <size_t N, bool HasUll, bool HasString>
Row std_row(u64 v, u64 w, bool heavy)
{
    Row r{};
    std::bitset<N> x        = s_make<N>(v);
    std::bitset<N> const ow = s_make<N>(w);
    r[QF_COUNT]              = x.count();
    r[QF_ALL]                = x.all();
    r[QF_ANY]                = x.any();
    r[QF_NONE]               = x.none();
    u64 ht = 1, hp = 1;
    for (size_t i = 0; heavy && i < N; ++i) {
        ht = hstep(ht, x.test(i));
        hp = hstep(hp, x[i] ? 1 : 0);
        hp = hstep(hp, x[i] ? 1 : 0);
    }
    r[QF_TEST]      = ht;
    r[QF_IDX_CONST] = ht;
    r[QF_IDX_PROXY] = hp;
    if constexpr (HasUll) {
        r[QF_TO_ULLONG] = x.to_ullong();
        r[QF_TO_ULONG]  = x.to_ulong();
    }
    r[QF_EQ_SAME]     = heavy ? 1 : 0;
    r[QF_EQ_NEAR]     = 0;
    r[QF_NE_NEAR]     = heavy ? 1 : 0;
    r[QF_FLIP_COUNT]  = N - x.count();
    r[QF_FLIP2_COUNT] = x.count() + 1000000;
    r[QF_SET_COUNT]   = N;
    r[QF_SET_ALL]     = 1;
    r[QF_RESET_NONE]  = 1;
    r[QF_AND_COUNT]   = (x & ow).count();
    r[QF_OR_COUNT]    = (x | ow).count();
    r[QF_XOR_COUNT]   = (x ^ ow).count();
    r[QF_XOR_SELF_COUNT] = 0;
    r[QF_NOT_COUNT]      = (~x).count();
    if (HasString && heavy) {
        std::string s = x.to_string();
        u64 h         = s.size();
        for (char ch : s) { h = hstep(h, static_cast<unsigned char>(ch)); }
        r[QF_TO_STRING] = h;
    }
    if (heavy) {
        std::bitset<N> t = x;
        for (size_t i = 0; i < N / 2; ++i) {
            bool b = t[N - 1 - i];
            t[i]   = b;
        }
        for (size_t i = 0; i < N; i += 3) { t.flip(i); }
        r[QF_PROXY_WRITE_COUNT] = t.count();
    }
    return r;
}

// ------------------------------------------------------------------ one subject
template <typename E>
struct Twin {
    static constexpr size_t N                    = E{}.size();
    static constexpr std::array<Row, kVals> kCT  = etl_table_constant<E>(); // constant evaluation happens HERE
    static constexpr bool has_ull                = requires(E const& c) { c.to_ullong(); };
    static constexpr bool has_str                = requires(E const& c) { c.template to_string<N>(); };

    static void cmp(char const* subj, char const* sit, Row const& got, Row const& exp, u64 v, u64& n)
    {
        for (int f = 0; f < QF_NUM; ++f) {
            ++n;
            if (got[(size_t)f] == exp[(size_t)f]) { continue; }
            char sym[96];
            long long d = (long long)(got[(size_t)f] - exp[(size_t)f]);
            if (d >= -2 && d <= 2) {
                std::snprintf(sym, sizeof sym, "%s:%+lld", kField[f], d);
            } else {
                std::snprintf(sym, sizeof sym, "%s:differs", kField[f]);
            }
            vf::crumb(subj, "constant-evaluation twin", sit, "field=%s value=0x%llx", kField[f], (unsigned long long)v);
            char a[40], b[40];
            std::snprintf(a, sizeof a, "%llu", (unsigned long long)got[(size_t)f]);
            std::snprintf(b, sizeof b, "%llu", (unsigned long long)exp[(size_t)f]);
            vf::diverge(sym, a, b);
        }
    }
    static void run(char const* subj)
    {
        u64 n_ct = 0, n_rt = 0;
        for (int k = 0; k < kVals; ++k) {
            // opaque run-time inputs
            u64 volatile lv = table_value(k);
            u64 volatile lw = table_value((k + 17) % kVals);
            u64 const v = lv, w = lw;
            Row const exp = std_row<N, has_ull, has_str>(v, w, is_heavy(k));
            vf::crumb(subj, "constant-evaluation twin", "run-time", "value=0x%llx other=0x%llx", (unsigned long long)v, (unsigned long long)w);
            Row const rt = etl_row<E>(v, w, is_heavy(k));
            cmp(subj, "constant-evaluation-vs-std", kCT[(size_t)k], exp, v, n_ct);
            cmp(subj, "run-time-vs-std", rt, exp, v, n_rt);
            if (k == 256 + 3) {
                vf::sample("constexpr-twin", "%s: value 0x%llx: count constexpr=%llu run-time=%llu std=%llu (and %d more observers)", subj,
                    (unsigned long long)v, (unsigned long long)kCT[(size_t)k][QF_COUNT], (unsigned long long)rt[QF_COUNT],
                    (unsigned long long)exp[QF_COUNT], QF_NUM - 1);
            }
        }
        vf::cover_bulk("twin:constant-evaluation-vs-std", n_ct, vf::fnv(subj), (u64)kVals);
        vf::cover_bulk("twin:run-time-vs-std", n_rt, vf::fnv(subj) + 7777, (u64)kVals);
    }
};

struct Subject {
    char const* name;
    void (*run)(char const*);
};
#define SUBJ(...) Subject{#__VA_ARGS__, &Twin<etl::__VA_ARGS__>::run}
Subject const kSubjects[] = {
    SUBJ(bitset<8>),
    SUBJ(bitset<33>),
    SUBJ(bitset<64>),
    SUBJ(bitset<65>),
    SUBJ(bitset<129>),
    SUBJ(basic_bitset<7, std::uint8_t>),
    SUBJ(basic_bitset<33, std::uint8_t>),
    SUBJ(basic_bitset<65, std::uint8_t>),
    SUBJ(basic_bitset<16, std::uint16_t>),
    SUBJ(basic_bitset<63, std::uint16_t>),
    SUBJ(basic_bitset<33, std::uint32_t>),
    SUBJ(basic_bitset<65, std::uint32_t>),
    SUBJ(basic_bitset<64, std::uint64_t>),
    SUBJ(basic_bitset<127, std::uint64_t>),
};
constexpr size_t kNumSubjects = sizeof(kSubjects) / sizeof(kSubjects[0]);

vf::Spec spec(vf::Tier)
{
    vf::Spec s;
    s.n_enum     = kNumSubjects;
    s.n_random   = 0;
    s.batch      = 1;
    s.exhaustive = true;
    return s;
}
void run_case(vf::Case& c)
{
    if (c.index < kNumSubjects) { kSubjects[c.index].run(kSubjects[c.index].name); }
}
} // namespace

VF_MAIN("C17", "C17_constexpr", spec, run_case)
