// C06 - modifying sequence algorithms, reverse_iterator, back_insert_iterator  vs libstdc++ (DESIGN 4, C06)
#include "vf.hpp"
#include "vf_contract.hpp"
#include "vf_algo_tests.hpp"

#ifndef C06_PART
    #define C06_PART 0 // 0 = everything, 1 / 2 = halves (compiled in parallel)
#endif

namespace c06 {

// ---------------------------------------------------------------- copy / copy_if / copy_n / move / reverse_copy / rotate_copy / remove_copy(_if) / transform
struct Twice {
    El operator()(El const& e) const
    {
        vi::touch_read(&e, sizeof e, "pred-outside-range");
        return El{e.key * 2 + 1, e.tag};
    }
};
struct Combine {
    El operator()(El const& x, El const& y) const
    {
        vi::touch_read(&x, sizeof x, "pred-outside-range");
        vi::touch_read(&y, sizeof y, "pred-outside-range");
        return El{x.key * 3 + y.key, x.tag * 1000 + y.tag};
    }
};

template <typename K, typename O>
void k_copying(Ctx& c)
{
    std::size_t const n = c.a.size();
    Seq const& m        = c.a;
    char const* kk      = kinds_io<K, O>();
    for (Pres pr : pres_for<K>(n)) {
        {
            Seq exp(n);
            std::copy(m.begin(), m.end(), exp.begin());
            Trial t(c, kk, "copy(f,l,d)", pr, "", 1, "-");
            Range<El> r(c.a, pr, false);
            Sink<El> s(exp.size(), pr);
            auto ret = t.call([&] { return etl::copy(B<K>(r), E<K>(r), O::make(s)); });
            t.off("ret", O::off(s, ret), (long)exp.size());
            t.seq("output", s.r.get(), exp);
            t.guards(s.r, "output");
            FIN(t, r);
        }
        for (long k = -1; k <= (long)n; ++k) {
            Seq exp((std::size_t)std::max(0L, k));
            std::copy_n(m.begin(), k, exp.begin());
            Trial t(c, kk, "copy_n(f,n,d)", pr, ncls(k, n), (std::uint64_t)(k + 5), "n=%ld", k);
            Range<El> r(c.a, pr, false);
            Sink<El> s(exp.size(), pr);
            auto ret = t.call([&] { return etl::copy_n(B<K>(r), k, O::make(s)); });
            t.off("ret", O::off(s, ret), (long)exp.size());
            t.seq("output", s.r.get(), exp);
            t.guards(s.r, "output");
            FIN(t, r);
        }
        for (auto const& ps : kPreds) {
            Pred p{ps.mode, ps.arg};
            std::uint64_t h = vf::mix(ps.mode, ps.arg);
            {
                Seq exp;
                std::copy_if(m.begin(), m.end(), std::back_inserter(exp), p);
                Trial t(c, kk, "copy_if(f,l,d,p)", pr, exp.empty() ? "none" : (exp.size() == n ? "all" : "some"), h, "pred %s", ps.name);
                Range<El> r(c.a, pr, false);
                Sink<El> s(exp.size(), pr);
                auto ret = t.call([&] { return etl::copy_if(B<K>(r), E<K>(r), O::make(s), p); });
                t.off("ret", O::off(s, ret), (long)exp.size());
                t.seq("output", s.r.get(), exp);
                t.guards(s.r, "output");
                FIN(t, r);
            }
            {
                Seq exp;
                std::remove_copy_if(m.begin(), m.end(), std::back_inserter(exp), p);
                Trial t(c, kk, "remove_copy_if(f,l,d,p)", pr, exp.empty() ? "all-removed" : (exp.size() == n ? "none-removed" : "some-removed"), h,
                    "pred %s", ps.name);
                Range<El> r(c.a, pr, false);
                Sink<El> s(exp.size(), pr);
                auto ret = t.call([&] { return etl::remove_copy_if(B<K>(r), E<K>(r), O::make(s), p); });
                t.off("ret", O::off(s, ret), (long)exp.size());
                t.seq("output", s.r.get(), exp);
                t.guards(s.r, "output");
                FIN(t, r);
            }
        }
        for (int v = 0; v <= c.maxkey + 1; ++v) {
            El val{v, -1};
            Seq exp;
            std::remove_copy(m.begin(), m.end(), std::back_inserter(exp), val);
            Trial t(c, kk, "remove_copy(f,l,d,v)", pr, exp.empty() ? "all-removed" : (exp.size() == n ? "none-removed" : "some-removed"),
                (std::uint64_t)v + 100, "v=%d", v);
            Range<El> r(c.a, pr, false);
            Sink<El> s(exp.size(), pr);
            auto ret = t.call([&] { return etl::remove_copy(B<K>(r), E<K>(r), O::make(s), val); });
            t.off("ret", O::off(s, ret), (long)exp.size());
            t.seq("output", s.r.get(), exp);
            t.guards(s.r, "output");
            FIN(t, r);
        }
        {
            Seq src = c.a, exp(n);
            std::move(src.begin(), src.end(), exp.begin());
            Trial t(c, kk, "move(f,l,d)", pr, "", 2, "-");
            Range<El> r(c.a, pr, true);
            Sink<El> s(exp.size(), pr);
            auto ret = t.call([&] { return etl::move(B<K>(r), E<K>(r), O::make(s)); });
            t.off("ret", O::off(s, ret), (long)exp.size());
            t.seq("output", s.r.get(), exp);
            t.guards(s.r, "output");
            t.guards(r);
            t.done();
        }
        {
            Seq exp;
            std::transform(m.begin(), m.end(), std::back_inserter(exp), Twice{});
            Trial t(c, kk, "transform(f,l,d,op)", pr, "", 3, "-");
            Range<El> r(c.a, pr, false);
            Sink<El> s(exp.size(), pr);
            auto ret = t.call([&] { return etl::transform(B<K>(r), E<K>(r), O::make(s), Twice{}); });
            t.off("ret", O::off(s, ret), (long)exp.size());
            t.seq("output", s.r.get(), exp);
            t.guards(s.r, "output");
            FIN(t, r);
        }
        {
            Seq y(m.rbegin(), m.rend());
            for (auto& e : y) { e.tag += 200; }
            Seq exp;
            std::transform(m.begin(), m.end(), y.begin(), std::back_inserter(exp), Combine{});
            Trial t(c, kk, "transform(f1,l1,f2,d,op)", pr, "", 4, "y=reverse(a)");
            Range<El> r(c.a, pr, false), r2(y, pr, false);
            Sink<El> s(exp.size(), pr);
            auto ret = t.call([&] { return etl::transform(B<K>(r), E<K>(r), B<K>(r2), O::make(s), Combine{}); });
            t.off("ret", O::off(s, ret), (long)exp.size());
            t.seq("output", s.r.get(), exp);
            t.guards(s.r, "output");
            t.guards(r2, "input2");
            FIN(t, r);
        }
        if constexpr (!std::is_same_v<K, KIn>) {
            for (std::size_t mid = 0; mid <= n; ++mid) {
                Seq exp;
                std::rotate_copy(m.begin(), m.begin() + (long)mid, m.end(), std::back_inserter(exp));
                Trial t(c, kk, "rotate_copy(f,m,l,d)", pr, mid == 0 ? "mid=first" : (mid == n ? "mid=last" : "mid-inner"), 300 + mid, "mid=%zu", mid);
                Range<El> r(c.a, pr, false);
                Sink<El> s(exp.size(), pr);
                auto ret = t.call([&] { return etl::rotate_copy(B<K>(r), AT<K>(r, mid), E<K>(r), O::make(s)); });
                t.off("ret", O::off(s, ret), (long)exp.size());
                t.seq("output", s.r.get(), exp);
                t.guards(s.r, "output");
                FIN(t, r);
            }
        }
        if constexpr (std::is_same_v<K, KPtr> || std::is_same_v<K, KBidi> || std::is_same_v<K, KRa>) {
            Seq exp;
            std::reverse_copy(m.begin(), m.end(), std::back_inserter(exp));
            Trial t(c, kk, "reverse_copy(f,l,d)", pr, "", 5, "-");
            Range<El> r(c.a, pr, false);
            Sink<El> s(exp.size(), pr);
            auto ret = t.call([&] { return etl::reverse_copy(B<K>(r), E<K>(r), O::make(s)); });
            t.off("ret", O::off(s, ret), (long)exp.size());
            t.seq("output", s.r.get(), exp);
            t.guards(s.r, "output");
            FIN(t, r);
        }
    }
}
#if C06_PART != 2
void t_copying_ptr(Ctx& c)
{
    k_copying<KPtr, OPtr>(c);
    k_unique_copy<KPtr, OPtr>(c); // readable destination; write-only destinations: C06_probe
    k_unique_copy<KFwd, OPtr>(c);
}
void t_copying_in_out(Ctx& c) { k_copying<KIn, OOut>(c); }
void t_copying_fwd_back(Ctx& c) { k_copying<KFwd, OBack>(c); }
void t_copying_bidi_out(Ctx& c) { k_copying<KBidi, OOut>(c); }
#endif

#if C06_PART != 1
// ---------------------------------------------------------------- overlapping copy/move (to the left) and copy_backward/move_backward (incl. to the right)
template <typename K>
void k_backward(Ctx& c)
{
    std::size_t const n = c.a.size();
    Seq const& m        = c.a;
    for (Pres pr : pres_for<K>(n)) {
        {
            Seq exp(n, fresh_value<El>());
            std::copy_backward(m.begin(), m.end(), exp.end());
            Trial t(c, K::name, "copy_backward(f,l,dl)", pr, "separate", 1, "-");
            Range<El> r(c.a, pr, false);
            Sink<El> s(n, pr);
            auto ret = t.call([&] { return etl::copy_backward(B<K>(r), E<K>(r), E<K>(s.r)); });
            t.off("ret", K::raw(ret) - s.r.lo, 0);
            t.seq("output", s.r.get(), exp);
            t.guards(s.r, "output");
            FIN(t, r);
        }
        {
            Seq src = c.a, exp(n, fresh_value<El>());
            std::move_backward(src.begin(), src.end(), exp.end());
            Trial t(c, K::name, "move_backward(f,l,dl)", pr, "separate", 2, "-");
            Range<El> r(c.a, pr, true);
            Sink<El> s(n, pr);
            auto ret = t.call([&] { return etl::move_backward(B<K>(r), E<K>(r), E<K>(s.r)); });
            t.off("ret", K::raw(ret) - s.r.lo, 0);
            t.seq("output", s.r.get(), exp);
            t.guards(s.r, "output");
            t.guards(r);
            t.done();
        }
        // within one range: [0,n-k) -> ends at n (shift right by k), and [k,n) -> begins at 0 (shift left by k)
        for (std::size_t k = 1; k <= n; ++k) {
            {
                Seq exp = c.a;
                std::copy_backward(exp.begin(), exp.end() - (long)k, exp.end());
                Trial t(c, K::name, "copy_backward(f,l,dl)", pr, "overlapping-right", 10 + k, "shift=%zu", k);
                Range<El> r(c.a, pr, true);
                auto ret = t.call([&] { return etl::copy_backward(B<K>(r), AT<K>(r, n - k), E<K>(r)); });
                t.off("ret", K::raw(ret) - r.lo, (long)k);
                t.seq("range", r.get(), exp);
                t.guards(r);
                t.done();
            }
            {
                Seq exp = c.a;
                std::move_backward(exp.begin(), exp.end() - (long)k, exp.end());
                Trial t(c, K::name, "move_backward(f,l,dl)", pr, "overlapping-right", 30 + k, "shift=%zu", k);
                Range<El> r(c.a, pr, true);
                auto ret = t.call([&] { return etl::move_backward(B<K>(r), AT<K>(r, n - k), E<K>(r)); });
                t.off("ret", K::raw(ret) - r.lo, (long)k);
                Seq got = r.get();
                t.seq("moved-part", Seq(got.begin() + (long)k, got.end()), Seq(exp.begin() + (long)k, exp.end()));
                t.guards(r);
                t.done();
            }
            {
                Seq exp = c.a;
                std::copy(exp.begin() + (long)k, exp.end(), exp.begin());
                Trial t(c, K::name, "copy(f,l,d)", pr, "overlapping-left", 50 + k, "shift=%zu", k);
                Range<El> r(c.a, pr, true);
                auto ret = t.call([&] { return etl::copy(AT<K>(r, k), E<K>(r), B<K>(r)); });
                t.off("ret", K::raw(ret) - r.lo, (long)(n - k));
                t.seq("range", r.get(), exp);
                t.guards(r);
                t.done();
            }
            {
                Seq exp = c.a;
                std::move(exp.begin() + (long)k, exp.end(), exp.begin());
                Trial t(c, K::name, "move(f,l,d)", pr, "overlapping-left", 70 + k, "shift=%zu", k);
                Range<El> r(c.a, pr, true);
                auto ret = t.call([&] { return etl::move(AT<K>(r, k), E<K>(r), B<K>(r)); });
                t.off("ret", K::raw(ret) - r.lo, (long)(n - k));
                Seq got = r.get();
                t.seq("moved-part", Seq(got.begin(), got.end() - (long)k), Seq(exp.begin(), exp.end() - (long)k));
                t.guards(r);
                t.done();
            }
        }
    }
}
void t_backward(Ctx& c)
{
    k_backward<KPtr>(c);
    k_backward<KBidi>(c);
    k_backward<KRa>(c);
}

// ---------------------------------------------------------------- fill / fill_n / generate / generate_n / replace / replace_if / transform in place / iota-like
struct Gen {
    int k = 0;
    El operator()()
    {
        ++k;
        return El{k % 3, 500 + k};
    }
};
template <typename K, typename O>
void k_fill(Ctx& c)
{
    std::size_t const n = c.a.size();
    Seq const& m        = c.a;
    for (Pres pr : pres_for<K>(n)) {
        El const val{1, -1};
        {
            Seq exp = m;
            std::fill(exp.begin(), exp.end(), val);
            Trial t(c, K::name, "fill(f,l,v)", pr, "", 1, "-");
            Range<El> r(c.a, pr, true);
            t.call([&] { etl::fill(B<K>(r), E<K>(r), val); });
            t.seq("range", r.get(), exp);
            t.guards(r);
            t.done();
        }
        {
            Seq exp = m;
            std::generate(exp.begin(), exp.end(), Gen{});
            Trial t(c, K::name, "generate(f,l,g)", pr, "", 2, "-");
            Range<El> r(c.a, pr, true);
            t.call([&] { etl::generate(B<K>(r), E<K>(r), Gen{}); });
            t.seq("range", r.get(), exp);
            t.guards(r);
            t.done();
        }
        {
            Seq exp = m;
            std::transform(exp.begin(), exp.end(), exp.begin(), Twice{});
            Trial t(c, K::name, "transform(f,l,d,op)", pr, "in-place", 3, "-");
            Range<El> r(c.a, pr, true);
            auto ret = t.call([&] { return etl::transform(B<K>(r), E<K>(r), B<K>(r), Twice{}); });
            t.off("ret", K::raw(ret) - r.lo, (long)n);
            t.seq("range", r.get(), exp);
            t.guards(r);
            t.done();
        }
        for (int v = 0; v <= c.maxkey + 1; ++v) {
            El const oldv{v, -2}, newv{7, -3};
            Seq exp = m;
            std::replace(exp.begin(), exp.end(), oldv, newv);
            Trial t(c, K::name, "replace(f,l,old,new)", pr, exp == m ? "none" : "some", 10 + v, "old=%d", v);
            Range<El> r(c.a, pr, true);
            t.call([&] { etl::replace(B<K>(r), E<K>(r), oldv, newv); });
            t.seq("range", r.get(), exp);
            t.guards(r);
            t.done();
        }
        for (auto const& ps : kPreds) {
            Pred p{ps.mode, ps.arg};
            El const newv{7, -3};
            Seq exp = m;
            std::replace_if(exp.begin(), exp.end(), p, newv);
            Trial t(c, K::name, "replace_if(f,l,p,new)", pr, "", vf::mix(20 + ps.mode, ps.arg), "pred %s", ps.name);
            Range<El> r(c.a, pr, true);
            t.call([&] { etl::replace_if(B<K>(r), E<K>(r), p, newv); });
            t.seq("range", r.get(), exp);
            t.guards(r);
            t.done();
        }
        // fill_n / generate_n through an output iterator into an area of exactly max(n,0) elements
        for (long k = -1; k <= (long)n + 1; ++k) {
            std::size_t cap = (std::size_t)std::max(0L, k);
            {
                Seq exp(cap, fresh_value<El>());
                std::fill_n(exp.begin(), k, val);
                Trial t(c, O::name, "fill_n(d,n,v)", pr, ncls(k, n), 40 + (std::uint64_t)(k + 2), "n=%ld", k);
                Sink<El> s(cap, pr);
                auto ret = t.call([&] { return etl::fill_n(O::make(s), k, val); });
                t.off("ret", O::off(s, ret), (long)cap);
                t.seq("output", s.r.get(), exp);
                t.guards(s.r, "output");
                t.done();
            }
            {
                Seq exp(cap, fresh_value<El>());
                std::generate_n(exp.begin(), k, Gen{});
                Trial t(c, O::name, "generate_n(d,n,g)", pr, ncls(k, n), 60 + (std::uint64_t)(k + 2), "n=%ld", k);
                Sink<El> s(cap, pr);
                auto ret = t.call([&] { return etl::generate_n(O::make(s), k, Gen{}); });
                t.off("ret", O::off(s, ret), (long)cap);
                t.seq("output", s.r.get(), exp);
                t.guards(s.r, "output");
                t.done();
            }
        }
    }
}
void t_fill(Ctx& c)
{
    k_fill<KPtr, OPtr>(c);
    k_fill<KFwd, OOut>(c);
    k_fill<KBidi, OBack>(c);
}

// ---------------------------------------------------------------- remove / remove_if / unique / shift_left / rotate / swap_ranges / iter_swap (forward and up)
template <typename K>
void k_inplace_fwd(Ctx& c)
{
    std::size_t const n = c.a.size();
    Seq const& m        = c.a;
    for (Pres pr : pres_for<K>(n)) {
        for (int v = 0; v <= c.maxkey + 1; ++v) {
            El const val{v, -1};
            Seq exp = m;
            auto se = std::remove(exp.begin(), exp.end(), val) - exp.begin();
            exp.resize((std::size_t)se);
            Trial t(c, K::name, "remove(f,l,v)", pr, se == 0 ? "all-removed" : (se == (long)n ? "none-removed" : "some-removed"), 1 + v, "v=%d", v);
            Range<El> r(c.a, pr, true);
            auto ret = t.call([&] { return etl::remove(B<K>(r), E<K>(r), val); });
            long eo  = K::raw(ret) - r.lo;
            if (t.off("ret", eo, se)) {
                Seq got = r.get();
                got.resize((std::size_t)se);
                t.seq("kept-part", got, exp);
            }
            t.guards(r);
            t.done();
        }
        for (auto const& ps : kPreds) {
            Pred p{ps.mode, ps.arg};
            Seq exp = m;
            auto se = std::remove_if(exp.begin(), exp.end(), p) - exp.begin();
            exp.resize((std::size_t)se);
            Trial t(c, K::name, "remove_if(f,l,p)", pr, se == 0 ? "all-removed" : (se == (long)n ? "none-removed" : "some-removed"),
                vf::mix(10 + ps.mode, ps.arg), "pred %s", ps.name);
            Range<El> r(c.a, pr, true);
            auto ret = t.call([&] { return etl::remove_if(B<K>(r), E<K>(r), p); });
            long eo  = K::raw(ret) - r.lo;
            if (t.off("ret", eo, se)) {
                Seq got = r.get();
                got.resize((std::size_t)se);
                t.seq("kept-part", got, exp);
            }
            t.guards(r);
            t.done();
        }
        for (int em = -1; em <= 1; ++em) {
            Eq eq{em < 0 ? 0 : em};
            Seq exp = m;
            auto se = (em < 0 ? std::unique(exp.begin(), exp.end()) : std::unique(exp.begin(), exp.end(), eq)) - exp.begin();
            exp.resize((std::size_t)se);
            char op[48];
            std::snprintf(op, sizeof op, "unique(f,l%s)%s", em < 0 ? "" : ",p", eq_name(em));
            Trial t(c, K::name, op, pr, se == (long)n ? "no-duplicates" : "duplicates", 30 + em, "-");
            Range<El> r(c.a, pr, true);
            auto ret = em < 0 ? t.call([&] { return etl::unique(B<K>(r), E<K>(r)); }) : t.call([&] { return etl::unique(B<K>(r), E<K>(r), eq); });
            long eo  = K::raw(ret) - r.lo;
            if (t.off("ret", eo, se)) {
                Seq got = r.get();
                got.resize((std::size_t)se);
                t.seq("kept-part", got, exp);
            }
            t.guards(r);
            t.done();
        }
        for (long k = 0; k <= (long)n + 1; ++k) { // n < 0 violates the precondition
            Seq exp = m;
            auto se = std::shift_left(exp.begin(), exp.end(), k) - exp.begin();
            exp.resize((std::size_t)se);
            Trial t(c, K::name, "shift_left(f,l,n)", pr, ncls(k, n), 40 + (std::uint64_t)k, "n=%ld", k);
            Range<El> r(c.a, pr, true);
            auto ret = t.call([&] { return etl::shift_left(B<K>(r), E<K>(r), k); });
            long eo  = K::raw(ret) - r.lo;
            if (t.off("ret", eo, se)) {
                Seq got = r.get();
                got.resize((std::size_t)se);
                t.seq("shifted-part", got, exp);
                if (k == 0 || k >= (long)n) { t.seq("range(no-op)", r.get(), m); }
            }
            t.guards(r);
            t.done();
        }
        for (std::size_t mid = 0; mid <= n; ++mid) {
            Seq exp = m;
            auto se = std::rotate(exp.begin(), exp.begin() + (long)mid, exp.end()) - exp.begin();
            Trial t(c, K::name, "rotate(f,m,l)", pr, mid == 0 ? "mid=first" : (mid == n ? "mid=last" : "mid-inner"), 60 + mid, "mid=%zu", mid);
            Range<El> r(c.a, pr, true);
            auto ret = t.call([&] { return etl::rotate(B<K>(r), AT<K>(r, mid), E<K>(r)); });
            t.off("ret", K::raw(ret) - r.lo, se);
            t.seq("range", r.get(), exp);
            t.guards(r);
            t.done();
        }
        {
            Seq y(m.rbegin(), m.rend());
            for (auto& e : y) { e.tag += 200; }
            Trial t(c, K::name, "swap_ranges(f1,l1,f2)", pr, "", 80, "y=reverse(a)");
            Range<El> r(c.a, pr, true), r2(y, pr, true);
            auto ret = t.call([&] { return etl::swap_ranges(B<K>(r), E<K>(r), B<K>(r2)); });
            t.off("ret", K::raw(ret) - r2.lo, (long)n);
            t.seq("range1", r.get(), y);
            t.seq("range2", r2.get(), m);
            t.guards(r);
            t.guards(r2);
            t.done();
        }
        for (std::size_t i = 0; i < n; ++i) {
            for (std::size_t j = i; j < n; ++j) {
                Seq exp = m;
                std::iter_swap(exp.begin() + (long)i, exp.begin() + (long)j);
                Trial t(c, K::name, "iter_swap(a,b)", pr, i == j ? "same" : "distinct", 90 + vf::mix(i, j), "i=%zu j=%zu", i, j);
                Range<El> r(c.a, pr, true);
                t.call([&] { etl::iter_swap(AT<K>(r, i), AT<K>(r, j)); });
                t.seq("range", r.get(), exp);
                t.guards(r);
                t.done();
            }
        }
    }
}
void t_inplace_fwd(Ctx& c)
{
    k_inplace_fwd<KPtr>(c);
    k_inplace_fwd<KFwd>(c);
}
void t_inplace_bidi(Ctx& c)
{
    k_inplace_fwd<KBidi>(c);
    C06_FULL(k_inplace_fwd<KRa>(c);)
}

// ---------------------------------------------------------------- reverse / shift_right (bidirectional and up; forward shift_right: C06_probe)
template <typename K>
void k_inplace_bidi(Ctx& c)
{
    std::size_t const n = c.a.size();
    Seq const& m        = c.a;
    for (Pres pr : pres_for<K>(n)) {
        {
            Seq exp = m;
            std::reverse(exp.begin(), exp.end());
            Trial t(c, K::name, "reverse(f,l)", pr, n % 2 ? "odd" : "even", 1, "-");
            Range<El> r(c.a, pr, true);
            t.call([&] { etl::reverse(B<K>(r), E<K>(r)); });
            t.seq("range", r.get(), exp);
            t.guards(r);
            t.done();
        }
    }
}
void t_inplace_rev(Ctx& c)
{
    k_inplace_bidi<KPtr>(c);
    k_inplace_bidi<KBidi>(c);
    k_inplace_bidi<KRa>(c);
    k_shift_right<KPtr>(c);
    k_shift_right<KBidi>(c); // forward iterators: C06_probe
    k_shift_right<KRa>(c);
}

// ---------------------------------------------------------------- etl::reverse_iterator over pointers and over the bidirectional / random access wrappers
template <typename K>
void k_reverse_iterator(Ctx& c)
{
    std::size_t const n = c.a.size();
    Seq const& m        = c.a;
    constexpr bool ra   = !std::is_same_v<K, KBidi>;
    using It            = typename K::template it<El>;
    using RIt           = etl::reverse_iterator<It>;
    char kind[48];
    std::snprintf(kind, sizeof kind, "reverse_iterator<%s>", K::name);
    for (Pres pr : pres_for<K>(n)) {
        {
            // walk forward with ++ and *, back with --
            Trial t(c, kind, "operator++/operator*/operator--", pr, "", 1, "-");
            Range<El> r(c.a, pr, false);
            Seq fwd, back;
            t.call([&] {
                RIt rb = etl::make_reverse_iterator(E<K>(r));
                RIt re{B<K>(r)};
                RIt i = rb;
                for (; i != re; ++i) { fwd.push_back(*i); }
                while (!(i == rb)) {
                    --i;
                    back.push_back(El{i->key, (*i).tag});
                }
            });
            t.seq("forward-walk", fwd, Seq(m.rbegin(), m.rend()));
            t.seq("backward-walk", back, m);
            FIN(t, r);
        }
        {
            // post-increment / post-decrement / base()
            Trial t(c, kind, "operator++(int)/operator--(int)/base", pr, "", 2, "-");
            Range<El> r(c.a, pr, false);
            std::vector<long> obs, exp;
            t.call([&] {
                RIt i{E<K>(r)};
                for (std::size_t k = 0; k < n; ++k) {
                    RIt old = i++;
                    obs.push_back(K::raw(old.base()) - r.lo);
                    obs.push_back(K::raw(i.base()) - r.lo);
                }
                for (std::size_t k = 0; k < n; ++k) {
                    RIt old = i--;
                    obs.push_back(K::raw(old.base()) - r.lo);
                    obs.push_back(K::raw(i.base()) - r.lo);
                }
            });
            for (std::size_t k = 0; k < n; ++k) {
                exp.push_back((long)(n - k));
                exp.push_back((long)(n - k - 1));
            }
            for (std::size_t k = 0; k < n; ++k) {
                exp.push_back((long)k);
                exp.push_back((long)(k + 1));
            }
            t.nums("base-offsets", obs, exp);
            FIN(t, r);
        }
        {
            // algorithms through reverse iterators
            Seq exp(m.rbegin(), m.rend());
            Trial t(c, kind, "copy(rbegin,rend,d)", pr, "", 3, "-");
            Range<El> r(c.a, pr, false);
            Sink<El> s(n, pr);
            auto ret = t.call([&] { return etl::copy(RIt{E<K>(r)}, RIt{B<K>(r)}, s.r.lo); });
            t.off("ret", ret - s.r.lo, (long)n);
            t.seq("output", s.r.get(), exp);
            t.guards(s.r, "output");
            FIN(t, r);
        }
        for (int v = 0; v <= c.maxkey + 1; ++v) {
            El const val{v, -1};
            auto se = std::find(m.rbegin(), m.rend(), val).base() - m.begin();
            Trial t(c, kind, "find(rbegin,rend,v).base()", pr, se == 0 ? "absent" : "found", 10 + v, "v=%d", v);
            Range<El> r(c.a, pr, false);
            auto ret = t.call([&] { return etl::find(RIt{E<K>(r)}, RIt{B<K>(r)}, val); });
            t.off("base", K::raw(ret.base()) - r.lo, se);
            FIN(t, r);
        }
        if constexpr (ra) {
            for (std::size_t i = 0; i <= n; ++i) {
                for (std::size_t j = 0; j <= n; ++j) {
                    Trial t(c, kind, "arithmetic/relational", pr, i == j ? "same" : (i < j ? "before" : "after"), vf::mix(20 + i, j), "i=%zu j=%zu", i, j);
                    Range<El> r(c.a, pr, false);
                    std::vector<long> obs, exp;
                    t.call([&] {
                        // reverse position k corresponds to base offset n-k
                        RIt ri{AT<K>(r, n - i)}, rj{AT<K>(r, n - j)};
                        long d = (long)j - (long)i;
                        obs.push_back(rj - ri);
                        obs.push_back(K::raw((ri + d).base()) - r.lo);
                        obs.push_back(K::raw((d + ri).base()) - r.lo);
                        obs.push_back(K::raw((rj - d).base()) - r.lo);
                        RIt x = ri;
                        x += d;
                        obs.push_back(K::raw(x.base()) - r.lo);
                        x -= d;
                        obs.push_back(K::raw(x.base()) - r.lo);
                        obs.push_back(ri == rj);
                        obs.push_back(ri != rj);
                        obs.push_back(ri < rj);
                        obs.push_back(ri <= rj);
                        obs.push_back(ri > rj);
                        obs.push_back(ri >= rj);
                        if (j < n) { obs.push_back(ri[d].tag); }
                    });
                    long d = (long)j - (long)i;
                    exp    = {d, (long)(n - j), (long)(n - j), (long)(n - i), (long)(n - j), (long)(n - i), i == j, i != j, i < j, i <= j, i > j, i >= j};
                    if (j < n) { exp.push_back(m[n - 1 - j].tag); }
                    t.nums("results", obs, exp);
                    FIN(t, r);
                }
            }
        }
    }
}
void t_reverse_iterator(Ctx& c)
{
    k_reverse_iterator<KPtr>(c);
    k_reverse_iterator<KBidi>(c);
    k_reverse_iterator<KRa>(c);
}


// ---------------------------------------------------------------- etl::swap (objects; arrays: C06_probe)
void t_swap(Ctx& c)
{
    std::size_t const n = c.a.size();
    if (n == 2) {
        Trial t(c, "object", "swap(a,b)", Pres::exact, "", 1, "-");
        Range<El> r(c.a, Pres::exact, true);
        t.call([&] { etl::swap(r.lo[0], r.lo[1]); });
        t.seq("objects", r.get(), Seq{c.a[1], c.a[0]});
        t.done();
        Trial t2(c, "object", "swap(a,a)", Pres::exact, "self", 2, "-");
        Range<El> r2(c.a, Pres::exact, true);
        t2.call([&] { etl::swap(r2.lo[0], r2.lo[0]); });
        t2.seq("objects", r2.get(), c.a);
        t2.done();
    }
}
#endif

Test const kTests[] = {
#if C06_PART != 2
    {"copying_ptr", t_copying_ptr},
    {"copying_in_out", t_copying_in_out},
#if !C06_TRUTHY
    {"copying_fwd_back", t_copying_fwd_back},
    {"copying_bidi_out", t_copying_bidi_out},
#endif
#endif
#if C06_PART != 1
#if !C06_TRUTHY
    {"backward", t_backward},
#endif
    {"fill", t_fill},
    {"inplace_fwd", t_inplace_fwd},
    {"inplace_bidi", t_inplace_bidi},
#if !C06_TRUTHY
    {"inplace_rev", t_inplace_rev},
#endif
#if !C06_TRUTHY
    {"reverse_iterator", t_reverse_iterator},
#endif
#if !C06_TRUTHY
    {"swap", t_swap},
#endif
#endif
};
std::size_t const kNumTests = sizeof(kTests) / sizeof(kTests[0]);

} // namespace c06

#if C06_PART == 1
C06_MAIN(C06_TRUTHY ? "C06_mod_a_truthy" : "C06_mod_a")
#elif C06_PART == 2
C06_MAIN(C06_TRUTHY ? "C06_mod_b_truthy" : "C06_mod_b")
#else
C06_MAIN("C06_mod")
#endif
