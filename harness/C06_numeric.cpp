// C06 - range algorithms of <etl/numeric.hpp>: accumulate, reduce, inner_product, transform_reduce,
//       partial_sum, adjacent_difference, iota  vs libstdc++ (DESIGN 4, C06)
#include "vf.hpp"
#include "vf_contract.hpp"
#include "vf_algo.hpp"

namespace c06 {

using LL  = long long;
using Num = std::vector<LL>;

inline void chk(LL const& x) { vi::touch_read(&x, sizeof x, "pred-outside-range"); }
// order-sensitive, non-associative: reveals swapped operands and wrong fold direction
struct Fold {
    LL operator()(LL const& acc, LL const& x) const
    {
        chk(acc);
        chk(x);
        return acc * 3 + x;
    }
};
struct Mix2 {
    LL operator()(LL const& x, LL const& y) const
    {
        chk(x);
        chk(y);
        return x * 2 - y;
    }
};
// associative and commutative (what reduce / transform_reduce may assume)
struct PlusOne {
    LL operator()(LL const& x, LL const& y) const
    {
        chk(x);
        chk(y);
        return x + y + 1;
    }
};
struct Sq {
    LL operator()(LL const& x) const
    {
        chk(x);
        return x * x + 1;
    }
};

inline Num values_of(Seq const& s, LL scale = 1)
{
    Num v;
    for (auto const& e : s) { v.push_back((e.key + 1) * scale); }
    return v;
}
inline std::string shown(Num const& v) { return show(v); }

template <typename K>
void k_fold(Ctx& c)
{
    Num const m         = values_of(c.a);
    Num const y         = values_of(Seq(c.a.rbegin(), c.a.rend()), 5);
    std::size_t const n = m.size();
    LL const init       = 7;
    for (Pres pr : pres_for<K>(n)) {
#define NUMTRIAL(OPNAME, H, EXPECT, CALL)                                                                              \
    do {                                                                                                               \
        LL exp_ = (EXPECT);                                                                                            \
        Trial t(c, K::name, OPNAME, pr, "", H, "vals=%s", shown(m).c_str());                                           \
        Range<LL> r(m, pr, false), r2(y, pr, false);                                                                   \
        LL obs_ = t.call([&] { return CALL; });                                                                        \
        t.off("ret", obs_, exp_);                                                                                      \
        t.nums("input", r.get(), m);                                                                                   \
        t.guards(r);                                                                                                   \
        t.guards(r2);                                                                                                  \
        t.done();                                                                                                      \
    } while (0)
        NUMTRIAL("accumulate(f,l,init)", 1, std::accumulate(m.begin(), m.end(), init), etl::accumulate(B<K>(r), E<K>(r), init));
        NUMTRIAL("accumulate(f,l,init,op)", 2, std::accumulate(m.begin(), m.end(), init, Fold{}), etl::accumulate(B<K>(r), E<K>(r), init, Fold{}));
        NUMTRIAL("reduce(f,l)", 3, std::accumulate(m.begin(), m.end(), LL{}), etl::reduce(B<K>(r), E<K>(r)));
        NUMTRIAL("reduce(f,l,init)", 4, std::accumulate(m.begin(), m.end(), init), etl::reduce(B<K>(r), E<K>(r), init));
        NUMTRIAL("reduce(f,l,init,op)", 5, std::accumulate(m.begin(), m.end(), init, PlusOne{}), etl::reduce(B<K>(r), E<K>(r), init, PlusOne{}));
        NUMTRIAL("inner_product(f1,l1,f2,init)", 6, std::inner_product(m.begin(), m.end(), y.begin(), init),
            etl::inner_product(B<K>(r), E<K>(r), B<K>(r2), init));
        NUMTRIAL("inner_product(f1,l1,f2,init,op1,op2)", 7, std::inner_product(m.begin(), m.end(), y.begin(), init, Fold{}, Mix2{}),
            etl::inner_product(B<K>(r), E<K>(r), B<K>(r2), init, Fold{}, Mix2{}));
        NUMTRIAL("transform_reduce(f1,l1,f2,init)", 8, std::inner_product(m.begin(), m.end(), y.begin(), init),
            etl::transform_reduce(B<K>(r), E<K>(r), B<K>(r2), init));
        NUMTRIAL("transform_reduce(f1,l1,f2,init,red,tr)", 9, std::inner_product(m.begin(), m.end(), y.begin(), init, PlusOne{}, Mix2{}),
            etl::transform_reduce(B<K>(r), E<K>(r), B<K>(r2), init, PlusOne{}, Mix2{}));
        {
            LL e = init;
            for (LL v : m) { e = PlusOne{}(e, Sq{}(v)); }
            NUMTRIAL("transform_reduce(f,l,init,red,tr)", 10, e, etl::transform_reduce(B<K>(r), E<K>(r), init, PlusOne{}, Sq{}));
        }
#undef NUMTRIAL
    }
    // accumulation must happen in the type of init, not in the element type
    {
        std::vector<unsigned char> u;
        for (auto const& e : c.a) { u.push_back((unsigned char)(100 + 50 * e.key)); }
        for (Pres pr : pres_for<K>(n)) {
            {
                int exp = std::accumulate(u.begin(), u.end(), 1000);
                Trial t(c, K::name, "accumulate(f,l,init)", pr, "narrow-elements", 20, "uchar elements, int init");
                Range<unsigned char> r(u, pr, false);
                int obs = t.call([&] { return etl::accumulate(B<K>(r), E<K>(r), 1000); });
                t.off("ret", obs, exp);
                t.guards(r);
                t.done();
            }
            {
                int exp = std::inner_product(u.begin(), u.end(), u.begin(), 1000);
                Trial t(c, K::name, "inner_product(f1,l1,f2,init)", pr, "narrow-elements", 21, "uchar elements, int init");
                Range<unsigned char> r(u, pr, false), r2(u, pr, false);
                int obs = t.call([&] { return etl::inner_product(B<K>(r), E<K>(r), B<K>(r2), 1000); });
                t.off("ret", obs, exp);
                t.guards(r);
                t.guards(r2);
                t.done();
            }
            {
                unsigned exp = std::accumulate(u.begin(), u.end(), (unsigned char)0) & 0xFF; // value_type{} + ... in value_type
                unsigned char e2 = 0;
                for (unsigned char v : u) { e2 = (unsigned char)(e2 + v); }
                Trial t(c, K::name, "reduce(f,l)", pr, "narrow-elements", 22, "uchar elements");
                Range<unsigned char> r(u, pr, false);
                unsigned obs = t.call([&] { return etl::reduce(B<K>(r), E<K>(r)); });
                t.off("ret", obs, e2);
                (void)exp;
                t.guards(r);
                t.done();
            }
        }
    }
}
void t_fold(Ctx& c)
{
    k_fold<KPtr>(c);
    k_fold<KIn>(c);
    k_fold<KFwd>(c);
}

template <typename K, typename O>
void k_scan(Ctx& c)
{
    Num const m         = values_of(c.a);
    std::size_t const n = m.size();
    char const* kk      = kinds_io<K, O>();
    for (Pres pr : pres_for<K>(n)) {
        for (int which = 0; which < 4; ++which) {
            Num exp;
            char const* op = "";
            switch (which) {
            case 0:
                std::partial_sum(m.begin(), m.end(), std::back_inserter(exp));
                op = "partial_sum(f,l,d)";
                break;
            case 1:
                std::partial_sum(m.begin(), m.end(), std::back_inserter(exp), Fold{});
                op = "partial_sum(f,l,d,op)";
                break;
            case 2:
                std::adjacent_difference(m.begin(), m.end(), std::back_inserter(exp));
                op = "adjacent_difference(f,l,d)";
                break;
            default:
                std::adjacent_difference(m.begin(), m.end(), std::back_inserter(exp), Mix2{});
                op = "adjacent_difference(f,l,d,op)";
                break;
            }
            {
                Trial t(c, kk, op, pr, "separate", 1 + which, "vals=%s", shown(m).c_str());
                Range<LL> r(m, pr, false);
                Sink<LL> s(exp.size(), pr);
                auto ret = t.call([&] {
                    switch (which) {
                    case 0: return etl::partial_sum(B<K>(r), E<K>(r), O::make(s));
                    case 1: return etl::partial_sum(B<K>(r), E<K>(r), O::make(s), Fold{});
                    case 2: return etl::adjacent_difference(B<K>(r), E<K>(r), O::make(s));
                    default: return etl::adjacent_difference(B<K>(r), E<K>(r), O::make(s), Mix2{});
                    }
                });
                t.off("ret", O::off(s, ret), (long)exp.size());
                t.nums("output", s.r.get(), exp);
                t.nums("input", r.get(), m);
                t.guards(r);
                t.guards(s.r, "output");
                t.done();
            }
            if constexpr (std::is_same_v<K, KPtr> && std::is_same_v<O, OPtr>) {
                // result may be equal to first
                Trial t(c, kk, op, pr, "in-place", 11 + which, "vals=%s", shown(m).c_str());
                Range<LL> r(m, pr, true);
                auto ret = t.call([&] {
                    switch (which) {
                    case 0: return etl::partial_sum(r.lo, r.hi, r.lo);
                    case 1: return etl::partial_sum(r.lo, r.hi, r.lo, Fold{});
                    case 2: return etl::adjacent_difference(r.lo, r.hi, r.lo);
                    default: return etl::adjacent_difference(r.lo, r.hi, r.lo, Mix2{});
                    }
                });
                t.off("ret", ret - r.lo, (long)n);
                t.nums("range", r.get(), exp);
                t.guards(r);
                t.done();
            }
        }
    }
    // narrow elements, wide destination: the running value has the input's value type
    {
        std::vector<unsigned char> u;
        for (auto const& e : c.a) { u.push_back((unsigned char)(100 + 50 * e.key)); }
        for (Pres pr : pres_for<K>(n)) {
            for (int which = 0; which < 2; ++which) {
                std::vector<int> exp;
                if (which == 0) {
                    std::partial_sum(u.begin(), u.end(), std::back_inserter(exp));
                } else {
                    std::adjacent_difference(u.begin(), u.end(), std::back_inserter(exp));
                }
                Trial t(c, kk, which == 0 ? "partial_sum(f,l,d)" : "adjacent_difference(f,l,d)", pr, "narrow-elements", 30 + which, "uchar elements, int destination");
                Range<unsigned char> r(u, pr, false);
                Sink<int> s(exp.size(), pr);
                auto ret = which == 0 ? t.call([&] { return etl::partial_sum(B<K>(r), E<K>(r), O::make(s)); })
                                      : t.call([&] { return etl::adjacent_difference(B<K>(r), E<K>(r), O::make(s)); });
                t.off("ret", O::off(s, ret), (long)exp.size());
                t.nums("output", s.r.get(), exp);
                t.guards(r);
                t.guards(s.r, "output");
                t.done();
            }
        }
    }
}
void t_scan(Ctx& c)
{
    k_scan<KPtr, OPtr>(c);
    k_scan<KIn, OOut>(c);
    k_scan<KFwd, OBack>(c);
}

template <typename K>
void k_iota(Ctx& c)
{
    Num const m         = values_of(c.a);
    std::size_t const n = m.size();
    for (Pres pr : pres_for<K>(n)) {
        for (LL start : {LL{0}, LL{-3}, LL{1000000007}}) {
            Num exp = m;
            std::iota(exp.begin(), exp.end(), start);
            Trial t(c, K::name, "iota(f,l,v)", pr, "", (std::uint64_t)(start + 10), "start=%lld", start);
            Range<LL> r(m, pr, true);
            t.call([&] { etl::iota(B<K>(r), E<K>(r), start); });
            t.nums("range", r.get(), exp);
            t.guards(r);
            t.done();
        }
    }
}
void t_iota(Ctx& c)
{
    k_iota<KPtr>(c);
    k_iota<KFwd>(c);
    k_iota<KRa>(c);
}

Test const kTests[] = {
    {"fold", t_fold},
    {"scan", t_scan},
    {"iota", t_iota},
};
std::size_t const kNumTests = sizeof(kTests) / sizeof(kTests[0]);

} // namespace c06

C06_MAIN("C06_numeric")
