// C06 - range algorithms of <etl/numeric.hpp>: accumulate, reduce, inner_product, transform_reduce,
//       partial_sum, adjacent_difference, iota  vs libstdc++ (DESIGN 4, C06)
#include "vf.hpp"
#include "vf_contract.hpp"
#include "vf_algo.hpp"

#include <limits>

#ifndef C06_NUM_MOVEONLY
    #define C06_NUM_MOVEONLY 0
#endif

namespace c06 {

using LL  = long long;
using Num = std::vector<LL>;

inline void chk(LL const& x) { vi::touch_read(&x, sizeof x, "pred-outside-range"); }
// order-sensitive, non-associative: reveals swapped operands and wrong fold direction
struct Fold {
    LL operator()(LL const& acc, LL const& x) const
    {
        chk(acc);
        chk(x);
        return acc * 3 + x;
    }
};
struct Mix2 {
    LL operator()(LL const& x, LL const& y) const
    {
        chk(x);
        chk(y);
        return x * 2 - y;
    }
};
// associative and commutative (what reduce / transform_reduce may assume)
struct PlusOne {
    LL operator()(LL const& x, LL const& y) const
    {
        chk(x);
        chk(y);
        return x + y + 1;
    }
};
struct Sq {
    LL operator()(LL const& x) const
    {
        chk(x);
        return x * x + 1;
    }
};

inline Num values_of(Seq const& s, LL scale = 1)
{
    Num v;
    for (auto const& e : s) { v.push_back((e.key + 1) * scale); }
    return v;
}
inline std::string shown(Num const& v) { return show(v); }

template <typename K>
void k_fold(Ctx& c)
{
    Num const m         = values_of(c.a);
    Num const y         = values_of(Seq(c.a.rbegin(), c.a.rend()), 5);
    std::size_t const n = m.size();
    LL const init       = 7;
    for (Pres pr : pres_for<K>(n)) {
#define NUMTRIAL(OPNAME, H, EXPECT, CALL)                                                                              \
    do {                                                                                                               \
        LL exp_ = (EXPECT);                                                                                            \
        Trial t(c, K::name, OPNAME, pr, "", H, "vals=%s", shown(m).c_str());                                           \
        Range<LL> r(m, pr, false), r2(y, pr, false);                                                                   \
        LL obs_ = t.call([&] { return CALL; });                                                                        \
        t.off("ret", obs_, exp_);                                                                                      \
        t.nums("input", r.get(), m);                                                                                   \
        t.guards(r);                                                                                                   \
        t.guards(r2);                                                                                                  \
        t.done();                                                                                                      \
    } while (0)
        NUMTRIAL("accumulate(f,l,init)", 1, std::accumulate(m.begin(), m.end(), init), etl::accumulate(B<K>(r), E<K>(r), init));
        NUMTRIAL("accumulate(f,l,init,op)", 2, std::accumulate(m.begin(), m.end(), init, Fold{}), etl::accumulate(B<K>(r), E<K>(r), init, Fold{}));
        NUMTRIAL("reduce(f,l)", 3, std::accumulate(m.begin(), m.end(), LL{}), etl::reduce(B<K>(r), E<K>(r)));
        NUMTRIAL("reduce(f,l,init)", 4, std::accumulate(m.begin(), m.end(), init), etl::reduce(B<K>(r), E<K>(r), init));
        NUMTRIAL("reduce(f,l,init,op)", 5, std::accumulate(m.begin(), m.end(), init, PlusOne{}), etl::reduce(B<K>(r), E<K>(r), init, PlusOne{}));
        NUMTRIAL("inner_product(f1,l1,f2,init)", 6, std::inner_product(m.begin(), m.end(), y.begin(), init),
            etl::inner_product(B<K>(r), E<K>(r), B<K>(r2), init));
        NUMTRIAL("inner_product(f1,l1,f2,init,op1,op2)", 7, std::inner_product(m.begin(), m.end(), y.begin(), init, Fold{}, Mix2{}),
            etl::inner_product(B<K>(r), E<K>(r), B<K>(r2), init, Fold{}, Mix2{}));
        NUMTRIAL("transform_reduce(f1,l1,f2,init)", 8, std::inner_product(m.begin(), m.end(), y.begin(), init),
            etl::transform_reduce(B<K>(r), E<K>(r), B<K>(r2), init));
        NUMTRIAL("transform_reduce(f1,l1,f2,init,red,tr)", 9, std::inner_product(m.begin(), m.end(), y.begin(), init, PlusOne{}, Mix2{}),
            etl::transform_reduce(B<K>(r), E<K>(r), B<K>(r2), init, PlusOne{}, Mix2{}));
        {
            LL e = init;
            for (LL v : m) { e = PlusOne{}(e, Sq{}(v)); }
            NUMTRIAL("transform_reduce(f,l,init,red,tr)", 10, e, etl::transform_reduce(B<K>(r), E<K>(r), init, PlusOne{}, Sq{}));
        }
#undef NUMTRIAL
    }
    // accumulation must happen in the type of init, not in the element type
    {
        std::vector<unsigned char> u;
        for (auto const& e : c.a) { u.push_back((unsigned char)(100 + 50 * e.key)); }
        for (Pres pr : pres_for<K>(n)) {
            {
                int exp = std::accumulate(u.begin(), u.end(), 1000);
                Trial t(c, K::name, "accumulate(f,l,init)", pr, "narrow-elements", 20, "uchar elements, int init");
                Range<unsigned char> r(u, pr, false);
                int obs = t.call([&] { return etl::accumulate(B<K>(r), E<K>(r), 1000); });
                t.off("ret", obs, exp);
                t.guards(r);
                t.done();
            }
            {
                int exp = std::inner_product(u.begin(), u.end(), u.begin(), 1000);
                Trial t(c, K::name, "inner_product(f1,l1,f2,init)", pr, "narrow-elements", 21, "uchar elements, int init");
                Range<unsigned char> r(u, pr, false), r2(u, pr, false);
                int obs = t.call([&] { return etl::inner_product(B<K>(r), E<K>(r), B<K>(r2), 1000); });
                t.off("ret", obs, exp);
                t.guards(r);
                t.guards(r2);
                t.done();
            }
            {
                unsigned exp = std::accumulate(u.begin(), u.end(), (unsigned char)0) & 0xFF; // value_type{} + ... in value_type
                unsigned char e2 = 0;
                for (unsigned char v : u) { e2 = (unsigned char)(e2 + v); }
                Trial t(c, K::name, "reduce(f,l)", pr, "narrow-elements", 22, "uchar elements");
                Range<unsigned char> r(u, pr, false);
                unsigned obs = t.call([&] { return etl::reduce(B<K>(r), E<K>(r)); });
                t.off("ret", obs, e2);
                (void)exp;
                t.guards(r);
                t.done();
            }
        }
    }
}
void t_fold(Ctx& c)
{
    k_fold<KPtr>(c);
    k_fold<KIn>(c);
    k_fold<KFwd>(c);
}

template <typename K, typename O>
void k_scan(Ctx& c)
{
    Num const m         = values_of(c.a);
    std::size_t const n = m.size();
    char const* kk      = kinds_io<K, O>();
    for (Pres pr : pres_for<K>(n)) {
        for (int which = 0; which < 4; ++which) {
            Num exp;
            char const* op = "";
            switch (which) {
            case 0:
                std::partial_sum(m.begin(), m.end(), std::back_inserter(exp));
                op = "partial_sum(f,l,d)";
                break;
            case 1:
                std::partial_sum(m.begin(), m.end(), std::back_inserter(exp), Fold{});
                op = "partial_sum(f,l,d,op)";
                break;
            case 2:
                std::adjacent_difference(m.begin(), m.end(), std::back_inserter(exp));
                op = "adjacent_difference(f,l,d)";
                break;
            default:
                std::adjacent_difference(m.begin(), m.end(), std::back_inserter(exp), Mix2{});
                op = "adjacent_difference(f,l,d,op)";
                break;
            }
            {
                Trial t(c, kk, op, pr, "separate", 1 + which, "vals=%s", shown(m).c_str());
                Range<LL> r(m, pr, false);
                Sink<LL> s(exp.size(), pr);
                auto ret = t.call([&] {
                    switch (which) {
                    case 0: return etl::partial_sum(B<K>(r), E<K>(r), O::make(s));
                    case 1: return etl::partial_sum(B<K>(r), E<K>(r), O::make(s), Fold{});
                    case 2: return etl::adjacent_difference(B<K>(r), E<K>(r), O::make(s));
                    default: return etl::adjacent_difference(B<K>(r), E<K>(r), O::make(s), Mix2{});
                    }
                });
                t.off("ret", O::off(s, ret), (long)exp.size());
                t.nums("output", s.r.get(), exp);
                t.nums("input", r.get(), m);
                t.guards(r);
                t.guards(s.r, "output");
                t.done();
            }
            if constexpr (std::is_same_v<K, KPtr> && std::is_same_v<O, OPtr>) {
                // result may be equal to first
                Trial t(c, kk, op, pr, "in-place", 11 + which, "vals=%s", shown(m).c_str());
                Range<LL> r(m, pr, true);
                auto ret = t.call([&] {
                    switch (which) {
                    case 0: return etl::partial_sum(r.lo, r.hi, r.lo);
                    case 1: return etl::partial_sum(r.lo, r.hi, r.lo, Fold{});
                    case 2: return etl::adjacent_difference(r.lo, r.hi, r.lo);
                    default: return etl::adjacent_difference(r.lo, r.hi, r.lo, Mix2{});
                    }
                });
                t.off("ret", ret - r.lo, (long)n);
                t.nums("range", r.get(), exp);
                t.guards(r);
                t.done();
            }
        }
    }
    // narrow elements, wide destination: the running value has the input's value type
    {
        std::vector<unsigned char> u;
        for (auto const& e : c.a) { u.push_back((unsigned char)(100 + 50 * e.key)); }
        for (Pres pr : pres_for<K>(n)) {
            for (int which = 0; which < 2; ++which) {
                std::vector<int> exp;
                if (which == 0) {
                    std::partial_sum(u.begin(), u.end(), std::back_inserter(exp));
                } else {
                    std::adjacent_difference(u.begin(), u.end(), std::back_inserter(exp));
                }
                Trial t(c, kk, which == 0 ? "partial_sum(f,l,d)" : "adjacent_difference(f,l,d)", pr, "narrow-elements", 30 + which, "uchar elements, int destination");
                Range<unsigned char> r(u, pr, false);
                Sink<int> s(exp.size(), pr);
                auto ret = which == 0 ? t.call([&] { return etl::partial_sum(B<K>(r), E<K>(r), O::make(s)); })
                                      : t.call([&] { return etl::adjacent_difference(B<K>(r), E<K>(r), O::make(s)); });
                t.off("ret", O::off(s, ret), (long)exp.size());
                t.nums("output", s.r.get(), exp);
                t.guards(r);
                t.guards(s.r, "output");
                t.done();
            }
        }
    }
}
void t_scan(Ctx& c)
{
    k_scan<KPtr, OPtr>(c);
    k_scan<KIn, OOut>(c);
    k_scan<KFwd, OBack>(c);
}

template <typename K>
void k_iota(Ctx& c)
{
    Num const m         = values_of(c.a);
    std::size_t const n = m.size();
    for (Pres pr : pres_for<K>(n)) {
        for (LL start : {LL{0}, LL{-3}, LL{1000000007}}) {
            Num exp = m;
            std::iota(exp.begin(), exp.end(), start);
            Trial t(c, K::name, "iota(f,l,v)", pr, "", (std::uint64_t)(start + 10), "start=%lld", start);
            Range<LL> r(m, pr, true);
            t.call([&] { etl::iota(B<K>(r), E<K>(r), start); });
            t.nums("range", r.get(), exp);
            t.guards(r);
            t.done();
        }
    }
}
void t_iota(Ctx& c)
{
    k_iota<KPtr>(c);
    k_iota<KFwd>(c);
    k_iota<KRa>(c);
}

// ---------------------------------------------------------------- value category / copies of the accumulator in the folds
// C++20 [accumulate] [inner.product] [partial.sum] [adjacent.difference]: acc = op(std::move(acc), x) resp. op(val, std::move(acc)).
// Acc records copies and moves; the operations are overloaded on the category of the accumulator argument and log it.
struct AccStats {
    long copies = 0;
    long moves  = 0;
    std::vector<long> cat; // 1 = accumulator received as rvalue, 0 = as lvalue, one entry per application
};
inline AccStats& acc_stats()
{
    static AccStats s;
    return s;
}
struct Acc {
    LL v = 0;
    Acc() = default;
    explicit Acc(LL x) : v(x) { }
    Acc(Acc const& o) : v(o.v) { ++acc_stats().copies; }
    Acc(Acc&& o) noexcept : v(o.v) { ++acc_stats().moves; }
    Acc& operator=(Acc const& o)
    {
        v = o.v;
        ++acc_stats().copies;
        return *this;
    }
    Acc& operator=(Acc&& o) noexcept
    {
        v = o.v;
        ++acc_stats().moves;
        return *this;
    }
};
inline bool same_obj(Acc const& a, Acc const& b) { return a.v == b.v; }
template <>
inline Acc guard_value<Acc>(int i)
{
    return Acc{1000003LL + i};
}
template <>
inline Acc fresh_value<Acc>()
{
    return Acc{-5};
}
// acc (+) element, element = LL
inline Acc operator+(Acc&& a, LL x)
{
    acc_stats().cat.push_back(1);
    return Acc{a.v * 3 + x};
}
inline Acc operator+(Acc const& a, LL x)
{
    acc_stats().cat.push_back(0);
    return Acc{a.v * 3 + x};
}
// partial_sum over Acc elements: acc + element
inline Acc operator+(Acc&& a, Acc const& x)
{
    acc_stats().cat.push_back(1);
    return Acc{a.v * 3 + x.v};
}
inline Acc operator+(Acc const& a, Acc const& x)
{
    acc_stats().cat.push_back(0);
    return Acc{a.v * 3 + x.v};
}
// adjacent_difference over Acc elements: val - std::move(acc)
inline Acc operator-(Acc const& val, Acc&& prev)
{
    acc_stats().cat.push_back(1);
    return Acc{val.v * 2 - prev.v};
}
inline Acc operator-(Acc const& val, Acc const& prev)
{
    acc_stats().cat.push_back(0);
    return Acc{val.v * 2 - prev.v};
}
struct CatFold { // op(acc, x)
    Acc operator()(Acc&& a, LL x) const
    {
        acc_stats().cat.push_back(1);
        return Acc{a.v * 3 + x};
    }
    Acc operator()(Acc const& a, LL x) const
    {
        acc_stats().cat.push_back(0);
        return Acc{a.v * 3 + x};
    }
    Acc operator()(Acc&& a, Acc const& x) const
    {
        acc_stats().cat.push_back(1);
        return Acc{a.v * 3 + x.v};
    }
    Acc operator()(Acc const& a, Acc const& x) const
    {
        acc_stats().cat.push_back(0);
        return Acc{a.v * 3 + x.v};
    }
};
struct CatDiff { // op(val, acc)
    Acc operator()(Acc const& val, Acc&& prev) const
    {
        acc_stats().cat.push_back(1);
        return Acc{val.v * 2 - prev.v};
    }
    Acc operator()(Acc const& val, Acc const& prev) const
    {
        acc_stats().cat.push_back(0);
        return Acc{val.v * 2 - prev.v};
    }
};
struct Prod {
    LL operator()(LL x, LL y) const { return x * 2 - y; }
};
// move-only accumulator, operation takes it by value
struct MAcc {
    LL v;
    explicit MAcc(LL x) : v(x) { }
    MAcc(MAcc&&)                 = default;
    MAcc& operator=(MAcc&&)      = default;
    MAcc(MAcc const&)            = delete;
    MAcc& operator=(MAcc const&) = delete;
};
inline MAcc operator+(MAcc a, LL x) { return MAcc{a.v * 3 + x}; }
struct MFold {
    MAcc operator()(MAcc a, LL x) const { return MAcc{a.v * 5 + x}; }
};
// iota with a class type that only offers pre-increment and a conversion to the element type
struct Step {
    LL v;
    Step& operator++()
    {
        v += 3;
        return *this;
    }
    Step operator++(int) = delete;
    operator LL() const { return v; }
};

struct StatsSnap {
    AccStats s;
    static void reset() { acc_stats() = AccStats{}; }
    static AccStats take()
    {
        AccStats r = acc_stats();
        reset();
        return r;
    }
};
inline void cmp_stats(Trial& t, AccStats const& e, AccStats const& s)
{
    t.nums("accumulator-value-category-per-application(1=rvalue)", e.cat, s.cat);
    t.off("accumulator-copies", e.copies, s.copies);
}

template <typename K>
void k_category(Ctx& c)
{
    Num const m         = values_of(c.a);
    Num const y         = values_of(Seq(c.a.rbegin(), c.a.rend()), 5);
    std::size_t const n = m.size();
    std::vector<Acc> am;
    for (LL v : m) { am.push_back(Acc{v}); }
    for (Pres pr : pres_for<K>(n)) {
#define CATTRIAL(OPNAME, H, STDCALL, ETLCALL)                                                                          \
    do {                                                                                                               \
        StatsSnap::reset();                                                                                            \
        LL exp_       = (STDCALL).v;                                                                                   \
        AccStats ss_  = StatsSnap::take();                                                                             \
        Trial t(c, K::name, OPNAME, pr, "class-accumulator", H, "vals=%s", shown(m).c_str());                          \
        Range<LL> r(m, pr, false), r2(y, pr, false);                                                                   \
        StatsSnap::reset();                                                                                            \
        LL obs_      = t.call([&] { return ETLCALL; }).v;                                                              \
        AccStats es_ = StatsSnap::take();                                                                              \
        t.off("ret", obs_, exp_);                                                                                      \
        cmp_stats(t, es_, ss_);                                                                                        \
        t.guards(r);                                                                                                   \
        t.guards(r2);                                                                                                  \
        t.done();                                                                                                      \
    } while (0)
        CATTRIAL("accumulate(f,l,init)", 101, std::accumulate(m.begin(), m.end(), Acc{7}), etl::accumulate(B<K>(r), E<K>(r), Acc{7}));
        CATTRIAL("accumulate(f,l,init,op)", 102, std::accumulate(m.begin(), m.end(), Acc{7}, CatFold{}), etl::accumulate(B<K>(r), E<K>(r), Acc{7}, CatFold{}));
        CATTRIAL("inner_product(f1,l1,f2,init)", 103, std::inner_product(m.begin(), m.end(), y.begin(), Acc{7}),
            etl::inner_product(B<K>(r), E<K>(r), B<K>(r2), Acc{7}));
        CATTRIAL("inner_product(f1,l1,f2,init,op1,op2)", 104, std::inner_product(m.begin(), m.end(), y.begin(), Acc{7}, CatFold{}, Prod{}),
            etl::inner_product(B<K>(r), E<K>(r), B<K>(r2), Acc{7}, CatFold{}, Prod{}));
#undef CATTRIAL
        // partial_sum / adjacent_difference: the running value has the input's value type (Acc elements)
        for (int which = 0; which < 4; ++which) {
            static char const* const nm[] = {"partial_sum(f,l,d)", "partial_sum(f,l,d,op)", "adjacent_difference(f,l,d)", "adjacent_difference(f,l,d,op)"};
            std::vector<Acc> exp(n);
            StatsSnap::reset();
            switch (which) {
            case 0: std::partial_sum(am.begin(), am.end(), exp.begin()); break;
            case 1: std::partial_sum(am.begin(), am.end(), exp.begin(), CatFold{}); break;
            case 2: std::adjacent_difference(am.begin(), am.end(), exp.begin()); break;
            default: std::adjacent_difference(am.begin(), am.end(), exp.begin(), CatDiff{}); break;
            }
            AccStats ss = StatsSnap::take();
            Trial t(c, K::name, nm[which], pr, "class-accumulator", 120 + which, "vals=%s", shown(m).c_str());
            Range<Acc> r(am, pr, false);
            Sink<Acc> s(n, pr);
            StatsSnap::reset();
            auto ret = t.call([&] {
                switch (which) {
                case 0: return etl::partial_sum(B<K>(r), E<K>(r), s.r.lo);
                case 1: return etl::partial_sum(B<K>(r), E<K>(r), s.r.lo, CatFold{});
                case 2: return etl::adjacent_difference(B<K>(r), E<K>(r), s.r.lo);
                default: return etl::adjacent_difference(B<K>(r), E<K>(r), s.r.lo, CatDiff{});
                }
            });
            AccStats es = StatsSnap::take();
            t.off("ret", ret - s.r.lo, (long)n);
            Num got, want;
            for (std::size_t i = 0; i < n; ++i) {
                got.push_back(s.r.lo[i].v);
                want.push_back(exp[i].v);
            }
            t.nums("output", got, want);
            cmp_stats(t, es, ss);
            t.guards(r);
            t.guards(s.r, "output");
            t.done();
        }
        // reduce / transform_reduce with a class accumulator: only the value is specified (GENERALIZED_SUM)
        {
            struct AddAcc {
                Acc operator()(Acc const& a, Acc const& b) const { return Acc{a.v + b.v + 1}; }
                Acc operator()(Acc const& a, LL b) const { return Acc{a.v + b + 1}; }
                Acc operator()(LL a, Acc const& b) const { return Acc{a + b.v + 1}; }
                Acc operator()(LL a, LL b) const { return Acc{a + b + 1}; }
            };
            LL exp = 7;
            for (LL v : m) { exp = exp + v + 1; }
            Trial t(c, K::name, "reduce(f,l,init,op)", pr, "class-accumulator", 130, "vals=%s", shown(m).c_str());
            Range<LL> r(m, pr, false);
            LL obs = t.call([&] { return etl::reduce(B<K>(r), E<K>(r), Acc{7}, AddAcc{}).v; });
            t.off("ret", obs, exp);
            t.done();
        }
    }
}
// move-only accumulators (no copy may happen anywhere); separate unit (-DC06_NUM_MOVEONLY=1) so that an
// implementation that copies is a keyed compile-failure of its own and the category checks above keep running
#if C06_NUM_MOVEONLY
template <typename K>
void k_moveonly_acc(Ctx& c)
{
    Num const m         = values_of(c.a);
    Num const y         = values_of(Seq(c.a.rbegin(), c.a.rend()), 5);
    std::size_t const n = m.size();
    for (Pres pr : pres_for<K>(n)) {
        // move-only accumulators (no copy may happen anywhere)
        {
            LL exp = std::accumulate(m.begin(), m.end(), MAcc{7}).v;
            Trial t(c, K::name, "accumulate(f,l,init)", pr, "move-only-accumulator", 111, "vals=%s", shown(m).c_str());
            Range<LL> r(m, pr, false);
            LL obs = t.call([&] { return etl::accumulate(B<K>(r), E<K>(r), MAcc{7}).v; });
            t.off("ret", obs, exp);
            t.done();
        }
        {
            LL exp = std::accumulate(m.begin(), m.end(), MAcc{7}, MFold{}).v;
            Trial t(c, K::name, "accumulate(f,l,init,op)", pr, "move-only-accumulator", 112, "vals=%s", shown(m).c_str());
            Range<LL> r(m, pr, false);
            LL obs = t.call([&] { return etl::accumulate(B<K>(r), E<K>(r), MAcc{7}, MFold{}).v; });
            t.off("ret", obs, exp);
            t.done();
        }
        {
            LL exp = std::inner_product(m.begin(), m.end(), y.begin(), MAcc{7}).v;
            Trial t(c, K::name, "inner_product(f1,l1,f2,init)", pr, "move-only-accumulator", 113, "vals=%s", shown(m).c_str());
            Range<LL> r(m, pr, false), r2(y, pr, false);
            LL obs = t.call([&] { return etl::inner_product(B<K>(r), E<K>(r), B<K>(r2), MAcc{7}).v; });
            t.off("ret", obs, exp);
            t.done();
        }
        {
            LL exp = std::inner_product(m.begin(), m.end(), y.begin(), MAcc{7}, MFold{}, Prod{}).v;
            Trial t(c, K::name, "inner_product(f1,l1,f2,init,op1,op2)", pr, "move-only-accumulator", 114, "vals=%s", shown(m).c_str());
            Range<LL> r(m, pr, false), r2(y, pr, false);
            LL obs = t.call([&] { return etl::inner_product(B<K>(r), E<K>(r), B<K>(r2), MAcc{7}, MFold{}, Prod{}).v; });
            t.off("ret", obs, exp);
            t.done();
        }
    }
}
void t_moveonly_acc(Ctx& c)
{
    k_moveonly_acc<KPtr>(c);
    k_moveonly_acc<KIn>(c);
}
#endif
void t_category(Ctx& c)
{
    k_category<KPtr>(c);
    k_category<KIn>(c);
}
void t_iota_class(Ctx& c)
{
    Num const m         = values_of(c.a);
    std::size_t const n = m.size();
    for (Pres pr : pres_for<KFwd>(n)) {
        Num exp = m;
        std::iota(exp.begin(), exp.end(), Step{-4});
        Trial t(c, "fwd_it", "iota(f,l,v)", pr, "class-value(pre-increment only)", 140, "-");
        Range<LL> r(m, pr, true);
        t.call([&] { etl::iota(B<KFwd>(r), E<KFwd>(r), Step{-4}); });
        t.nums("range", r.get(), exp);
        t.guards(r);
        t.done();
    }
}

// ---------------------------------------------------------------- gcd / lcm with mixed argument types
// [numeric.ops.gcd]: |m| and |n| are taken first, the result has the common type.  Calls are only made when the
// standard defines them (|m|, |n| and for lcm the result representable in the common type).
template <typename M, typename N>
void gcd_pair(Ctx& c, char const* kind, M mv, N nv)
{
    using R = std::common_type_t<M, N>;
    __int128 const am = mv < 0 ? -(__int128)mv : (__int128)mv;
    __int128 const an = nv < 0 ? -(__int128)nv : (__int128)nv;
    __int128 const rmax = (__int128)std::numeric_limits<R>::max();
    if (am > rmax || an > rmax) { return; }
    char args[96];
    std::snprintf(args, sizeof args, "m=%lld n=%llu%s", (long long)mv, (unsigned long long)nv, std::is_signed_v<N> ? " (n signed)" : "");
    char const* sit = (mv < 0 || nv < 0) ? "negative-argument" : ((mv == 0 || nv == 0) ? "zero-argument" : "positive");
    {
        R exp = std::gcd(mv, nv);
        Trial t(c, kind, "gcd(m,n)", Pres::exact, sit, vf::mix((std::uint64_t)mv, (std::uint64_t)nv), "%s", args);
        R obs = etl::gcd(mv, nv);
        static_assert(std::is_same_v<decltype(etl::gcd(mv, nv)), R>);
        if (obs != exp) { vf::diverge("ret:differs", std::to_string((long long)obs) + "/" + std::to_string((unsigned long long)obs), std::to_string((long long)exp) + "/" + std::to_string((unsigned long long)exp)); }
        t.done();
    }
    {
        __int128 g = am, h = an;
        while (h != 0) {
            __int128 r = g % h;
            g          = h;
            h          = r;
        }
        __int128 l = g == 0 ? 0 : am / g * an;
        if (l > rmax) { return; }
        R exp = std::lcm(mv, nv);
        Trial t(c, kind, "lcm(m,n)", Pres::exact, sit, vf::mix((std::uint64_t)mv, (std::uint64_t)nv) + 1, "%s", args);
        R obs = etl::lcm(mv, nv);
        static_assert(std::is_same_v<decltype(etl::lcm(mv, nv)), R>);
        if (obs != exp) { vf::diverge("ret:differs", std::to_string((long long)obs) + "/" + std::to_string((unsigned long long)obs), std::to_string((long long)exp) + "/" + std::to_string((unsigned long long)exp)); }
        t.done();
    }
}
void t_gcd_lcm(Ctx& c)
{
    // the sequence selects the operands: keys index small tables of interesting values
    static long long const sv[] = {-4, 6, 0, -6, 9, -1, 1, -12, 35, -2147483647LL - 1, 2147483647};
    static unsigned long long const uv[] = {6, 4, 0, 9, 1, 12, 35, 2147483648ull, 4294967295ull, 10};
    if (c.a.size() != 2 && c.a.size() != 3) { return; }
    std::size_t base = c.a.size() == 2 ? 0 : 3;
    for (std::size_t i = 0; i < sizeof sv / sizeof sv[0]; ++i) {
        for (std::size_t j = 0; j < sizeof uv / sizeof uv[0]; ++j) {
            if ((i + j + base) % 3 != (std::size_t)(c.a[0].key % 3) && c.enumerated) { continue; } // spread over the cases
            long long s          = sv[i];
            unsigned long long u = uv[j];
            if (s >= -2147483647LL - 1 && s <= 2147483647 && u <= 4294967295ull) {
                gcd_pair<int, unsigned>(c, "int,unsigned", (int)s, (unsigned)u);
                gcd_pair<unsigned, int>(c, "unsigned,int", (unsigned)u, (int)s);
                gcd_pair<int, unsigned long long>(c, "int,unsigned long long", (int)s, u);
                gcd_pair<long long, unsigned>(c, "long long,unsigned", s, (unsigned)u);
                if (u <= 2147483647ull) { gcd_pair<int, int>(c, "int,int", (int)s, (int)u); }
            }
            gcd_pair<long long, unsigned long long>(c, "long long,unsigned long long", s, u);
            if (s >= -32768 && s <= 32767 && u <= 65535) {
                gcd_pair<short, unsigned short>(c, "short,unsigned short", (short)s, (unsigned short)u);
                gcd_pair<short, unsigned>(c, "short,unsigned", (short)s, (unsigned)u);
            }
            if (s >= -128 && s <= 127 && u <= 255) { gcd_pair<signed char, unsigned char>(c, "signed char,unsigned char", (signed char)s, (unsigned char)u); }
        }
    }
}

#if C06_NUM_MOVEONLY
Test const kTests[] = {{"moveonly_acc", t_moveonly_acc}};
#else
Test const kTests[] = {
    {"fold", t_fold},
    {"scan", t_scan},
    {"iota", t_iota},
    {"category", t_category},
    {"iota_class", t_iota_class},
    {"gcd_lcm", t_gcd_lcm},
};
#endif
std::size_t const kNumTests = sizeof(kTests) / sizeof(kTests[0]);

} // namespace c06

#if C06_NUM_MOVEONLY
C06_MAIN("C06_probe_numeric_moveonly_acc")
#else
C06_MAIN("C06_numeric")
#endif
