// C10 (parsing half, C family) - etl::strtol/strtoll/strtoul/strtoull, etl::atoi/atol/atoll on
// null-terminated exact-size buffers vs glibc; etl::stoi/stol/stoll/stoul/stoull on exact-size
// views vs std::sto*.  tetl exposes no errno: value and end pointer are compared wherever C
// defines them (DESIGN 4, C10).
#include "vf.hpp"
#include "vf_contract.hpp"
#include "vf_c10.hpp"

#include <etl/cstdlib.hpp>
#include <etl/string.hpp>
#include <etl/string_view.hpp>
#include <etl/strings.hpp>

#include <cerrno>
#include <cstdlib>
#include <stdexcept>
#include <string>

namespace {
using namespace c10;

constexpr unsigned kBaseSlots = 36; // 0, 2..36
int slot_base(unsigned i) { return i == 0 ? 0 : (int)i + 1; }

//  enumerated: base slot x section {values, boundary strings, grammar product}
//  random    : random base, random strings from the grammar
constexpr std::uint64_t nE = kBaseSlots * 3;

vf::Spec spec(vf::Tier t)
{
    vf::Spec s;
    s.n_enum     = nE;
    s.n_random   = t == vf::Tier::thorough ? 60000 : 4000;
    s.batch      = 4;
    s.exhaustive = true;
    return s;
}

bool is_ws(char c) { return c == ' ' || c == '\t' || c == '\n' || c == '\v' || c == '\f' || c == '\r'; }
int digit_val(char c)
{
    if (c >= '0' && c <= '9') { return c - '0'; }
    if (c >= 'a' && c <= 'z') { return c - 'a' + 10; }
    if (c >= 'A' && c <= 'Z') { return c - 'A' + 10; }
    return 99;
}

// situation: how the C grammar sees the input (harness-side, independent of tetl)
struct Shape {
    char base_cls[16];
    char lead[16];
};
Shape analyse(std::string const& full, int base)
{
    std::string s = full.substr(0, full.find('\0'));
    Shape sh{};
    std::size_t i = 0;
    while (i < s.size() && is_ws(s[i])) { ++i; }
    bool const ws = i != 0;
    char const* lead;
    std::size_t j = i;
    if (i == s.size()) {
        lead = "end";
    } else if (s[i] == '-') {
        lead = "minus";
        ++j;
    } else if (s[i] == '+') {
        lead = "plus";
        ++j;
    } else if (digit_val(s[i]) < (base == 0 ? 10 : base)) {
        lead = "digit";
    } else {
        lead = "other";
    }
    std::snprintf(sh.lead, sizeof sh.lead, "%s%s", ws ? "ws-" : "", lead);
    bool const has0x = j + 2 < s.size() + 0 && s[j] == '0' && (s[j + 1] == 'x' || s[j + 1] == 'X') && digit_val(s[j + 2]) < 16;
    char const* bc;
    if (base == 0) {
        bc = has0x ? "base0-hex" : (j < s.size() && s[j] == '0' ? "base0-oct" : "base0-dec");
    } else if (base == 16) {
        bc = has0x ? "base16-0x" : "base16";
    } else if (base == 10) {
        bc = "base10";
    } else {
        bc = "base-other";
    }
    std::snprintf(sh.base_cls, sizeof sh.base_cls, "%s", bc);
    return sh;
}

template <typename V>
char const* value_cls(V obs, V exp)
{
    if (obs == exp) { return "same"; }
    if (obs == 0) { return "zero"; }
    if (std::is_signed_v<V> && exp != std::numeric_limits<V>::min() && obs == (V)(0 - exp)) { return "negated"; }
    return obs < exp ? "less" : "greater";
}
void end_cls(char* buf, std::size_t n, long long obs, long long exp)
{
    long long d = obs - exp;
    if (d == 0) {
        std::snprintf(buf, n, "same");
    } else if (obs == 0) {
        std::snprintf(buf, n, "at-start");
    } else if (d >= -2 && d <= 2) {
        std::snprintf(buf, n, "%+lld", d);
    } else {
        std::snprintf(buf, n, "%s", d > 0 ? "greater" : "less");
    }
}
template <typename V>
std::string vs(V v) { return std::is_signed_v<V> ? fmt_i128((i128)v, 10) : fmt_u128((u128)v, 10); }

struct CFam {
    Pool& pool;
    Counts& cnt;
    std::size_t i_strto[4][4], i_ato[3], i_sto[5][2][3];

    CFam(Pool& p, Counts& c) : pool(p), cnt(c)
    {
        char const* sn[4]  = {"strtol", "strtoll", "strtoul", "strtoull"};
        char const* res[4] = {"ok", "noconv", "range"};
        for (unsigned f = 0; f < 4; ++f) {
            for (unsigned r = 0; r < 3; ++r) { i_strto[f][r] = c.slot(std::string(sn[f]) + "|" + res[r]); }
        }
        char const* an[3] = {"atoi", "atol", "atoll"};
        for (unsigned f = 0; f < 3; ++f) { i_ato[f] = c.slot(an[f]); }
        char const* tn[5]  = {"stoi", "stol", "stoll", "stoul", "stoull"};
        char const* tr[3]  = {"ok", "invalid_argument", "out_of_range"};
        for (unsigned f = 0; f < 5; ++f) {
            for (unsigned r = 0; r < 3; ++r) {
                i_sto[f][0][r] = c.slot(std::string(tn[f]) + "(str,&pos,base)|" + tr[r]);
                i_sto[f][1][r] = c.slot(std::string(tn[f]) + "(str)|" + tr[r]);
            }
        }
    }

    // ---- strto*: value and end pointer (both defined by C for every input and base in {0,2..36})
    template <unsigned F, typename V, typename StdFn, typename EtlFn>
    void strto_one(char const* name, char const* op, std::string const& s, int base, Shape const& sh, StdFn stdfn, EtlFn etlfn)
    {
        vf::Buf<char>& b = pool.cstr(s);
        char* send       = nullptr;
        errno            = 0;
        V const sv       = stdfn(b.data(), &send, base);
        bool const range = errno == ERANGE;
        long long const xe = send - b.data();
        char const* res  = range ? (std::is_signed_v<V> && sv < 0 ? "range-" : "range+") : (xe == 0 ? "noconv" : "ok");
        char sit[96];
        std::snprintf(sit, sizeof sit, "%s,%s,%s", sh.base_cls, sh.lead, res);
        vf::crumb(name, op, sit, "input=%s base=%d", show(s).c_str(), base);
        char const* eend = nullptr;
        V const ev       = etlfn(b.data(), &eend, base);
        cnt.bump(i_strto[F][range ? 2 : (xe == 0 ? 1 : 0)]);
        check_and_repair(b, "strto* input");
        long long const oe = eend ? eend - b.data() : -1;
        if (ev != sv || oe != xe) {
            char ec[24], sym[96];
            end_cls(ec, sizeof ec, oe, xe);
            std::snprintf(sym, sizeof sym, "value:%s,end:%s", value_cls(ev, sv), ec);
            vf::diverge(sym, "value=" + vs(ev) + " end=" + vf::to_s(oe), "value=" + vs(sv) + " end=" + vf::to_s(xe));
            return;
        }
        // same call without an end pointer
        char op2[64];
        std::snprintf(op2, sizeof op2, "%s(str,nullptr,base)", name);
        vf::crumb(name, op2, sit, "input=%s base=%d", show(s).c_str(), base);
        V const ev2 = etlfn(b.data(), nullptr, base);
        if (ev2 != sv) {
            char sym[96];
            std::snprintf(sym, sizeof sym, "value:%s", value_cls(ev2, sv));
            vf::diverge(sym, vs(ev2), vs(sv));
        }
    }

    // ---- ato*: defined only when the value is representable (otherwise undefined behaviour in C)
    template <unsigned F, typename V, typename EtlFn>
    void ato_one(char const* name, char const* op, std::string const& s, Shape const& sh, EtlFn etlfn)
    {
        vf::Buf<char>& b = pool.cstr(s);
        char* send       = nullptr;
        errno            = 0;
        long long const sv = ::strtoll(b.data(), &send, 10);
        if (errno == ERANGE || !fits<V>((i128)sv)) { return; }
        char sit[96];
        std::snprintf(sit, sizeof sit, "%s,%s", sh.lead, send == b.data() ? "noconv" : "ok");
        vf::crumb(name, op, sit, "input=%s", show(s).c_str());
        V const ev = etlfn(b.data());
        cnt.bump(i_ato[F]);
        if (ev != (V)sv) {
            char sym[64];
            std::snprintf(sym, sizeof sym, "value:%s", value_cls(ev, (V)sv));
            vf::diverge(sym, vs(ev), vs((V)sv));
        }
    }

    // ---- sto*: std throws where tetl has no channel; pos == 0 is tetl's only "nothing parsed" signal
    template <unsigned F, typename V, typename StdFn, typename EtlFn>
    void sto_one(char const* name, std::string const& s, int base, Shape const& sh, StdFn stdfn, EtlFn etlfn)
    {
        std::size_t spos = 0;
        V sv{};
        int cls = 0; // 0 ok, 1 invalid_argument, 2 out_of_range
        try {
            sv = stdfn(s, &spos, base);
        } catch (std::invalid_argument const&) {
            cls = 1;
        } catch (std::out_of_range const&) {
            cls = 2;
        }
        char const* res = cls == 0 ? "ok" : (cls == 1 ? "invalid_argument" : "out_of_range");
        char sit[96];
        std::snprintf(sit, sizeof sit, "%s,%s,%s", sh.base_cls, sh.lead, res);
        vf::Buf<char>& b = pool.view(s);
        etl::string_view const view{b.data(), s.size()};
        char op[48];
        for (int with_pos = 1; with_pos >= 0; --with_pos) {
            if (!with_pos && base != 10) { break; } // the (str) form uses the default base 10
            std::snprintf(op, sizeof op, with_pos ? "%s(str,&pos,base)" : "%s(str)", name);
            vf::crumb(name, op, sit, "input=%s base=%d", show(s).c_str(), base);
            etl::size_t epos = 12345;
            V const ev       = with_pos ? etlfn(view, &epos, base) : etlfn(view, nullptr, 10);
            cnt.bump(i_sto[F][with_pos ? 0 : 1][cls]);
            if (cls == 0) {
                bool const pos_ok = !with_pos || epos == spos;
                if (ev == sv && pos_ok) { continue; }
                char ec[24] = "same", sym[96];
                if (with_pos) {
                    end_cls(ec, sizeof ec, (long long)epos, (long long)spos);
                    std::snprintf(sym, sizeof sym, "value:%s,pos:%s", value_cls(ev, sv), ec);
                } else {
                    std::snprintf(sym, sizeof sym, "value:%s", value_cls(ev, sv));
                }
                vf::diverge(sym, "value=" + vs(ev) + " pos=" + (with_pos ? vf::to_s((long long)epos) : std::string("-")),
                    "value=" + vs(sv) + " pos=" + vf::to_s((long long)spos));
            } else if (!with_pos) {
                vf::diverge(cls == 1 ? "error:invalid_argument-unreported" : "error:out_of_range-unreported", "returns " + vs(ev), std::string("throws ") + res);
            } else if (cls == 1) {
                if (epos != 0) { vf::diverge("pos:consumed-on-invalid", vf::to_s((long long)epos), "0"); }
            } else {
                vf::diverge(epos == 0 ? "error:out_of_range-reported-as-nothing-parsed" : "error:out_of_range-unreported",
                    "returns " + vs(ev) + " pos=" + vf::to_s((long long)epos), "throws out_of_range");
            }
        }
    }

    void parse_all(std::string const& s, int base)
    {
        Shape const sh = analyse(s, base);
        strto_one<0, long>("strtol", "strtol(str,&end,base)", s, base, sh, [](char* p, char** e, int b) { return ::strtol(p, e, b); },
            [](char const* p, char const** e, int b) { return etl::strtol(p, e, b); });
        strto_one<1, long long>("strtoll", "strtoll(str,&end,base)", s, base, sh, [](char* p, char** e, int b) { return ::strtoll(p, e, b); },
            [](char const* p, char const** e, int b) { return etl::strtoll(p, e, b); });
        strto_one<2, unsigned long>("strtoul", "strtoul(str,&end,base)", s, base, sh, [](char* p, char** e, int b) { return ::strtoul(p, e, b); },
            [](char const* p, char const** e, int b) { return etl::strtoul(p, e, b); });
        strto_one<3, unsigned long long>("strtoull", "strtoull(str,&end,base)", s, base, sh, [](char* p, char** e, int b) { return ::strtoull(p, e, b); },
            [](char const* p, char const** e, int b) { return etl::strtoull(p, e, b); });
        if (base == 10) {
            Shape const sh10 = sh;
            ato_one<0, int>("atoi", "atoi(str)", s, sh10, [](char const* p) { return etl::atoi(p); });
            ato_one<1, long>("atol", "atol(str)", s, sh10, [](char const* p) { return etl::atol(p); });
            ato_one<2, long long>("atoll", "atoll(str)", s, sh10, [](char const* p) { return etl::atoll(p); });
        }
        sto_one<0, int>("stoi", s, base, sh, [](std::string const& x, std::size_t* p, int b) { return std::stoi(x, p, b); },
            [](etl::string_view x, etl::size_t* p, int b) { return etl::stoi(x, p, b); });
        sto_one<1, long>("stol", s, base, sh, [](std::string const& x, std::size_t* p, int b) { return std::stol(x, p, b); },
            [](etl::string_view x, etl::size_t* p, int b) { return etl::stol(x, p, b); });
        sto_one<2, long long>("stoll", s, base, sh, [](std::string const& x, std::size_t* p, int b) { return std::stoll(x, p, b); },
            [](etl::string_view x, etl::size_t* p, int b) { return etl::stoll(x, p, b); });
        sto_one<3, unsigned long>("stoul", s, base, sh, [](std::string const& x, std::size_t* p, int b) { return std::stoul(x, p, b); },
            [](etl::string_view x, etl::size_t* p, int b) { return etl::stoul(x, p, b); });
        sto_one<4, unsigned long long>("stoull", s, base, sh, [](std::string const& x, std::size_t* p, int b) { return std::stoull(x, p, b); },
            [](etl::string_view x, etl::size_t* p, int b) { return etl::stoull(x, p, b); });
    }

    // ---- round trip through tetl's formatters (null-terminated from_integer / to_string)
    template <typename V>
    void roundtrip(V v, int fbase)
    {
        char sit[64];
        std::snprintf(sit, sizeof sit, "%s,%s", base_cls(fbase), v < 0 ? "neg" : (v == 0 ? "zero" : "pos"));
        vf::Buf<char>& out = pool.get(72);
        char const* subj   = std::is_same_v<V, long> ? "roundtrip<long>" : (std::is_same_v<V, long long> ? "roundtrip<long long>" : (std::is_same_v<V, unsigned long> ? "roundtrip<unsigned long>" : "roundtrip<unsigned long long>"));
        vf::crumb(subj, "strto*(from_integer(x))", sit, "x=%s base=%d", vs(v).c_str(), fbase);
        auto const f = etl::strings::from_integer<V>(v, out.data(), 72, fbase);
        if (f.error != etl::strings::from_integer_error::none || f.end < out.data() || f.end >= out.data() + 72 || *f.end != '\0') {
            vf::diverge("format-failed", "error", "terminated digits");
            return;
        }
        std::string const txt(out.data(), (std::size_t)(f.end - out.data()));
        vf::Buf<char>& in = pool.cstr(txt);
        char const* e     = nullptr;
        V back;
        if constexpr (std::is_same_v<V, long>) {
            back = etl::strtol(in.data(), &e, fbase);
        } else if constexpr (std::is_same_v<V, long long>) {
            back = etl::strtoll(in.data(), &e, fbase);
        } else if constexpr (std::is_same_v<V, unsigned long>) {
            back = etl::strtoul(in.data(), &e, fbase);
        } else {
            back = etl::strtoull(in.data(), &e, fbase);
        }
        cnt.bump(cnt.slot(std::string(subj) + "|strto*(from_integer(x))"));
        if (back != v) {
            vf::diverge("value:not-original", vs(back), vs(v));
        } else if (e != in.data() + txt.size()) {
            vf::diverge("end:not-all-consumed", vf::to_s(e - in.data()), vf::to_s((long long)txt.size()));
        }
        if (fbase == 10) {
            vf::crumb(subj, "sto*(to_string(x))", sit, "x=%s", vs(v).c_str());
            auto const str = etl::to_string<24>(v);
            etl::size_t pos = 999;
            V b2;
            etl::string_view const view{str.data(), str.size()};
            if constexpr (std::is_same_v<V, long>) {
                b2 = etl::stol(view, &pos);
            } else if constexpr (std::is_same_v<V, long long>) {
                b2 = etl::stoll(view, &pos);
            } else if constexpr (std::is_same_v<V, unsigned long>) {
                b2 = etl::stoul(view, &pos);
            } else {
                b2 = etl::stoull(view, &pos);
            }
            cnt.bump(cnt.slot(std::string(subj) + "|sto*(to_string(x))"));
            if (b2 != v) {
                vf::diverge("value:not-original", vs(b2), vs(v));
            } else if (pos != str.size()) {
                vf::diverge("pos:not-all-consumed", vf::to_s((long long)pos), vf::to_s((long long)str.size()));
            }
        }
    }

    // ---- section 0: boundary values of long / unsigned long / int, decorated
    void values(int base)
    {
        int const fb = base == 0 ? 10 : base; // formatting base
        unsigned salt = (unsigned)base;
        auto one = [&](i128 v) {
            std::string const d = fmt_i128(v, fb);
            std::string const m = v < 0 ? d.substr(1) : d;
            std::string const sg = v < 0 ? "-" : "";
            parse_all(d, base);
            if (fb > 10) { parse_all(fmt_i128(v, fb, true), base); }
            parse_all(sg + "00" + m, base);
            if (v >= 0) { parse_all("+" + m, base); }
            static char const* const wss[] = {" ", "\t", "\n ", "\v\f\r", "  \t"};
            parse_all(wss[salt % 5] + d, base);
            static char const garbage[] = {' ', 'x', '-', '+', '.', '\xE9', 'Z', '_', '9', '@', 'G', 'g', 'l', 'u'};
            parse_all(d + garbage[salt % sizeof garbage], base);
            if (base == 16 || base == 0) {
                std::string const h = fmt_i128(v < 0 ? -v : v, 16, (salt & 1) != 0);
                parse_all(sg + ((salt & 2) ? "0x" : "0X") + h, base);
            }
            if (base == 8 || base == 0) { parse_all(sg + "0" + fmt_i128(v < 0 ? -v : v, 8), base); }
            ++salt;
        };
        for (long v : boundary_values<long>(fb, 1000)) {
            one((i128)v);
            roundtrip<long>(v, fb);
            roundtrip<long long>((long long)v, fb);
        }
        for (unsigned long v : boundary_values<unsigned long>(fb, 0)) {
            one((i128)v);
            roundtrip<unsigned long>(v, fb);
            roundtrip<unsigned long long>((unsigned long long)v, fb);
        }
        for (int v : boundary_values<int>(fb, 0)) { one((i128)v); }
        if (vf::want_sample("strtol")) {
            vf::sample("strtol", "base %d: boundary values of long/unsigned long/int (base^k+-1, limits, limit/base+-1, +-1000): digits plain, upper-case, zero-padded, '+', whitespace, trailing garbage, 0x/0 prefixes -> 4 strto*, 3 ato* (base 10), 5 sto* x 2 forms; round trips through from_integer/to_string", base);
        }
    }

    // ---- section 1: strings around the limits (overflow by one unit / one digit / far)
    void boundary_strings(int base)
    {
        int const fb = base == 0 ? 10 : base;
        std::vector<i128> vals;
        i128 const lims[] = {tmax<int>(), tmin<int>(), tmax<long>(), tmin<long>(), (i128)tmax<unsigned long>(), (i128)tmax<unsigned>(), -(i128)tmax<unsigned long>(),
            -(i128)tmax<unsigned>()};
        for (i128 l : lims) {
            for (int d = -2; d <= 2; ++d) { vals.push_back(l + d); }
            vals.push_back(l * fb);
            vals.push_back(l * fb + (l < 0 ? -(fb - 1) : fb - 1));
            vals.push_back(l / fb);
            vals.push_back(l + (l < 0 ? -fb : fb));
        }
        i128 const extra[] = {(i128)1 << 64, ((i128)1 << 64) + 1, ((i128)1 << 64) + 12345, -((i128)1 << 64) - 1, ((i128)1 << 64) * fb, ((i128)1 << 65) + 7, 0, 1, -1};
        for (i128 v : extra) { vals.push_back(v); }
        static char const* const tails[] = {"", "!", " 1"};
        for (i128 v : vals) {
            for (int upper = 0; upper < (fb > 10 ? 2 : 1); ++upper) {
                std::string const d = fmt_i128(v, fb, upper != 0);
                std::string const m = v < 0 ? d.substr(1) : d;
                std::string const sg = v < 0 ? "-" : "";
                for (char const* t : tails) {
                    parse_all(d + t, base);
                    parse_all(sg + "0" + m + t, base);
                    parse_all(sg + std::string(30, '0') + m + t, base);
                    parse_all("  " + d + t, base);
                    if (v >= 0) { parse_all("+" + m + t, base); }
                    if (base == 16 || base == 0) { parse_all(sg + "0x" + fmt_i128(v < 0 ? -v : v, 16, upper != 0) + t, base); }
                    if (base == 0) { parse_all(sg + "0" + fmt_i128(v < 0 ? -v : v, 8) + t, base); }
                }
            }
        }
        char const top = digit_char((unsigned)fb - 1);
        for (std::size_t n : {(std::size_t)20, (std::size_t)40, (std::size_t)65, (std::size_t)130}) {
            parse_all(std::string(n, top), base);
            parse_all("-" + std::string(n, top), base);
            parse_all("1" + std::string(n, '0'), base);
            parse_all(" +1" + std::string(n, '0') + "x", base);
        }
    }

    // ---- section 2: small product of  ws* sign? prefix? digit* garbage*
    void grammar_product(int base)
    {
        int const fb = base == 0 ? 10 : base;
        static std::string const wss[]   = {"", " ", "\t\n\v\f\r ", std::string(1, '\0')};
        static char const* const signs[] = {"", "-", "+", "--", "-+", "+-", "- "};
        static char const* const pres[]  = {"", "0x", "0X", "0", "0b", "x"};
        std::vector<std::string> digs    = {"", "0", "1", "7", "8", "00", "10", "z", "Z", "a", "F", "g"};
        digs.push_back(std::string(1, digit_char((unsigned)fb - 1)));
        digs.push_back(std::string(1, digit_char((unsigned)fb % 36)));
        digs.push_back(fmt_i128(tmax<int>(), fb));
        digs.push_back(fmt_i128(tmax<long>(), fb));
        digs.push_back(fmt_i128(tmax<long>() + 1, fb));
        static std::string const tails[] = {"", " ", "x", "-1", std::string("\0" "1", 2), ".5", "\xE9", "+", "L"};
        for (auto const& w : wss) {
            for (char const* sg : signs) {
                for (char const* pr : pres) {
                    for (auto const& dg : digs) {
                        for (auto const& tl : tails) { parse_all(w + sg + pr + dg + tl, base); }
                    }
                }
            }
        }
    }

    std::string random_input(vf::Rng& r, int base)
    {
        int const fb = base == 0 ? (r.coin() ? 10 : (r.coin() ? 16 : 8)) : base;
        std::string s;
        static char const wsc[] = {' ', '\t', '\n', '\v', '\f', '\r'};
        if (r.chance(1, 3)) {
            for (std::uint64_t n = r.below(4); n-- > 0;) { s += wsc[r.below(6)]; }
        }
        switch (r.below(8)) {
        case 0:
        case 1: s += '-'; break;
        case 2: s += '+'; break;
        case 3: s += r.coin() ? "--" : "+-"; break;
        default: break;
        }
        if (r.chance(1, 5)) { s += r.coin() ? "0x" : (r.coin() ? "0X" : "0"); }
        if (r.chance(1, 8)) { s += std::string((std::size_t)r.below(5), '0'); }
        switch (r.below(4)) {
        case 0: {
            i128 const lims[] = {tmax<int>(), -(i128)tmin<int>(), tmax<long>(), -(i128)tmin<long>(), (i128)tmax<unsigned long>(), (i128)tmax<unsigned>()};
            i128 v            = lims[r.below(6)] + r.range(-3, 3);
            if (r.chance(1, 4)) { v = v * fb + (i128)r.below((std::uint64_t)fb); }
            s += fmt_i128(v, fb, r.coin());
            break;
        }
        case 1: {
            std::string d = fmt_i128((i128)random_value<long>(r), fb, r.coin());
            s += (d[0] == '-' ? d.substr(1) : d);
            break;
        }
        case 2: {
            for (std::uint64_t n = r.below(26); n-- > 0;) { s += digit_char((unsigned)r.below((std::uint64_t)fb), r.coin()); }
            break;
        }
        default: {
            for (std::uint64_t n = r.below(8); n-- > 0;) { s += digit_char((unsigned)r.below(36), r.coin()); }
            break;
        }
        }
        if (r.chance(1, 3)) {
            for (std::uint64_t n = 1 + r.below(3); n-- > 0;) { s += (char)r.below(256); }
        }
        return s;
    }
};

void run_case(vf::Case& c)
{
    Pool pool;
    Counts cnt(vf::mix(c.id, c.enumerated ? 0x30f : vf::g().seed));
    CFam f(pool, cnt);
    if (c.enumerated) {
        int base = slot_base((unsigned)(c.index / 3));
        switch (c.index % 3) {
        case 0: f.values(base); break;
        case 1: f.boundary_strings(base); break;
        default: f.grammar_product(base); break;
        }
    } else {
        int base = c.rng.chance(1, 4) ? 10 : slot_base((unsigned)c.rng.below(kBaseSlots));
        for (int i = 0; i < 48; ++i) { f.parse_all(f.random_input(c.rng, base), base); }
    }
}
} // namespace

VF_MAIN("C10", "C10_cstr", spec, run_case)
