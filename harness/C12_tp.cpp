// C12 - time_point conversions: converting constructor time_point<C,D1> -> time_point<C,D2> (lossless D1 -> D2),
// time_point_cast<To>, min()/max(), time_since_epoch().  On the snapshot tree neither the converting constructor
// (misspelt member call) nor time_point_cast (wrong return type) compiles when used, hence a unit of its own.   (DESIGN 4, C12)
#include "vf.hpp"
#include "vf_contract.hpp"

#include <etl/chrono.hpp>
#include <etl/ratio.hpp>

#include <chrono>
#include <limits>
#include <ratio>
#include <type_traits>

namespace {
namespace ec = etl::chrono;
namespace sc = std::chrono;
using i128   = __int128;
using i64    = std::int64_t;
using i32    = std::int32_t;

template <typename R, long long N, long long D> struct Dur {
    using E = ec::duration<R, etl::ratio<N, D>>;
    using S = sc::duration<R, std::ratio<N, D>>;
    static constexpr long long n = N, d = D;
    using rep = R;
};
using D0 = Dur<i64, 1, 1000000000>;
using D1 = Dur<i64, 1, 1000>;
using D2 = Dur<i64, 1, 1>;
using D3 = Dur<i32, 60, 1>;
using D4 = Dur<i64, 1, 3>;
using D5 = Dur<i64, 1001, 30000>;
using D6 = Dur<i32, 86400, 1>;

template <typename A, typename B> constexpr bool conv = std::is_convertible_v<A, B>;

constexpr i128 gcd128(i128 a, i128 b)
{
    while (b != 0) {
        i128 t = a % b;
        a      = b;
        b      = t;
    }
    return a < 0 ? -a : a;
}

template <typename F, typename T>
void pair_case(vf::Case& c)
{
    using ETF = ec::time_point<ec::system_clock, typename F::E>;
    using ETT = ec::time_point<ec::system_clock, typename T::E>;
    using STF = sc::time_point<sc::system_clock, typename F::S>;
    using STT = sc::time_point<sc::system_clock, typename T::S>;
    char subj[96];
    std::snprintf(subj, sizeof subj, "time_point<%lld/%lld>,time_point<%lld/%lld>", F::n, F::d, T::n, T::d);
    std::uint64_t const h0 = vf::fnv(subj);
    i128 a = (i128)F::n * T::d, b = (i128)F::d * T::n;
    i128 g = gcd128(a, b);
    a /= g;
    b /= g;
    char const* dir = a == 1 && b == 1 ? "same-period" : (b == 1 ? "to-finer" : (a == 1 ? "to-coarser" : "incommensurable"));

    vf::crumb(subj, "is_convertible<time_point<From>,time_point<To>>", "type-level", "compile-time boolean");
    vf::cover("type-level", h0, true);
    vf::eq_bool("value", conv<ETF, ETT>, conv<STF, STT>);
    vf::crumb(subj, "decltype(time_point_cast<To>(tp))", "type-level", "compile-time boolean");
    vf::eq_bool("value", std::is_same_v<decltype(ec::time_point_cast<typename T::E>(ETF{})), ETT>, std::is_same_v<decltype(sc::time_point_cast<typename T::S>(STF{})), STT>);

    std::vector<long long> counts;
    int const N = c.tier == vf::Tier::thorough ? 2000 : 300;
    for (int k = -N; k <= N; ++k) { counts.push_back(k); }
    for (int k = -30; k <= 30; ++k) {
        counts.push_back((long long)(k * b));
        counts.push_back((long long)(k * b + 1));
    }
    long long const big[] = {(1ll << 31) - 1, 1ll << 31, (1ll << 40) + 7, (1ll << 62) / (long long)a, -((1ll << 62) / (long long)a)};
    for (long long x : big) { counts.push_back(x); }
    for (int i = 0; i < 64; ++i) { counts.push_back(c.rng.range(-(1ll << 40), 1ll << 40)); }

    std::uint64_t n = 0;
    for (long long k : counts) {
        using FR = typename F::rep;
        using TR = typename T::rep;
        if (k > (long long)std::numeric_limits<FR>::max() || k < (long long)std::numeric_limits<FR>::min()) { continue; }
        i128 const num = (i128)k * a;
        if (num > (i128)std::numeric_limits<i64>::max() || num < (i128)std::numeric_limits<i64>::min()) { continue; }
        i128 const tr = num / b;
        if (tr > (i128)std::numeric_limits<TR>::max() || tr < (i128)std::numeric_limits<TR>::min()) { continue; }
        char sit[96];
        std::snprintf(sit, sizeof sit, "%s,%s,%s", dir, k < 0 ? "neg" : (k == 0 ? "zero" : "pos"), num % b == 0 ? "exact" : "truncates");
        STF const sf{typename F::S{(FR)k}};
        long long const sv = sc::time_point_cast<typename T::S>(sf).time_since_epoch().count();
        if ((i128)sv != tr) {
            vf::crumb("oracle", "std-vs-exact", "time_point_cast", "%s k=%lld", subj, k);
            vf::diverge("oracles-disagree", vf::to_s(sv), vf::to_s((long long)tr));
        }
        vf::crumb(subj, "time_point_cast<To>(tp)", sit, "count=%lld", k);
        ETF const ef{typename F::E{(FR)k}};
        long long const ev = ec::time_point_cast<typename T::E>(ef).time_since_epoch().count();
        vf::eq_int("count", ev, sv);
        vf::crumb(subj, "time_since_epoch()", sit, "count=%lld", k);
        vf::eq_int("count", ef.time_since_epoch().count(), k);
        if constexpr (conv<STF, STT> && conv<ETF, ETT>) {
            STT const st = sf;
            vf::crumb(subj, "time_point<To>(time_point<From>)", sit, "count=%lld", k);
            ETT const et = ef;
            vf::eq_int("count", et.time_since_epoch().count(), st.time_since_epoch().count());
        }
        ++n;
    }
    vf::cover_bulk("time_point_cast<To>(tp)", n, h0, n);
    vf::cover_bulk("time_point::time_since_epoch()", n, h0, n);
    if (conv<STF, STT> && conv<ETF, ETT>) { vf::cover_bulk("time_point<To>(time_point<From>)", n, h0, n); }

    vf::crumb(subj, "min()/max()", "static", "-");
    vf::cover("time_point::min/max", h0, true);
    vf::eq_bool("min", ETF::min().time_since_epoch().count() == std::numeric_limits<typename F::rep>::lowest(), STF::min().time_since_epoch().count() == std::numeric_limits<typename F::rep>::lowest());
    vf::eq_bool("max", ETF::max().time_since_epoch().count() == std::numeric_limits<typename F::rep>::max(), STF::max().time_since_epoch().count() == std::numeric_limits<typename F::rep>::max());
    vf::eq_int("default-constructed", ETF{}.time_since_epoch().count(), STF{}.time_since_epoch().count());
    if (vf::want_sample("tp-pair")) { vf::sample("tp-pair", "%s: %llu counts", subj, (unsigned long long)n); }
}

// ---- time_point (op) duration across the pair matrix: tp<F> + T, T + tp<F>, tp<F> - T, tp<F> - tp<T>  (value + declared type).
// Guarded by presence: on a tree without the non-member operators the probe unit C12_ops_tp reports the absence.
template <typename P, typename Q, typename D>
constexpr bool has_tp_ops = requires(P p, Q q, D d) {
    (p + d).time_since_epoch();
    (d + p).time_since_epoch();
    (p - d).time_since_epoch();
    (p - q).count();
};
template <typename F, typename T>
void arith_case(vf::Case& c)
{
    using ETF = ec::time_point<ec::system_clock, typename F::E>;
    using ETT = ec::time_point<ec::system_clock, typename T::E>;
    using STF = sc::time_point<sc::system_clock, typename F::S>;
    using STT = sc::time_point<sc::system_clock, typename T::S>;
    using ECD = etl::common_type_t<typename F::E, typename T::E>;
    using SCD = std::common_type_t<typename F::S, typename T::S>;
    using CR  = typename SCD::rep;
    char subj[96];
    std::snprintf(subj, sizeof subj, "time_point<%lld/%lld> (op) duration<%lld/%lld>", F::n, F::d, T::n, T::d);
    std::uint64_t const h0 = vf::fnv(subj);
    if constexpr (has_tp_ops<ETF, ETT, typename T::E>) {
        vf::crumb(subj, "decltype(tp+d), (d+tp), (tp-d), (tp-tp)", "type-level", "compile-time boolean");
        vf::cover("type-level", h0 + 1, true);
        bool const et = std::is_same_v<decltype(ETF{} + typename T::E{}), ec::time_point<ec::system_clock, ECD>> && std::is_same_v<decltype(typename T::E{} + ETF{}), ec::time_point<ec::system_clock, ECD>>
                     && std::is_same_v<decltype(ETF{} - typename T::E{}), ec::time_point<ec::system_clock, ECD>> && std::is_same_v<decltype(ETF{} - ETT{}), ECD>;
        bool const st = std::is_same_v<decltype(STF{} + typename T::S{}), sc::time_point<sc::system_clock, SCD>> && std::is_same_v<decltype(typename T::S{} + STF{}), sc::time_point<sc::system_clock, SCD>>
                     && std::is_same_v<decltype(STF{} - typename T::S{}), sc::time_point<sc::system_clock, SCD>> && std::is_same_v<decltype(STF{} - STT{}), SCD>;
        vf::eq_bool("value", et, st);
        // factors into the common type
        i128 const gn = gcd128(F::n, T::n), ld = (i128)F::d / gcd128(F::d, T::d) * T::d;
        i128 const f1 = ((i128)F::n / gn) * (ld / F::d), f2 = ((i128)T::n / gn) * (ld / T::d);
        auto fits = [](i128 v) { return v >= (i128)std::numeric_limits<CR>::min() && v <= (i128)std::numeric_limits<CR>::max(); };
        std::vector<long long> as, bs;
        int const N = c.tier == vf::Tier::thorough ? 120 : 40;
        for (int k = -N; k <= N; ++k) { as.push_back(k); }
        long long const big[] = {2147483647ll, -2147483647ll - 1, 1ll << 40, -(1ll << 40)};
        for (long long x : big) { as.push_back(x); }
        for (int i = 0; i < 16; ++i) { as.push_back(c.rng.range(-(1ll << 33), 1ll << 33)); }
        for (int k = -12; k <= 12; ++k) { bs.push_back(k); }
        bs.push_back(1000003);
        bs.push_back(-86399);
        for (int i = 0; i < 4; ++i) { bs.push_back(c.rng.range(-(1ll << 33), 1ll << 33)); }
        std::uint64_t n = 0;
        for (long long a : as) {
            for (long long b : bs) {
                using FR = typename F::rep;
                using TR = typename T::rep;
                if (a > (long long)std::numeric_limits<FR>::max() || a < (long long)std::numeric_limits<FR>::min() || b > (long long)std::numeric_limits<TR>::max()
                    || b < (long long)std::numeric_limits<TR>::min()) {
                    continue;
                }
                i128 const A = (i128)a * f1, B = (i128)b * f2;
                if (!fits(A) || !fits(B) || !fits(A + B) || !fits(A - B)) { continue; }
                char sit[96];
                std::snprintf(sit, sizeof sit, "tp-%s,d-%s", a < 0 ? "neg" : (a == 0 ? "zero" : "pos"), b < 0 ? "neg" : (b == 0 ? "zero" : "pos"));
                STF const sp{typename F::S{(FR)a}};
                ETF const ep{typename F::E{(FR)a}};
                typename T::S const sd{(TR)b};
                typename T::E const ed{(TR)b};
                long long const s1 = (sp + sd).time_since_epoch().count(), s2 = (sd + sp).time_since_epoch().count(), s3 = (sp - sd).time_since_epoch().count(),
                                s4 = (sp - STT{sd}).count();
                if ((i128)s1 != A + B || (i128)s2 != A + B || (i128)s3 != A - B || (i128)s4 != A - B) {
                    vf::crumb("oracle", "std-vs-exact", "tp arithmetic", "%s a=%lld b=%lld", subj, a, b);
                    vf::diverge("oracles-disagree", vf::to_s(s1), vf::to_s((long long)(A + B)));
                }
                vf::crumb(subj, "tp+d", sit, "tp=%lld d=%lld", a, b);
                vf::eq_int("count", (ep + ed).time_since_epoch().count(), s1);
                vf::crumb(subj, "d+tp", sit, "tp=%lld d=%lld", a, b);
                vf::eq_int("count", (ed + ep).time_since_epoch().count(), s2);
                vf::crumb(subj, "tp-d", sit, "tp=%lld d=%lld", a, b);
                vf::eq_int("count", (ep - ed).time_since_epoch().count(), s3);
                vf::crumb(subj, "tp-tp", sit, "tp=%lld d=%lld", a, b);
                vf::eq_int("count", (ep - ETT{ed}).count(), s4);
                ++n;
            }
        }
        vf::cover_bulk("tp+d, d+tp, tp-d, tp-tp", 4 * n, h0, n);
        if (vf::want_sample("tp-arith")) { vf::sample("tp-arith", "%s: %llu (tp, d) pairs x 4 operators", subj, (unsigned long long)n); }
    } else {
        vf::cover("tp-arith: operators not declared (see unit C12_ops_tp)", h0, true);
    }
}

// ---- sys_days +/- days: must stay a sys_days.  Without operator+(time_point, duration) the expression still compiles - through
// weekday's implicit constructor from sys_days - and yields a weekday, so this is written to compile either way.
template <typename X> long long day_number(X const& x)
{
    if constexpr (requires { x.time_since_epoch(); }) {
        return x.time_since_epoch().count();
    } else if constexpr (requires { x.c_encoding(); }) {
        return 1000000000ll + x.c_encoding(); // not a time_point at all
    } else {
        return x.count();
    }
}
template <typename X> void civil_of(X const& sum, sc::year_month_day const& sy)
{
    if constexpr (std::is_same_v<X, ec::sys_days>) { // (a weekday cannot be turned into a date; the type fact and day-number already fired)
        ec::year_month_day const ey{sum};
        vf::eq_int("year", int(ey.year()), int(sy.year()));
        vf::eq_int("month", unsigned(ey.month()), unsigned(sy.month()));
        vf::eq_int("day", unsigned(ey.day()), unsigned(sy.day()));
    }
}
void sys_days_case(vf::Case& c)
{
    char const* subj = "sys_days (op) days";
    vf::crumb(subj, "decltype(sys_days+days) is sys_days", "type-level", "compile-time boolean");
    vf::cover("type-level", 11, true);
    vf::eq_bool("value", std::is_same_v<decltype(ec::sys_days{} + ec::days{}), ec::sys_days>, std::is_same_v<decltype(sc::sys_days{} + sc::days{}), sc::sys_days>);
    vf::crumb(subj, "decltype(days+sys_days) is sys_days", "type-level", "compile-time boolean");
    vf::eq_bool("value", std::is_same_v<decltype(ec::days{} + ec::sys_days{}), ec::sys_days>, std::is_same_v<decltype(sc::days{} + sc::sys_days{}), sc::sys_days>);
    vf::crumb(subj, "decltype(sys_days-days) is sys_days", "type-level", "compile-time boolean");
    vf::eq_bool("value", std::is_same_v<decltype(ec::sys_days{} - ec::days{}), ec::sys_days>, std::is_same_v<decltype(sc::sys_days{} - sc::days{}), sc::sys_days>);
    vf::crumb(subj, "decltype(sys_days-sys_days) is days", "type-level", "compile-time boolean");
    vf::eq_bool("value", std::is_same_v<decltype(ec::sys_days{} - ec::sys_days{}), ec::days>, std::is_same_v<decltype(sc::sys_days{} - sc::sys_days{}), sc::days>);
    std::uint64_t n = 0;
    for (int d = -15000; d <= 25000; d += (c.tier == vf::Tier::thorough ? 97 : 997)) {
        for (int k = -40; k <= 40; k += 3) {
            ec::sys_days const ed{ec::days{d}};
            sc::sys_days const sd{sc::days{d}};
            char const* sit = k < 0 ? "days-neg" : (k == 0 ? "days-zero" : "days-pos");
            vf::crumb(subj, "sys_days+days", sit, "d=%d k=%d", d, k);
            vf::eq_int("day-number", day_number(ed + ec::days{k}), day_number(sd + sc::days{k}));
            vf::crumb(subj, "days+sys_days", sit, "d=%d k=%d", d, k);
            vf::eq_int("day-number", day_number(ec::days{k} + ed), day_number(sc::days{k} + sd));
            vf::crumb(subj, "sys_days-days", sit, "d=%d k=%d", d, k);
            vf::eq_int("day-number", day_number(ed - ec::days{k}), day_number(sd - sc::days{k}));
            vf::crumb(subj, "sys_days-sys_days", sit, "d=%d k=%d", d, k);
            vf::eq_int("days", day_number(ed - ec::sys_days{ec::days{k}}), day_number(sd - sc::sys_days{sc::days{k}}));
            // the calendar round trip through the sum: year_month_day{sys_days + days}
            vf::crumb(subj, "year_month_day{sys_days+days}", sit, "d=%d k=%d", d, k);
            sc::year_month_day const sy{sd + sc::days{k}};
            civil_of(ed + ec::days{k}, sy);
            ++n;
        }
    }
    vf::cover_bulk("sys_days (op) days", 5 * n, 4242, n);
}

using CaseFn = void (*)(vf::Case&);
template <typename F> void add_row(std::vector<CaseFn>& v)
{
    v.push_back(&pair_case<F, D0>);
    v.push_back(&pair_case<F, D1>);
    v.push_back(&pair_case<F, D2>);
    v.push_back(&pair_case<F, D3>);
    v.push_back(&pair_case<F, D4>);
    v.push_back(&pair_case<F, D5>);
    v.push_back(&pair_case<F, D6>);
    v.push_back(&arith_case<F, D0>);
    v.push_back(&arith_case<F, D1>);
    v.push_back(&arith_case<F, D2>);
    v.push_back(&arith_case<F, D3>);
    v.push_back(&arith_case<F, D4>);
    v.push_back(&arith_case<F, D5>);
    v.push_back(&arith_case<F, D6>);
}
std::vector<CaseFn> const& table()
{
    static std::vector<CaseFn> v = [] {
        std::vector<CaseFn> r;
        add_row<D0>(r);
        add_row<D1>(r);
        add_row<D2>(r);
        add_row<D3>(r);
        add_row<D4>(r);
        add_row<D5>(r);
        add_row<D6>(r);
        r.push_back(&sys_days_case);
        return r;
    }();
    return v;
}

vf::Spec spec(vf::Tier t)
{
    vf::Spec s;
    s.n_enum     = table().size();
    s.n_random   = t == vf::Tier::thorough ? 4 * table().size() : table().size();
    s.batch      = 1;
    s.exhaustive = true;
    return s;
}
void run_case(vf::Case& c) { table()[c.index % table().size()](c); }
} // namespace

VF_MAIN("C12", "C12_tp", spec, run_case)
