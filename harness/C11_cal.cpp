// C11 - calendar grids: ok() for every (year, month 0..13, day 0..32); is_leap / last day of month for every year;
// month x months, weekday x days, year x years, day x days modular arithmetic; year_month / year_month_day /
// year_month_day_last / year_month_weekday +/- months / years (carry into the year in both directions);
// operator/ builders.  Everything is compared with libstdc++ std::chrono (and, where a closed rule exists, with
// the independent calendar rules of vf_cal.hpp).                                       (DESIGN 4, C11)
//
// Only members that are *defined* on the unchanged tree are used here; the declared-but-undefined ones
// (year_month_day_last -> sys_days, year_month_weekday conversions / compound assignment, the whole of
// year_month_weekday_last) live in C11_conv.cpp so that they cannot take this unit down.
#include "vf.hpp"
#include "vf_contract.hpp"
#include "vf_cal.hpp"

#include <etl/chrono.hpp>

#include <chrono>
#include <climits>
#include <utility>

namespace {
namespace ec = etl::chrono;
namespace sc = std::chrono;

// ------------------------------------------------------------------ the two libraries behind one set of names
struct EN {
    using day = ec::day; using month = ec::month; using year = ec::year; using weekday = ec::weekday;
    using weekday_indexed = ec::weekday_indexed; using weekday_last = ec::weekday_last;
    using month_day = ec::month_day; using month_day_last = ec::month_day_last;
    using month_weekday = ec::month_weekday; using month_weekday_last = ec::month_weekday_last;
    using year_month = ec::year_month; using year_month_day = ec::year_month_day;
    using year_month_day_last = ec::year_month_day_last; using year_month_weekday = ec::year_month_weekday; using year_month_weekday_last = ec::year_month_weekday_last;
    using days = ec::days; using months = ec::months; using years = ec::years;
    using sys_days = ec::sys_days; using local_days = ec::local_days;
    static constexpr auto last() { return ec::last; }
};
struct SN {
    using day = sc::day; using month = sc::month; using year = sc::year; using weekday = sc::weekday;
    using weekday_indexed = sc::weekday_indexed; using weekday_last = sc::weekday_last;
    using month_day = sc::month_day; using month_day_last = sc::month_day_last;
    using month_weekday = sc::month_weekday; using month_weekday_last = sc::month_weekday_last;
    using year_month = sc::year_month; using year_month_day = sc::year_month_day;
    using year_month_day_last = sc::year_month_day_last; using year_month_weekday = sc::year_month_weekday; using year_month_weekday_last = sc::year_month_weekday_last;
    using days = sc::days; using months = sc::months; using years = sc::years;
    using sys_days = sc::sys_days; using local_days = sc::local_days;
    static constexpr auto last() { return sc::last; }
};

// an observed value: a short list of named integers
struct Val {
    int n = 0;
    long long v[8];
    char const* nm[8];
    Val& add(char const* name, long long x)
    {
        nm[n]  = name;
        v[n++] = x;
        return *this;
    }
};
std::string show(Val const& a)
{
    std::string s;
    for (int i = 0; i < a.n; ++i) { s += (i ? " " : ""); s += a.nm[i]; s += "="; s += std::to_string(a.v[i]); }
    return s;
}
void check(Val const& e, Val const& s)
{
    for (int i = 0; i < e.n && i < s.n; ++i) {
        if (e.v[i] != s.v[i]) {
            // symptom = first differing field with a classified delta (eq_int) ; obs/exp carry the whole value
            char sym[64];
            long long d = e.v[i] - s.v[i];
            if (d >= -2 && d <= 2) {
                std::snprintf(sym, sizeof sym, "%s:%+lld", e.nm[i], d);
            } else {
                std::snprintf(sym, sizeof sym, "%s:%s", e.nm[i], d > 0 ? "greater" : "less");
            }
            vf::diverge(sym, show(e), show(s));
            return;
        }
    }
}

template <typename T> Val v_day(T const& x) { return Val{}.add("day", unsigned(x)).add("ok", x.ok()); }
template <typename T> Val v_month(T const& x) { return Val{}.add("month", unsigned(x)).add("ok", x.ok()); }
template <typename T> Val v_year(T const& x) { return Val{}.add("year", int(x)).add("ok", x.ok()).add("is_leap", x.is_leap()); }
template <typename T> Val v_wd(T const& x) { return Val{}.add("c_encoding", x.c_encoding()).add("iso_encoding", x.iso_encoding()).add("ok", x.ok()); }
template <typename T> Val v_ym(T const& x) { return Val{}.add("year", int(x.year())).add("month", unsigned(x.month())).add("ok", x.ok()); }
template <typename T> Val v_ymd(T const& x)
{
    return Val{}.add("year", int(x.year())).add("month", unsigned(x.month())).add("day", unsigned(x.day())).add("ok", x.ok());
}
template <typename T> Val v_ymdl(T const& x)
{
    Val r;
    r.add("year", int(x.year())).add("month", unsigned(x.month())).add("ok", x.ok());
    if (x.month().ok()) { r.add("day", unsigned(x.day())); } // day() of a non-existing month is unspecified
    return r;
}
template <typename T> Val v_ymwd(T const& x)
{
    return Val{}.add("year", int(x.year())).add("month", unsigned(x.month())).add("weekday", x.weekday().c_encoding()).add("index", x.index()).add("ok", x.ok());
}

template <typename N> typename N::year_month mk_ym(int y, unsigned m) { return {typename N::year{y}, typename N::month{m}}; }
template <typename N> typename N::year_month_day mk_ymd(int y, unsigned m, unsigned d)
{
    return {typename N::year{y}, typename N::month{m}, typename N::day{d}};
}
template <typename N> typename N::year_month_day_last mk_ymdl(int y, unsigned m)
{
    return {typename N::year{y}, typename N::month_day_last{typename N::month{m}}};
}
template <typename N> typename N::year_month_weekday mk_ymwd(int y, unsigned m, unsigned wd, unsigned idx)
{
    return {typename N::year{y}, typename N::month{m}, typename N::weekday_indexed{typename N::weekday{wd}, idx}};
}

// ------------------------------------------------------------------ operations (one template, both libraries)
// A: a value maker, V: its observer
#define VF_ARITH_OPS(PFX, MK, OBS, ARGDECL, ARGUSE)                                                                    \
    template <typename N> Val PFX##_add_m(ARGDECL, long long k) { return OBS(MK<N>(ARGUSE) + typename N::months{(typename N::months::rep)k}); }      \
    template <typename N> Val PFX##_radd_m(ARGDECL, long long k) { return OBS(typename N::months{(typename N::months::rep)k} + MK<N>(ARGUSE)); }     \
    template <typename N> Val PFX##_sub_m(ARGDECL, long long k) { return OBS(MK<N>(ARGUSE) - typename N::months{(typename N::months::rep)k}); }      \
    template <typename N> Val PFX##_add_y(ARGDECL, long long k) { return OBS(MK<N>(ARGUSE) + typename N::years{(typename N::years::rep)k}); }        \
    template <typename N> Val PFX##_radd_y(ARGDECL, long long k) { return OBS(typename N::years{(typename N::years::rep)k} + MK<N>(ARGUSE)); }       \
    template <typename N> Val PFX##_sub_y(ARGDECL, long long k) { return OBS(MK<N>(ARGUSE) - typename N::years{(typename N::years::rep)k}); }        \
    template <typename N> Val PFX##_addeq_m(ARGDECL, long long k)                                                      \
    {                                                                                                                  \
        auto v  = MK<N>(ARGUSE);                                                                                       \
        auto&& r = (v += typename N::months{(typename N::months::rep)k});                                               \
        return OBS(v).add("returns-self", &r == &v);                                                                   \
    }                                                                                                                  \
    template <typename N> Val PFX##_subeq_m(ARGDECL, long long k)                                                      \
    {                                                                                                                  \
        auto v  = MK<N>(ARGUSE);                                                                                       \
        auto&& r = (v -= typename N::months{(typename N::months::rep)k});                                               \
        return OBS(v).add("returns-self", &r == &v);                                                                   \
    }                                                                                                                  \
    template <typename N> Val PFX##_addeq_y(ARGDECL, long long k)                                                      \
    {                                                                                                                  \
        auto v  = MK<N>(ARGUSE);                                                                                       \
        auto&& r = (v += typename N::years{(typename N::years::rep)k});                                                 \
        return OBS(v).add("returns-self", &r == &v);                                                                   \
    }                                                                                                                  \
    template <typename N> Val PFX##_subeq_y(ARGDECL, long long k)                                                      \
    {                                                                                                                  \
        auto v  = MK<N>(ARGUSE);                                                                                       \
        auto&& r = (v -= typename N::years{(typename N::years::rep)k});                                                 \
        return OBS(v).add("returns-self", &r == &v);                                                                   \
    }                                                                                                                  \
    /* chained use: the result of the compound assignment is the left operand of the next one; final state of v */    \
    template <typename N> Val PFX##_ch_addsub_m(ARGDECL, long long k)                                                  \
    {                                                                                                                  \
        auto v = MK<N>(ARGUSE);                                                                                        \
        (v += typename N::months{(typename N::months::rep)k}) -= typename N::months{(typename N::months::rep)k};       \
        return OBS(v);                                                                                                 \
    }                                                                                                                  \
    template <typename N> Val PFX##_ch_subadd_m(ARGDECL, long long k)                                                  \
    {                                                                                                                  \
        auto v = MK<N>(ARGUSE);                                                                                        \
        (v -= typename N::months{(typename N::months::rep)k}) += typename N::months{(typename N::months::rep)k};       \
        return OBS(v);                                                                                                 \
    }                                                                                                                  \
    template <typename N> Val PFX##_ch_addsub_y(ARGDECL, long long k)                                                  \
    {                                                                                                                  \
        auto v = MK<N>(ARGUSE);                                                                                        \
        (v += typename N::years{(typename N::years::rep)k}) -= typename N::years{(typename N::years::rep)k};           \
        return OBS(v);                                                                                                 \
    }                                                                                                                  \
    template <typename N> Val PFX##_ch_subadd_y(ARGDECL, long long k)                                                  \
    {                                                                                                                  \
        auto v = MK<N>(ARGUSE);                                                                                        \
        (v -= typename N::years{(typename N::years::rep)k}) += typename N::years{(typename N::years::rep)k};           \
        return OBS(v);                                                                                                 \
    }

#define COMMA ,
VF_ARITH_OPS(ym, mk_ym, v_ym, int y COMMA unsigned m, y COMMA m)
VF_ARITH_OPS(ymd, mk_ymd, v_ymd, int y COMMA unsigned m COMMA unsigned d, y COMMA m COMMA d)
VF_ARITH_OPS(ymdl, mk_ymdl, v_ymdl, int y COMMA unsigned m, y COMMA m)
// year_month_weekday: only the free operators are defined on the unchanged tree (compound assignment -> C11_conv)
template <typename N> Val ymwd_add_m(int y, unsigned m, unsigned wd, unsigned i, long long k) { return v_ymwd(mk_ymwd<N>(y, m, wd, i) + typename N::months{(typename N::months::rep)k}); }
template <typename N> Val ymwd_radd_m(int y, unsigned m, unsigned wd, unsigned i, long long k) { return v_ymwd(typename N::months{(typename N::months::rep)k} + mk_ymwd<N>(y, m, wd, i)); }
template <typename N> Val ymwd_sub_m(int y, unsigned m, unsigned wd, unsigned i, long long k) { return v_ymwd(mk_ymwd<N>(y, m, wd, i) - typename N::months{(typename N::months::rep)k}); }
template <typename N> Val ymwd_add_y(int y, unsigned m, unsigned wd, unsigned i, long long k) { return v_ymwd(mk_ymwd<N>(y, m, wd, i) + typename N::years{(typename N::years::rep)k}); }
template <typename N> Val ymwd_radd_y(int y, unsigned m, unsigned wd, unsigned i, long long k) { return v_ymwd(typename N::years{(typename N::years::rep)k} + mk_ymwd<N>(y, m, wd, i)); }
template <typename N> Val ymwd_sub_y(int y, unsigned m, unsigned wd, unsigned i, long long k) { return v_ymwd(mk_ymwd<N>(y, m, wd, i) - typename N::years{(typename N::years::rep)k}); }

// month
template <typename N> Val mo_add(unsigned m, long long k) { return v_month(typename N::month{m} + typename N::months{(typename N::months::rep)k}); }
template <typename N> Val mo_radd(unsigned m, long long k) { return v_month(typename N::months{(typename N::months::rep)k} + typename N::month{m}); }
template <typename N> Val mo_sub(unsigned m, long long k) { return v_month(typename N::month{m} - typename N::months{(typename N::months::rep)k}); }
template <typename N> Val mo_addeq(unsigned m, long long k)
{
    typename N::month v{m};
    auto&& r = (v += typename N::months{(typename N::months::rep)k});
    return v_month(v).add("returns-self", &r == &v);
}
template <typename N> Val mo_subeq(unsigned m, long long k)
{
    typename N::month v{m};
    auto&& r = (v -= typename N::months{(typename N::months::rep)k});
    return v_month(v).add("returns-self", &r == &v);
}
template <typename N> Val mo_preinc(unsigned m, long long) { typename N::month v{m}; auto&& r = ++v; return v_month(v).add("returns-self", &r == &v); }
template <typename N> Val mo_predec(unsigned m, long long) { typename N::month v{m}; auto&& r = --v; return v_month(v).add("returns-self", &r == &v); }
template <typename N> Val mo_postinc(unsigned m, long long) { typename N::month v{m}; auto old = v++; return v_month(v).add("returned", unsigned(old)); }
template <typename N> Val mo_postdec(unsigned m, long long) { typename N::month v{m}; auto old = v--; return v_month(v).add("returned", unsigned(old)); }
template <typename N> Val mo_diff(unsigned a, long long b) { return Val{}.add("months", (typename N::month{a} - typename N::month{(unsigned)b}).count()); }
template <typename N> Val mo_cmp(unsigned a, long long bb)
{
    typename N::month x{a}, y{(unsigned)bb};
    return Val{}.add("==", x == y).add("!=", x != y).add("<", x < y).add("<=", x <= y).add(">", x > y).add(">=", x >= y);
}

// weekday
template <typename N> Val wd_add(unsigned w, long long k) { return v_wd(typename N::weekday{w} + typename N::days{(typename N::days::rep)k}); }
template <typename N> Val wd_radd(unsigned w, long long k) { return v_wd(typename N::days{(typename N::days::rep)k} + typename N::weekday{w}); }
template <typename N> Val wd_sub(unsigned w, long long k) { return v_wd(typename N::weekday{w} - typename N::days{(typename N::days::rep)k}); }
template <typename N> Val wd_addeq(unsigned w, long long k)
{
    typename N::weekday v{w};
    auto&& r = (v += typename N::days{(typename N::days::rep)k});
    return v_wd(v).add("returns-self", &r == &v);
}
template <typename N> Val wd_subeq(unsigned w, long long k)
{
    typename N::weekday v{w};
    auto&& r = (v -= typename N::days{(typename N::days::rep)k});
    return v_wd(v).add("returns-self", &r == &v);
}
template <typename N> Val wd_preinc(unsigned w, long long) { typename N::weekday v{w}; auto&& r = ++v; return v_wd(v).add("returns-self", &r == &v); }
template <typename N> Val wd_predec(unsigned w, long long) { typename N::weekday v{w}; auto&& r = --v; return v_wd(v).add("returns-self", &r == &v); }
template <typename N> Val wd_postinc(unsigned w, long long) { typename N::weekday v{w}; auto old = v++; return v_wd(v).add("returned", old.c_encoding()); }
template <typename N> Val wd_postdec(unsigned w, long long) { typename N::weekday v{w}; auto old = v--; return v_wd(v).add("returned", old.c_encoding()); }
template <typename N> Val wd_diff(unsigned a, long long b) { return Val{}.add("days", (typename N::weekday{a} - typename N::weekday{(unsigned)b}).count()); }
template <typename N> Val wd_ctor(unsigned a, long long) { return v_wd(typename N::weekday{a}); }
template <typename N> Val wd_index(unsigned a, long long i)
{
    auto x = typename N::weekday{a}[(unsigned)i];
    return Val{}.add("weekday", x.weekday().c_encoding()).add("index", x.index()).add("ok", x.ok());
}
template <typename N> Val wd_last(unsigned a, long long)
{
    auto x = typename N::weekday{a}[N::last()];
    return Val{}.add("weekday", x.weekday().c_encoding()).add("ok", x.ok());
}
template <typename N> Val wd_eq(unsigned a, long long b)
{
    typename N::weekday x{a}, y{(unsigned)b};
    return Val{}.add("==", x == y).add("!=", x != y);
}

// year
template <typename N> Val yr_add(int y, long long k) { return v_year(typename N::year{y} + typename N::years{(typename N::years::rep)k}); }
template <typename N> Val yr_radd(int y, long long k) { return v_year(typename N::years{(typename N::years::rep)k} + typename N::year{y}); }
template <typename N> Val yr_sub(int y, long long k) { return v_year(typename N::year{y} - typename N::years{(typename N::years::rep)k}); }
template <typename N> Val yr_addeq(int y, long long k)
{
    typename N::year v{y};
    auto&& r = (v += typename N::years{(typename N::years::rep)k});
    return v_year(v).add("returns-self", &r == &v);
}
template <typename N> Val yr_subeq(int y, long long k)
{
    typename N::year v{y};
    auto&& r = (v -= typename N::years{(typename N::years::rep)k});
    return v_year(v).add("returns-self", &r == &v);
}
template <typename N> Val yr_preinc(int y, long long) { typename N::year v{y}; auto&& r = ++v; return v_year(v).add("returns-self", &r == &v); }
template <typename N> Val yr_predec(int y, long long) { typename N::year v{y}; auto&& r = --v; return v_year(v).add("returns-self", &r == &v); }
template <typename N> Val yr_postinc(int y, long long) { typename N::year v{y}; auto old = v++; return v_year(v).add("returned", int(old)); }
template <typename N> Val yr_postdec(int y, long long) { typename N::year v{y}; auto old = v--; return v_year(v).add("returned", int(old)); }
template <typename N> Val yr_neg(int y, long long) { return v_year(-typename N::year{y}); }
template <typename N> Val yr_pos(int y, long long) { return v_year(+typename N::year{y}); }
template <typename N> Val yr_diff(int a, long long b) { return Val{}.add("years", (typename N::year{a} - typename N::year{(int)b}).count()); }
template <typename N> Val yr_cmp(int a, long long bb)
{
    typename N::year x{a}, y{(int)bb};
    return Val{}.add("==", x == y).add("!=", x != y).add("<", x < y).add("<=", x <= y).add(">", x > y).add(">=", x >= y);
}
template <typename N> Val yr_minmax(int, long long) { return Val{}.add("min", int(N::year::min())).add("max", int(N::year::max())); }

// day
template <typename N> Val dy_add(unsigned d, long long k) { return v_day(typename N::day{d} + typename N::days{(typename N::days::rep)k}); }
template <typename N> Val dy_radd(unsigned d, long long k) { return v_day(typename N::days{(typename N::days::rep)k} + typename N::day{d}); }
template <typename N> Val dy_sub(unsigned d, long long k) { return v_day(typename N::day{d} - typename N::days{(typename N::days::rep)k}); }
template <typename N> Val dy_addeq(unsigned d, long long k)
{
    typename N::day v{d};
    auto&& r = (v += typename N::days{(typename N::days::rep)k});
    return v_day(v).add("returns-self", &r == &v);
}
template <typename N> Val dy_subeq(unsigned d, long long k)
{
    typename N::day v{d};
    auto&& r = (v -= typename N::days{(typename N::days::rep)k});
    return v_day(v).add("returns-self", &r == &v);
}
template <typename N> Val dy_preinc(unsigned d, long long) { typename N::day v{d}; auto&& r = ++v; return v_day(v).add("returns-self", &r == &v); }
template <typename N> Val dy_predec(unsigned d, long long) { typename N::day v{d}; auto&& r = --v; return v_day(v).add("returns-self", &r == &v); }
template <typename N> Val dy_postinc(unsigned d, long long) { typename N::day v{d}; auto old = v++; return v_day(v).add("returned", unsigned(old)); }
template <typename N> Val dy_postdec(unsigned d, long long) { typename N::day v{d}; auto old = v--; return v_day(v).add("returned", unsigned(old)); }
template <typename N> Val dy_diff(unsigned a, long long b) { return Val{}.add("days", (typename N::day{a} - typename N::day{(unsigned)b}).count()); }
template <typename N> Val dy_cmp(unsigned a, long long bb)
{
    typename N::day x{a}, y{(unsigned)bb};
    return Val{}.add("==", x == y).add("!=", x != y).add("<", x < y).add("<=", x <= y).add(">", x > y).add(">=", x >= y);
}

// chained uses of the compound / increment operators of the scalar calendar types (final state of the object)
template <typename N> Val mo_ch_addsub(unsigned a, long long k) { typename N::month v{a}; (v += typename N::months{(typename N::months::rep)k}) -= typename N::months{(typename N::months::rep)k}; return v_month(v); }
template <typename N> Val mo_ch_subadd(unsigned a, long long k) { typename N::month v{a}; (v -= typename N::months{(typename N::months::rep)k}) += typename N::months{(typename N::months::rep)k}; return v_month(v); }
template <typename N> Val mo_ch_incdec(unsigned a, long long) { typename N::month v{a}; --(++v); return v_month(v); }
template <typename N> Val mo_ch_decinc(unsigned a, long long) { typename N::month v{a}; ++(--v); return v_month(v); }
template <typename N> Val wd_ch_addsub(unsigned a, long long k) { typename N::weekday v{a}; (v += typename N::days{(typename N::days::rep)k}) -= typename N::days{(typename N::days::rep)k}; return v_wd(v); }
template <typename N> Val wd_ch_subadd(unsigned a, long long k) { typename N::weekday v{a}; (v -= typename N::days{(typename N::days::rep)k}) += typename N::days{(typename N::days::rep)k}; return v_wd(v); }
template <typename N> Val wd_ch_incdec(unsigned a, long long) { typename N::weekday v{a}; --(++v); return v_wd(v); }
template <typename N> Val wd_ch_decinc(unsigned a, long long) { typename N::weekday v{a}; ++(--v); return v_wd(v); }
template <typename N> Val yr_ch_addsub(int a, long long k) { typename N::year v{a}; (v += typename N::years{(typename N::years::rep)k}) -= typename N::years{(typename N::years::rep)k}; return v_year(v); }
template <typename N> Val yr_ch_subadd(int a, long long k) { typename N::year v{a}; (v -= typename N::years{(typename N::years::rep)k}) += typename N::years{(typename N::years::rep)k}; return v_year(v); }
template <typename N> Val yr_ch_incdec(int a, long long) { typename N::year v{a}; --(++v); return v_year(v); }
template <typename N> Val yr_ch_decinc(int a, long long) { typename N::year v{a}; ++(--v); return v_year(v); }
template <typename N> Val dy_ch_addsub(unsigned a, long long k) { typename N::day v{a}; (v += typename N::days{(typename N::days::rep)k}) -= typename N::days{(typename N::days::rep)k}; return v_day(v); }
template <typename N> Val dy_ch_subadd(unsigned a, long long k) { typename N::day v{a}; (v -= typename N::days{(typename N::days::rep)k}) += typename N::days{(typename N::days::rep)k}; return v_day(v); }
template <typename N> Val dy_ch_incdec(unsigned a, long long) { typename N::day v{a}; --(++v); return v_day(v); }
template <typename N> Val dy_ch_decinc(unsigned a, long long) { typename N::day v{a}; ++(--v); return v_day(v); }

// ------------------------------------------------------------------ the comparison step
// reference first, breadcrumb, tetl, account, compare
#define CMP(SUBJ, OP, SIT, HASH, FN, ARGSTR, ...)                                                                      \
    do {                                                                                                               \
        Val const s_ = FN<SN>(__VA_ARGS__);                                                                            \
        vf::crumb(SUBJ, OP, SIT, "%s", ARGSTR);                                                                        \
        Val const e_ = FN<EN>(__VA_ARGS__);                                                                            \
        vf::cover(SUBJ " " OP, (HASH), true);                                                                          \
        check(e_, s_);                                                                                                 \
    } while (0)

long long fdiv(long long a, long long b) { return a / b - ((a % b != 0) && ((a < 0) != (b < 0))); }

// situation of "civil month + k months": does the year change, and in which direction (model view)
char const* carry_sit(unsigned m, long long k)
{
    long long t  = (long long)m - 1 + k;
    long long dy = fdiv(t, 12);
    if (dy == 0) { return k >= 0 ? "dm>=0,same-year" : "dm<0,same-year"; }
    if (dy == 1) { return "dm>0,carry-into-next-year"; }
    if (dy > 1) { return "dm>0,carry-several-years"; }
    if (dy == -1) { return "dm<0,borrow-from-previous-year"; }
    return "dm<0,borrow-several-years";
}
bool year_in_range(long long y) { return y >= vfcal::kYearMin && y <= vfcal::kYearMax; }

std::vector<long long> month_deltas(bool wide)
{
    std::vector<long long> v;
    for (int k = -40; k <= 40; ++k) { v.push_back(k); }
    if (wide) {
        long long extra[] = {41, 47, 48, 49, 59, 60, 61, 119, 120, 121, 1199, 1200, 1201, 4799, 4800, 4801, 12000, 120007, 393203, 786407};
        for (long long e : extra) {
            v.push_back(e);
            v.push_back(-e);
        }
    }
    return v;
}

// ------------------------------------------------------------------ groups
std::vector<int> const& years_for(vf::Tier t)
{
    static std::vector<int> q, th;
    auto build = [](int stride) {
        std::vector<int> r = vfcal::boundary_years();
        for (int y = vfcal::kYearMin + 13; y <= vfcal::kYearMax; y += stride) { r.push_back(y); }
        return r;
    };
    if (q.empty()) {
        q  = build(1499);
        th = build(97);
    }
    return t == vf::Tier::thorough ? th : q;
}

constexpr unsigned kLeapChunk = 512;

constexpr unsigned kStoredCases = 18; // see g_stored
enum Group { G_OK, G_LEAP, G_MONTH, G_WEEKDAY, G_YEAR, G_DAY, G_YM, G_YMD, G_YMDL, G_YMWD, G_BUILD, G_STORED, G_N };
std::uint64_t group_size(Group g, vf::Tier t)
{
    std::uint64_t ny = years_for(t).size();
    switch (g) {
    case G_OK: return ny + 1; // + year -32768 (not ok)
    case G_LEAP: return 65536 / kLeapChunk;
    case G_MONTH: return 12;
    case G_WEEKDAY: return 7;
    case G_YEAR: return ny;
    case G_DAY: return 4;
    case G_YM: return ny;
    case G_YMD: return ny;
    case G_YMDL: return ny;
    case G_YMWD: return ny;
    case G_BUILD: return 1;
    case G_STORED: return kStoredCases;
    default: return 0;
    }
}

vf::Spec spec(vf::Tier t)
{
    vf::Spec s;
    for (int g = 0; g < G_N; ++g) { s.n_enum += group_size((Group)g, t); }
    s.n_random   = t == vf::Tier::thorough ? 4000 : 400;
    s.batch      = 8;
    s.timeout_s  = 300;
    s.exhaustive = true;
    return s;
}

// ---- G_OK : ok() of every (month 0..13, day 0..32) of one year + sys_days of every such triple with an ok month
void g_ok(int y)
{
    bool const yok = y != -32768;
    char args[96];
    for (unsigned m = 0; m <= 13; ++m) {
        unsigned const len = vfcal::month_len(yok ? y : 2001, m); // 0 for month 0/13
        for (unsigned d = 0; d <= 32; ++d) {
            bool const exists = yok && len != 0 && d >= 1 && d <= len;
            char const* sit   = !yok                   ? "year-not-ok"
                              : m == 0                 ? "month=0"
                              : m > 12                 ? "month>12"
                              : d == 0                 ? "day=0"
                              : (m == 2 && d == 29)    ? (exists ? "feb-29-leap-year" : "feb-29-common-year")
                              : d <= len               ? "date-exists"
                              : d == len + 1           ? "day=last+1"
                                                       : "day>last+1";
            std::snprintf(args, sizeof args, "y=%d m=%u d=%u", y, m, d);
            std::uint64_t h = vf::mix((std::uint64_t)(y + 40000), m * 64 + d);
            // oracle self-check: libstdc++ against the calendar rule
            bool const sok = mk_ymd<SN>(y, m, d).ok();
            if (sok != exists) {
                vf::crumb("oracle", "std-vs-rule", "any", "%s", args);
                vf::diverge("oracles-disagree", sok ? "std ok" : "std !ok", exists ? "exists" : "does not exist");
            }
            vf::crumb("year_month_day", "ok()", sit, "%s", args);
            bool const eok = mk_ymd<EN>(y, m, d).ok();
            vf::cover("year_month_day ok()", h, true);
            vf::eq_bool("ret", eok, exists);

            if (yok && m >= 1 && m <= 12) {
                // [time.cal.ymd.members]: ok() -> the date; else if year and month are ok -> sys_days{y/m/1} + (d - 1)
                long long const sdays = sc::sys_days{mk_ymd<SN>(y, m, d)}.time_since_epoch().count();
                long long const rule  = (long long)vfcal::days_of(y, m, 1) + (long long)d - 1;
                if (sdays != rule) {
                    vf::crumb("oracle", "std-vs-rule", "sys_days", "%s", args);
                    vf::diverge("oracles-disagree", vf::to_s(sdays), vf::to_s(rule));
                }
                vf::crumb("year_month_day", "operator sys_days", exists ? "date-exists" : (d == 0 ? "day=0 (ym/1 + (d-1))" : "day>last (ym/1 + (d-1))"),
                    "%s", args);
                ec::sys_days const esd = mk_ymd<EN>(y, m, d);
                vf::cover("year_month_day operator sys_days", h, true);
                vf::eq_int("days", esd.time_since_epoch().count(), sdays);
                // and back again: the civil date of that day number
                if (sdays >= vfcal::table().first_day() && sdays <= vfcal::table().last_day()) {
                    sc::year_month_day const sb{sc::sys_days{sc::days{sdays}}};
                    vf::crumb("year_month_day", "year_month_day(sys_days)", exists ? "date-exists" : "normalised-from-nonexistent", "%s", args);
                    ec::year_month_day const eb{ec::sys_days{ec::days{(ec::days::rep)sdays}}};
                    vf::cover("year_month_day year_month_day(sys_days)", h, true);
                    check(v_ymd(eb), v_ymd(sb));
                }
            }
            if (y == 2000 || y == 2001 || y == -32768) { // year-independent observers: once per kind of year is enough
                CMP("month_day", "ok()", sit, h, ([]<typename N>(unsigned mm, unsigned dd) {
                    return Val{}.add("ok", typename N::month_day{typename N::month{mm}, typename N::day{dd}}.ok());
                }).template operator(), args, m, d);
            }
        }
        std::snprintf(args, sizeof args, "y=%d m=%u", y, m);
        char const* msit = !yok ? "year-not-ok" : (m == 0 ? "month=0" : (m > 12 ? "month>12" : "month-ok"));
        std::uint64_t h  = vf::mix((std::uint64_t)(y + 40000), 7000 + m);
        CMP("year_month", "ok()", msit, h, ([]<typename N>(int yy, unsigned mm) { return Val{}.add("ok", mk_ym<N>(yy, mm).ok()); }).template operator(), args, y, m);
        CMP("year_month_day_last", "ok()", msit, h, ([]<typename N>(int yy, unsigned mm) { return Val{}.add("ok", mk_ymdl<N>(yy, mm).ok()); }).template operator(), args, y, m);
        CMP("month_day_last", "ok()", msit, h, ([]<typename N>(int, unsigned mm) {
            return Val{}.add("ok", typename N::month_day_last{typename N::month{mm}}.ok());
        }).template operator(), args, y, m);
        CMP("month", "ok()", msit, h, ([]<typename N>(int, unsigned mm) { return v_month(typename N::month{mm}); }).template operator(), args, y, m);
    }
    for (unsigned d = 0; d <= 40; ++d) {
        std::snprintf(args, sizeof args, "d=%u", d);
        CMP("day", "ok()", d == 0 ? "day=0" : (d <= 31 ? "1..31" : "day>31"), vf::mix(9000, d), ([]<typename N>(unsigned dd) { return v_day(typename N::day{dd}); }).template operator(), args, d);
    }
    // year_month_weekday::ok(): every (month 0..13, weekday 0..6, index 0..6) of this year
    if (yok) {
        for (unsigned m = 0; m <= 13; ++m) {
            for (unsigned wd = 0; wd <= 6; ++wd) {
                for (unsigned i = 0; i <= 6; ++i) {
                    std::snprintf(args, sizeof args, "y=%d m=%u wd=%u index=%u", y, m, wd, i);
                    bool const sok   = mk_ymwd<SN>(y, m, wd, i).ok();
                    char const* sit  = (m == 0 || m > 12) ? "month-not-ok" : (i == 0 ? "index=0" : (i <= 4 ? "index-1..4" : (i == 5 ? (sok ? "index=5,exists" : "index=5,does-not-exist") : "index>5")));
                    CMP("year_month_weekday", "ok()", sit, vf::mix((std::uint64_t)(y + 40000), 20000 + m * 64 + wd * 8 + i), ([]<typename N>(int yy, unsigned mm, unsigned w, unsigned ii) {
                        return Val{}.add("ok", mk_ymwd<N>(yy, mm, w, ii).ok());
                    }).template operator(), args, y, m, wd, i);
                }
            }
        }
    }
}

// ---- G_LEAP : is_leap / ok of every year, last day of every month of every year
void g_leap(unsigned chunk)
{
    char args[96];
    for (unsigned k = 0; k < kLeapChunk; ++k) {
        int const y = -32768 + (int)(chunk * kLeapChunk + k);
        std::snprintf(args, sizeof args, "y=%d", y);
        bool const rl    = vfcal::leap(y);
        char const* ysit = y == -32768 ? "year=-32768 (not ok)" : (rl ? (y % 400 == 0 ? "leap,divisible-by-400" : "leap") : (y % 100 == 0 ? "common,century" : "common"));
        if (sc::year{y}.is_leap() != rl) {
            vf::crumb("oracle", "std-vs-rule", "is_leap", "%s", args);
            vf::diverge("oracles-disagree", "std", "rule");
        }
        CMP("year", "is_leap()/ok()", ysit, (std::uint64_t)(y + 40000), ([]<typename N>(int yy) { return v_year(typename N::year{yy}); }).template operator(), args, y);
        if (y == -32768) { continue; }
        for (unsigned m = 1; m <= 12; ++m) {
            unsigned const len = vfcal::month_len(y, m);
            std::snprintf(args, sizeof args, "y=%d m=%u", y, m);
            char const* sit = m == 2 ? (rl ? "february-leap" : "february-common") : (len == 31 ? "31-day-month" : "30-day-month");
            std::uint64_t h = vf::mix((std::uint64_t)(y + 40000), m);
            if (unsigned(mk_ymdl<SN>(y, m).day()) != len) {
                vf::crumb("oracle", "std-vs-rule", "last-day", "%s", args);
                vf::diverge("oracles-disagree", "std", "rule");
            }
            CMP("year_month_day_last", "day()", sit, h, ([]<typename N>(int yy, unsigned mm) { return v_ymdl(mk_ymdl<N>(yy, mm)); }).template operator(), args, y, m);
            CMP("year_month_day", "year_month_day(year_month_day_last)", sit, h, ([]<typename N>(int yy, unsigned mm) {
                return v_ymd(typename N::year_month_day{mk_ymdl<N>(yy, mm)});
            }).template operator(), args, y, m);
            // the day after the last day does not exist, the last day does
            vf::crumb("year_month_day", "ok()", "day=last", "%s", args);
            vf::cover("year_month_day ok()", vf::mix(h, 1), true);
            vf::eq_bool("ret", mk_ymd<EN>(y, m, len).ok(), true);
            vf::crumb("year_month_day", "ok()", "day=last+1", "%s", args);
            vf::cover("year_month_day ok()", vf::mix(h, 2), true);
            vf::eq_bool("ret", mk_ymd<EN>(y, m, len + 1).ok(), false);
        }
    }
}

char const* delta_sit(long long k, long long small)
{
    if (k == 0) { return "delta=0"; }
    if (k > 0) { return k <= small ? "delta>0,small" : "delta>0,large"; }
    return -k <= small ? "delta<0,small" : "delta<0,large";
}

// ---- G_MONTH
void g_month(unsigned m, vf::Rng* rng)
{
    char args[96];
    std::vector<long long> ks;
    if (rng) {
        for (int i = 0; i < 64; ++i) { ks.push_back(rng->range(-1000000000ll, 1000000000ll)); }
        for (int i = 0; i < 16; ++i) { ks.push_back(rng->range(-5000, 5000)); }
    } else {
        for (int k = -40; k <= 40; ++k) { ks.push_back(k); }
        long long extra[] = {41, 47, 48, 49, 100, 119, 120, 121, 255, 256, 257, 1199, 1200, 1201, 65535, 65536, 1000000007ll, 2147483600ll};
        for (long long e : extra) {
            ks.push_back(e);
            ks.push_back(-e);
        }
    }
    for (long long k : ks) {
        std::snprintf(args, sizeof args, "m=%u dm=%lld", m, k);
        char sit[96];
        long long t = (long long)m - 1 + k;
        std::snprintf(sit, sizeof sit, "%s,%s", delta_sit(k, 40), (t >= 0 && t < 12) ? "no-wrap" : (t >= 12 ? "wraps-past-december" : "wraps-before-january"));
        char sitn[96]; // for m - months the wrap direction is the mirror image
        long long tn = (long long)m - 1 - k;
        std::snprintf(sitn, sizeof sitn, "%s,%s", delta_sit(k, 40), (tn >= 0 && tn < 12) ? "no-wrap" : (tn >= 12 ? "wraps-past-december" : "wraps-before-january"));
        std::uint64_t h = vf::mix(m, (std::uint64_t)k);
        CMP("month", "month+months", sit, h, mo_add, args, m, k);
        CMP("month", "months+month", sit, h, mo_radd, args, m, k);
        CMP("month", "month-months", sitn, h, mo_sub, args, m, k);
        CMP("month", "month+=months", sit, h, mo_addeq, args, m, k);
        CMP("month", "month-=months", sitn, h, mo_subeq, args, m, k);
        CMP("month", "(month+=months)-=months", sit, h, mo_ch_addsub, args, m, k);
        CMP("month", "(month-=months)+=months", sitn, h, mo_ch_subadd, args, m, k);
    }
    if (!rng) {
        std::snprintf(args, sizeof args, "m=%u", m);
        CMP("month", "++month", m == 12 ? "december" : "not-december", m, mo_preinc, args, m, 0);
        CMP("month", "month++", m == 12 ? "december" : "not-december", m, mo_postinc, args, m, 0);
        CMP("month", "--month", m == 1 ? "january" : "not-january", m, mo_predec, args, m, 0);
        CMP("month", "month--", m == 1 ? "january" : "not-january", m, mo_postdec, args, m, 0);
        CMP("month", "--(++month)", m == 12 ? "december" : "not-december", m, mo_ch_incdec, args, m, 0);
        CMP("month", "++(--month)", m == 1 ? "january" : "not-january", m, mo_ch_decinc, args, m, 0);
        for (unsigned b = 1; b <= 12; ++b) {
            std::snprintf(args, sizeof args, "a=%u b=%u", m, b);
            CMP("month", "month-month", m >= b ? "a>=b" : "a<b", vf::mix(m, b), mo_diff, args, m, (long long)b);
            CMP("month", "compare", m == b ? "a=b" : (m < b ? "a<b" : "a>b"), vf::mix(m, b), mo_cmp, args, m, (long long)b);
        }
    }
}

// ---- G_WEEKDAY
void g_weekday(unsigned w, vf::Rng* rng)
{
    char args[96];
    std::vector<long long> ks;
    if (rng) {
        for (int i = 0; i < 64; ++i) { ks.push_back(rng->range(-2147483647ll, 2147483647ll)); }
        for (int i = 0; i < 16; ++i) { ks.push_back(rng->range(-3000, 3000)); }
    } else {
        for (int k = -20; k <= 20; ++k) { ks.push_back(k); }
        long long extra[] = {21, 27, 28, 29, 100, 249, 250, 251, 252, 253, 254, 255, 256, 257, 258, 259, 260, 261, 262, 263, 365, 1000, 65535, 65536, 65537, 1000003, 2147483640ll, 2147483647ll};
        for (long long e : extra) {
            ks.push_back(e);
            ks.push_back(-e);
        }
        ks.push_back(-2147483648ll);
    }
    for (long long k : ks) {
        std::snprintf(args, sizeof args, "wd=%u days=%lld", w, k);
        char sit[96], sitn[96];
        long long t = (long long)w + k, tn = (long long)w - k;
        std::snprintf(sit, sizeof sit, "%s,%s", delta_sit(k, 20), (t >= 0 && t < 7) ? "no-wrap" : (t >= 7 ? "wraps-past-saturday" : "wraps-before-sunday"));
        std::snprintf(sitn, sizeof sitn, "%s,%s", delta_sit(k, 20), (tn >= 0 && tn < 7) ? "no-wrap" : (tn >= 7 ? "wraps-past-saturday" : "wraps-before-sunday"));
        std::uint64_t h = vf::mix(w + 100, (std::uint64_t)k);
        CMP("weekday", "weekday+days", sit, h, wd_add, args, w, k);
        CMP("weekday", "days+weekday", sit, h, wd_radd, args, w, k);
        CMP("weekday", "weekday+=days", sit, h, wd_addeq, args, w, k);
        if (k != -2147483648ll) { // x - y is defined as x + -y : -y must be representable in days::rep
            CMP("weekday", "weekday-days", sitn, h, wd_sub, args, w, k);
            CMP("weekday", "weekday-=days", sitn, h, wd_subeq, args, w, k);
            CMP("weekday", "(weekday+=days)-=days", sit, h, wd_ch_addsub, args, w, k);
            CMP("weekday", "(weekday-=days)+=days", sitn, h, wd_ch_subadd, args, w, k);
        }
    }
    if (!rng) {
        std::snprintf(args, sizeof args, "wd=%u", w);
        CMP("weekday", "++weekday", w == 6 ? "saturday" : "not-saturday", w, wd_preinc, args, w, 0);
        CMP("weekday", "weekday++", w == 6 ? "saturday" : "not-saturday", w, wd_postinc, args, w, 0);
        CMP("weekday", "--weekday", w == 0 ? "sunday" : "not-sunday", w, wd_predec, args, w, 0);
        CMP("weekday", "weekday--", w == 0 ? "sunday" : "not-sunday", w, wd_postdec, args, w, 0);
        CMP("weekday", "--(++weekday)", w == 6 ? "saturday" : "not-saturday", w, wd_ch_incdec, args, w, 0);
        CMP("weekday", "++(--weekday)", w == 0 ? "sunday" : "not-sunday", w, wd_ch_decinc, args, w, 0);
        CMP("weekday", "weekday(unsigned)", "0..6", w, wd_ctor, args, w, 0);
        CMP("weekday", "operator[](last)", "0..6", w, wd_last, args, w, 0);
        if (w == 0) {
            std::snprintf(args, sizeof args, "wd=7");
            CMP("weekday", "weekday(unsigned)", "7-means-sunday", 7, wd_ctor, args, 7u, 0);
            std::snprintf(args, sizeof args, "wd=8");
            CMP("weekday", "weekday(unsigned)", "8-not-ok", 8, wd_ctor, args, 8u, 0);
        }
        for (unsigned b = 0; b <= 6; ++b) {
            std::snprintf(args, sizeof args, "a=%u b=%u", w, b);
            CMP("weekday", "weekday-weekday", w >= b ? "a>=b" : "a<b", vf::mix(w, b), wd_diff, args, w, (long long)b);
            CMP("weekday", "compare", w == b ? "a=b" : "a!=b", vf::mix(w, b), wd_eq, args, w, (long long)b);
        }
        for (unsigned i = 0; i <= 6; ++i) {
            std::snprintf(args, sizeof args, "wd=%u index=%u", w, i);
            CMP("weekday", "operator[](index)", (i >= 1 && i <= 5) ? "index-1..5" : "index-outside-1..5", vf::mix(w, i), wd_index, args, w, (long long)i);
        }
    }
}

// ---- G_YEAR
void g_year(int y, vf::Rng* rng)
{
    char args[96];
    std::vector<long long> ks;
    if (rng) {
        for (int i = 0; i < 48; ++i) { ks.push_back(rng->range(-65534, 65534)); }
    } else {
        long long base[] = {0, 1, 2, 3, 4, 99, 100, 101, 400, 1970, 32766, 32767, 32768, 65533, 65534};
        for (long long b : base) {
            ks.push_back(b);
            if (b) { ks.push_back(-b); }
        }
        // deltas that land exactly on the range ends
        ks.push_back((long long)vfcal::kYearMax - y);
        ks.push_back((long long)vfcal::kYearMin - y);
    }
    for (long long k : ks) {
        std::snprintf(args, sizeof args, "y=%d dy=%lld", y, k);
        std::uint64_t h = vf::mix((std::uint64_t)(y + 40000), (std::uint64_t)k);
        long long up = (long long)y + k, dn = (long long)y - k;
        auto lsit = [](long long r, long long kk) {
            return r == vfcal::kYearMax ? "lands-on-max" : (r == vfcal::kYearMin ? "lands-on-min" : (kk == 0 ? "delta=0" : (kk > 0 ? "delta>0" : "delta<0")));
        };
        if (year_in_range(up)) {
            CMP("year", "year+years", lsit(up, k), h, yr_add, args, y, k);
            CMP("year", "years+year", lsit(up, k), h, yr_radd, args, y, k);
            CMP("year", "year+=years", lsit(up, k), h, yr_addeq, args, y, k);
            CMP("year", "(year+=years)-=years", lsit(up, k), h, yr_ch_addsub, args, y, k);
        }
        if (year_in_range(dn)) {
            CMP("year", "year-years", lsit(dn, k), h, yr_sub, args, y, k);
            CMP("year", "year-=years", lsit(dn, k), h, yr_subeq, args, y, k);
            CMP("year", "(year-=years)+=years", lsit(dn, k), h, yr_ch_subadd, args, y, k);
        }
        // year - year for another year reachable by that delta
        if (year_in_range(up)) {
            std::snprintf(args, sizeof args, "a=%d b=%lld", y, up);
            CMP("year", "year-year", y >= up ? "a>=b" : "a<b", h, yr_diff, args, y, up);
            CMP("year", "compare", y == up ? "a=b" : (y < up ? "a<b" : "a>b"), h, yr_cmp, args, y, up);
        }
    }
    if (!rng) {
        std::snprintf(args, sizeof args, "y=%d", y);
        std::uint64_t h = (std::uint64_t)(y + 40000);
        if (y < vfcal::kYearMax) {
            CMP("year", "++year", "below-max", h, yr_preinc, args, y, 0);
            CMP("year", "year++", "below-max", h, yr_postinc, args, y, 0);
            CMP("year", "--(++year)", "below-max", h, yr_ch_incdec, args, y, 0);
        }
        if (y > vfcal::kYearMin) {
            CMP("year", "--year", "above-min", h, yr_predec, args, y, 0);
            CMP("year", "year--", "above-min", h, yr_postdec, args, y, 0);
            CMP("year", "++(--year)", "above-min", h, yr_ch_decinc, args, y, 0);
        }
        CMP("year", "-year", y == 0 ? "zero" : (y > 0 ? "positive" : "negative"), h, yr_neg, args, y, 0);
        CMP("year", "+year", y == 0 ? "zero" : (y > 0 ? "positive" : "negative"), h, yr_pos, args, y, 0);
        CMP("year", "min()/max()", "static", 1, yr_minmax, args, y, 0);
    }
}

// ---- G_DAY  (results stay inside [0, 254]: 255 and beyond is not issued, see DESIGN C11)
void g_day(unsigned part)
{
    char args[96];
    for (unsigned d = part * 10; d < part * 10 + 10 && d <= 40; ++d) {
        for (long long k = -45; k <= 220; k += (k >= 45 ? 25 : 1)) {
            std::snprintf(args, sizeof args, "d=%u days=%lld", d, k);
            std::uint64_t h = vf::mix(d + 300, (std::uint64_t)k);
            long long up = (long long)d + k, dn = (long long)d - k;
            if (up >= 0 && up <= 254) {
                CMP("day", "day+days", delta_sit(k, 45), h, dy_add, args, d, k);
                CMP("day", "days+day", delta_sit(k, 45), h, dy_radd, args, d, k);
                CMP("day", "day+=days", delta_sit(k, 45), h, dy_addeq, args, d, k);
                CMP("day", "(day+=days)-=days", delta_sit(k, 45), h, dy_ch_addsub, args, d, k);
            }
            if (dn >= 0 && dn <= 254) {
                CMP("day", "day-days", delta_sit(k, 45), h, dy_sub, args, d, k);
                CMP("day", "day-=days", delta_sit(k, 45), h, dy_subeq, args, d, k);
                CMP("day", "(day-=days)+=days", delta_sit(k, 45), h, dy_ch_subadd, args, d, k);
            }
        }
        std::snprintf(args, sizeof args, "d=%u", d);
        CMP("day", "++day", "any", d, dy_preinc, args, d, 0);
        CMP("day", "day++", "any", d, dy_postinc, args, d, 0);
        CMP("day", "--(++day)", "any", d, dy_ch_incdec, args, d, 0);
        if (d > 0) {
            CMP("day", "--day", "above-zero", d, dy_predec, args, d, 0);
            CMP("day", "day--", "above-zero", d, dy_postdec, args, d, 0);
            CMP("day", "++(--day)", "above-zero", d, dy_ch_decinc, args, d, 0);
        }
        for (unsigned b = 0; b <= 33; ++b) {
            std::snprintf(args, sizeof args, "a=%u b=%u", d, b);
            CMP("day", "day-day", d >= b ? "a>=b" : "a<b", vf::mix(d, b), dy_diff, args, d, (long long)b);
            CMP("day", "compare", d == b ? "a=b" : (d < b ? "a<b" : "a>b"), vf::mix(d, b), dy_cmp, args, d, (long long)b);
        }
    }
}

// ---- composite types +/- months / years
std::vector<long long> year_deltas(int y)
{
    std::vector<long long> v = {0, 1, -1, 3, -3, 4, -4, 100, -100, 400, -400, 32767, -32767};
    v.push_back((long long)vfcal::kYearMax - y);
    v.push_back((long long)vfcal::kYearMin - y);
    return v;
}

template <typename F>
void for_month_deltas(int y, std::vector<long long> const& ks, F f)
{
    for (unsigned m = 1; m <= 12; ++m) {
        for (long long k : ks) { f(m, k); }
    }
}

void g_ym(int y, std::vector<long long> const& ks, std::vector<long long> const& yks)
{
    char args[96];
    for (unsigned m = 1; m <= 12; ++m) {
        for (long long k : ks) {
            std::snprintf(args, sizeof args, "y=%d m=%u dm=%lld", y, m, k);
            std::uint64_t h = vf::mix(vf::mix((std::uint64_t)(y + 40000), m), (std::uint64_t)k);
            if (year_in_range((long long)y + fdiv((long long)m - 1 + k, 12))) {
                CMP("year_month", "ym+months", carry_sit(m, k), h, ym_add_m, args, y, m, k);
                CMP("year_month", "months+ym", carry_sit(m, k), h, ym_radd_m, args, y, m, k);
                CMP("year_month", "ym+=months", carry_sit(m, k), h, ym_addeq_m, args, y, m, k);
                CMP("year_month", "(ym+=months)-=months", carry_sit(m, k), h, ym_ch_addsub_m, args, y, m, k);
            }
            if (year_in_range((long long)y + fdiv((long long)m - 1 - k, 12))) {
                CMP("year_month", "ym-months", carry_sit(m, -k), h, ym_sub_m, args, y, m, k);
                CMP("year_month", "ym-=months", carry_sit(m, -k), h, ym_subeq_m, args, y, m, k);
                CMP("year_month", "(ym-=months)+=months", carry_sit(m, -k), h, ym_ch_subadd_m, args, y, m, k);
            }
        }
        for (long long k : yks) {
            std::snprintf(args, sizeof args, "y=%d m=%u dy=%lld", y, m, k);
            std::uint64_t h = vf::mix(vf::mix((std::uint64_t)(y + 40000), m + 50), (std::uint64_t)k);
            if (year_in_range((long long)y + k)) {
                CMP("year_month", "ym+years", delta_sit(k, 4), h, ym_add_y, args, y, m, k);
                CMP("year_month", "years+ym", delta_sit(k, 4), h, ym_radd_y, args, y, m, k);
                CMP("year_month", "ym+=years", delta_sit(k, 4), h, ym_addeq_y, args, y, m, k);
                CMP("year_month", "(ym+=years)-=years", delta_sit(k, 4), h, ym_ch_addsub_y, args, y, m, k);
            }
            if (year_in_range((long long)y - k)) {
                CMP("year_month", "ym-years", delta_sit(k, 4), h, ym_sub_y, args, y, m, k);
                CMP("year_month", "ym-=years", delta_sit(k, 4), h, ym_subeq_y, args, y, m, k);
                CMP("year_month", "(ym-=years)+=years", delta_sit(k, 4), h, ym_ch_subadd_y, args, y, m, k);
            }
        }
    }
}

void g_ymd(int y, std::vector<long long> const& ks, std::vector<long long> const& yks)
{
    char args[96];
    unsigned const dayset[] = {1, 28, 29, 30, 31};
    for (unsigned m = 1; m <= 12; ++m) {
        for (unsigned d : dayset) {
            for (long long k : ks) {
                std::snprintf(args, sizeof args, "y=%d m=%u d=%u dm=%lld", y, m, d, k);
                std::uint64_t h = vf::mix(vf::mix((std::uint64_t)(y + 40000), m * 40 + d), (std::uint64_t)k);
                if (year_in_range((long long)y + fdiv((long long)m - 1 + k, 12))) {
                    CMP("year_month_day", "ymd+months", carry_sit(m, k), h, ymd_add_m, args, y, m, d, k);
                    CMP("year_month_day", "months+ymd", carry_sit(m, k), h, ymd_radd_m, args, y, m, d, k);
                    CMP("year_month_day", "ymd+=months", carry_sit(m, k), h, ymd_addeq_m, args, y, m, d, k);
                    CMP("year_month_day", "(ymd+=months)-=months", carry_sit(m, k), h, ymd_ch_addsub_m, args, y, m, d, k);
                }
                if (year_in_range((long long)y + fdiv((long long)m - 1 - k, 12))) {
                    CMP("year_month_day", "ymd-months", carry_sit(m, -k), h, ymd_sub_m, args, y, m, d, k);
                    CMP("year_month_day", "ymd-=months", carry_sit(m, -k), h, ymd_subeq_m, args, y, m, d, k);
                    CMP("year_month_day", "(ymd-=months)+=months", carry_sit(m, -k), h, ymd_ch_subadd_m, args, y, m, d, k);
                }
            }
            for (long long k : yks) {
                std::snprintf(args, sizeof args, "y=%d m=%u d=%u dy=%lld", y, m, d, k);
                std::uint64_t h = vf::mix(vf::mix((std::uint64_t)(y + 40000), m * 40 + d + 1000), (std::uint64_t)k);
                char const* sit = (m == 2 && d == 29) ? (k == 0 ? "feb-29,delta=0" : "feb-29,delta!=0") : delta_sit(k, 4);
                if (year_in_range((long long)y + k)) {
                    CMP("year_month_day", "ymd+years", sit, h, ymd_add_y, args, y, m, d, k);
                    CMP("year_month_day", "years+ymd", sit, h, ymd_radd_y, args, y, m, d, k);
                    CMP("year_month_day", "ymd+=years", sit, h, ymd_addeq_y, args, y, m, d, k);
                    CMP("year_month_day", "(ymd+=years)-=years", sit, h, ymd_ch_addsub_y, args, y, m, d, k);
                }
                if (year_in_range((long long)y - k)) {
                    CMP("year_month_day", "ymd-years", sit, h, ymd_sub_y, args, y, m, d, k);
                    CMP("year_month_day", "ymd-=years", sit, h, ymd_subeq_y, args, y, m, d, k);
                    CMP("year_month_day", "(ymd-=years)+=years", sit, h, ymd_ch_subadd_y, args, y, m, d, k);
                }
            }
        }
    }
}

void g_ymdl(int y, std::vector<long long> const& ks, std::vector<long long> const& yks)
{
    char args[96];
    for (unsigned m = 1; m <= 12; ++m) {
        for (long long k : ks) {
            std::snprintf(args, sizeof args, "y=%d m=%u dm=%lld", y, m, k);
            std::uint64_t h = vf::mix(vf::mix((std::uint64_t)(y + 40000), m), (std::uint64_t)k);
            if (year_in_range((long long)y + fdiv((long long)m - 1 + k, 12))) {
                CMP("year_month_day_last", "ymdl+months", carry_sit(m, k), h, ymdl_add_m, args, y, m, k);
                CMP("year_month_day_last", "months+ymdl", carry_sit(m, k), h, ymdl_radd_m, args, y, m, k);
                CMP("year_month_day_last", "ymdl+=months", carry_sit(m, k), h, ymdl_addeq_m, args, y, m, k);
                CMP("year_month_day_last", "(ymdl+=months)-=months", carry_sit(m, k), h, ymdl_ch_addsub_m, args, y, m, k);
            }
            if (year_in_range((long long)y + fdiv((long long)m - 1 - k, 12))) {
                CMP("year_month_day_last", "ymdl-months", carry_sit(m, -k), h, ymdl_sub_m, args, y, m, k);
                CMP("year_month_day_last", "ymdl-=months", carry_sit(m, -k), h, ymdl_subeq_m, args, y, m, k);
                CMP("year_month_day_last", "(ymdl-=months)+=months", carry_sit(m, -k), h, ymdl_ch_subadd_m, args, y, m, k);
            }
        }
        for (long long k : yks) {
            std::snprintf(args, sizeof args, "y=%d m=%u dy=%lld", y, m, k);
            std::uint64_t h = vf::mix(vf::mix((std::uint64_t)(y + 40000), m + 50), (std::uint64_t)k);
            char const* sit = m == 2 ? (k == 0 ? "february,delta=0" : "february,delta!=0") : delta_sit(k, 4);
            if (year_in_range((long long)y + k)) {
                CMP("year_month_day_last", "ymdl+years", sit, h, ymdl_add_y, args, y, m, k);
                CMP("year_month_day_last", "years+ymdl", sit, h, ymdl_radd_y, args, y, m, k);
                CMP("year_month_day_last", "ymdl+=years", sit, h, ymdl_addeq_y, args, y, m, k);
                CMP("year_month_day_last", "(ymdl+=years)-=years", sit, h, ymdl_ch_addsub_y, args, y, m, k);
            }
            if (year_in_range((long long)y - k)) {
                CMP("year_month_day_last", "ymdl-years", sit, h, ymdl_sub_y, args, y, m, k);
                CMP("year_month_day_last", "ymdl-=years", sit, h, ymdl_subeq_y, args, y, m, k);
                CMP("year_month_day_last", "(ymdl-=years)+=years", sit, h, ymdl_ch_subadd_y, args, y, m, k);
            }
        }
    }
}

void g_ymwd(int y, std::vector<long long> const& ks, std::vector<long long> const& yks)
{
    char args[96];
    struct WI { unsigned wd, i; };
    WI const wis[] = {{0, 1}, {3, 5}, {6, 4}};
    for (unsigned m = 1; m <= 12; ++m) {
        for (WI wi : wis) {
            for (long long k : ks) {
                std::snprintf(args, sizeof args, "y=%d m=%u wd=%u[%u] dm=%lld", y, m, wi.wd, wi.i, k);
                std::uint64_t h = vf::mix(vf::mix((std::uint64_t)(y + 40000), m * 64 + wi.wd * 8 + wi.i), (std::uint64_t)k);
                if (year_in_range((long long)y + fdiv((long long)m - 1 + k, 12))) {
                    CMP("year_month_weekday", "ymwd+months", carry_sit(m, k), h, ymwd_add_m, args, y, m, wi.wd, wi.i, k);
                    CMP("year_month_weekday", "months+ymwd", carry_sit(m, k), h, ymwd_radd_m, args, y, m, wi.wd, wi.i, k);
                }
                if (year_in_range((long long)y + fdiv((long long)m - 1 - k, 12))) {
                    CMP("year_month_weekday", "ymwd-months", carry_sit(m, -k), h, ymwd_sub_m, args, y, m, wi.wd, wi.i, k);
                }
            }
            for (long long k : yks) {
                std::snprintf(args, sizeof args, "y=%d m=%u wd=%u[%u] dy=%lld", y, m, wi.wd, wi.i, k);
                std::uint64_t h = vf::mix(vf::mix((std::uint64_t)(y + 40000), m * 64 + wi.wd * 8 + wi.i + 5000), (std::uint64_t)k);
                if (year_in_range((long long)y + k)) {
                    CMP("year_month_weekday", "ymwd+years", delta_sit(k, 4), h, ymwd_add_y, args, y, m, wi.wd, wi.i, k);
                    CMP("year_month_weekday", "years+ymwd", delta_sit(k, 4), h, ymwd_radd_y, args, y, m, wi.wd, wi.i, k);
                }
                if (year_in_range((long long)y - k)) {
                    CMP("year_month_weekday", "ymwd-years", delta_sit(k, 4), h, ymwd_sub_y, args, y, m, wi.wd, wi.i, k);
                }
            }
        }
    }
}

// ---- G_STORED : the standard defines month / weekday / day arithmetic for EVERY stored value of the unsigned field, not only ok() ones:
//   month + months  = month{modulo((long long)unsigned{x} + (y.count() - 1), 12) + 1}          [time.cal.month.nonmembers]
//   weekday + days  = weekday{modulo((long long)c_encoding + y.count(), 7)}                      [time.cal.wd.nonmembers]
//   day + days      = day{unsigned{x} + y.count()}  (specified while the result stays in [0, 255])  [time.cal.day.nonmembers]
//   year_month (+ day, _last, _weekday) + months : the z with z.ok() && z - ym == dm - which exists for a not-ok month as well.
// Sweep: every stored value 0..255 (weekday: as constructible, 7 becomes 0) x deltas {0, +-1, +-11, +-12, +-13, +-255, +-256, large},
// both operand orders, the compound forms, ++/--, and the chained forms.  `month - month` and `weekday - weekday` are NOT issued for
// not-ok operands (unspecified by the standard); `day - day` is specified for all values.
// Cases: 0..3 month 0..254 (64 values each), 4..7 weekday, 8..11 day, 12..15 composites (by month chunk), 16: month 255, 17: day 255 -
// 255 in cases of its own: a precondition that rejects it must not hide the other values.
char const* stored_sit(char const* field_ok, long long k) { (void)field_ok; return k == 0 ? "delta=0" : (k > 0 ? "delta>0" : "delta<0"); }
void month_stored(unsigned m, std::vector<long long> const& ks)
{
    char args[96], sit[96];
    char const* cls = m == 0 ? "stored=0" : (m <= 12 ? "stored-ok" : (m == 255 ? "stored=255" : "stored-13..254"));
    for (long long k : ks) {
        std::snprintf(args, sizeof args, "m=%u dm=%lld", m, k);
        std::snprintf(sit, sizeof sit, "%s,%s", cls, stored_sit(cls, k));
        std::uint64_t h = vf::mix(m + 7000, (std::uint64_t)k);
        CMP("month", "month+months", sit, h, mo_add, args, m, k);
        CMP("month", "months+month", sit, h, mo_radd, args, m, k);
        CMP("month", "month-months", sit, h, mo_sub, args, m, k);
        CMP("month", "month+=months", sit, h, mo_addeq, args, m, k);
        CMP("month", "month-=months", sit, h, mo_subeq, args, m, k);
        CMP("month", "(month+=months)-=months", sit, h, mo_ch_addsub, args, m, k);
        CMP("month", "(month-=months)+=months", sit, h, mo_ch_subadd, args, m, k);
    }
    std::snprintf(args, sizeof args, "m=%u", m);
    CMP("month", "++month", cls, m + 7000, mo_preinc, args, m, 0);
    CMP("month", "month++", cls, m + 7000, mo_postinc, args, m, 0);
    CMP("month", "--month", cls, m + 7000, mo_predec, args, m, 0);
    CMP("month", "month--", cls, m + 7000, mo_postdec, args, m, 0);
    CMP("month", "ok()/unsigned", cls, m + 7000, ([]<typename N>(unsigned mm, long long) { return v_month(typename N::month{mm}); }).template operator(), args, m, 0);
}
void weekday_stored(unsigned w, std::vector<long long> const& ks)
{
    char args[96], sit[96];
    char const* cls = w <= 6 ? "stored-ok" : (w == 7 ? "constructed-from-7" : (w == 255 ? "stored=255" : "stored-8..254"));
    for (long long k : ks) {
        std::snprintf(args, sizeof args, "wd=%u days=%lld", w, k);
        std::snprintf(sit, sizeof sit, "%s,%s", cls, stored_sit(cls, k));
        std::uint64_t h = vf::mix(w + 8000, (std::uint64_t)k);
        CMP("weekday", "weekday+days", sit, h, wd_add, args, w, k);
        CMP("weekday", "days+weekday", sit, h, wd_radd, args, w, k);
        CMP("weekday", "weekday-days", sit, h, wd_sub, args, w, k);
        CMP("weekday", "weekday+=days", sit, h, wd_addeq, args, w, k);
        CMP("weekday", "weekday-=days", sit, h, wd_subeq, args, w, k);
        CMP("weekday", "(weekday+=days)-=days", sit, h, wd_ch_addsub, args, w, k);
        CMP("weekday", "(weekday-=days)+=days", sit, h, wd_ch_subadd, args, w, k);
    }
    std::snprintf(args, sizeof args, "wd=%u", w);
    CMP("weekday", "++weekday", cls, w + 8000, wd_preinc, args, w, 0);
    CMP("weekday", "weekday++", cls, w + 8000, wd_postinc, args, w, 0);
    CMP("weekday", "--weekday", cls, w + 8000, wd_predec, args, w, 0);
    CMP("weekday", "weekday--", cls, w + 8000, wd_postdec, args, w, 0);
    CMP("weekday", "weekday(unsigned)", cls, w + 8000, wd_ctor, args, w, 0);
}
void day_stored(unsigned d, std::vector<long long> const& ks, bool only255)
{
    char args[96], sit[96];
    char const* cls = d == 0 ? "stored=0" : (d <= 31 ? "stored-ok" : (d == 255 ? "stored=255" : "stored-32..254"));
    for (long long k : ks) {
        long long const up = (long long)d + k, dn = (long long)d - k;
        std::snprintf(args, sizeof args, "d=%u days=%lld", d, k);
        std::uint64_t h = vf::mix(d + 9000, (std::uint64_t)k);
        // results outside [0, 255] are unspecified; a result of exactly 255 goes to the 255 case
        if (up >= 0 && up <= 255 && ((up == 255 || d == 255) == only255)) {
            std::snprintf(sit, sizeof sit, "%s,%s%s", cls, stored_sit(cls, k), up == 255 ? ",result=255" : "");
            CMP("day", "day+days", sit, h, dy_add, args, d, k);
            CMP("day", "days+day", sit, h, dy_radd, args, d, k);
            CMP("day", "day+=days", sit, h, dy_addeq, args, d, k);
            CMP("day", "(day+=days)-=days", sit, h, dy_ch_addsub, args, d, k);
        }
        if (dn >= 0 && dn <= 255 && ((dn == 255 || d == 255) == only255)) {
            std::snprintf(sit, sizeof sit, "%s,%s%s", cls, stored_sit(cls, k), dn == 255 ? ",result=255" : "");
            CMP("day", "day-days", sit, h, dy_sub, args, d, k);
            CMP("day", "day-=days", sit, h, dy_subeq, args, d, k);
            CMP("day", "(day-=days)+=days", sit, h, dy_ch_subadd, args, d, k);
        }
    }
    if (only255 && d == 254) { // ++ landing exactly on 255
        std::snprintf(args, sizeof args, "d=%u", d);
        CMP("day", "++day", "stored-32..254,result=255", d + 9000, dy_preinc, args, d, 0);
        CMP("day", "day++", "stored-32..254,result=255", d + 9000, dy_postinc, args, d, 0);
    }
    if ((d == 255) != only255) { return; }
    std::snprintf(args, sizeof args, "d=%u", d);
    if (d < 254) {
        CMP("day", "++day", cls, d + 9000, dy_preinc, args, d, 0);
        CMP("day", "day++", cls, d + 9000, dy_postinc, args, d, 0);
    }
    if (d > 0) {
        CMP("day", "--day", cls, d + 9000, dy_predec, args, d, 0);
        CMP("day", "day--", cls, d + 9000, dy_postdec, args, d, 0);
    }
    CMP("day", "ok()/unsigned", cls, d + 9000, ([]<typename N>(unsigned dd, long long) { return v_day(typename N::day{dd}); }).template operator(), args, d, 0);
    unsigned const others[] = {0, 1, 31, 32, 128, 254};
    for (unsigned b : others) { // day - day is specified for every pair of stored values
        std::snprintf(args, sizeof args, "a=%u b=%u", d, b);
        CMP("day", "day-day", d >= b ? "a>=b" : "a<b", vf::mix(d + 9000, b), dy_diff, args, d, (long long)b);
        CMP("day", "compare", d == b ? "a=b" : (d < b ? "a<b" : "a>b"), vf::mix(d + 9000, b), dy_cmp, args, d, (long long)b);
    }
}
void composite_stored(unsigned m, std::vector<long long> const& ks)
{
    char args[96], sit[96];
    char const* cls = m == 0 ? "month-stored=0" : (m <= 12 ? "month-ok" : (m == 255 ? "month-stored=255" : "month-stored-13..254"));
    int const years[] = {-4, 1970, 2024};
    for (int y : years) {
        for (long long k : ks) {
            if (k > 100000 || k < -100000) { continue; } // keep the carried year inside [-32767, 32767]
            std::snprintf(args, sizeof args, "y=%d m=%u dm=%lld", y, m, k);
            std::snprintf(sit, sizeof sit, "%s,%s", cls, stored_sit(cls, k));
            std::uint64_t h = vf::mix(vf::mix((std::uint64_t)(y + 40000), m + 11000), (std::uint64_t)k);
            CMP("year_month", "ym+months", sit, h, ym_add_m, args, y, m, k);
            CMP("year_month", "months+ym", sit, h, ym_radd_m, args, y, m, k);
            CMP("year_month", "ym-months", sit, h, ym_sub_m, args, y, m, k);
            CMP("year_month", "ym+=months", sit, h, ym_addeq_m, args, y, m, k);
            CMP("year_month", "ym-=months", sit, h, ym_subeq_m, args, y, m, k);
            CMP("year_month_day", "ymd+months", sit, h, ymd_add_m, args, y, m, 31u, k);
            CMP("year_month_day", "ymd-months", sit, h, ymd_sub_m, args, y, m, 31u, k);
            CMP("year_month_day", "ymd+=months", sit, h, ymd_addeq_m, args, y, m, 0u, k);
            CMP("year_month_day", "ymd-=months", sit, h, ymd_subeq_m, args, y, m, 254u, k);
            CMP("year_month_day_last", "ymdl+months", sit, h, ymdl_add_m, args, y, m, k);
            CMP("year_month_day_last", "ymdl-months", sit, h, ymdl_sub_m, args, y, m, k);
            CMP("year_month_day_last", "ymdl+=months", sit, h, ymdl_addeq_m, args, y, m, k);
            CMP("year_month_day_last", "ymdl-=months", sit, h, ymdl_subeq_m, args, y, m, k);
            CMP("year_month_weekday", "ymwd+months", sit, h, ymwd_add_m, args, y, m, 3u, 2u, k);
            CMP("year_month_weekday", "months+ymwd", sit, h, ymwd_radd_m, args, y, m, 3u, 2u, k);
            CMP("year_month_weekday", "ymwd-months", sit, h, ymwd_sub_m, args, y, m, 3u, 2u, k);
        }
        long long const yks[] = {0, 1, -1, 400};
        for (long long k : yks) { // + years leaves a not-ok month untouched
            std::snprintf(args, sizeof args, "y=%d m=%u dy=%lld", y, m, k);
            std::snprintf(sit, sizeof sit, "%s,%s", cls, stored_sit(cls, k));
            std::uint64_t h = vf::mix(vf::mix((std::uint64_t)(y + 40000), m + 12000), (std::uint64_t)k);
            CMP("year_month", "ym+years", sit, h, ym_add_y, args, y, m, k);
            CMP("year_month", "ym-=years", sit, h, ym_subeq_y, args, y, m, k);
            CMP("year_month_day", "ymd+years", sit, h, ymd_add_y, args, y, m, 29u, k);
            CMP("year_month_day_last", "ymdl+=years", sit, h, ymdl_addeq_y, args, y, m, k);
            CMP("year_month_weekday", "ymwd+years", sit, h, ymwd_add_y, args, y, m, 3u, 2u, k);
        }
    }
}
std::vector<long long> stored_deltas(bool for_days, vf::Rng* rng)
{
    std::vector<long long> ks = {0, 1, -1, 2, -2, 6, -6, 7, -7, 11, -11, 12, -12, 13, -13, 24, -24, 254, -254, 255, -255, 256, -256, 1000003, -1000003};
    ks.push_back(for_days ? 2147483647ll : 2147483600ll);
    ks.push_back(for_days ? -2147483647ll : -2147483600ll);
    if (rng) {
        ks = {0};
        for (int i = 0; i < 10; ++i) { ks.push_back(rng->range(-300, 300)); }
        for (int i = 0; i < 6; ++i) { ks.push_back(rng->range(-1000000000ll, 1000000000ll)); }
    }
    return ks;
}
void g_stored(unsigned part, vf::Rng* rng)
{
    if (part < 4) {
        for (unsigned m = part * 64; m < part * 64 + 64 && m <= 254; ++m) { month_stored(m, stored_deltas(false, rng)); }
    } else if (part < 8) {
        for (unsigned w = (part - 4) * 64; w < (part - 4) * 64 + 64; ++w) { weekday_stored(w, stored_deltas(true, rng)); }
    } else if (part < 12) {
        for (unsigned d = (part - 8) * 64; d < (part - 8) * 64 + 64 && d <= 254; ++d) { day_stored(d, stored_deltas(true, rng), false); }
    } else if (part < 16) {
        for (unsigned m = (part - 12) * 64; m < (part - 12) * 64 + 64 && m <= 254; ++m) { composite_stored(m, stored_deltas(false, rng)); }
    } else if (part == 16) {
        month_stored(255, stored_deltas(false, rng));
        composite_stored(255, stored_deltas(false, rng));
    } else {
        day_stored(255, stored_deltas(true, rng), true);
        for (unsigned d = 0; d <= 254; ++d) { day_stored(d, stored_deltas(true, rng), true); } // the (d, delta) pairs whose result is exactly 255
    }
}

// ---- G_BUILD : operator/ builders and comparisons of the composite types
template <typename N> Val b_y_m(int y, unsigned m, unsigned) { return v_ym(typename N::year{y} / typename N::month{m}); }
template <typename N> Val b_y_int(int y, unsigned m, unsigned) { return v_ym(typename N::year{y} / (int)m); }
template <typename N> Val b_ym_d(int y, unsigned m, unsigned d) { return v_ymd(mk_ym<N>(y, m) / typename N::day{d}); }
template <typename N> Val b_ym_int(int y, unsigned m, unsigned d) { return v_ymd(mk_ym<N>(y, m) / (int)d); }
template <typename N> typename N::month_day mk_md(unsigned m, unsigned d) { return {typename N::month{m}, typename N::day{d}}; }
template <typename N> Val v_md(typename N::month_day const& x) { return Val{}.add("month", unsigned(x.month())).add("day", unsigned(x.day())).add("ok", x.ok()); }
template <typename N> Val b_y_md(int y, unsigned m, unsigned d) { return v_ymd(typename N::year{y} / mk_md<N>(m, d)); }
template <typename N> Val b_int_md(int y, unsigned m, unsigned d) { return v_ymd(y / mk_md<N>(m, d)); }
template <typename N> Val b_md_y(int y, unsigned m, unsigned d) { return v_ymd(mk_md<N>(m, d) / typename N::year{y}); }
template <typename N> Val b_md_int(int y, unsigned m, unsigned d) { return v_ymd(mk_md<N>(m, d) / y); }
template <typename N> Val b_m_d(int, unsigned m, unsigned d) { return v_md<N>(typename N::month{m} / typename N::day{d}); }
template <typename N> Val b_m_int(int, unsigned m, unsigned d) { return v_md<N>(typename N::month{m} / (int)d); }
template <typename N> Val b_int_d(int, unsigned m, unsigned d) { return v_md<N>((int)m / typename N::day{d}); }
template <typename N> Val b_d_m(int, unsigned m, unsigned d) { return v_md<N>(typename N::day{d} / typename N::month{m}); }
template <typename N> Val b_d_int(int, unsigned m, unsigned d) { return v_md<N>(typename N::day{d} / (int)m); }
template <typename N> Val v_mdl(typename N::month_day_last const& x) { return Val{}.add("month", unsigned(x.month())).add("ok", x.ok()); }
template <typename N> Val b_m_last(int, unsigned m, unsigned) { return v_mdl<N>(typename N::month{m} / N::last()); }
template <typename N> Val b_int_last(int, unsigned m, unsigned) { return v_mdl<N>((int)m / N::last()); }
template <typename N> Val b_last_m(int, unsigned m, unsigned) { return v_mdl<N>(N::last() / typename N::month{m}); }
template <typename N> Val b_last_int(int, unsigned m, unsigned) { return v_mdl<N>(N::last() / (int)m); }
template <typename N> Val b_ym_last(int y, unsigned m, unsigned) { return v_ymdl(mk_ym<N>(y, m) / N::last()); }
template <typename N> Val b_y_mdl(int y, unsigned m, unsigned) { return v_ymdl(typename N::year{y} / typename N::month_day_last{typename N::month{m}}); }
template <typename N> Val b_int_mdl(int y, unsigned m, unsigned) { return v_ymdl(y / typename N::month_day_last{typename N::month{m}}); }
template <typename N> Val b_mdl_y(int y, unsigned m, unsigned) { return v_ymdl(typename N::month_day_last{typename N::month{m}} / typename N::year{y}); }
template <typename N> Val b_mdl_int(int y, unsigned m, unsigned) { return v_ymdl(typename N::month_day_last{typename N::month{m}} / y); }
template <typename N> Val v_mwd(typename N::month_weekday const& x)
{
    return Val{}.add("month", unsigned(x.month())).add("weekday", x.weekday_indexed().weekday().c_encoding()).add("index", x.weekday_indexed().index()).add("ok", x.ok());
}
template <typename N> Val v_mwdl(typename N::month_weekday_last const& x)
{
    return Val{}.add("month", unsigned(x.month())).add("weekday", x.weekday_last().weekday().c_encoding()).add("ok", x.ok());
}
template <typename N> typename N::weekday_indexed mk_wi(unsigned d) { return typename N::weekday{d % 7}[1 + d % 5]; }
template <typename N> typename N::weekday_last mk_wl(unsigned d) { return typename N::weekday{d % 7}[N::last()]; }
template <typename N> Val b_m_wdi(int, unsigned m, unsigned d) { return v_mwd<N>(typename N::month{m} / mk_wi<N>(d)); }
template <typename N> Val b_int_wdi(int, unsigned m, unsigned d) { return v_mwd<N>((int)m / mk_wi<N>(d)); }
template <typename N> Val b_wdi_m(int, unsigned m, unsigned d) { return v_mwd<N>(mk_wi<N>(d) / typename N::month{m}); }
template <typename N> Val b_wdi_int(int, unsigned m, unsigned d) { return v_mwd<N>(mk_wi<N>(d) / (int)m); }
template <typename N> Val b_m_wdl(int, unsigned m, unsigned d) { return v_mwdl<N>(typename N::month{m} / mk_wl<N>(d)); }
template <typename N> Val b_int_wdl(int, unsigned m, unsigned d) { return v_mwdl<N>((int)m / mk_wl<N>(d)); }
template <typename N> Val b_wdl_m(int, unsigned m, unsigned d) { return v_mwdl<N>(mk_wl<N>(d) / typename N::month{m}); }
template <typename N> Val b_wdl_int(int, unsigned m, unsigned d) { return v_mwdl<N>(mk_wl<N>(d) / (int)m); }
template <typename N> Val eq_ym(int y, unsigned m, unsigned d)
{
    auto a = mk_ym<N>(y, m);
    auto b = mk_ym<N>(y + (int)(d % 2), 1 + (m + d / 2) % 12);
    return Val{}.add("==", a == b).add("!=", a != b).add("self==", a == a);
}
template <typename N> Val eq_ymd(int y, unsigned m, unsigned d)
{
    auto a = mk_ymd<N>(y, m, d);
    auto b = mk_ymd<N>(y + (int)(d % 2), 1 + (m + d / 2) % 12, 1 + (d * 7) % 28);
    return Val{}.add("==", a == b).add("!=", a != b).add("self==", a == a);
}

// APIs of std::chrono that tetl does not declare at all: detected, listed in the evidence, not reported
template <typename A, typename B> constexpr bool can_sub = requires(A a, B b) { a - b; };
template <typename A, typename B> constexpr bool can_less = requires(A a, B b) { a < b; };
template <typename A, typename B> constexpr bool can_div = requires(A a, B b) { a / b; };
template <typename A, typename B> constexpr bool can_ne = requires(A a, B b) { a != b; };
void list_absent()
{
    auto note = [](char const* what, bool present) {
        if (!present) { vf::sample("absent-api", "%s is not provided by tetl (skipped, not a divergence)", what); }
    };
    using EYM = ec::year_month; using EYMD = ec::year_month_day; using EYMWD = ec::year_month_weekday;
    note("year_month - year_month", can_sub<EYM, EYM>);
    note("year_month operator<", can_less<EYM, EYM>);
    note("year_month_day operator<", can_less<EYMD, EYMD>);
    note("month_day operator<", can_less<ec::month_day, ec::month_day>);
    note("year_month / weekday_indexed", can_div<EYM, ec::weekday_indexed>);
    note("year / month_weekday", can_div<ec::year, ec::month_weekday>);
    note("year_month / weekday_last", can_div<EYM, ec::weekday_last>);
    note("year / month_weekday_last", can_div<ec::year, ec::month_weekday_last>);
    note("year_month_weekday operator!=", can_ne<EYMWD, EYMWD>);
}

// declared result types of the compound / increment operators: lvalue reference to the object (postfix: prvalue).
// Only the declarations are needed, so this is safe for the members that the snapshot tree declared but did not define.
template <typename N>
std::vector<std::pair<char const*, bool>> lvalue_type_facts()
{
    using M = typename N::months; using Y = typename N::years; using D = typename N::days;
#define LREF(T_, OP, A_) std::is_same_v<decltype(std::declval<T_&>() OP std::declval<A_ const&>()), T_&>
#define PRE(T_, OP) std::is_same_v<decltype(OP std::declval<T_&>()), T_&>
#define POST(T_, OP) std::is_same_v<decltype(std::declval<T_&>() OP), T_>
    using yr = typename N::year; using mo = typename N::month; using dy = typename N::day; using wd = typename N::weekday;
    using ym = typename N::year_month; using ymd = typename N::year_month_day; using ymdl = typename N::year_month_day_last;
    using ymwd = typename N::year_month_weekday; using ymwdl = typename N::year_month_weekday_last;
    return {
        {"decltype(year+=years) is year&", LREF(yr, +=, Y)}, {"decltype(year-=years) is year&", LREF(yr, -=, Y)},
        {"decltype(++year) is year&", PRE(yr, ++)}, {"decltype(--year) is year&", PRE(yr, --)}, {"decltype(year++) is year", POST(yr, ++)}, {"decltype(year--) is year", POST(yr, --)},
        {"decltype(month+=months) is month&", LREF(mo, +=, M)}, {"decltype(month-=months) is month&", LREF(mo, -=, M)},
        {"decltype(++month) is month&", PRE(mo, ++)}, {"decltype(--month) is month&", PRE(mo, --)}, {"decltype(month++) is month", POST(mo, ++)}, {"decltype(month--) is month", POST(mo, --)},
        {"decltype(day+=days) is day&", LREF(dy, +=, D)}, {"decltype(day-=days) is day&", LREF(dy, -=, D)},
        {"decltype(++day) is day&", PRE(dy, ++)}, {"decltype(--day) is day&", PRE(dy, --)}, {"decltype(day++) is day", POST(dy, ++)}, {"decltype(day--) is day", POST(dy, --)},
        {"decltype(weekday+=days) is weekday&", LREF(wd, +=, D)}, {"decltype(weekday-=days) is weekday&", LREF(wd, -=, D)},
        {"decltype(++weekday) is weekday&", PRE(wd, ++)}, {"decltype(--weekday) is weekday&", PRE(wd, --)}, {"decltype(weekday++) is weekday", POST(wd, ++)}, {"decltype(weekday--) is weekday", POST(wd, --)},
        {"decltype(year_month+=months) is year_month&", LREF(ym, +=, M)}, {"decltype(year_month-=months) is year_month&", LREF(ym, -=, M)},
        {"decltype(year_month+=years) is year_month&", LREF(ym, +=, Y)}, {"decltype(year_month-=years) is year_month&", LREF(ym, -=, Y)},
        {"decltype(year_month_day+=months) is year_month_day&", LREF(ymd, +=, M)}, {"decltype(year_month_day-=months) is year_month_day&", LREF(ymd, -=, M)},
        {"decltype(year_month_day+=years) is year_month_day&", LREF(ymd, +=, Y)}, {"decltype(year_month_day-=years) is year_month_day&", LREF(ymd, -=, Y)},
        {"decltype(year_month_day_last+=months) is ymdl&", LREF(ymdl, +=, M)}, {"decltype(year_month_day_last-=months) is ymdl&", LREF(ymdl, -=, M)},
        {"decltype(year_month_day_last+=years) is ymdl&", LREF(ymdl, +=, Y)}, {"decltype(year_month_day_last-=years) is ymdl&", LREF(ymdl, -=, Y)},
        {"decltype(year_month_weekday+=months) is ymwd&", LREF(ymwd, +=, M)}, {"decltype(year_month_weekday-=months) is ymwd&", LREF(ymwd, -=, M)},
        {"decltype(year_month_weekday+=years) is ymwd&", LREF(ymwd, +=, Y)}, {"decltype(year_month_weekday-=years) is ymwd&", LREF(ymwd, -=, Y)},
        {"decltype(year_month_weekday_last+=months) is ymwdl&", LREF(ymwdl, +=, M)}, {"decltype(year_month_weekday_last-=months) is ymwdl&", LREF(ymwdl, -=, M)},
        {"decltype(year_month_weekday_last+=years) is ymwdl&", LREF(ymwdl, +=, Y)}, {"decltype(year_month_weekday_last-=years) is ymwdl&", LREF(ymwdl, -=, Y)},
    };
#undef LREF
#undef PRE
#undef POST
}
void type_facts()
{
    auto const e = lvalue_type_facts<EN>();
    auto const s = lvalue_type_facts<SN>();
    for (std::size_t i = 0; i < e.size() && i < s.size(); ++i) {
        vf::crumb("calendar types", e[i].first, "type-level", "compile-time boolean");
        vf::cover("type-level", vf::fnv(e[i].first), true);
        vf::eq_bool("value", e[i].second, s[i].second);
    }
}

void g_build()
{
    type_facts();
    char args[96];
    int const ys[]      = {-32767, -1, 0, 1, 1970, 2024, 32767};
    unsigned const ms[] = {1, 2, 6, 12};
    unsigned const ds[] = {1, 15, 28, 29, 31};
    for (int y : ys) {
        for (unsigned m : ms) {
            for (unsigned d : ds) {
                std::snprintf(args, sizeof args, "y=%d m=%u d=%u", y, m, d);
                std::uint64_t h = vf::mix((std::uint64_t)(y + 40000), m * 64 + d);
                CMP("year_month", "year/month", "any", h, b_y_m, args, y, m, d);
                CMP("year_month", "year/int", "any", h, b_y_int, args, y, m, d);
                CMP("year_month_day", "year_month/day", "any", h, b_ym_d, args, y, m, d);
                CMP("year_month_day", "year_month/int", "any", h, b_ym_int, args, y, m, d);
                CMP("year_month_day", "year/month_day", "any", h, b_y_md, args, y, m, d);
                CMP("year_month_day", "int/month_day", "any", h, b_int_md, args, y, m, d);
                CMP("year_month_day", "month_day/year", "any", h, b_md_y, args, y, m, d);
                CMP("year_month_day", "month_day/int", "any", h, b_md_int, args, y, m, d);
                CMP("month_day", "month/day", "any", h, b_m_d, args, y, m, d);
                CMP("month_day", "month/int", "any", h, b_m_int, args, y, m, d);
                CMP("month_day", "int/day", "any", h, b_int_d, args, y, m, d);
                CMP("month_day", "day/month", "any", h, b_d_m, args, y, m, d);
                CMP("month_day", "day/int", "any", h, b_d_int, args, y, m, d);
                CMP("month_day_last", "month/last", "any", h, b_m_last, args, y, m, d);
                CMP("month_day_last", "int/last", "any", h, b_int_last, args, y, m, d);
                CMP("month_day_last", "last/month", "any", h, b_last_m, args, y, m, d);
                CMP("month_day_last", "last/int", "any", h, b_last_int, args, y, m, d);
                CMP("year_month_day_last", "year_month/last", "any", h, b_ym_last, args, y, m, d);
                CMP("year_month_day_last", "year/month_day_last", "any", h, b_y_mdl, args, y, m, d);
                CMP("year_month_day_last", "int/month_day_last", "any", h, b_int_mdl, args, y, m, d);
                CMP("year_month_day_last", "month_day_last/year", "any", h, b_mdl_y, args, y, m, d);
                CMP("year_month_day_last", "month_day_last/int", "any", h, b_mdl_int, args, y, m, d);
                CMP("month_weekday", "month/weekday_indexed", "any", h, b_m_wdi, args, y, m, d);
                CMP("month_weekday", "int/weekday_indexed", "any", h, b_int_wdi, args, y, m, d);
                CMP("month_weekday", "weekday_indexed/month", "any", h, b_wdi_m, args, y, m, d);
                CMP("month_weekday", "weekday_indexed/int", "any", h, b_wdi_int, args, y, m, d);
                CMP("month_weekday_last", "month/weekday_last", "any", h, b_m_wdl, args, y, m, d);
                CMP("month_weekday_last", "int/weekday_last", "any", h, b_int_wdl, args, y, m, d);
                CMP("month_weekday_last", "weekday_last/month", "any", h, b_wdl_m, args, y, m, d);
                CMP("month_weekday_last", "weekday_last/int", "any", h, b_wdl_int, args, y, m, d);
                if (y < vfcal::kYearMax) {
                    CMP("year_month", "operator==", "any", h, eq_ym, args, y, m, d);
                    CMP("year_month_day", "operator==", "any", h, eq_ymd, args, y, m, d);
                }
            }
        }
    }
    list_absent();
}

void run_case(vf::Case& c)
{
    if (c.enumerated) {
        std::uint64_t i = c.index;
        int g           = 0;
        for (; g < G_N; ++g) {
            std::uint64_t n = group_size((Group)g, c.tier);
            if (i < n) { break; }
            i -= n;
        }
        std::vector<int> const& ys = years_for(c.tier);
        bool const wide            = true;
        switch ((Group)g) {
        case G_OK: g_ok(i < ys.size() ? ys[i] : -32768); break;
        case G_LEAP: g_leap((unsigned)i); break;
        case G_MONTH: g_month((unsigned)i + 1, nullptr); break;
        case G_WEEKDAY: g_weekday((unsigned)i, nullptr); break;
        case G_YEAR: g_year(ys[i], nullptr); break;
        case G_DAY: g_day((unsigned)i); break;
        case G_YM: g_ym(ys[i], month_deltas(wide), year_deltas(ys[i])); break;
        case G_YMD: g_ymd(ys[i], month_deltas(wide), year_deltas(ys[i])); break;
        case G_YMDL: g_ymdl(ys[i], month_deltas(wide), year_deltas(ys[i])); break;
        case G_YMWD: g_ymwd(ys[i], month_deltas(wide), year_deltas(ys[i])); break;
        case G_BUILD: g_build(); break;
        case G_STORED: g_stored((unsigned)i, nullptr); break;
        default: break;
        }
        if (vf::want_sample("grid-case")) { vf::sample("grid-case", "enumerated case %llu = group %d item %llu", (unsigned long long)c.index, g, (unsigned long long)i); }
        return;
    }
    // ---- seeded random part: same operations and situation vocabulary, arbitrary years and large deltas
    int const y = (int)c.rng.range(vfcal::kYearMin, vfcal::kYearMax);
    std::vector<long long> ks, yks;
    for (int i = 0; i < 6; ++i) { ks.push_back(c.rng.range(-60, 60)); }
    for (int i = 0; i < 6; ++i) { ks.push_back(c.rng.range(-786000, 786000)); }
    for (int i = 0; i < 4; ++i) { yks.push_back(c.rng.range(-65534, 65534)); }
    yks.push_back(c.rng.range(-5, 5));
    switch (c.rng.below(9)) {
    case 8: g_stored((unsigned)c.rng.below(kStoredCases), &c.rng); break;
    case 0: g_month((unsigned)c.rng.range(1, 12), &c.rng); break;
    case 1: g_weekday((unsigned)c.rng.range(0, 6), &c.rng); break;
    case 2: g_year(y, &c.rng); break;
    case 3: g_ym(y, ks, yks); break;
    case 4: g_ymd(y, ks, yks); break;
    case 5: g_ymdl(y, ks, yks); break;
    case 6: g_ymwd(y, ks, yks); break;
    default: g_ok(y); break;
    }
}
} // namespace

VF_MAIN("C11", "C11_cal", spec, run_case)
