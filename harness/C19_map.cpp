// C19 - layout mappings (layout_left, layout_right, layout_stride, linalg::layout_transpose) against the
// closed-form model offset(i...) = sum i_k * stride_k.
// Build: -DVF_IDX=<index type> -DVF_IDX_NAME="..." [-DVF_PLO= -DVF_PHI= -DVF_PSTEP=]
// Case space: (pattern, shape in {0..4}^rank) x 4 groups (left, right, stride, transpose[rank 2]); every case
// sweeps ALL multi-indices of the shape.
#include "vf.hpp"
#include "vf_contract.hpp"

#include "vf_c19.hpp"

#include <etl/linalg.hpp>

#include <vector>

namespace {
using namespace c19;
#define NOINL __attribute__((noinline))

constexpr unsigned NGROUP = 4;

vf::Spec spec(vf::Tier t)
{
    vf::Spec s;
    s.n_enum     = space().total * NGROUP;
    s.n_random   = t == vf::Tier::thorough ? 8000 : 800;
    s.batch      = 64;
    s.exhaustive = true;
    return s;
}

struct Ctx {
    PInfo const* p;
    Arr shape;
    unsigned group;
    std::string sit;
    std::string desc;
    std::uint64_t h;
    bool nontrivial;
    bool thorough;
    bool enumerated;
    vf::Rng* rng;
};

std::string subj(char const* layout) { return std::string(layout) + "::mapping<" + IDXN + ">"; }

// what a mapping reports about itself
struct Obs {
    std::size_t R{};
    Arr ext{};
    Arr stride{};
    bool has_stride{false};
    LL rss{};
    bool has_rss{false};
    int uniq{-1}, exh{-1}, strided{-1}, a_uniq{-1}, a_exh{-1}, a_strided{-1};
};
struct Expect {
    Model m;
    int exh; // expected is_exhaustive (-1: not observable for this mapping type)
    int a_exh;
};

NOINL void crumb_op(Ctx const& c, std::string const& s, char const* op, char const* extra = "")
{
    vf::crumb(s.c_str(), op, c.sit.c_str(), "E=<%s> shape=%s %s", c.p->name, c.desc.c_str(), extra);
}
NOINL void crumb_idx(Ctx const& c, std::string const& s, char const* op, Arr const& i, std::size_t R, std::string const& strides)
{
    vf::crumb(s.c_str(), op, c.sit.c_str(), "E=<%s> shape=%s idx=%s %s", c.p->name, c.desc.c_str(), show(i, R).c_str(), strides.c_str());
}
NOINL void cov(Ctx const& c, char const* op, std::uint64_t salt) { vf::cover(op, vf::mix(c.h, salt), c.nontrivial); }

NOINL void judge_obs(Ctx const& c, std::string const& s, char const* op, Obs const& o, Expect const& x, std::uint64_t salt)
{
    Model const& m = x.m;
    crumb_op(c, s, op); // divergences below are keyed by the operation that produced the mapping; the symptom names the observer
    for (std::size_t r = 0; r < m.R; ++r) { vf::eq_int("extents().extent", o.ext[r], m.e[r]); }
    cov(c, "extents()", salt);
    if (o.has_rss) {
        cov(c, "required_span_size()", salt);
        vf::eq_int("required_span_size", o.rss, m.span());
    }
    if (o.has_stride) {
        for (std::size_t r = 0; r < m.R; ++r) {
            cov(c, "stride(r)", salt * 8 + r);
            // strides of an empty index space are still the products the layout defines
            vf::eq_int(r == 0 ? "stride(0)" : (r + 1 == m.R ? "stride(rank-1)" : "stride(middle)"), o.stride[r], m.st[r]);
        }
    }
    if (o.uniq >= 0) { cov(c, "is_unique()", salt), vf::eq_bool("is_unique", o.uniq, true); }
    if (o.a_uniq >= 0) { cov(c, "is_always_unique()", salt), vf::eq_bool("is_always_unique", o.a_uniq, true); }
    if (o.strided >= 0) { cov(c, "is_strided()", salt), vf::eq_bool("is_strided", o.strided, true); }
    if (o.a_strided >= 0) { cov(c, "is_always_strided()", salt), vf::eq_bool("is_always_strided", o.a_strided, true); }
    if (o.exh >= 0 && x.exh >= 0) { cov(c, "is_exhaustive()", salt), vf::eq_bool("is_exhaustive", o.exh, x.exh); }
    if (o.a_exh >= 0 && x.a_exh >= 0) { cov(c, "is_always_exhaustive()", salt), vf::eq_bool("is_always_exhaustive", o.a_exh, x.a_exh); }
}

NOINL void judge_sweep(Ctx const& c, char const* op, std::vector<LL> const& got, Model const& m, std::uint64_t salt) { judge_offsets(op, got, m, vf::mix(c.h, salt)); }

// every offset the mapping produced must lie below the required_span_size() the mapping itself reports
NOINL void judge_span(Ctx const& c, std::string const& s, char const* op, Obs const& o, std::vector<LL> const& offs)
{
    if (!o.has_rss) { return; }
    LL mx = -1;
    for (LL v : offs) { mx = v > mx ? v : mx; }
    crumb_op(c, s, op);
    cov(c, "max-offset<required_span_size()", 1);
    if (mx >= o.rss) { vf::diverge("max-offset>=required_span_size()", "offset " + vf::to_s(mx), "< " + vf::to_s(o.rss)); }
}

template <typename M, bool HasRss, bool HasStride, bool HasExh>
NOINL void observe(Ctx const& c, std::string const& s, M const& m, Obs& o)
{
    constexpr std::size_t R = M::extents_type::rank();
    o.R                     = R;
    crumb_op(c, s, "extents()");
    auto const e = m.extents();
    for (std::size_t r = 0; r < R; ++r) { o.ext[r] = (LL)e.extent(r); }
    if constexpr (HasRss) {
        crumb_op(c, s, "required_span_size()");
        o.rss     = (LL)m.required_span_size();
        o.has_rss = true;
    }
    if constexpr (HasStride && R > 0) {
        for (std::size_t r = 0; r < R; ++r) {
            crumb_op(c, s, "stride(r)", r == 0 ? "r=0" : (r == 1 ? "r=1" : (r == 2 ? "r=2" : "r=3")));
            o.stride[r] = (LL)m.stride(r);
        }
        o.has_stride = true;
    }
    crumb_op(c, s, "is_unique()");
    o.uniq = m.is_unique();
    crumb_op(c, s, "is_strided()");
    o.strided   = m.is_strided();
    o.a_uniq    = M::is_always_unique();
    o.a_strided = M::is_always_strided();
    if constexpr (HasExh) {
        crumb_op(c, s, "is_exhaustive()");
        o.exh   = m.is_exhaustive();
        o.a_exh = M::is_always_exhaustive();
    }
}

template <typename A, typename M>
NOINL void sweep(Ctx const& c, std::string const& s, char const* op, M const& m, Model const& mod, std::vector<LL>& out, std::string const& strides = "")
{
    constexpr std::size_t R = M::extents_type::rank();
    out.clear();
    Arr i{};
    if (!mod.empty()) {
        do {
            crumb_idx(c, s, op, i, R, strides);
            out.push_back((LL)call_idx<A, R>(m, i));
        } while (next(i, mod.e, R));
    }
}

// ------------------------------------------------------------------ layout_left / layout_right
template <typename L>
struct lname;
template <>
struct lname<etl::layout_left> {
    static constexpr char const* v = "layout_left";
    using other                    = etl::layout_right;
    static Model model(Arr const& e, std::size_t R) { return model_left(e, R); }
};
template <>
struct lname<etl::layout_right> {
    static constexpr char const* v = "layout_right";
    using other                    = etl::layout_left;
    static Model model(Arr const& e, std::size_t R) { return model_right(e, R); }
};

template <typename L, typename E, std::size_t GE>
NOINL void canonical(Ctx& c)
{
    constexpr std::size_t R = E::rank();
    using M                 = typename L::template mapping<E>;
    using D                 = etl::dextents<Idx, R>;
    using MD                = typename L::template mapping<D>;
    std::string const s     = subj(lname<L>::v);
    Model const mod         = lname<L>::model(c.shape, R);
    Expect const x{mod, 1, 1};
    std::vector<LL> offs;
    E const e = make_extents<E>(c.shape);

    crumb_op(c, s, "mapping(extents)");
    M const m(e);
    cov(c, "mapping(extents)", 1);
    {
        Obs o;
        observe<M, true, true, true>(c, s, m, o);
        judge_obs(c, s, "mapping(extents)", o, x, 1);
        sweep<Idx>(c, s, "operator()(index_type...)", m, mod, offs);
        judge_sweep(c, "operator()(index_type...)", offs, mod, 1);
        judge_span(c, s, "mapping(extents)", o, offs);
        if constexpr (std::is_same_v<L, etl::layout_left>) {
            sweep<int>(c, s, "operator()(int...)", m, mod, offs);
            judge_sweep(c, "operator()(int...)", offs, mod, 2);
        } else {
            sweep<unsigned long>(c, s, "operator()(size_t...)", m, mod, offs);
            judge_sweep(c, "operator()(size_t...)", offs, mod, 2);
        }
    }
    // default construction: dynamic extents are zero
    {
        Arr z{};
        for (std::size_t r = 0; r < R; ++r) { z[r] = E::static_extent(r) == dyn ? 0 : (LL)E::static_extent(r); }
        crumb_op(c, s, "mapping()");
        M const d{};
        cov(c, "mapping()", 1);
        Obs o;
        observe<M, true, true, true>(c, s, d, o);
        judge_obs(c, s, "mapping()", o, Expect{lname<L>::model(z, R), 1, 1}, 2);
    }
    // copy, assignment
    {
        crumb_op(c, s, "mapping(mapping const&)");
        M cp(m);
        cov(c, "mapping(mapping const&)", 1);
        M as(make_extents<E>(other_shape(*c.p, c.shape))); // holds different run-time extents before the assignment
        crumb_op(c, s, "operator=(mapping const&)");
        as = m;
        cov(c, "operator=(mapping const&)", 1);
        Obs o1, o2;
        observe<M, true, true, true>(c, s, cp, o1);
        judge_obs(c, s, "mapping(mapping const&)", o1, x, 3);
        observe<M, true, true, true>(c, s, as, o2);
        judge_obs(c, s, "operator=(mapping const&)", o2, x, 4);
        sweep<Idx>(c, s, "operator=(mapping const&)", as, mod, offs);
        judge_sweep(c, "operator()(index_type...)", offs, mod, 4);
        crumb_op(c, s, "operator==");
        vf::eq_bool("operator==:copy", cp == m, true);
        cov(c, "operator==", 1);
    }
    // conversions between extents types: E -> dextents (implicit), dextents -> E (explicit)
    {
        static_assert(std::is_convertible_v<M, MD>);
        crumb_op(c, s, "mapping(mapping<OtherExtents>):->all-dynamic");
        MD const md(m);
        cov(c, "mapping(mapping<OtherExtents>):->all-dynamic", 1);
        Obs o;
        observe<MD, true, true, true>(c, s, md, o);
        judge_obs(c, s, "mapping(mapping<OtherExtents>):->all-dynamic", o, x, 5);
        sweep<Idx>(c, s, "mapping(mapping<OtherExtents>):->all-dynamic", md, mod, offs);
        judge_sweep(c, "operator()(index_type...)", offs, mod, 5);
        crumb_op(c, s, "operator==");
        vf::eq_bool("operator==:other-extents-type", m == md, true);
        cov(c, "operator==", 2);

        MD const src(make_extents<D>(c.shape));
        crumb_op(c, s, "mapping(mapping<OtherExtents>):all-dynamic->this");
        M const back(src);
        cov(c, "mapping(mapping<OtherExtents>):all-dynamic->this", 1);
        Obs o2;
        observe<M, true, true, true>(c, s, back, o2);
        judge_obs(c, s, "mapping(mapping<OtherExtents>):all-dynamic->this", o2, x, 6);
        sweep<Idx>(c, s, "mapping(mapping<OtherExtents>):all-dynamic->this", back, mod, offs);
        judge_sweep(c, "operator()(index_type...)", offs, mod, 6);
    }
    // conversions to other patterns of the same rank with compatible static extents (at most 4 per source pattern, those with
    // the same rank_dynamic() at other positions first; C19_ext runs every pair at the extents level)
    for_each_target<Idx, GE, VF_CONV_MAP>([&]<typename F, std::size_t GF>() {
        if (!shape_matches<F>(c.shape)) { return; }
        using MF = typename L::template mapping<F>;
        static_assert(std::is_constructible_v<MF, M const&>);
        char const* const op = F::rank_dynamic() == E::rank_dynamic() ? "mapping(mapping<OtherExtents>):same-rank_dynamic,other-positions" : "mapping(mapping<OtherExtents>):other-static/dynamic-pattern";
        crumb_op(c, s, op);
        MF const mf(m);
        cov(c, op, GF);
        Obs o;
        observe<MF, true, true, true>(c, s, mf, o);
        judge_obs(c, s, op, o, x, 100 + GF);
        sweep<Idx>(c, s, op, mf, mod, offs);
        judge_sweep(c, "operator()(index_type...)", offs, mod, 100 + GF);
    });
    // inequality: one dynamic extent changed
    if constexpr (E::rank_dynamic() > 0) {
        for (std::size_t r = 0; r < R; ++r) {
            if (E::static_extent(r) != dyn) { continue; }
            Arr o = c.shape;
            o[r] += 1;
            M const m2(make_extents<E>(o));
            crumb_op(c, s, "operator==");
            vf::eq_bool("operator==:one-extent-differs", m == m2, false);
            cov(c, "operator==", 10 + r);
        }
    }
    // rank <= 1: left and right are interconvertible and identical
    if constexpr (R <= 1) {
        using O  = typename lname<L>::other;
        using MO = typename O::template mapping<E>;
        MO const mo(e);
        crumb_op(c, s, "mapping(other-layout::mapping):rank<=1");
        M const conv(mo);
        cov(c, "mapping(other-layout::mapping):rank<=1", 1);
        Obs o;
        observe<M, true, true, true>(c, s, conv, o);
        judge_obs(c, s, "mapping(other-layout::mapping):rank<=1", o, x, 7);
        sweep<Idx>(c, s, "mapping(other-layout::mapping):rank<=1", conv, mod, offs);
        judge_sweep(c, "operator()(index_type...)", offs, mod, 7);
    }
}

// ------------------------------------------------------------------ layout_stride
std::string show_strides(Model const& m)
{
    return "strides=" + show(m.st, m.R);
}
bool stride_model_fits(Model const& m)
{
    if (!fits<Idx>(m.span()) || !fits<Idx>(m.size())) { return false; }
    for (std::size_t r = 0; r < m.R; ++r) {
        if (!fits<Idx>(m.st[r]) || m.st[r] <= 0) { return false; }
        if (m.e[r] > 0 && !fits<Idx>(m.e[r] * m.st[r])) { return false; }
    }
    return true;
}
// the stride sets tried for one shape
std::vector<Model> stride_models(Ctx& c, std::size_t R)
{
    std::vector<Model> v;
    unsigned const nperm = factorial(R);
    if (!c.enumerated) {
        for (int k = 0; k < 3; ++k) { v.push_back(model_strided(c.shape, R, (unsigned)c.rng->below(nperm), c.rng->range(0, 5), c.rng->range(1, 3))); }
    } else if (c.thorough) {
        static constexpr LL ps[4][2] = {{0, 1}, {1, 1}, {0, 2}, {3, 2}};
        for (unsigned p = 0; p < nperm; ++p) {
            for (auto const& q : ps) { v.push_back(model_strided(c.shape, R, p, q[0], q[1])); }
        }
    } else {
        unsigned const h = (unsigned)(c.h >> 8);
        v.push_back(model_strided(c.shape, R, 0, 0, 1));                  // == layout_left strides
        v.push_back(model_strided(c.shape, R, nperm - 1, 0, 1));          // a full reversal == layout_right strides
        v.push_back(model_strided(c.shape, R, nperm - 1, 1, 1));          // padded rows
        v.push_back(model_strided(c.shape, R, 0, 2, 1));                  // padded columns
        v.push_back(model_strided(c.shape, R, h % nperm, 0, 1));          // a permutation
        v.push_back(model_strided(c.shape, R, (h / 24) % nperm, 1, 2));   // permuted, padded and scaled
        v.push_back(model_strided(c.shape, R, (h / 576) % nperm, 3, 3));
    }
    std::vector<Model> out;
    for (auto const& m : v) {
        if (stride_model_fits(m)) { out.push_back(m); }
    }
    return out;
}

template <typename E>
etl::layout_stride::mapping<E> make_strided_from(E const& e, Model const& mod)
{
    etl::array<Idx, E::rank()> sa{};
    for (std::size_t r = 0; r < E::rank(); ++r) { sa[r] = static_cast<Idx>(mod.st[r]); }
    return etl::layout_stride::mapping<E>(e, sa);
}
template <typename E>
NOINL void strided(Ctx& c)
{
    constexpr std::size_t R = E::rank();
    using M                 = etl::layout_stride::mapping<E>;
    std::string const s     = subj("layout_stride");
    std::vector<LL> offs;
    E const e       = make_extents<E>(c.shape);
    auto const mods = stride_models(c, R);
    std::uint64_t n = 0;
    for (Model const& mod : mods) {
        ++n;
        std::string const ss = show_strides(mod);
        Expect const x{mod, -1, 0};
        etl::array<Idx, R> sa{};
        for (std::size_t r = 0; r < R; ++r) { sa[r] = static_cast<Idx>(mod.st[r]); }

        crumb_op(c, s, "mapping(extents,array<T,rank>)", ss.c_str());
        M const m(e, sa);
        cov(c, "mapping(extents,array<T,rank>)", n);
        {
            Obs o;
            observe<M, true, true, false>(c, s, m, o);
            o.a_exh = M::is_always_exhaustive();
            judge_obs(c, s, "mapping(extents,array<T,rank>)", o, x, n * 16 + 1);
            crumb_op(c, s, "strides()", ss.c_str());
            auto const st = m.strides();
            for (std::size_t r = 0; r < R; ++r) { vf::eq_int("strides()[r]", (LL)st[r], mod.st[r]); }
            cov(c, "strides()", n);
            sweep<Idx>(c, s, "operator()(index_type...)", m, mod, offs, ss);
            judge_sweep(c, "operator()(index_type...)", offs, mod, n * 16 + 1);
            judge_span(c, s, "mapping(extents,array<T,rank>)", o, offs);
        }
        // from a span over an exact-size block, with another stride element type
        if (n <= 2 || !c.enumerated) {
            vf::Buf<long> sb(R);
            for (std::size_t r = 0; r < R; ++r) { sb[r] = (long)mod.st[r]; }
            crumb_op(c, s, "mapping(extents,span<T,rank>)", ss.c_str());
            M const m2(e, etl::span<long, R>(sb.data(), R));
            cov(c, "mapping(extents,span<T,rank>)", n);
            Obs o;
            observe<M, true, true, false>(c, s, m2, o);
            judge_obs(c, s, "mapping(extents,span<T,rank>)", o, x, n * 16 + 2);
            sweep<int>(c, s, "operator()(int...)", m2, mod, offs, ss);
            judge_sweep(c, "operator()(int...)", offs, mod, n * 16 + 2);
            sb.check("strides");
            // copy / assign
            crumb_op(c, s, "mapping(mapping const&)", ss.c_str());
            M cp(m2);
            cov(c, "mapping(mapping const&)", n);
            // the target of the assignment holds OTHER strides (those of the next stride set) beforehand
            M as = make_strided_from(e, mods[n % mods.size()]);
            crumb_op(c, s, "operator=(mapping const&)", ss.c_str());
            as = m;
            cov(c, "operator=(mapping const&)", n);
            sweep<Idx>(c, s, "operator=(mapping const&)", as, mod, offs, ss);
            judge_sweep(c, "operator()(index_type...)", offs, mod, n * 16 + 4);
            M mv = make_strided_from(e, mods[n % mods.size()]);
            crumb_op(c, s, "operator=(mapping&&)", ss.c_str());
            mv = M(m);
            cov(c, "operator=(mapping&&)", n);
            sweep<Idx>(c, s, "operator=(mapping&&)", mv, mod, offs, ss);
            judge_sweep(c, "operator()(index_type...)", offs, mod, n * 16 + 5);
            Obs o1, o2;
            observe<M, true, true, false>(c, s, cp, o1);
            judge_obs(c, s, "mapping(mapping const&)", o1, x, n * 16 + 3);
            observe<M, true, true, false>(c, s, as, o2);
            judge_obs(c, s, "operator=(mapping const&)", o2, x, n * 16 + 4);
        }
    }
    if (mods.empty() && vf::want_sample("stride:skipped")) { vf::sample("stride:skipped", "no stride set representable in %s for E=<%s> shape %s", IDXN, c.p->name, c.desc.c_str()); }
}

// ------------------------------------------------------------------ linalg::layout_transpose (rank 2)
template <typename L>
struct nested_name;
template <>
struct nested_name<etl::layout_left> {
    static constexpr char const* v = "layout_transpose<layout_left>";
};
template <>
struct nested_name<etl::layout_right> {
    static constexpr char const* v = "layout_transpose<layout_right>";
};
template <>
struct nested_name<etl::layout_stride> {
    static constexpr char const* v = "layout_transpose<layout_stride>";
};

// model of the transposed mapping with extents `shape`: offset(i,j) = nested(j,i)
Model transposed_model(Model const& nested)
{
    Model t;
    t.R     = 2;
    t.e[0]  = nested.e[1];
    t.e[1]  = nested.e[0];
    t.st[0] = nested.st[1];
    t.st[1] = nested.st[0];
    return t;
}

template <typename L, typename E, bool HasRss>
NOINL void transpose_one(Ctx& c, Model const& nested, typename L::template mapping<etl::extents<Idx, E::static_extent(1), E::static_extent(0)>> const& nm)
{
    using M             = typename etl::linalg::layout_transpose<L>::template mapping<E>;
    std::string const s = subj(nested_name<L>::v);
    Model const mod     = transposed_model(nested);
    std::string const ss = show_strides(mod);
    std::vector<LL> offs;

    crumb_op(c, s, "mapping(nested_mapping)", ss.c_str());
    M const m(nm);
    cov(c, "mapping(nested_mapping)", 1);
    Obs o;
    observe<M, HasRss, false, false>(c, s, m, o);
    judge_obs(c, s, "mapping(nested_mapping)", o, Expect{mod, -1, -1}, 1);
    // the model's span is that of the nested mapping (same element set)
    sweep<Idx>(c, s, "operator()(i,j)", m, mod, offs, ss);
    judge_sweep(c, "operator()(i,j)", offs, mod, 1);
    judge_span(c, s, "mapping(nested_mapping)", o, offs);
    {
        crumb_op(c, s, "nested_mapping()", ss.c_str());
        auto const back = m.nested_mapping();
        cov(c, "nested_mapping()", 1);
        for (std::size_t r = 0; r < 2; ++r) { vf::eq_int("nested_mapping().extents().extent", (LL)back.extents().extent(r), nested.e[r]); }
    }
    {
        crumb_op(c, s, "mapping(mapping const&)", ss.c_str());
        M const cp(m);
        cov(c, "mapping(mapping const&)", 1);
        sweep<Idx>(c, s, "mapping(mapping const&)", cp, mod, offs, ss);
        judge_sweep(c, "operator()(i,j)", offs, mod, 2);
        if constexpr (!std::is_same_v<L, etl::layout_stride>) { // layout_stride's operator== is declared but not defined
            crumb_op(c, s, "operator==", ss.c_str());
            vf::eq_bool("operator==:copy", cp == m, true);
            cov(c, "operator==", 1);
        }
    }
    // stride(r) last: on the unfixed tree it indexes the nested mapping with r-2 / r-1
    for (std::size_t r = 0; r < 2; ++r) {
        crumb_op(c, s, "stride(r)", r == 0 ? "r=0" : "r=1");
        LL const got = (LL)m.stride(r);
        cov(c, "stride(r)", r);
        vf::eq_int(r == 0 ? "stride(0)" : "stride(rank-1)", got, mod.st[r]);
    }
}

template <typename E>
NOINL void transposed(Ctx& c)
{
    if constexpr (E::rank() == 2) {
        using TE = etl::extents<Idx, E::static_extent(1), E::static_extent(0)>; // extents of the nested mapping
        Arr ts{};
        ts[0]       = c.shape[1];
        ts[1]       = c.shape[0];
        TE const te = make_extents<TE>(ts);
        {
            etl::layout_left::mapping<TE> const nm(te);
            transpose_one<etl::layout_left, E, true>(c, model_left(ts, 2), nm);
        }
        {
            etl::layout_right::mapping<TE> const nm(te);
            transpose_one<etl::layout_right, E, true>(c, model_right(ts, 2), nm);
        }
        {
            Ctx c2   = c;
            c2.shape = ts;
            auto ms  = stride_models(c2, 2);
            std::size_t k = 0;
            for (Model const& nested : ms) {
                if (++k > 3) { break; }
                etl::array<Idx, 2> sa{static_cast<Idx>(nested.st[0]), static_cast<Idx>(nested.st[1])};
                etl::layout_stride::mapping<TE> const nm(te, sa);
                transpose_one<etl::layout_stride, E, true>(c, nested, nm);
            }
        }
    }
}

template <std::size_t K>
struct Run {
    static void run(Ctx& c)
    {
        using E = sel_t<K>;
        switch (c.group) {
        case 0: canonical<etl::layout_left, E, VF_PLO + K * VF_PSTEP>(c); break;
        case 1: canonical<etl::layout_right, E, VF_PLO + K * VF_PSTEP>(c); break;
        case 2:
            // rank 0 with explicit (empty) strides does not compile on the unfixed tree: covered by the unit C19_probe_stride_rank0
            if constexpr (E::rank() > 0) { strided<E>(c); }
            break;
        case 3: transposed<E>(c); break;
        default: break;
        }
    }
};

void run_case(vf::Case& c)
{
    Ctx x;
    std::size_t k   = 0;
    std::uint64_t s = 0;
    x.enumerated    = c.enumerated;
    x.thorough      = c.tier == vf::Tier::thorough;
    x.rng           = &c.rng;
    if (c.enumerated) {
        space().decode(c.index / NGROUP, k, s);
        x.group = (unsigned)(c.index % NGROUP);
        x.p     = &pinfos()[k];
        x.shape = shape_of(*x.p, s);
    } else {
        k       = (std::size_t)c.rng.below(NSEL);
        x.group = (unsigned)c.rng.below(NGROUP);
        x.p     = &pinfos()[k];
        x.shape = random_shape<Idx>(*x.p, c.rng, 9, x.group >= 2 ? 4 : 1);
    }
    if (!fits<Idx>(product(x.shape, x.p->rank))) { return; } // domain: index space size representable
    if (x.group == 3 && x.p->rank != 2) { return; }
    x.sit        = situation(*x.p, x.shape);
    x.desc       = show(x.shape, x.p->rank);
    x.h          = vf::mix(hash_arr(x.shape, x.p->rank, (VF_PLO + k * VF_PSTEP) * 131 + 19), x.group);
    x.nontrivial = x.p->rank > 0;
    {
        static char const* const gname[NGROUP] = {"layout_left", "layout_right", "layout_stride", "layout_transpose"};
        std::string const lab = std::string("map:") + x.p->cls;
        if ((x.p->rank == 0 || product(x.shape, x.p->rank) > 1) && vf::want_sample(lab.c_str())) {
            Arr last{};
            for (std::size_t r = 0; r < x.p->rank; ++r) { last[r] = x.shape[r] - 1; }
            vf::sample(lab.c_str(), "%s::mapping<extents<%s,%s>> shape %s: all %lld multi-indices; model: last index %s -> offset %lld (column-major) / %lld (row-major)", gname[x.group], IDXN,
                x.p->name, x.desc.c_str(), product(x.shape, x.p->rank), show(last, x.p->rank).c_str(), model_left(x.shape, x.p->rank).off(last), model_right(x.shape, x.p->rank).off(last));
        }
        if (vf::want_sample("unobservable")) {
            vf::sample("unobservable", "declared but not defined upstream, never called by this unit and NOT counted as passed: layout_stride::mapping::is_exhaustive(), its operator==, "
                                       "layout_stride::mapping(StridedLayoutMapping const&), layout_left/right::mapping(layout_stride::mapping const&) (probe units C19_probe_stride_exh/_eq/_from, "
                                       "C19_probe_canon_from_stride fail to link); submdspan is commented out upstream");
        }
    }
    crumb_op(x, std::string("extents<") + IDXN + ">", "setup:extents(OtherIndexTypes...):N=rank_dynamic"); // faults before an operation's own breadcrumb
    dispatch<Run>(k, x);
}
} // namespace

VF_MAIN("C19", "C19_map_" VF_IDX_NAME, spec, run_case)
