// C16_common.hpp - shared by the C16 harness units: type parameters, committed bounds, boundary mantissas,
// seeded bit-pattern generator.
#pragma once
#include "vf.hpp"
#include "vf_float.hpp"

#include <algorithm>
#include <vector>

#ifndef VF_T
    #define VF_T float
    #define VF_T_NAME "float"
    #define VF_T_IS_FLOAT 1
#endif

namespace c16 {
namespace fp = vf::fp;
using T      = VF_T;
using U      = fp::bits_t<T>;
constexpr bool IS_F     = sizeof(T) == 4;
constexpr int MB        = fp::Tr<T>::mbits;
constexpr int EB        = fp::Tr<T>::ebits;
constexpr int BIAS      = fp::Tr<T>::bias;
constexpr unsigned NEXP = 1u << fp::Tr<T>::ebits;
constexpr U MTOP        = U(1) << MB;

inline T make(bool sign, unsigned e, U m) { return fp::from_bits<T>((U(sign) << (MB + EB)) | (U(e) << MB) | (m & (MTOP - 1))); }

struct Bound {
    char const* name;
    unsigned ulp;
};
inline constexpr Bound kBounds[] = {
#define C16_BOUND(n, u) {n, u},
#include "C16_bounds.inc"
#undef C16_BOUND
};
inline long bound_of(char const* subject)
{
    for (auto const& b : kBounds) {
        if (std::strcmp(b.name, subject) == 0) { return (long)b.ulp; }
    }
    return -1;
}


// returns false (after emitting an `inconclusive` record) when the committed table has no entry
inline bool need_bound(char const* subject, char const* op, std::uint64_t* out)
{
    long b = bound_of(subject);
    if (b < 0) {
        vf::crumb(subject, op, "setup", "no entry in C16_bounds.json");
        vf::record("inconclusive", "no-bound", "missing", "entry in C16_bounds.json");
        return false;
    }
    *out = (std::uint64_t)b;
    return true;
}

inline std::vector<U> const& boundary_mantissas()
{
    static std::vector<U> const v = [] {
        std::vector<U> t;
        auto add = [&](U m) { t.push_back(m & (MTOP - 1)); };
        for (int k = 0; k < MB; ++k) {
            U b = U(1) << k;
            add(b);
            add(b - 1);
            add(b + 1);
            add(MTOP - b);
            add(MTOP - b - 1);
            add((MTOP >> 1) | b);
            add((MTOP >> 1) | (b - 1));
            add(MTOP - b + (b >> 1)); // all ones above bit k, then exactly "one half" at that scale
            add(b | (b >> 1));
        }
        add(0);
        std::sort(t.begin(), t.end());
        t.erase(std::unique(t.begin(), t.end()), t.end());
        return t;
    }();
    return v;
}
// deterministic jitter
inline U jit(std::uint64_t i) { return (U)(vf::mix(0xC16, i)); }

inline U random_pattern(vf::Rng& r)
{
    unsigned const mode = (unsigned)r.below(8);
    U mant              = (U)r.next() & (MTOP - 1);
    if (r.chance(1, 4)) { // structured mantissa: few significant bits (hits integers / exact halves)
        int keep = (int)r.below(MB + 1);
        mant &= ~((U(1) << (MB - keep)) - 1);
    }
    if (r.chance(1, 16)) { mant = boundary_mantissas()[r.below(boundary_mantissas().size())]; }
    unsigned e;
    switch (mode) {
    case 0:
    case 1: e = (unsigned)r.below(NEXP); break;                                    // any exponent
    case 2:
    case 3: e = (unsigned)r.range(BIAS - 2, BIAS + MB + 1); break;                 // rounding band
    case 4: e = (unsigned)r.range(BIAS + 61, BIAS + 65); break;                    // around 2^63
    case 5: e = (unsigned)r.range(BIAS - 8, BIAS + 8); break;                      // |x| ~ 1
    case 6: e = (unsigned)r.range(0, 2); break;                                    // zero / denormal / min normal
    default: e = (unsigned)r.range(BIAS + 5, BIAS + 12); break;                    // overflow thresholds of exp/sinh/gamma
    }
    if (e >= NEXP) { e = NEXP - 1; }
    return (U(r.coin()) << (MB + fp::Tr<T>::ebits)) | (U(e) << MB) | mant;
}


// largest observed ulp distance per subject, reported as a `note` record (used to (re)derive C16_bounds.json)
inline void note_maxulp(char const* subject, std::uint64_t ulps, char const* at)
{
    if (!ulps) { return; }
    char txt[300];
    std::snprintf(txt, sizeof txt, "maxulp|%s|%llu|%s", subject, (unsigned long long)ulps, at);
    vf::Json j;
    j.str("k", "note").str("text", txt).emit();
}

} // namespace c16
