// C19 - mdspan / mdarray element access == data() + mapping(i...) on guarded storage.
// Every element of the underlying exact-size block stores its own linear index; views are read through
// every access form and written through; addresses are compared with pointer arithmetic on the block.
// Build: -DVF_IDX=<index type> -DVF_IDX_NAME="..." [-DVF_PLO= -DVF_PHI= -DVF_PSTEP=]  (-std=c++23 adds operator[](i,j,...))
// Case space: (pattern, shape in {0..4}^rank) x 9 groups; every case sweeps ALL multi-indices of the shape.
#include "vf.hpp"
#include "vf_contract.hpp"

#include "vf_c19.hpp"

#include <etl/linalg.hpp>
#include <etl/mdarray.hpp>
#include <etl/vector.hpp>

#include <vector>

namespace {
using namespace c19;
#define NOINL __attribute__((noinline))

constexpr unsigned NGROUP = 9;
#ifndef VF_GMASK
    #define VF_GMASK 0x1FF
#endif

vf::Spec spec(vf::Tier t)
{
    vf::Spec s;
    s.n_enum     = space().total * NGROUP;
    s.n_random   = t == vf::Tier::thorough ? 8000 : 800;
    s.batch      = 64;
    s.exhaustive = true;
    return s;
}

struct Ctx {
    PInfo const* p;
    Arr shape;
    unsigned group;
    std::string sit;
    std::string desc;
    std::uint64_t h;
    bool nontrivial;
    bool thorough;
    bool enumerated;
    vf::Rng* rng;
    std::string extra; // strides of the mapping under test, for the breadcrumb
};

NOINL void crumb_op(Ctx const& c, std::string const& s, char const* op)
{
    vf::crumb(s.c_str(), op, c.sit.c_str(), "E=<%s> shape=%s %s", c.p->name, c.desc.c_str(), c.extra.c_str());
}
NOINL void crumb_idx(Ctx const& c, std::string const& s, char const* op, Arr const& i, std::size_t R)
{
    vf::crumb(s.c_str(), op, c.sit.c_str(), "E=<%s> shape=%s idx=%s %s", c.p->name, c.desc.c_str(), show(i, R).c_str(), c.extra.c_str());
}
NOINL void cov(Ctx const& c, char const* op, std::uint64_t salt) { vf::cover(op, vf::mix(c.h, salt), c.nontrivial); }
NOINL void judge(Ctx const& c, char const* op, std::vector<LL> const& got, Model const& m, std::uint64_t salt, char const* what)
{
    judge_offsets(op, got, m, vf::mix(c.h, salt), what);
}
NOINL void expect_int(char const* n, LL got, LL exp) { vf::eq_int(n, got, exp); }
NOINL void expect_bool(char const* n, bool got, bool exp) { vf::eq_bool(n, got, exp); }

// storage block: cell i holds its own linear index
struct Block {
    vf::Buf<Cell> b;
    explicit Block(LL n) : b((std::size_t)n) { reset(); }
    void reset()
    {
        for (std::size_t i = 0; i < b.size(); ++i) { b[i] = Cell{(int)i, -1}; }
    }
    Cell* data() { return b.data(); }
    LL size() const { return (LL)b.size(); }
};
// after a write-through sweep (n-th visited element got tag n): the n-th multi-index must have landed on
// cell model.off(i) and nothing else may have been touched
NOINL void judge_writes(Ctx const& c, char const* op, Cell const* cells, LL ncells, Model const& m, std::uint64_t salt)
{
    Arr i{};
    LL n = 0;
    bool bad = false;
    if (!m.empty()) {
        do {
            LL const o = m.off(i);
            if (o >= 0 && o < ncells && cells[o].tag != (int)n && !bad) {
                bad = true;
                vf::diverge("write-through:wrong-cell", "cell " + vf::to_s(o) + " has tag " + vf::to_s(cells[o].tag), "tag " + vf::to_s(n));
            }
            ++n;
        } while (next(i, m.e, m.R));
    }
    LL touched = 0;
    for (LL k = 0; k < ncells; ++k) { touched += cells[k].tag != -1; }
    if (touched != n) { vf::diverge("write-through:cells-touched", vf::to_s(touched), vf::to_s(n)); }
    vf::cover_bulk(op, (std::uint64_t)n, vf::mix(c.h, salt), (std::uint64_t)n);
}

// which optional observers a mapping type supports (declared-but-undefined members are kept out of the main TU)
template <bool Rss, bool Stride, bool Exh>
struct Caps {
    static constexpr bool rss = Rss, stride = Stride, exh = Exh;
};
using CapsCanonical = Caps<true, true, true>;
using CapsStride    = Caps<true, true, false>;
using CapsTransLR   = Caps<true, true, false>;
using CapsTransS    = Caps<true, true, false>;

// ------------------------------------------------------------------ mdspan
// addresses through operator()(index_type...) + extents + data_handle: run after every constructor form
template <typename MD>
NOINL void md_light(Ctx const& c, std::string const& s, char const* op, MD const& md, typename MD::element_type* base, Model const& mod, std::uint64_t salt)
{
    constexpr std::size_t R = MD::rank();
    cov(c, op, salt);
    expect_bool("data_handle()==ptr", md.data_handle() == base, true);
    for (std::size_t r = 0; r < R; ++r) { expect_int("extent(r)", (LL)md.extent(r), mod.e[r]); }
    std::vector<LL> got;
    Arr i{};
    if (!mod.empty()) {
        do {
            crumb_idx(c, s, op, i, R);
            got.push_back((LL)(&call_idx<Idx, R>(md, i) - base));
        } while (next(i, mod.e, R));
    }
    judge(c, "operator()(index_type...)", got, mod, salt, "element-address");
}

template <typename C, typename MD>
NOINL void md_full(Ctx const& c, std::string const& s, MD const& md, Block& blk, Model const& mod)
{
    constexpr std::size_t R = MD::rank();
    using T                 = typename MD::element_type;
    T* const base           = blk.data();
    std::vector<LL> got;
    Arr i{};
    // 1. addresses and values through operator()(size_t...)
    {
        std::vector<LL> vals;
        i = Arr{};
        if (!mod.empty()) {
            do {
                crumb_idx(c, s, "operator()(size_t...)", i, R);
                auto& ref = call_idx<unsigned long, R>(md, i);
                got.push_back((LL)(&ref - base));
                bool const inside = got.back() >= 0 && got.back() < blk.size();
                vals.push_back(inside ? (LL)ref.lin : -1);
            } while (next(i, mod.e, R));
        }
        judge(c, "operator()(size_t...)", got, mod, 11, "element-address");
        judge(c, "read-through", vals, mod, 12, "element-value");
    }
    // 2. operator[](array<index_type,rank>)
    {
        got.clear();
        i = Arr{};
        if (!mod.empty()) {
            do {
                etl::array<Idx, R> a{};
                for (std::size_t r = 0; r < R; ++r) { a[r] = static_cast<Idx>(i[r]); }
                crumb_idx(c, s, "operator[](array<T,rank>)", i, R);
                got.push_back((LL)(&md[a] - base));
            } while (next(i, mod.e, R));
        }
        judge(c, "operator[](array<T,rank>)", got, mod, 13, "element-address");
    }
    // 3. operator[](span<T,rank>) over an exact-size block of indices
    {
        got.clear();
        i = Arr{};
        vf::Buf<int> ib(R);
        if (!mod.empty()) {
            do {
                for (std::size_t r = 0; r < R; ++r) { ib[r] = (int)i[r]; }
                crumb_idx(c, s, "operator[](span<T,rank>)", i, R);
                got.push_back((LL)(&md[etl::span<int const, R>(ib.data(), R)] - base));
            } while (next(i, mod.e, R));
        }
        ib.check("index span");
        judge(c, "operator[](span<T,rank>)", got, mod, 14, "element-address");
    }
#if defined(__cpp_multidimensional_subscript)
    {
        got.clear();
        i = Arr{};
        if (!mod.empty()) {
            do {
                crumb_idx(c, s, "operator[](index_type...)", i, R);
                got.push_back((LL)(&[&]<std::size_t... Is>(std::index_sequence<Is...>) -> decltype(auto) { return md[static_cast<Idx>(i[Is])...]; }(std::make_index_sequence<R>{}) - base));
            } while (next(i, mod.e, R));
        }
        judge(c, "operator[](index_type...)", got, mod, 15, "element-address");
    }
#endif
    // 4. write through the view, verify in the block
    if constexpr (!std::is_const_v<T>) {
        blk.reset();
        i     = Arr{};
        int n = 0;
        if (!mod.empty()) {
            do {
                crumb_idx(c, s, "write-through", i, R);
                call_idx<Idx, R>(md, i).tag = n++;
            } while (next(i, mod.e, R));
        }
        judge_writes(c, "write-through", blk.data(), blk.size(), mod, 16);
        blk.reset();
    }
    blk.b.check("mdspan cells");
    // 5. observers
    crumb_op(c, s, "size()");
    expect_int("size()", (LL)md.size(), mod.size());
    cov(c, "size()", 1);
    crumb_op(c, s, "empty()");
    expect_bool("empty()", md.empty(), mod.empty());
    cov(c, "empty()", 1);
    expect_int("rank()", (LL)MD::rank(), (LL)c.p->rank);
    expect_int("rank_dynamic()", (LL)MD::rank_dynamic(), (LL)c.p->rd);
    for (std::size_t r = 0; r < R; ++r) {
        crumb_op(c, s, "extent(r)");
        expect_int("extent(r)", (LL)md.extent(r), mod.e[r]);
        expect_bool("static_extent(r)", MD::static_extent(r) == c.p->st[r], true);
        cov(c, "extent(r)", r);
    }
    crumb_op(c, s, "extents()");
    for (std::size_t r = 0; r < R; ++r) { expect_int("extents().extent(r)", (LL)md.extents().extent(r), mod.e[r]); }
    cov(c, "extents()", 1);
    if constexpr (C::rss) {
        crumb_op(c, s, "mapping()");
        expect_int("mapping().required_span_size()", (LL)md.mapping().required_span_size(), mod.span());
        cov(c, "mapping()", 1);
    }
    crumb_op(c, s, "is_unique()");
    expect_bool("is_unique()", md.is_unique(), true);
    expect_bool("is_always_unique()", MD::is_always_unique(), true);
    crumb_op(c, s, "is_strided()");
    expect_bool("is_strided()", md.is_strided(), true);
    expect_bool("is_always_strided()", MD::is_always_strided(), true);
    cov(c, "is_unique()", 1);
    cov(c, "is_strided()", 1);
    if constexpr (C::exh) {
        crumb_op(c, s, "is_exhaustive()");
        expect_bool("is_exhaustive()", md.is_exhaustive(), true);
        expect_bool("is_always_exhaustive()", MD::is_always_exhaustive(), true);
        cov(c, "is_exhaustive()", 1);
    }
    if constexpr (C::stride && R > 0) {
        for (std::size_t r = 0; r < R; ++r) {
            crumb_op(c, s, "stride(r)");
            expect_int(r == 0 ? "stride(0)" : (r + 1 == R ? "stride(rank-1)" : "stride(middle)"), (LL)md.stride(r), mod.st[r]);
            cov(c, "stride(r)", r);
        }
    }
}

template <typename L>
struct lay;
template <>
struct lay<etl::layout_left> {
    static constexpr char const* v = "layout_left";
    static Model model(Arr const& e, std::size_t R) { return model_left(e, R); }
};
template <>
struct lay<etl::layout_right> {
    static constexpr char const* v = "layout_right";
    static Model model(Arr const& e, std::size_t R) { return model_right(e, R); }
};

template <typename E, std::size_t N>
etl::array<Idx, N> values_for(Arr const& shape) // N == rank: all extents; else the dynamic ones
{
    etl::array<Idx, N> a{};
    std::size_t n = 0;
    for (std::size_t r = 0; r < E::rank(); ++r) {
        if (N == E::rank() || E::static_extent(r) == dyn) {
            if constexpr (N > 0) { a[n] = static_cast<Idx>(shape[r]); }
            ++n;
        }
    }
    return a;
}

template <typename L, typename E, std::size_t GE>
NOINL void mdspan_canonical(Ctx& c)
{
    constexpr std::size_t R  = E::rank();
    constexpr std::size_t RD = E::rank_dynamic();
    using M                  = typename L::template mapping<E>;
    using MD                 = etl::mdspan<Cell, E, L>;
    using D                  = etl::dextents<Idx, R>;
    std::string const s      = std::string("mdspan<") + lay<L>::v + "," + IDXN + ">";
    Model const mod          = lay<L>::model(c.shape, R);
    Block blk(mod.span());
    Cell* const p = blk.data();
    E const e     = make_extents<E>(c.shape);
    M const m(e);

    {
        crumb_op(c, s, "mdspan(ptr,extents)");
        MD const md(p, e);
        md_light(c, s, "mdspan(ptr,extents)", md, p, mod, 1);
        md_full<CapsCanonical>(c, s, md, blk, mod);
        // copy, conversion to const element / all-dynamic extents
        crumb_op(c, s, "mdspan(mdspan const&)");
        MD const cp(md);
        md_light(c, s, "mdspan(mdspan const&)", cp, p, mod, 2);
        using MDC = etl::mdspan<Cell const, D, L>;
        static_assert(std::is_constructible_v<MDC, MD const&>);
        crumb_op(c, s, "mdspan(mdspan<Other...>):->const,all-dynamic");
        MDC const cv(md);
        md_light(c, s, "mdspan(mdspan<Other...>):->const,all-dynamic", cv, static_cast<Cell const*>(p), mod, 3);
        // conversion to views over other patterns of the same rank with compatible static extents (at most 3 per source,
        // same rank_dynamic() at other positions first): every element must keep its address
        for_each_target<Idx, GE, VF_CONV_MD>([&]<typename F, std::size_t GF>() {
            if (!shape_matches<F>(c.shape)) { return; }
            using MDF = etl::mdspan<Cell, F, L>;
            static_assert(std::is_constructible_v<MDF, MD const&>);
            char const* const op = F::rank_dynamic() == RD ? "mdspan(mdspan<Other...>):same-rank_dynamic,other-positions" : "mdspan(mdspan<Other...>):other-static/dynamic-pattern";
            crumb_op(c, s, op);
            MDF const cvf(md);
            md_light(c, s, op, cvf, p, mod, 100 + GF);
            crumb_op(c, s, op);
            expect_int("size()", (LL)cvf.size(), mod.size());
            if constexpr (R > 0) {
                for (std::size_t r = 0; r < R; ++r) { expect_int("stride(r)", (LL)cvf.stride(r), mod.st[r]); }
            }
        });
        // deduction: mdspan(ptr, extents) is layout_right
        if constexpr (std::is_same_v<L, etl::layout_right>) {
            crumb_op(c, s, "mdspan(ptr,extents) deduction");
            auto const g = etl::mdspan(p, e);
            static_assert(std::is_same_v<decltype(g), MD const>);
            md_light(c, s, "mdspan(ptr,extents) deduction", g, p, mod, 4);
            if constexpr (R > 0) {
                crumb_op(c, s, "mdspan(ptr,Integrals...) deduction");
                auto const gi = [&]<std::size_t... Is>(std::index_sequence<Is...>) { return etl::mdspan(p, static_cast<int>(c.shape[Is])...); }(std::make_index_sequence<R>{});
                static_assert(std::is_same_v<decltype(gi), etl::mdspan<Cell, etl::dextents<std::size_t, R>> const>);
                if (fits<int>(mod.span())) { md_light(c, s, "mdspan(ptr,Integrals...) deduction", gi, p, mod, 5); }
            }
        }
    }
    {
        crumb_op(c, s, "mdspan(ptr,mapping)");
        MD const md(p, m);
        md_light(c, s, "mdspan(ptr,mapping)", md, p, mod, 6);
        crumb_op(c, s, "mdspan(ptr,mapping,accessor)");
        MD const md2(p, m, etl::default_accessor<Cell>{});
        md_light(c, s, "mdspan(ptr,mapping,accessor)", md2, p, mod, 7);
        crumb_op(c, s, "mdspan(ptr,mapping) deduction");
        auto const g = etl::mdspan(p, m);
        static_assert(std::is_same_v<decltype(g), MD const>);
        md_light(c, s, "mdspan(ptr,mapping) deduction", g, p, mod, 8);
    }
    {
        crumb_op(c, s, "mdspan(ptr,OtherIndexTypes...):N=rank_dynamic");
        MD const md = call_dynamic<E>([&](auto... v) { return MD(p, v...); }, c.shape);
        md_light(c, s, "mdspan(ptr,OtherIndexTypes...):N=rank_dynamic", md, p, mod, 9);
    }
    {
        auto const a = values_for<E, RD>(c.shape);
        crumb_op(c, s, "mdspan(ptr,array<T,N>):N=rank_dynamic");
        MD const md(p, a);
        md_light(c, s, "mdspan(ptr,array<T,N>):N=rank_dynamic", md, p, mod, 10);
        vf::Buf<Idx> sb(RD);
        for (std::size_t k = 0; k < RD; ++k) { sb[k] = a[k]; }
        crumb_op(c, s, "mdspan(ptr,span<T,N>):N=rank_dynamic");
        MD const md2(p, etl::span<Idx, RD>(sb.data(), RD));
        md_light(c, s, "mdspan(ptr,span<T,N>):N=rank_dynamic", md2, p, mod, 11);
        sb.check("extent span");
    }
    if constexpr (RD > 0) {
        crumb_op(c, s, "mdspan()");
        MD const d{};
        cov(c, "mdspan()", 1);
        expect_int("mdspan():size()", (LL)d.size(), 0);
        expect_bool("mdspan():empty()", d.empty(), true);
        expect_bool("mdspan():data_handle()==nullptr", d.data_handle() == nullptr, true);
    }
    // the N == rank forms last (on the unfixed tree they overflow extents' storage for mixed patterns)
    if constexpr (RD != R) {
        crumb_op(c, s, "mdspan(ptr,OtherIndexTypes...):N=rank");
        MD const md = [&]<std::size_t... Is>(std::index_sequence<Is...>) { return MD(p, static_cast<Idx>(c.shape[Is])...); }(std::make_index_sequence<R>{});
        md_light(c, s, "mdspan(ptr,OtherIndexTypes...):N=rank", md, p, mod, 12);
        auto const a = values_for<E, R>(c.shape);
        crumb_op(c, s, "mdspan(ptr,array<T,N>):N=rank");
        MD const md2(p, a);
        md_light(c, s, "mdspan(ptr,array<T,N>):N=rank", md2, p, mod, 13);
        vf::Buf<Idx> sb(R);
        for (std::size_t k = 0; k < R; ++k) { sb[k] = a[k]; }
        crumb_op(c, s, "mdspan(ptr,span<T,N>):N=rank");
        MD const md3(p, etl::span<Idx, R>(sb.data(), R));
        md_light(c, s, "mdspan(ptr,span<T,N>):N=rank", md3, p, mod, 14);
    }
}

// stride sets for one shape (subset of what C19_map tries; here every set costs a full access sweep)
bool stride_model_fits(Model const& m)
{
    if (!fits<Idx>(m.span()) || !fits<Idx>(m.size())) { return false; }
    for (std::size_t r = 0; r < m.R; ++r) {
        if (!fits<Idx>(m.st[r]) || m.st[r] <= 0) { return false; }
        if (m.e[r] > 0 && !fits<Idx>(m.e[r] * m.st[r])) { return false; }
    }
    return true;
}
std::vector<Model> stride_models(Ctx& c, Arr const& shape, std::size_t R)
{
    std::vector<Model> v;
    unsigned const nperm = factorial(R);
    if (!c.enumerated) {
        for (int k = 0; k < 2; ++k) { v.push_back(model_strided(shape, R, (unsigned)c.rng->below(nperm), c.rng->range(0, 5), c.rng->range(1, 3))); }
    } else {
        unsigned const h = (unsigned)(c.h >> 8);
        v.push_back(model_strided(shape, R, nperm - 1, 1, 1));         // row-major with padded rows
        v.push_back(model_strided(shape, R, h % nperm, 0, 2));         // permuted, every second element
        v.push_back(model_strided(shape, R, (h / 24) % nperm, 2, 1));  // permuted and padded
        if (c.thorough) {
            v.push_back(model_strided(shape, R, 0, 2, 1));
            v.push_back(model_strided(shape, R, (h / 576) % nperm, 3, 3));
        }
    }
    std::vector<Model> out;
    for (auto const& m : v) {
        if (stride_model_fits(m)) { out.push_back(m); }
    }
    return out;
}

template <typename E>
NOINL void mdspan_strided(Ctx& c)
{
    constexpr std::size_t R = E::rank();
    using M                 = etl::layout_stride::mapping<E>;
    using MD                = etl::mdspan<Cell, E, etl::layout_stride>;
    std::string const s     = std::string("mdspan<layout_stride,") + IDXN + ">";
    E const e               = make_extents<E>(c.shape);
    std::uint64_t n         = 0;
    for (Model const& mod : stride_models(c, c.shape, R)) {
        ++n;
        c.extra = "strides=" + show(mod.st, R);
        Block blk(mod.span());
        Cell* const p = blk.data();
        etl::array<Idx, R> sa{};
        for (std::size_t r = 0; r < R; ++r) { sa[r] = static_cast<Idx>(mod.st[r]); }
        M const m(e, sa);
        crumb_op(c, s, "mdspan(ptr,mapping)");
        MD const md(p, m);
        md_light(c, s, "mdspan(ptr,mapping)", md, p, mod, n * 8 + 1);
        md_full<CapsStride>(c, s, md, blk, mod);
        crumb_op(c, s, "mdspan(ptr,mapping) deduction");
        auto const g = etl::mdspan(p, m);
        static_assert(std::is_same_v<decltype(g), MD const>);
        md_light(c, s, "mdspan(ptr,mapping) deduction", g, p, mod, n * 8 + 2);
        crumb_op(c, s, "mdspan(mdspan const&)");
        MD const cp(md);
        md_light(c, s, "mdspan(mdspan const&)", cp, p, mod, n * 8 + 3);
    }
    c.extra.clear();
}

Model transposed_model(Model const& nested)
{
    Model t;
    t.R     = 2;
    t.e[0]  = nested.e[1];
    t.e[1]  = nested.e[0];
    t.st[0] = nested.st[1];
    t.st[1] = nested.st[0];
    return t;
}
template <typename L, typename E, typename C>
NOINL void mdspan_transposed_one(Ctx& c, char const* lname, Model const& nested, typename L::template mapping<etl::extents<Idx, E::static_extent(1), E::static_extent(0)>> const& nm)
{
    using LT            = etl::linalg::layout_transpose<L>;
    using M             = typename LT::template mapping<E>;
    using MD            = etl::mdspan<Cell, E, LT>;
    std::string const s = std::string("mdspan<layout_transpose<") + lname + ">," + IDXN + ">";
    Model const mod     = transposed_model(nested);
    c.extra             = "strides=" + show(mod.st, 2);
    Block blk(mod.span());
    Cell* const p = blk.data();
    M const m(nm);
    crumb_op(c, s, "mdspan(ptr,mapping)");
    MD const md(p, m);
    md_light(c, s, "mdspan(ptr,mapping)", md, p, mod, 1);
    md_full<C>(c, s, md, blk, mod);
    c.extra.clear();
}
template <typename E>
NOINL void mdspan_transposed(Ctx& c)
{
    if constexpr (E::rank() == 2) {
        using TE = etl::extents<Idx, E::static_extent(1), E::static_extent(0)>;
        Arr ts{};
        ts[0]       = c.shape[1];
        ts[1]       = c.shape[0];
        TE const te = make_extents<TE>(ts);
        mdspan_transposed_one<etl::layout_left, E, CapsTransLR>(c, "layout_left", model_left(ts, 2), etl::layout_left::mapping<TE>(te));
        mdspan_transposed_one<etl::layout_right, E, CapsTransLR>(c, "layout_right", model_right(ts, 2), etl::layout_right::mapping<TE>(te));
        for (Model const& nested : stride_models(c, ts, 2)) {
            etl::array<Idx, 2> sa{static_cast<Idx>(nested.st[0]), static_cast<Idx>(nested.st[1])};
            mdspan_transposed_one<etl::layout_stride, E, CapsTransS>(c, "layout_stride", nested, etl::layout_stride::mapping<TE>(te, sa));
        }
    }
}

// ------------------------------------------------------------------ mdarray
unsigned long long cells_read = 0; // keeps the read-through of arr_light observable
// after every constructor form: storage size, addresses through the const operator()
template <typename A>
NOINL void arr_light(Ctx const& c, std::string const& s, char const* op, A const& a, Model const& mod, std::uint64_t salt)
{
    constexpr std::size_t R = A::rank();
    cov(c, op, salt);
    expect_int("container_size()", (LL)a.container_size(), mod.span());
    for (std::size_t r = 0; r < R; ++r) { expect_int("extent(r)", (LL)a.extent(r), mod.e[r]); }
    Cell const* const base = a.container_data();
    std::vector<LL> got;
    Arr i{};
    if (!mod.empty()) {
        do {
            crumb_idx(c, s, op, i, R);
            got.push_back((LL)(&call_idx<Idx, R>(a, i) - base));
        } while (next(i, mod.e, R));
    }
    judge(c, "operator()(index_type...) const", got, mod, salt, "element-address");
    // the elements must live inside the storage the array owns (container_size() elements): a container sized with anything
    // but required_span_size() is too short for padded strides.  Elements inside are read (ASan: exact-size block).
    LL const ncells = (LL)a.container_size();
    for (LL g : got) {
        if (g < 0 || g >= ncells) {
            vf::diverge("element-address:outside-container", "offset " + vf::to_s(g), "inside [0," + vf::to_s(ncells) + ")");
            break;
        }
        cells_read += base[g].lin == base[g].lin;
    }
}
// write every element through the non-const operator() (only those inside the container; the others were reported above)
template <typename A>
NOINL void arr_touch(Ctx const& c, std::string const& s, char const* op, A& a, Model const& mod, std::uint64_t salt)
{
    constexpr std::size_t R = A::rank();
    Cell* const base        = a.container_data();
    LL const ncells         = (LL)a.container_size();
    for (LL k = 0; k < ncells; ++k) { base[k] = Cell{(int)k, -1}; }
    Arr i{};
    int n = 0;
    if (!mod.empty()) {
        do {
            crumb_idx(c, s, op, i, R);
            Cell& ref   = call_idx<Idx, R>(a, i);
            LL const at = (LL)(&ref - base);
            if (at >= 0 && at < ncells) { ref.tag = n; }
            ++n;
        } while (next(i, mod.e, R));
    }
    if (mod.span() <= ncells) { judge_writes(c, "write-through", base, ncells, mod, salt); }
}
template <typename A>
NOINL void expect_fill(A const& a, Model const& mod, int lin, int tag, char const* what)
{
    Cell const* const d = a.container_data();
    LL const n          = mod.span() < (LL)a.container_size() ? mod.span() : (LL)a.container_size();
    for (LL k = 0; k < n; ++k) {
        if (d[k].lin != (lin < 0 ? (int)k : lin) || d[k].tag != tag) {
            vf::diverge(what, "cell " + vf::to_s(k) + " = {" + vf::to_s(d[k].lin) + "," + vf::to_s(d[k].tag) + "}", "initial value");
            return;
        }
    }
}

template <typename C, typename A>
NOINL void arr_full(Ctx const& c, std::string const& s, A& a, Model const& mod)
{
    constexpr std::size_t R = A::rank();
    A const& ca             = a;
    crumb_op(c, s, "container_data()");
    Cell* const base = a.container_data();
    expect_bool("container_data()==const container_data()", ca.container_data() == base, true);
    cov(c, "container_data()", 1);
    LL const ncells = (LL)a.container_size();
    auto reset      = [&] {
        for (LL k = 0; k < ncells; ++k) { base[k] = Cell{(int)k, -1}; }
    };
    reset();
    std::vector<LL> got, vals;
    Arr i{};
    // non-const operator(), values
    if (!mod.empty()) {
        do {
            crumb_idx(c, s, "operator()(size_t...)", i, R);
            auto& ref = call_idx<unsigned long, R>(a, i);
            got.push_back((LL)(&ref - base));
            vals.push_back(got.back() >= 0 && got.back() < ncells ? (LL)ref.lin : -1);
        } while (next(i, mod.e, R));
    }
    judge(c, "operator()(size_t...)", got, mod, 21, "element-address");
    judge(c, "read-through", vals, mod, 22, "element-value");
    // operator[](array) non-const, operator[](span) const
    {
        got.clear();
        vals.clear();
        i = Arr{};
        vf::Buf<int> ib(R);
        if (!mod.empty()) {
            do {
                etl::array<Idx, R> ai{};
                for (std::size_t r = 0; r < R; ++r) {
                    ai[r] = static_cast<Idx>(i[r]);
                    ib[r] = (int)i[r];
                }
                crumb_idx(c, s, "operator[](array<T,rank>)", i, R);
                got.push_back((LL)(&a[ai] - base));
                crumb_idx(c, s, "operator[](span<T,rank>) const", i, R);
                vals.push_back((LL)(&ca[etl::span<int const, R>(ib.data(), R)] - base));
            } while (next(i, mod.e, R));
        }
        judge(c, "operator[](array<T,rank>)", got, mod, 23, "element-address");
        judge(c, "operator[](span<T,rank>) const", vals, mod, 24, "element-address");
        got.clear();
        vals.clear();
        i = Arr{};
        if (!mod.empty()) {
            do {
                etl::array<Idx, R> ai{};
                for (std::size_t r = 0; r < R; ++r) {
                    ai[r] = static_cast<Idx>(i[r]);
                    ib[r] = (int)i[r];
                }
                crumb_idx(c, s, "operator[](array<T,rank>) const", i, R);
                got.push_back((LL)(&ca[ai] - base));
                crumb_idx(c, s, "operator[](span<T,rank>)", i, R);
                vals.push_back((LL)(&a[etl::span<int const, R>(ib.data(), R)] - base));
            } while (next(i, mod.e, R));
        }
        judge(c, "operator[](array<T,rank>) const", got, mod, 25, "element-address");
        judge(c, "operator[](span<T,rank>)", vals, mod, 26, "element-address");
        ib.check("index span");
    }
#if defined(__cpp_multidimensional_subscript)
    {
        got.clear();
        i = Arr{};
        if (!mod.empty()) {
            do {
                crumb_idx(c, s, "operator[](index_type...)", i, R);
                got.push_back((LL)(&[&]<std::size_t... Is>(std::index_sequence<Is...>) -> decltype(auto) { return a[static_cast<Idx>(i[Is])...]; }(std::make_index_sequence<R>{}) - base));
            } while (next(i, mod.e, R));
        }
        judge(c, "operator[](index_type...)", got, mod, 27, "element-address");
    }
#endif
    // write-through
    {
        reset();
        i     = Arr{};
        int n = 0;
        if (!mod.empty()) {
            do {
                crumb_idx(c, s, "write-through", i, R);
                call_idx<Idx, R>(a, i).tag = n++;
            } while (next(i, mod.e, R));
        }
        judge_writes(c, "write-through", base, ncells, mod, 28);
        reset();
    }
    // views of the array
    {
        crumb_op(c, s, "to_mdspan()");
        auto const md = a.to_mdspan();
        static_assert(std::is_same_v<typename decltype(md)::element_type, Cell>);
        md_light(c, s, "to_mdspan()", md, base, mod, 29);
        crumb_op(c, s, "to_mdspan() const");
        auto const cmd = ca.to_mdspan();
        static_assert(std::is_same_v<typename decltype(cmd)::element_type, Cell const>);
        md_light(c, s, "to_mdspan() const", cmd, static_cast<Cell const*>(base), mod, 30);
        crumb_op(c, s, "operator mdspan()");
        etl::mdspan<Cell, typename A::extents_type, typename A::layout_type> const conv = a;
        md_light(c, s, "operator mdspan()", conv, base, mod, 31);
    }
    // observers
    crumb_op(c, s, "size()");
    expect_int("size()", (LL)a.size(), mod.size());
    expect_bool("empty()", a.empty(), mod.empty());
    cov(c, "size()", 1);
    for (std::size_t r = 0; r < R; ++r) {
        expect_int("extent(r)", (LL)a.extent(r), mod.e[r]);
        expect_int("extents().extent(r)", (LL)a.extents().extent(r), mod.e[r]);
        expect_bool("static_extent(r)", A::static_extent(r) == c.p->st[r], true);
        cov(c, "extent(r)", r);
    }
    expect_int("rank()", (LL)A::rank(), (LL)c.p->rank);
    expect_int("rank_dynamic()", (LL)A::rank_dynamic(), (LL)c.p->rd);
    if constexpr (C::rss) {
        crumb_op(c, s, "mapping()");
        expect_int("mapping().required_span_size()", (LL)a.mapping().required_span_size(), mod.span());
        cov(c, "mapping()", 1);
    }
    crumb_op(c, s, "is_unique()");
    expect_bool("is_unique()", a.is_unique(), true);
    expect_bool("is_strided()", a.is_strided(), true);
    expect_bool("is_always_unique()", A::is_always_unique(), true);
    expect_bool("is_always_strided()", A::is_always_strided(), true);
    cov(c, "is_unique()", 1);
    if constexpr (C::exh) {
        expect_bool("is_exhaustive()", a.is_exhaustive(), true);
        expect_bool("is_always_exhaustive()", A::is_always_exhaustive(), true);
        cov(c, "is_exhaustive()", 1);
    }
    if constexpr (C::stride && R > 0) {
        for (std::size_t r = 0; r < R; ++r) {
            crumb_op(c, s, "stride(r)");
            expect_int(r == 0 ? "stride(0)" : (r + 1 == R ? "stride(rank-1)" : "stride(middle)"), (LL)a.stride(r), mod.st[r]);
            cov(c, "stride(r)", r);
        }
    }
}

BufVec<Cell> indexed_container(LL n)
{
    BufVec<Cell> v((std::size_t)n);
    for (LL k = 0; k < n; ++k) { v[(std::size_t)k] = Cell{(int)k, -1}; }
    return v;
}

template <typename L, typename E>
NOINL void mdarray_canonical(Ctx& c)
{
    constexpr std::size_t R  = E::rank();
    constexpr std::size_t RD = E::rank_dynamic();
    using M                  = typename L::template mapping<E>;
    using A                  = etl::mdarray<Cell, E, L, BufVec<Cell>>;
    std::string const s      = std::string("mdarray<") + lay<L>::v + "," + IDXN + ",BufVec>";
    Model const mod          = lay<L>::model(c.shape, R);
    E const e                = make_extents<E>(c.shape);
    M const m(e);
    {
        crumb_op(c, s, "mdarray(extents)");
        A a(e);
        arr_light(c, s, "mdarray(extents)", a, mod, 1);
        expect_fill(a, mod, 0, 0, "mdarray(extents):elements-value-initialised");
        arr_full<CapsCanonical>(c, s, a, mod);
        // copy, move, swap, extract
        crumb_op(c, s, "mdarray(mdarray const&)");
        A cp(a);
        arr_light(c, s, "mdarray(mdarray const&)", cp, mod, 2);
        expect_bool("copy-has-own-storage", mod.span() == 0 || cp.container_data() != a.container_data(), true);
        crumb_op(c, s, "mdarray(mdarray&&)");
        A mv(std::move(cp));
        arr_light(c, s, "mdarray(mdarray&&)", mv, mod, 3);
        if constexpr (RD > 0) {
            Arr z{};
            for (std::size_t r = 0; r < R; ++r) { z[r] = E::static_extent(r) == dyn ? 0 : (LL)E::static_extent(r); }
            crumb_op(c, s, "mdarray()");
            A d;
            cov(c, "mdarray()", 1);
            for (std::size_t r = 0; r < R; ++r) { expect_int("mdarray():extent(r)", (LL)d.extent(r), z[r]); }
            expect_int("mdarray():size()", (LL)d.size(), 0);
            crumb_op(c, s, "operator=(mdarray const&)");
            d = a;
            arr_light(c, s, "operator=(mdarray const&)", d, mod, 4);
            A d2;
            crumb_op(c, s, "swap(mdarray&,mdarray&)");
            swap(d, d2);
            arr_light(c, s, "swap(mdarray&,mdarray&)", d2, mod, 5);
            expect_int("swap:other-side-size()", (LL)d.size(), 0);
        }
        Cell const* const before = mv.container_data();
        crumb_op(c, s, "extract_container()");
        BufVec<Cell> out(std::move(mv).extract_container());
        cov(c, "extract_container()", 1);
        expect_int("extract_container():size", (LL)out.size(), mod.span());
        expect_bool("extract_container():same-storage", out.data() == before, true);
    }
    {
        crumb_op(c, s, "mdarray(mapping)");
        A a(m);
        arr_light(c, s, "mdarray(mapping)", a, mod, 6);
        crumb_op(c, s, "mdarray(extents,value)");
        A a2(e, Cell{7, 9});
        arr_light(c, s, "mdarray(extents,value)", a2, mod, 7);
        expect_fill(a2, mod, 7, 9, "mdarray(extents,value):elements");
        crumb_op(c, s, "mdarray(mapping,value)");
        A a3(m, Cell{8, 3});
        arr_light(c, s, "mdarray(mapping,value)", a3, mod, 8);
        expect_fill(a3, mod, 8, 3, "mdarray(mapping,value):elements");
    }
    {
        BufVec<Cell> const src = indexed_container(mod.span());
        crumb_op(c, s, "mdarray(extents,container const&)");
        A a(e, src);
        arr_light(c, s, "mdarray(extents,container const&)", a, mod, 9);
        expect_fill(a, mod, -1, -1, "mdarray(extents,container const&):elements");
        crumb_op(c, s, "mdarray(mapping,container const&)");
        A a2(m, src);
        arr_light(c, s, "mdarray(mapping,container const&)", a2, mod, 10);
        expect_fill(a2, mod, -1, -1, "mdarray(mapping,container const&):elements");
        crumb_op(c, s, "mdarray(extents,container&&)");
        A a3(e, indexed_container(mod.span()));
        arr_light(c, s, "mdarray(extents,container&&)", a3, mod, 11);
        expect_fill(a3, mod, -1, -1, "mdarray(extents,container&&):elements");
        crumb_op(c, s, "mdarray(mapping,container&&)");
        A a4(m, indexed_container(mod.span()));
        arr_light(c, s, "mdarray(mapping,container&&)", a4, mod, 12);
        expect_fill(a4, mod, -1, -1, "mdarray(mapping,container&&):elements");
    }
    {
        crumb_op(c, s, "mdarray(OtherIndexTypes...):N=rank_dynamic");
        A a = call_dynamic<E>([&](auto... v) { return A(v...); }, c.shape);
        arr_light(c, s, "mdarray(OtherIndexTypes...):N=rank_dynamic", a, mod, 13);
    }
    if constexpr (RD != R) {
        crumb_op(c, s, "mdarray(OtherIndexTypes...):N=rank");
        A a = [&]<std::size_t... Is>(std::index_sequence<Is...>) { return A(static_cast<Idx>(c.shape[Is])...); }(std::make_index_sequence<R>{});
        arr_light(c, s, "mdarray(OtherIndexTypes...):N=rank", a, mod, 14);
    }
}

constexpr std::size_t SVCAP = 1024; // capacity of the static_vector container; larger spans are skipped for it
template <typename E>
NOINL void mdarray_strided(Ctx& c)
{
    constexpr std::size_t R = E::rank();
    using M                 = etl::layout_stride::mapping<E>;
    using A                 = etl::mdarray<Cell, E, etl::layout_stride, BufVec<Cell>>;
    using SV                = etl::static_vector<Cell, SVCAP>;
    using AS                = etl::mdarray<Cell, E, etl::layout_stride, SV>;
    std::string const s     = std::string("mdarray<layout_stride,") + IDXN + ",BufVec>";
    std::string const ss    = std::string("mdarray<layout_stride,") + IDXN + ",static_vector>";
    E const e               = make_extents<E>(c.shape);
    std::uint64_t n         = 0;
    // padded and permuted (non-exhaustive) stride sets: size() < required_span_size()
    for (Model const& mod : stride_models(c, c.shape, R)) {
        ++n;
        c.extra = "strides=" + show(mod.st, R);
        etl::array<Idx, R> sa{};
        for (std::size_t r = 0; r < R; ++r) { sa[r] = static_cast<Idx>(mod.st[r]); }
        M const m(e, sa);
        {
            crumb_op(c, s, "mdarray(mapping,container&&)");
            A a(m, indexed_container(mod.span()));
            arr_light(c, s, "mdarray(mapping,container&&)", a, mod, n * 16 + 1);
            arr_full<CapsStride>(c, s, a, mod);
            BufVec<Cell> const src = indexed_container(mod.span());
            crumb_op(c, s, "mdarray(mapping,container const&)");
            A a2(m, src);
            arr_light(c, s, "mdarray(mapping,container const&)", a2, mod, n * 16 + 2);
            expect_fill(a2, mod, -1, -1, "mdarray(mapping,container const&):elements");
            crumb_op(c, s, "mdarray(mdarray const&)");
            A cp(a2);
            arr_light(c, s, "mdarray(mdarray const&)", cp, mod, n * 16 + 3);
            crumb_op(c, s, "mdarray(mdarray&&)");
            A mv(std::move(cp));
            arr_light(c, s, "mdarray(mdarray&&)", mv, mod, n * 16 + 4);
        }
        // the constructors that size the container themselves (need layout_stride::required_span_size())
        {
            crumb_op(c, s, "mdarray(mapping)");
            A a(m);
            arr_light(c, s, "mdarray(mapping)", a, mod, n * 16 + 5);
            expect_fill(a, mod, 0, 0, "mdarray(mapping):elements-value-initialised");
            arr_touch(c, s, "mdarray(mapping)", a, mod, n * 16 + 5);
            crumb_op(c, s, "mdarray(mapping,value)");
            A a2(m, Cell{8, 3});
            arr_light(c, s, "mdarray(mapping,value)", a2, mod, n * 16 + 6);
            expect_fill(a2, mod, 8, 3, "mdarray(mapping,value):elements");
            arr_touch(c, s, "mdarray(mapping,value)", a2, mod, n * 16 + 6);
        }
        // the same with etl::static_vector as the (size-constructible) container
#if VF_SVEC
        if (mod.span() <= (LL)SVCAP) {
            crumb_op(c, ss, "mdarray(mapping)");
            AS a(m);
            arr_light(c, ss, "mdarray(mapping)", a, mod, n * 16 + 7);
            expect_fill(a, mod, 0, 0, "mdarray(mapping):elements-value-initialised");
            arr_touch(c, ss, "mdarray(mapping)", a, mod, n * 16 + 7);
            crumb_op(c, ss, "mdarray(mapping,value)");
            AS a2(m, Cell{8, 3});
            arr_light(c, ss, "mdarray(mapping,value)", a2, mod, n * 16 + 8);
            expect_fill(a2, mod, 8, 3, "mdarray(mapping,value):elements");
            arr_touch(c, ss, "mdarray(mapping,value)", a2, mod, n * 16 + 8);
            SV src((std::size_t)mod.span());
            for (LL k = 0; k < mod.span(); ++k) { src[(std::size_t)k] = Cell{(int)k, -1}; }
            crumb_op(c, ss, "mdarray(mapping,container const&)");
            AS a3(m, src);
            arr_light(c, ss, "mdarray(mapping,container const&)", a3, mod, n * 16 + 9);
            expect_fill(a3, mod, -1, -1, "mdarray(mapping,container const&):elements");
            crumb_op(c, ss, "mdarray(mapping,container&&)");
            AS a4(m, std::move(src));
            arr_light(c, ss, "mdarray(mapping,container&&)", a4, mod, n * 16 + 10);
            crumb_op(c, ss, "mdarray(mdarray const&)");
            AS cp(a3);
            arr_light(c, ss, "mdarray(mdarray const&)", cp, mod, n * 16 + 11);
            crumb_op(c, ss, "to_mdspan()");
            auto const md = a2.to_mdspan();
            md_light(c, ss, "to_mdspan()", md, a2.container_data(), mod, n * 16 + 12);
        }
#endif
    }
    c.extra.clear();
}

// all-static patterns: etl::array as the container
template <typename E, typename Seq>
struct static_size;
template <typename E, std::size_t... Is>
struct static_size<E, std::index_sequence<Is...>> {
    static constexpr std::size_t value = (std::size_t(1) * ... * (E::static_extent(Is) == dyn ? 1 : E::static_extent(Is)));
};
template <typename L, typename E>
NOINL void mdarray_static_one(Ctx& c)
{
    constexpr std::size_t R = E::rank();
    constexpr std::size_t N = static_size<E, std::make_index_sequence<R>>::value;
    if constexpr (N > 0) {
        using M             = typename L::template mapping<E>;
        using Ctr           = etl::array<Cell, N>;
        using A             = etl::mdarray<Cell, E, L, Ctr>;
        std::string const s = std::string("mdarray<") + lay<L>::v + "," + IDXN + ",etl::array>";
        Model const mod     = lay<L>::model(c.shape, R);
        E const e{};
        M const m(e);
        {
            crumb_op(c, s, "mdarray(extents)");
            A a(e);
            arr_light(c, s, "mdarray(extents)", a, mod, 1);
            arr_full<CapsCanonical>(c, s, a, mod);
            crumb_op(c, s, "mdarray(mdarray const&)");
            A cp(a);
            arr_light(c, s, "mdarray(mdarray const&)", cp, mod, 2);
        }
        {
            crumb_op(c, s, "mdarray(mapping)");
            A a(m);
            arr_light(c, s, "mdarray(mapping)", a, mod, 3);
            crumb_op(c, s, "mdarray(extents,value)");
            A a2(e, Cell{7, 9});
            arr_light(c, s, "mdarray(extents,value)", a2, mod, 4);
            expect_fill(a2, mod, 7, 9, "mdarray(extents,value):elements");
            crumb_op(c, s, "mdarray(mapping,value)");
            A a3(m, Cell{8, 3});
            arr_light(c, s, "mdarray(mapping,value)", a3, mod, 5);
            expect_fill(a3, mod, 8, 3, "mdarray(mapping,value):elements");
            Ctr src{};
            for (std::size_t k = 0; k < N; ++k) { src[k] = Cell{(int)k, -1}; }
            crumb_op(c, s, "mdarray(extents,container const&)");
            A a4(e, src);
            arr_light(c, s, "mdarray(extents,container const&)", a4, mod, 6);
            expect_fill(a4, mod, -1, -1, "mdarray(extents,container const&):elements");
            crumb_op(c, s, "mdarray(mapping,container const&)");
            A a5(m, src);
            arr_light(c, s, "mdarray(mapping,container const&)", a5, mod, 7);
            expect_fill(a5, mod, -1, -1, "mdarray(mapping,container const&):elements");
        }
    }
}
template <typename E>
NOINL void mdarray_static(Ctx& c)
{
    if constexpr (E::rank_dynamic() == 0) {
        mdarray_static_one<etl::layout_left, E>(c);
        mdarray_static_one<etl::layout_right, E>(c);
    }
}

// ------------------------------------------------------------------ two objects in different run-time states
// (other dynamic extents, other strides - also with all-static extents -, other storage): swap, copy/move assignment,
// copy/move construction; afterwards BOTH objects are compared in full with the model of the state they must hold:
// storage size, extents, strides, every element's address, value (cell index) and owner (which storage it lives in).
#ifndef VF_TWO
    #define VF_TWO 1
#endif
template <typename C, typename A>
NOINL void arr_state(Ctx const& c, std::string const& s, char const* op, A const& a, Model const& mod, int owner, std::uint64_t salt)
{
    constexpr std::size_t R = A::rank();
    arr_light(c, s, op, a, mod, salt); // storage size, extents, every address (inside the container), read
    crumb_op(c, s, op);
    if constexpr (C::stride && R > 0) {
        for (std::size_t r = 0; r < R; ++r) { expect_int(r == 0 ? "stride(0)" : (r + 1 == R ? "stride(rank-1)" : "stride(middle)"), (LL)a.stride(r), mod.st[r]); }
    }
    if constexpr (C::rss) { expect_int("mapping().required_span_size()", (LL)a.mapping().required_span_size(), mod.span()); }
    Cell const* const base = a.container_data();
    LL const ncells        = (LL)a.container_size();
    Arr i{};
    bool bad = false;
    if (!mod.empty()) {
        do {
            crumb_idx(c, s, op, i, R);
            Cell const& ref = call_idx<Idx, R>(a, i);
            LL const at     = (LL)(&ref - base);
            if (at >= 0 && at < ncells && !bad && (ref.lin != (int)mod.off(i) || ref.tag != owner)) {
                bad = true;
                vf::diverge(ref.tag != owner ? "element-value:from-the-other-object's-storage" : "element-value:wrong-cell", "{" + vf::to_s(ref.lin) + ",owner " + vf::to_s(ref.tag) + "}",
                    "{" + vf::to_s(mod.off(i)) + ",owner " + vf::to_s(owner) + "}");
            }
        } while (next(i, mod.e, R));
    }
    vf::cover_bulk("two-objects:element-values", (std::uint64_t)mod.size(), vf::mix(c.h, salt + 7), (std::uint64_t)mod.size());
}
template <typename A>
void own(A& a, int owner)
{
    Cell* const d = a.container_data();
    for (std::size_t k = 0; k < (std::size_t)a.container_size(); ++k) { d[k] = Cell{(int)k, owner}; }
}
template <typename C, typename A, typename M, typename Mk>
NOINL void two_arrays(Ctx& c, std::string const& s, M const& m1, Model const& mod1, M const& m2, Model const& mod2, Mk make_container)
{
    c.extra = "state1: extents=" + show(mod1.e, mod1.R) + " strides=" + show(mod1.st, mod1.R) + " state2: extents=" + show(mod2.e, mod2.R) + " strides=" + show(mod2.st, mod2.R);
    // every operation starts from two freshly built objects (state 1 / state 2), so one defect does not cascade into the next check
    auto fresh = [&](M const& m, Model const& mod, int owner) {
        A o(m, make_container(mod.span()));
        own(o, owner);
        return o;
    };
    {
        crumb_op(c, s, "mdarray(mapping,container&&)");
        A a = fresh(m1, mod1, 1), b = fresh(m2, mod2, 2);
        arr_state<C>(c, s, "mdarray(mapping,container&&)", a, mod1, 1, 201);
        arr_state<C>(c, s, "mdarray(mapping,container&&)", b, mod2, 2, 202);
        crumb_op(c, s, "swap(mdarray&,mdarray&)");
        swap(a, b);
        arr_state<C>(c, s, "swap(mdarray&,mdarray&)", a, mod2, 2, 203);
        arr_state<C>(c, s, "swap(mdarray&,mdarray&)", b, mod1, 1, 204);
    }
    {
        A a = fresh(m2, mod2, 2), b = fresh(m1, mod1, 1);
        crumb_op(c, s, "operator=(mdarray const&)");
        a = b; // a held state 2
        arr_state<C>(c, s, "operator=(mdarray const&)", a, mod1, 1, 205);
        arr_state<C>(c, s, "operator=(mdarray const&)", b, mod1, 1, 206);
        expect_bool("operator=(mdarray const&):own-storage", mod1.span() == 0 || a.container_data() != b.container_data(), true);
    }
    {
        A a = fresh(m1, mod1, 1), b = fresh(m1, mod1, 1), t = fresh(m2, mod2, 2);
        crumb_op(c, s, "operator=(mdarray&&)");
        b = std::move(t); // b held state 1
        arr_state<C>(c, s, "operator=(mdarray&&)", b, mod2, 2, 207);
        arr_state<C>(c, s, "operator=(mdarray&&)", a, mod1, 1, 208);
    }
    {
        A a = fresh(m1, mod1, 1), b = fresh(m2, mod2, 2);
        crumb_op(c, s, "mdarray(mdarray const&)");
        A cc(b);
        arr_state<C>(c, s, "mdarray(mdarray const&)", cc, mod2, 2, 209);
        arr_state<C>(c, s, "mdarray(mdarray const&)", a, mod1, 1, 211);
        crumb_op(c, s, "mdarray(mdarray&&)");
        A mc(std::move(cc));
        arr_state<C>(c, s, "mdarray(mdarray&&)", mc, mod2, 2, 210);
    }
    c.extra.clear();
}

template <typename C, typename MD>
NOINL void md_state(Ctx const& c, std::string const& s, char const* op, MD const& md, Cell* base, LL ncells, Model const& mod, int owner, std::uint64_t salt)
{
    constexpr std::size_t R = MD::rank();
    md_light(c, s, op, md, base, mod, salt); // data handle, extents, every address
    crumb_op(c, s, op);
    if constexpr (C::stride && R > 0) {
        for (std::size_t r = 0; r < R; ++r) { expect_int(r == 0 ? "stride(0)" : (r + 1 == R ? "stride(rank-1)" : "stride(middle)"), (LL)md.stride(r), mod.st[r]); }
    }
    if constexpr (C::rss) { expect_int("mapping().required_span_size()", (LL)md.mapping().required_span_size(), mod.span()); }
    Arr i{};
    bool bad = false;
    if (!mod.empty()) {
        do {
            crumb_idx(c, s, op, i, R);
            Cell const& ref = call_idx<Idx, R>(md, i);
            LL const at     = (LL)(&ref - base);
            if (at >= 0 && at < ncells && !bad && (ref.lin != (int)mod.off(i) || ref.tag != owner)) {
                bad = true;
                vf::diverge(ref.tag != owner ? "element-value:from-the-other-object's-storage" : "element-value:wrong-cell", "{" + vf::to_s(ref.lin) + ",owner " + vf::to_s(ref.tag) + "}",
                    "{" + vf::to_s(mod.off(i)) + ",owner " + vf::to_s(owner) + "}");
            }
        } while (next(i, mod.e, R));
    }
    vf::cover_bulk("two-objects:element-values", (std::uint64_t)mod.size(), vf::mix(c.h, salt + 7), (std::uint64_t)mod.size());
}
template <typename C, typename MD, typename M>
NOINL void two_views(Ctx& c, std::string const& s, M const& m1, Model const& mod1, M const& m2, Model const& mod2)
{
    c.extra = "state1: extents=" + show(mod1.e, mod1.R) + " strides=" + show(mod1.st, mod1.R) + " state2: extents=" + show(mod2.e, mod2.R) + " strides=" + show(mod2.st, mod2.R);
    Block b1(mod1.span()), b2(mod2.span());
    for (LL k = 0; k < b1.size(); ++k) { b1.data()[k] = Cell{(int)k, 1}; }
    for (LL k = 0; k < b2.size(); ++k) { b2.data()[k] = Cell{(int)k, 2}; }
    Cell* const p1 = b1.data();
    Cell* const p2 = b2.data();
    crumb_op(c, s, "mdspan(ptr,mapping)");
    MD x(p1, m1);
    MD y(p2, m2);
    md_state<C>(c, s, "mdspan(ptr,mapping)", x, p1, b1.size(), mod1, 1, 301);
    md_state<C>(c, s, "mdspan(ptr,mapping)", y, p2, b2.size(), mod2, 2, 302);
    crumb_op(c, s, "mdspan(mdspan const&)");
    MD cy(y);
    md_state<C>(c, s, "mdspan(mdspan const&)", cy, p2, b2.size(), mod2, 2, 303);
    md_state<C>(c, s, "mdspan(mdspan const&)", x, p1, b1.size(), mod1, 1, 304);
    crumb_op(c, s, "mdspan(mdspan&&)");
    MD my(std::move(cy));
    md_state<C>(c, s, "mdspan(mdspan&&)", my, p2, b2.size(), mod2, 2, 305);
    // assignment / swap: std::mdspan has both; detected, because etl::mdspan may not provide them (see proposed/C19/findings3.jsonl)
    if constexpr (std::is_copy_assignable_v<MD> && std::is_move_assignable_v<MD>) {
        crumb_op(c, s, "operator=(mdspan const&)");
        x = y; // x viewed storage 1 with mapping 1
        md_state<C>(c, s, "operator=(mdspan const&)", x, p2, b2.size(), mod2, 2, 306);
        md_state<C>(c, s, "operator=(mdspan const&)", y, p2, b2.size(), mod2, 2, 307);
        crumb_op(c, s, "operator=(mdspan&&)");
        x = MD(p1, m1);
        md_state<C>(c, s, "operator=(mdspan&&)", x, p1, b1.size(), mod1, 1, 308);
        if constexpr (requires { swap(x, y); }) {
            MD x2(p1, m1), y2(p2, m2); // fresh pair
            crumb_op(c, s, "swap(mdspan&,mdspan&)");
            swap(x2, y2);
            md_state<C>(c, s, "swap(mdspan&,mdspan&)", x2, p2, b2.size(), mod2, 2, 311);
            md_state<C>(c, s, "swap(mdspan&,mdspan&)", y2, p1, b1.size(), mod1, 1, 312);
            x = MD(p1, m1);
            y = MD(p2, m2);
            crumb_op(c, s, "swap(mdspan&,mdspan&)");
            swap(x, y);
            md_state<C>(c, s, "swap(mdspan&,mdspan&)", x, p2, b2.size(), mod2, 2, 309);
            md_state<C>(c, s, "swap(mdspan&,mdspan&)", y, p1, b1.size(), mod1, 1, 310);
        }
    } else if (vf::want_sample("absent:mdspan-assignment")) {
        vf::sample("absent:mdspan-assignment", "etl::mdspan is neither copy- nor move-assignable (and has no swap) on this tree: operator=/swap of mdspan not exercised, not counted as passed");
    }
    b1.b.check("view 1 cells");
    b2.b.check("view 2 cells");
    c.extra.clear();
}

template <typename E>
NOINL void two_objects(Ctx& c)
{
#if VF_TWO
    constexpr std::size_t R = E::rank();
    Arr const sh2           = other_shape(*c.p, c.shape); // differs at every dynamic position; equal for all-static patterns
    if (!fits<Idx>(product(sh2, R))) { return; }
    E const e1 = make_extents<E>(c.shape);
    E const e2 = make_extents<E>(sh2);
    auto bufvec = [](LL n) { return indexed_container(n); };
    {
        using L = etl::layout_left;
        using M = L::mapping<E>;
        two_arrays<CapsCanonical, etl::mdarray<Cell, E, L, BufVec<Cell>>>(c, std::string("mdarray<layout_left,") + IDXN + ",BufVec>", M(e1), model_left(c.shape, R), M(e2), model_left(sh2, R), bufvec);
        two_views<CapsCanonical, etl::mdspan<Cell, E, L>>(c, std::string("mdspan<layout_left,") + IDXN + ">", M(e1), model_left(c.shape, R), M(e2), model_left(sh2, R));
    }
    // (layout_right is symmetrical to layout_left here; its swap/assignment against a default-constructed object is in mdarray_canonical)
    if constexpr (R > 0) {
        // layout_stride: the strides are run-time state even when every extent is static
        using L         = etl::layout_stride;
        using M         = L::mapping<E>;
        unsigned const h = (unsigned)(c.h >> 8);
        Model const modA = model_strided(c.shape, R, factorial(R) - 1, 1, 1);   // row-major, padded
        Model const modB = model_strided(sh2, R, h % factorial(R), 0, 2);       // a permutation, every second element
        if (stride_model_fits(modA) && stride_model_fits(modB)) {
            auto mk = [](E const& e, Model const& mod) {
                etl::array<Idx, R> sa{};
                for (std::size_t r = 0; r < R; ++r) { sa[r] = static_cast<Idx>(mod.st[r]); }
                return M(e, sa);
            };
            two_arrays<CapsStride, etl::mdarray<Cell, E, L, BufVec<Cell>>>(c, std::string("mdarray<layout_stride,") + IDXN + ",BufVec>", mk(e1, modA), modA, mk(e2, modB), modB, bufvec);
            two_views<CapsStride, etl::mdspan<Cell, E, L>>(c, std::string("mdspan<layout_stride,") + IDXN + ">", mk(e1, modA), modA, mk(e2, modB), modB);
            if constexpr (E::rank_dynamic() == 0) {
                // all-static extents with etl::array storage: row-major vs column-major strides over N = product cells
                constexpr std::size_t N = static_size<E, std::make_index_sequence<R>>::value;
                if constexpr (N > 0) {
                    Model const rm = model_strided(c.shape, R, factorial(R) - 1, 0, 1), cm = model_strided(c.shape, R, 0, 0, 1);
                    auto arr = [](LL) { return etl::array<Cell, N>{}; };
                    two_arrays<CapsStride, etl::mdarray<Cell, E, L, etl::array<Cell, N>>>(c, std::string("mdarray<layout_stride,") + IDXN + ",etl::array>", mk(e1, rm), rm, mk(e1, cm), cm, arr);
                }
            }
        }
    }
#else
    (void)c;
#endif
}

template <std::size_t K>
struct Run {
    // VF_GMASK selects the operation groups compiled into this binary (bit g = group g): lets props split the
    // expensive groups over several units for parallel compilation
    template <unsigned G>
    static constexpr bool on = ((VF_GMASK >> G) & 1U) != 0;
    static void run(Ctx& c)
    {
        using E                  = sel_t<K>;
        constexpr std::size_t GE = VF_PLO + K * VF_PSTEP;
        switch (c.group) {
        case 0:
            if constexpr (on<0>) { mdspan_canonical<etl::layout_left, E, GE>(c); }
            break;
        case 1:
            if constexpr (on<1>) { mdspan_canonical<etl::layout_right, E, GE>(c); }
            break;
        case 2:
            if constexpr (on<2> && E::rank() > 0) { mdspan_strided<E>(c); }
            break;
        case 3:
            if constexpr (on<3>) { mdspan_transposed<E>(c); }
            break;
        case 4:
            if constexpr (on<4>) { mdarray_canonical<etl::layout_left, E>(c); }
            break;
        case 5:
            if constexpr (on<5>) { mdarray_canonical<etl::layout_right, E>(c); }
            break;
        case 6:
            if constexpr (on<6> && E::rank() > 0) { mdarray_strided<E>(c); }
            break;
        case 7:
            if constexpr (on<7>) { mdarray_static<E>(c); }
            break;
        case 8:
            if constexpr (on<8>) { two_objects<E>(c); }
            break;
        default: break;
        }
    }
};

void run_case(vf::Case& c)
{
    Ctx x;
    std::size_t k   = 0;
    std::uint64_t s = 0;
    x.enumerated    = c.enumerated;
    x.thorough      = c.tier == vf::Tier::thorough;
    x.rng           = &c.rng;
    if (c.enumerated) {
        space().decode(c.index / NGROUP, k, s);
        x.group = (unsigned)(c.index % NGROUP);
        x.p     = &pinfos()[k];
        x.shape = shape_of(*x.p, s);
    } else {
        k       = (std::size_t)c.rng.below(NSEL);
        x.group = (unsigned)c.rng.below(NGROUP);
        x.p     = &pinfos()[k];
        x.shape = random_shape<Idx>(*x.p, c.rng, 8, (x.group == 2 || x.group == 3 || x.group == 6) ? 4 : 1);
    }
    if (!fits<Idx>(product(x.shape, x.p->rank))) { return; } // domain: index space size representable
    if (((VF_GMASK >> x.group) & 1U) == 0) { return; } // group not compiled into this unit
    if (x.group == 3 && x.p->rank != 2) { return; }
    if (x.group == 7 && x.p->rd != 0) { return; }
    x.sit        = situation(*x.p, x.shape);
    x.desc       = show(x.shape, x.p->rank);
    x.h          = vf::mix(hash_arr(x.shape, x.p->rank, (VF_PLO + k * VF_PSTEP) * 131 + 23), x.group);
    x.nontrivial = x.p->rank > 0;
    {
        static char const* const gname[NGROUP] = {"mdspan<layout_left>", "mdspan<layout_right>", "mdspan<layout_stride>", "mdspan<layout_transpose<L>>", "mdarray<layout_left,BufVec>",
            "mdarray<layout_right,BufVec>", "mdarray<layout_stride,BufVec>", "mdarray<left|right,etl::array>", "two objects in different states: swap/assign/copy/move"};
        std::string const lab = std::string("md:") + x.p->cls;
        if ((x.p->rank == 0 || product(x.shape, x.p->rank) > 1) && vf::want_sample(lab.c_str())) {
            vf::sample(lab.c_str(), "%s over extents<%s,%s> shape %s: every constructor form, then all %lld elements by address (== data()+model offset), read-through (cell holds its own index) and write-through",
                gname[x.group], IDXN, x.p->name, x.desc.c_str(), product(x.shape, x.p->rank));
        }
    }
    crumb_op(x, std::string("extents<") + IDXN + ">", "setup:extents(OtherIndexTypes...):N=rank_dynamic"); // faults before an operation's own breadcrumb
    dispatch<Run>(k, x);
}
} // namespace

#define VF_STR2(x) #x
#define VF_STR(x) VF_STR2(x)
VF_MAIN("C19", "C19_md_" VF_IDX_NAME "_g" VF_STR(VF_GMASK), spec, run_case)
