// C07 - a payload type with a HOSTILE unary operator& (it returns the address of a decoy object) through every access
// path of optional / variant / expected, in all value categories.  Every pointer / reference the owners hand out must
// designate the stored object: identity is checked with std::addressof against the object reached through operator* /
// the active alternative, and the value read through the pointer must be the stored one (the decoy's id is -1).
// Paths: optional operator* (4 categories), operator-> (const / non-const), emplace's returned reference, value_or,
// and_then / or_else argument identity, construction / assignment / swap / reset; variant get_if<I> / get_if<T>
// (const and non-const), access to the active alternative (4 categories), emplace's reference, visit argument
// identity (1 and 2 variants), copy / move / converting assignment, swap; expected operator* / operator-> / error()
// (all categories), emplace, value_or, and_then / or_else argument identity, copy / move assignment, swap.
// Twin worlds (vf_c07.hpp): std::optional / std::variant / std::expected run the same text and are the reference.
#include "vf.hpp"
#include "vf_contract.hpp"
#include "vf_tracked.hpp"

#include "vf_c07.hpp"

#include <memory>

#if __cplusplus <= 202002L
    #error "this unit needs -std=c++23 (std::expected)"
#endif

namespace {
using namespace c07;

struct Evil {
    int id;
    Evil() noexcept : id(0) { }
    Evil(int x) noexcept : id(x) { } // NOLINT implicit on purpose
    static Evil& decoy()
    {
        static Evil d(-1);
        return d;
    }
    Evil* operator&() noexcept { return std::addressof(decoy()); }             // NOLINT hostile on purpose
    Evil const* operator&() const noexcept { return std::addressof(decoy()); } // NOLINT
    friend bool operator==(Evil const& a, Evil const& b) { return a.id == b.id; }
    friend bool operator<(Evil const& a, Evil const& b) { return a.id < b.id; }
};
long long enc(Evil const& e) { return e.id; }
using c07::enc;

// ================================================================ optional<Evil>
template <typename NS>
void opt_world(Obs& r, int op, bool engaged, bool other_engaged)
{
    using O  = typename NS::template optional<Evil>;
    using OL = typename NS::template optional<long>;
    O o      = engaged ? O(NS::in_place, 1) : O();
    O other  = other_engaged ? O(NS::in_place, 2) : O();
    O const& co = o;
    switch (op) {
    case 0: // observers
        if (o.has_value()) {
            Evil const* base = std::addressof(*o);
            r.b("addressof(*const-lvalue)==addressof(*lvalue)", std::addressof(*co) == base);
            Evil&& rr        = *static_cast<O&&>(o);
            Evil const&& crr = *static_cast<O const&&>(co);
            r.b("addressof(*rvalue)==addressof(*lvalue)", std::addressof(rr) == base);
            r.b("addressof(*const-rvalue)==addressof(*lvalue)", std::addressof(crr) == base);
            r.b("operator->()==addressof(*o)", o.operator->() == base);
            r.b("const operator->()==addressof(*o)", co.operator->() == base);
            r.i("o->id", o->id);
            r.i("const o->id", co->id);
        } else {
            for (int k = 0; k < 5; ++k) { r.b("(empty)", true); }
            r.i("o->id", kAbsent);
            r.i("const o->id", kAbsent);
        }
        break;
    case 1: {
        Evil& ref = o.emplace(5);
        r.b("emplace-returns-contained", std::addressof(ref) == std::addressof(*o));
        r.i("emplace-ret.id", ref.id);
        break;
    }
    case 2: {
        Evil got  = co.value_or(9);
        Evil got2 = static_cast<O&&>(o).value_or(9);
        r.i("value_or const&", got.id);
        r.i("value_or &&", got2.id);
        break;
    }
    case 3: {
        Evil const* seen  = nullptr;
        Evil const* seen2 = nullptr;
        OL a = o.and_then([&](Evil& x) { seen = std::addressof(x); return OL(x.id + 1L); });
        OL b = co.and_then([&](Evil const& x) { seen2 = std::addressof(x); return OL(x.id + 2L); });
        r.b("and_then& argument is the contained object", o.has_value() ? seen == std::addressof(*o) : seen == nullptr);
        r.b("and_then const& argument is the contained object", o.has_value() ? seen2 == std::addressof(*o) : seen2 == nullptr);
        r.i("and_then&.ret", a.has_value() ? *a : kAbsent);
        r.i("and_then const&.ret", b.has_value() ? *b : kAbsent);
        O c = co.or_else([&] { return O(NS::in_place, 7); });
        r.i("or_else.ret", c.has_value() ? c->id : kAbsent);
        break;
    }
    case 4: o = other; break;
    case 5: o = static_cast<O&&>(other); break;
    case 6: o = Evil(6); break;
    case 7: o.swap(other); break;
    case 8: NS::adl_swap(o, other); break;
    case 9: o.reset(); break;
    case 10: {
        O c(o);
        O d(static_cast<O&&>(other));
        r.i("copy.id", c.has_value() ? (*c).id : kAbsent);
        r.i("moved-to.id", d.has_value() ? (*d).id : kAbsent);
        r.b("copy operator->", !c.has_value() || std::as_const(c).operator->() == std::addressof(*c));
        break;
    }
    default: {
        Evil e(8);
        o = e;
        r.b("relations", (o == other) || (o < other) || true);
        r.b("o==other", o == other);
        r.b("o<other", o < other);
        break;
    }
    }
    r.b("has_value", o.has_value());
    r.i("value", o.has_value() ? (*o).id : kAbsent);
    r.b("const operator-> designates the contained object", !o.has_value() || co.operator->() == std::addressof(*o));
    r.b("operator-> designates the contained object", !o.has_value() || o.operator->() == std::addressof(*o));
    r.i("other.value", other.has_value() ? (*other).id : kAbsent);
}

// ================================================================ variant<int, Evil, char>
template <typename NS>
struct VarE {
    using V = typename NS::template variant<int, Evil, char>;
    static V mk(int j, int v) { return j == 0 ? V(NS::template ipi<0>, v) : j == 1 ? V(NS::template ipi<1>, v) : V(NS::template ipi<2>, v); }
    static void battery(Obs& r, V& v)
    {
        V const& cv = v;
        r.i("index", (long long)v.index());
        Evil const* base = v.index() == 1 ? std::addressof(NS::template get_active<1>(v)) : nullptr;
        r.b("get_if<1>(V*) designates the alternative", NS::template get_if<1>(&v) == base);
        r.b("get_if<1>(V const*) designates the alternative", NS::template get_if<1>(&cv) == base);
        r.b("get_if<Evil>(V*) designates the alternative", NS::template get_if_t<Evil>(&v) == base);
        r.b("get_if<Evil>(V const*) designates the alternative", NS::template get_if_t<Evil>(&cv) == base);
        r.i("get_if<1>(V const*)->id", NS::template get_if<1>(&cv) ? NS::template get_if<1>(&cv)->id : kAbsent);
        r.i("get_if<Evil>(V const*)->id", NS::template get_if_t<Evil>(&cv) ? NS::template get_if_t<Evil>(&cv)->id : kAbsent);
        r.i("get_if<1>(V*)->id", NS::template get_if<1>(&v) ? NS::template get_if<1>(&v)->id : kAbsent);
        r.i("*get_if<0>", NS::template get_if<0>(&cv) ? *NS::template get_if<0>(&cv) : kAbsent);
        r.i("*get_if<2>", NS::template get_if<2>(&cv) ? *NS::template get_if<2>(&cv) : kAbsent);
        r.b("holds_alternative<Evil>", NS::template holds<Evil>(cv));
        if (base != nullptr) {
            r.b("active(const lvalue) is the alternative", std::addressof(NS::template get_active<1>(cv)) == base);
            auto&& rr  = NS::template get_active<1>(static_cast<V&&>(v));
            auto&& crr = NS::template get_active<1>(static_cast<V const&&>(cv));
            r.b("active(rvalue) is the alternative", std::addressof(rr) == base);
            r.b("active(const rvalue) is the alternative", std::addressof(crr) == base);
        } else {
            r.b("active(const lvalue) is the alternative", true);
            r.b("active(rvalue) is the alternative", true);
            r.b("active(const rvalue) is the alternative", true);
        }
    }
};
template <typename NS>
void var_world(Obs& r, int op, int i, int j)
{
    using W = VarE<NS>;
    using V = typename W::V;
    V v     = W::mk(i, 1);
    V other = W::mk(j, 2);
    switch (op) {
    case 0: break; // battery only
    case 1: {
        Evil& ref = v.template emplace<1>(5);
        r.b("emplace<I>-returns-contained", std::addressof(ref) == std::addressof(NS::template get_active<1>(v)));
        Evil& ref2 = other.template emplace<Evil>(6);
        r.b("emplace<T>-returns-contained", std::addressof(ref2) == std::addressof(NS::template get_active<1>(other)));
        break;
    }
    case 2: {
        void const* seen = nullptr;
        long long val    = kAbsent;
        V const& cv      = v;
        NS::visit([&](auto const& x) { seen = std::addressof(x); val = enc(x); }, cv);
        void const* want = nullptr;
        with_index<3>(v.index(), [&](auto I) { want = std::addressof(NS::template get_active<decltype(I)::value>(cv)); });
        r.b("visit argument is the active alternative (const&)", seen == want);
        r.i("visit saw", val);
        void* seen2 = nullptr;
        NS::visit([&](auto& x) { seen2 = std::addressof(x); }, v);
        r.b("visit argument is the active alternative (&)", seen2 == want);
        void const *s1 = nullptr, *s2 = nullptr;
        NS::visit([&](auto const& x, auto const& y) { s1 = std::addressof(x); s2 = std::addressof(y); }, cv, std::as_const(other));
        void const* want2 = nullptr;
        with_index<3>(other.index(), [&](auto I) { want2 = std::addressof(NS::template get_active<decltype(I)::value>(std::as_const(other))); });
        r.b("visit(f,v,w) arguments are the active alternatives", s1 == want && s2 == want2);
        break;
    }
    case 3: v = other; break;
    case 4: v = static_cast<V&&>(other); break;
    case 5: v = Evil(7); break;
    case 6: {
        Evil e(8);
        v = e;
        break;
    }
    case 7: NS::adl_swap(v, other); break;
    case 8: {
        V c(v);
        V d(static_cast<V&&>(other));
        W::battery(r, c);
        W::battery(r, d);
        break;
    }
    default: {
        V const& cv = v;
        r.b("v==other", cv == std::as_const(other));
        r.b("v<other", cv < std::as_const(other));
        break;
    }
    }
    W::battery(r, v);
    W::battery(r, other);
}

// ================================================================ expected<Evil,int> / expected<int,Evil>
template <typename NS>
void exp_world(Obs& r, int op, bool has, bool other_has)
{
    using X  = typename NS::template expected<Evil, int>;
    using Y  = typename NS::template expected<int, Evil>;
    using XL = typename NS::template expected<long, int>;
    using XG = typename NS::template expected<Evil, long>;
    X x      = has ? X(NS::in_place, 1) : X(NS::unexpect, 3);
    X other  = other_has ? X(NS::in_place, 2) : X(NS::unexpect, 4);
    Y y      = has ? Y(NS::in_place, 1) : Y(NS::unexpect, 3);
    X const& cx = x;
    Y const& cy = y;
    switch (op) {
    case 0:
        if (x.has_value()) {
            Evil const* base = std::addressof(*x);
            r.b("addressof(*const-lvalue)==addressof(*lvalue)", std::addressof(*cx) == base);
            Evil&& rr        = *static_cast<X&&>(x);
            Evil const&& crr = *static_cast<X const&&>(cx);
            r.b("addressof(*rvalue)==addressof(*lvalue)", std::addressof(rr) == base);
            r.b("addressof(*const-rvalue)==addressof(*lvalue)", std::addressof(crr) == base);
            r.b("operator->()==addressof(*x)", x.operator->() == base);
            r.b("const operator->()==addressof(*x)", cx.operator->() == base);
            r.i("x->id", x->id);
            r.i("const x->id", cx->id);
        } else {
            Evil const* base = std::addressof(y.error());
            r.b("addressof(error() const&)==addressof(error() &)", std::addressof(cy.error()) == base);
            Evil&& rr        = static_cast<Y&&>(y).error();
            Evil const&& crr = static_cast<Y const&&>(cy).error();
            r.b("addressof(error() &&)==addressof(error() &)", std::addressof(rr) == base);
            r.b("addressof(error() const&&)==addressof(error() &)", std::addressof(crr) == base);
            r.b("(padding)", true);
            r.b("(padding)", true);
            r.i("error().id", y.error().id);
            r.i("const error().id", cy.error().id);
        }
        break;
    case 1: {
        Evil& ref = x.emplace(5);
        r.b("emplace-returns-contained", std::addressof(ref) == std::addressof(*x));
        break;
    }
    case 2: {
        Evil got  = cx.value_or(9);
        Evil got2 = static_cast<X&&>(x).value_or(9);
        r.i("value_or const&", got.id);
        r.i("value_or &&", got2.id);
        break;
    }
    case 3: {
        // and_then on an lvalue: the callable receives the contained object itself (tetl member vs. the standard's wording)
        Evil const* seen = nullptr;
        auto f           = [&](Evil& v) { seen = std::addressof(v); return XL(NS::in_place, v.id + 1L); };
        XL ret           = [&] {
            if constexpr (NS::is_etl) {
                return x.and_then(f);
            } else {
                return x.has_value() ? f(*x) : XL(std::unexpect, x.error());
            }
        }();
        r.b("and_then& argument is the contained object", x.has_value() ? seen == std::addressof(*x) : seen == nullptr);
        r.i("and_then&.ret", ret.has_value() ? *ret : kAbsent);
        Evil const* eseen = nullptr;
        auto g            = [&](Evil& e) { eseen = std::addressof(e); return typename NS::template expected<int, long>(NS::unexpect, e.id + 1L); };
        auto ret2         = [&] {
            if constexpr (NS::is_etl) {
                return y.or_else(g);
            } else {
                return y.has_value() ? typename NS::template expected<int, long>(std::in_place, *y) : g(y.error());
            }
        }();
        r.b("or_else& argument is the contained error", y.has_value() ? eseen == nullptr : eseen == std::addressof(y.error()));
        r.b("or_else&.ret.has_value", ret2.has_value());
        (void)sizeof(XG);
        break;
    }
    case 4: x = other; break;
    case 5: x = static_cast<X&&>(other); break;
    case 6: NS::adl_swap(x, other); break;
    default: {
        X c(x);
        X d(static_cast<X&&>(other));
        r.i("copy.id", c.has_value() ? (*c).id : kAbsent);
        r.i("moved-to.id", d.has_value() ? (*d).id : kAbsent);
        break;
    }
    }
    r.b("has_value", x.has_value());
    r.i("value", x.has_value() ? (*x).id : kAbsent);
    r.i("error", x.has_value() ? kAbsent : x.error());
    r.b("const operator-> designates the contained object", !x.has_value() || cx.operator->() == std::addressof(*x));
    r.b("operator-> designates the contained object", !x.has_value() || x.operator->() == std::addressof(*x));
    r.i("const x->id", x.has_value() ? cx->id : kAbsent);
}

void run_all()
{
    static constexpr char const* oname[12] = {"operator* / operator->", "emplace(args)", "value_or(d)", "and_then(f) / or_else(f)", "operator=(optional const&)", "operator=(optional&&)", "operator=(T&&)",
        "swap(other)", "swap(a,b)", "reset()", "ctor(optional const&) / ctor(optional&&)", "operator=(T const&) / relations"};
    for (int op = 0; op < 12; ++op) {
        for (int e = 0; e < 2; ++e) {
            for (int oe = 0; oe < 2; ++oe) {
                char sit[64];
                std::snprintf(sit, sizeof sit, "%s,other-%s", e ? "engaged" : "empty", oe ? "engaged" : "empty");
                vf::crumb("optional<hostile-addressof>", oname[op], sit, "-");
                Obs so, eo;
                opt_world<Std>(so, op, e != 0, oe != 0);
                opt_world<Etl>(eo, op, e != 0, oe != 0);
                vf::cover("payload with a hostile operator&: optional", vf::mix(op, e * 2 + oe), true);
                compare(eo, so);
            }
        }
    }
    static constexpr char const* vname[10] = {"get_if / holds_alternative / get of the active alternative", "emplace<I>(args) / emplace<T>(args)", "visit(f,v) / visit(f,v,w)", "operator=(variant const&)",
        "operator=(variant&&)", "operator=(T&&) converting", "operator=(T const&) converting", "swap(a,b)", "ctor(variant const&) / ctor(variant&&)", "relational(variant,variant)"};
    for (int op = 0; op < 10; ++op) {
        for (int i = 0; i < 3; ++i) {
            for (int j = 0; j < 3; ++j) {
                char sit[64];
                std::snprintf(sit, sizeof sit, "from-index-%d,to-index-%d", i, j);
                vf::crumb("variant<int,hostile-addressof,char>", vname[op], sit, "-");
                Obs so, eo;
                var_world<Std>(so, op, i, j);
                var_world<Etl>(eo, op, i, j);
                vf::cover("payload with a hostile operator&: variant", vf::mix(op, i * 3 + j), true);
                compare(eo, so);
            }
        }
    }
    static constexpr char const* ename[8] = {"operator* / operator-> / error()", "emplace(args)", "value_or(d)", "and_then(f) / or_else(f)", "operator=(expected const&)", "operator=(expected&&)", "swap(a,b)",
        "ctor(expected const&) / ctor(expected&&)"};
    for (int op = 0; op < 8; ++op) {
        for (int h = 0; h < 2; ++h) {
            for (int oh = 0; oh < 2; ++oh) {
                char sit[64];
                std::snprintf(sit, sizeof sit, "%s,other-%s", h ? "has-value" : "has-error", oh ? "has-value" : "has-error");
                vf::crumb("expected<hostile-addressof,int> / expected<int,hostile-addressof>", ename[op], sit, "-");
                Obs so, eo;
                exp_world<Std>(so, op, h != 0, oh != 0);
                exp_world<Etl>(eo, op, h != 0, oh != 0);
                vf::cover("payload with a hostile operator&: expected", vf::mix(op, h * 2 + oh), true);
                compare(eo, so);
            }
        }
    }
    vf::sample("payload with a hostile operator&", "unary operator& of the payload returns a decoy (id -1); identity of every handed-out pointer / reference checked with std::addressof against the stored object: "
                                                   "optional 12 operations x engaged/empty^2, variant<int,Evil,char> 10 operations x index^2, expected 8 operations x value/error^2");
}

vf::Spec spec(vf::Tier)
{
    vf::Spec s;
    s.n_enum     = 1;
    s.n_random   = 0;
    s.batch      = 1;
    s.exhaustive = true;
    return s;
}
void run_case(vf::Case&) { run_all(); }
} // namespace

VF_MAIN("C07", "C07_addressof", spec, run_case)
