// C09 - static_set / flat_set / flat_multiset vs std::set / sorted multiset model (DESIGN 4, C09)
//
// One source, several units (selected with -DVF_UNIT=n so the template instantiation sets compile in parallel):
//   1 static_set<int,N,Cmp>          Cmp in {less<int>, greater<int>, less<> + heterogeneous key, harness transparent greater}
//   2 static_set<Tracked,N,less>      lifetime registry on top of the model oracle
//   3 flat_set<int, static_vector<int,N>, Cmp>
//   4 flat_set<int, vec_like<int>, Cmp>   (harness vector-like wrapper over std::vector, exact-size heap block)
//   5 flat_multiset<K, Container, Cmp> construction from arbitrary containers
//   6 static_set::equal_range (own unit: a hard compile error on the unfixed tree must not break unit 1)
//   7 flat_set::insert(sorted_unique, first, last) (own unit: declared but never defined on the unfixed tree)
//   8 flat_set<Tracked, static_vector<Tracked,N>, less>
//   9 comparator with run-time state (dir_less{descending}): flat_set in both comparator states (swap / copy / move / (comp)
//     constructors must transfer the comparator object, everything else must keep it), static_set (always default state)
// All transparent comparators are also queried with a heterogeneous RANGE key equivalent to 0, 1 or several stored elements.
//
// case space: enumerated = (subject config, start subset of the key universe with size <= capacity, op family);
//             random     = seeded histories of ~40 operations at capacity 3/4/16.
#include "vf.hpp"
#include "vf_contract.hpp"
#include "vf_tracked.hpp"

#include <etl/flat_set.hpp>
#include <etl/functional.hpp>
#include <etl/set.hpp>
#include <etl/utility.hpp>
#include <etl/vector.hpp>

#include <algorithm>
#include <iterator>
#include <set>
#include <string>
#include <utility>
#include <vector>

#ifndef VF_UNIT
    #define VF_UNIT 1
#endif

namespace {

// ------------------------------------------------------------------ key helpers
struct HK { // heterogeneous lookup key (never convertible to int)
    int v;
    friend bool operator<(HK a, int b) { return a.v < b; }
    friend bool operator<(int a, HK b) { return a < b.v; }
};
// heterogeneous RANGE key: equivalent to every int in [lo,hi], i.e. to 0, 1 or several stored elements
// (a valid heterogeneous key: the set is partitioned with respect to it under both orderings)
struct HR {
    int lo, hi;
    friend bool operator<(HR a, int b) { return a.hi < b; }
    friend bool operator<(int a, HR b) { return a < b.lo; }
};
struct TGreater { // harness transparent comparator, descending
    using is_transparent = void;
    bool operator()(int a, int b) const { return a > b; }
    bool operator()(HK a, int b) const { return a.v > b; }
    bool operator()(int a, HK b) const { return a > b.v; }
    bool operator()(HR a, int b) const { return a.lo > b; }
    bool operator()(int a, HR b) const { return a > b.hi; }
};
// stateful comparator: default constructible, but the ordering is run-time state of the object.
// Every operation that transfers a set (copy/move/swap/(comp) constructors) must transfer or keep this state.
struct DirLess {
    using is_transparent = void;
    bool descending      = false;
    DirLess()            = default;
    explicit DirLess(bool d) : descending(d) { }
    bool operator()(int a, int b) const { return descending ? a > b : a < b; }
    bool operator()(HK a, int b) const { return descending ? a.v > b : a.v < b; }
    bool operator()(int a, HK b) const { return descending ? a > b.v : a < b.v; }
    bool operator()(HR a, int b) const { return descending ? a.lo > b : a.hi < b; }
    bool operator()(int a, HR b) const { return descending ? a > b.hi : a < b.lo; }
};
// coarse comparator: keys 2j-1 and 2j are equivalent (equivalence under Compare is not operator==)
inline int coarse_class(int a) { return (a + 1) / 2; }
struct CoarseLess {
    bool operator()(int a, int b) const { return coarse_class(a) < coarse_class(b); }
};
struct MCmp { // model comparator (run-time mode: 0 ascending, 1 descending, 2 coarse ascending); transparent for HR keys
    using is_transparent = void;
    int mode             = 0;
    bool operator()(int a, int b) const { return mode == 1 ? a > b : mode == 2 ? coarse_class(a) < coarse_class(b) : a < b; }
    bool operator()(HR a, int b) const { return mode == 1 ? a.lo > b : a.hi < b; }
    bool operator()(int a, HR b) const { return mode == 1 ? a > b.hi : a < b.lo; }
};
using M  = std::set<int, MCmp>;
using MM = std::multiset<int, MCmp>;

inline int kv(int x) { return x; }
template <int P, int F>
inline int kv(vf::Tracked<P, F> const& t)
{
    return t.value();
}

std::string show(std::vector<int> const& v)
{
    std::string o = "{";
    for (std::size_t i = 0; i < v.size(); ++i) {
        if (i) { o += ','; }
        o += std::to_string(v[i]);
    }
    return o + "}";
}
template <typename Cont>
std::string show_m(Cont const& m)
{
    return show(std::vector<int>(m.begin(), m.end()));
}

// exact-size heap block holding n keys (ASan fences both ends); handed to tetl as [data(), data()+n)
template <typename K>
struct Src {
    std::vector<K> v;
    explicit Src(std::vector<int> const& ks)
    {
        v.reserve(ks.size());
        for (int k : ks) { v.emplace_back(k); }
    }
    K* b() { return v.data(); }
    K* e() { return v.data() + v.size(); }
    K const* cb() const { return v.data(); }
    K const* ce() const { return v.data() + v.size(); }
};

// ------------------------------------------------------------------ vec_like: minimal vector-like container
// Backed by std::vector, re-allocated to exactly size() elements after every mutation so that ASan fences the
// live range to the byte.  Iterators are raw pointers (never std iterators inside tetl).
template <typename T>
struct vec_like {
    using value_type             = T;
    using size_type              = std::size_t;
    using difference_type        = std::ptrdiff_t;
    using reference              = T&;
    using const_reference        = T const&;
    using pointer                = T*;
    using const_pointer          = T const*;
    using iterator               = T*;
    using const_iterator         = T const*;
    using reverse_iterator       = etl::reverse_iterator<iterator>;
    using const_reverse_iterator = etl::reverse_iterator<const_iterator>;

    vec_like() = default;
    template <typename It>
    vec_like(It first, It last)
    {
        for (; first != last; ++first) { v.push_back(*first); }
        compact();
    }
    vec_like(vec_like const& o) : v(o.v) { compact(); }
    vec_like(vec_like&& o) noexcept : v(std::move(o.v)) { o.v.clear(); }
    vec_like& operator=(vec_like const& o)
    {
        if (this != &o) {
            v = o.v;
            compact();
        }
        return *this;
    }
    vec_like& operator=(vec_like&& o) noexcept
    {
        if (this != &o) {
            v = std::move(o.v);
            o.v.clear();
        }
        return *this;
    }

    iterator begin() noexcept { return v.data(); }
    const_iterator begin() const noexcept { return v.data(); }
    const_iterator cbegin() const noexcept { return v.data(); }
    iterator end() noexcept { return v.data() + v.size(); }
    const_iterator end() const noexcept { return v.data() + v.size(); }
    const_iterator cend() const noexcept { return v.data() + v.size(); }
    reverse_iterator rbegin() noexcept { return reverse_iterator(end()); }
    const_reverse_iterator rbegin() const noexcept { return const_reverse_iterator(end()); }
    const_reverse_iterator crbegin() const noexcept { return const_reverse_iterator(end()); }
    reverse_iterator rend() noexcept { return reverse_iterator(begin()); }
    const_reverse_iterator rend() const noexcept { return const_reverse_iterator(begin()); }
    const_reverse_iterator crend() const noexcept { return const_reverse_iterator(begin()); }

    bool empty() const noexcept { return v.empty(); }
    size_type size() const noexcept { return v.size(); }
    size_type max_size() const noexcept { return static_cast<size_type>(-1) / sizeof(T) / 2; }

    template <typename... A>
    iterator emplace(const_iterator pos, A&&... a)
    {
        auto i = pos - begin();
        T tmp(std::forward<A>(a)...);
        v.insert(v.begin() + i, std::move(tmp));
        compact();
        return begin() + i;
    }
    iterator insert(const_iterator pos, T const& x) { return emplace(pos, x); }
    iterator insert(const_iterator pos, T&& x) { return emplace(pos, std::move(x)); }
    iterator erase(const_iterator pos) { return erase(pos, pos + 1); }
    iterator erase(const_iterator first, const_iterator last)
    {
        auto i = first - begin();
        auto j = last - begin();
        v.erase(v.begin() + i, v.begin() + j);
        compact();
        return begin() + i;
    }
    void clear() noexcept
    {
        v.clear();
        compact();
    }
    void swap(vec_like& o) noexcept { v.swap(o.v); }
    friend void swap(vec_like& a, vec_like& b) noexcept { a.swap(b); }

private:
    void compact()
    {
        if (v.capacity() != v.size()) {
            std::vector<T> t;
            t.reserve(v.size());
            for (auto& x : v) { t.push_back(std::move(x)); }
            v.swap(t);
        }
    }
    std::vector<T> v;
};

// ------------------------------------------------------------------ configuration
template <typename SetT, typename KeyT, std::size_t Cap, int Univ, int Mode, bool Het, bool Static, bool Tracked,
    bool InlineStorage>
struct CfgBase {
    using Set                             = SetT;
    using Key                             = KeyT;
    static constexpr std::size_t cap      = Cap;
    static constexpr int universe         = Univ;
    static constexpr int mode             = Mode; // 0 ascending, 1 descending, 2 coarse (equivalence classes of two keys)
    static constexpr bool hetero          = Het;
    static constexpr bool is_static       = Static;  // static_set (capacity rule applies)
    static constexpr bool tracked         = Tracked; // key type is vf::Tracked
    static constexpr bool inline_storage  = InlineStorage; // elements live inside the set object
    // comparator with run-time state (DirLess): the model's comparator object carries the same state (mode 0/1)
    static constexpr bool stateful        = std::is_same_v<typename SetT::key_compare, DirLess>;
    static constexpr int n_states         = (stateful && !Static) ? 2 : 1; // static_set cannot be given a comparator object
};

unsigned popcount(unsigned x) { return (unsigned)__builtin_popcount(x); }

// subsets of {1..U} with at most cap elements, in increasing mask order
std::vector<unsigned> const& subsets(int U, std::size_t cap)
{
    static std::vector<std::vector<unsigned>> cache(64 * 32);
    auto& v = cache[(std::size_t)U * 32 + (cap > 31 ? 31 : cap)];
    if (v.empty()) {
        for (unsigned m = 0; m < (1u << U); ++m) {
            if (popcount(m) <= cap) { v.push_back(m); }
        }
    }
    return v;
}

struct Mark {
    std::uint64_t n;
    Mark() : n(cnt()) { }
    static std::uint64_t cnt()
    {
        auto* sh = vf::g().sh;
        return sh ? sh->records_emitted + sh->records_suppressed : 0;
    }
    bool clean() const { return cnt() == n; }
};

// position comparison with a classified symptom. obs/exp: index, or `size` for end(), -2 null, -3 outside
[[maybe_unused]] bool eq_pos(char const* name, long long obs, long long exp, long long size)
{
    if (obs == exp) { return true; }
    char sym[96];
    if (obs == -2) {
        std::snprintf(sym, sizeof sym, "%s:null", name);
    } else if (obs == -3) {
        std::snprintf(sym, sizeof sym, "%s:outside-the-set", name);
    } else if (obs == size) {
        std::snprintf(sym, sizeof sym, "%s:end-for-element", name);
    } else if (exp == size) {
        std::snprintf(sym, sizeof sym, "%s:element-for-end", name);
    } else if (obs - exp >= -2 && obs - exp <= 2) {
        std::snprintf(sym, sizeof sym, "%s:%+lld", name, obs - exp);
    } else {
        std::snprintf(sym, sizeof sym, "%s:%s", name, obs > exp ? "later" : "earlier");
    }
    vf::diverge(sym, vf::to_s(obs), vf::to_s(exp));
    return false;
}

enum Family {
    F_LOOKUP = 0,
    F_INSERT,      // insert(const&), insert(&&), emplace
    F_HINT,        // insert(hint,const&), insert(hint,&&), emplace_hint
    F_INSERT_RANGE,
    F_ERASE_KEY,
    F_ERASE_IT,    // erase(iterator), erase(const_iterator)
    F_ERASE_RANGE,
    F_CLEAR,
    F_SWAP,
    F_EXTRACT_REPLACE,
    F_ERASE_IF,
    F_CTOR,        // range / container / sorted_unique constructors built from the subset
    F_COPY_MOVE,
    F_RELATIONAL,
    F_ALIAS,       // arguments that are references to the set's own elements; self assignment
    F_SPECIAL,     // unit 6: equal_range ; unit 7: insert(sorted_unique,...)
    F_COUNT
};

// ------------------------------------------------------------------ driver
template <typename C>
struct Drv {
    using Set = typename C::Set;
    using Key = typename C::Key;
    using It  = typename Set::iterator;
    using CIt = typename Set::const_iterator;
    static constexpr std::size_t cap = C::cap;
    static constexpr int U           = C::universe;

    // st: comparator state (stateful configurations only; otherwise the configuration's fixed mode)
    static M model(int st = 0) { return M(MCmp{C::stateful ? st : C::mode}); }
    static int state_of(M const& m) { return C::stateful ? m.key_comp().mode : 0; }
    static M like(M const& m) { return M(m.key_comp()); }             // empty, same comparator object
    static M with_state(M const& m, int st)                            // same elements under comparator state st
    {
        M r = model(st);
        for (int k : m) { r.insert(k); }
        return r;
    }
    static typename Set::key_compare make_cmp(M const& m)
    {
        if constexpr (C::stateful) {
            return typename Set::key_compare{m.key_comp().mode == 1};
        } else {
            (void)m;
            return typename Set::key_compare{};
        }
    }
    // an empty set whose comparator object is in the model's state
    static Set make_set(M const& m)
    {
        if constexpr (C::n_states > 1) {
            return Set{make_cmp(m)};
        } else {
            (void)m;
            return Set{};
        }
    }
    static M model_of(unsigned mask, int st = 0)
    {
        M m = model(st);
        for (int k = 1; k <= U; ++k) {
            if (mask >> (k - 1) & 1) { m.insert(k); }
        }
        return m;
    }
    static unsigned mask_of(M const& m)
    {
        unsigned x = 0;
        for (int k : m) { x |= 1u << (k - 1); }
        return x;
    }
    static std::uint64_t h(M const& m, std::uint64_t a = 0, std::uint64_t b = 0)
    {
        static std::uint64_t const base = vf::fnv(C::name);
        return vf::mix(vf::mix(base, mask_of(m) | ((unsigned)state_of(m) << 24)), vf::mix(a, b));
    }

    // -------------------------------------------------------------- situations
    static char const* fill(M const& m) { return m.empty() ? "empty" : (m.size() >= cap ? "full" : "not-full"); }
    static std::string key_sit(M const& m, int k)
    {
        char const* p = m.count(k) ? (*m.find(k) == k ? "key-present" : "equivalent-key-present")
                                   : (m.lower_bound(k) != m.end() ? "key-absent,has-successor" : "key-absent,no-successor");
        return std::string(p) + "," + fill(m);
    }
    static long long mpos(M const& m, M::const_iterator it) { return (long long)std::distance(m.begin(), it); }

    template <typename S, typename I>
    static long long pos_of(S const& s, I it)
    {
        auto b = s.begin();
        auto e = s.end();
        if (it == e) { return (long long)(e - b); }
        if (it == nullptr) { return -2; }
        auto ub = reinterpret_cast<std::uintptr_t>(b);
        auto ue = reinterpret_cast<std::uintptr_t>(e);
        auto ui = reinterpret_cast<std::uintptr_t>(it);
        if (ui < ub || ui > ue || (ui - ub) % sizeof(Key) != 0) { return -3; }
        return (long long)((ui - ub) / sizeof(Key));
    }

    // -------------------------------------------------------------- state oracle + invariant
    template <typename S>
    static std::vector<int> snap(S const& s)
    {
        std::vector<int> v;
        std::size_t n = s.size();
        if (n > cap + 2) { n = cap + 2; } // a corrupted size must not take the harness outside the object
        auto it = s.begin();
        for (std::size_t i = 0; i < n && it != s.end(); ++i, ++it) { v.push_back(kv(*it)); }
        return v;
    }
    // uses the breadcrumb of the operation that just ran
    template <typename S>
    static bool check_state(S const& s, M const& m)
    {
        Mark mk;
        vf::eq_int("size", s.size(), m.size());
        if (s.size() <= cap + 2) { vf::eq_int("end-begin", (long long)(s.end() - s.begin()), (long long)s.size()); }
        std::vector<int> a = snap(s);
        // invariant, independent of the model: strictly ascending under the comparator
        for (std::size_t i = 0; i + 1 < a.size(); ++i) {
            if (!m.key_comp()(a[i], a[i + 1])) {
                vf::diverge(a[i] == a[i + 1] ? "order:duplicate-key" : "order:not-ascending", show(a), "strictly ascending under Compare");
                break;
            }
        }
        std::vector<int> e(m.begin(), m.end());
        if (a != e) { vf::eq_str("content", show(a), show(e)); }
        vf::eq_bool("empty", s.empty(), m.empty());
        if constexpr (requires { s.full(); }) { vf::eq_bool("full", s.full(), m.size() >= cap); }
        if constexpr (C::tracked && C::inline_storage) { vf::expect_live_in(&s, sizeof s, m.size()); }
        if constexpr (C::stateful) { // the comparator object's state is part of the set's state (consulted after every step)
            vf::eq_int("key_comp:state", (int)s.key_comp().descending, (int)(m.key_comp().mode == 1));
            vf::eq_int("value_comp:state", (int)s.value_comp().descending, (int)(m.key_comp().mode == 1));
        }
        return mk.clean();
    }

    // build the start state through the public API (insert one by one, order varies)
    static std::vector<int> ordered(M const& m, unsigned order)
    {
        std::vector<int> ks(m.begin(), m.end());
        switch (order % 4) {
        case 1: std::reverse(ks.begin(), ks.end()); break;
        case 2:
            if (ks.size() > 1) { std::rotate(ks.begin(), ks.begin() + 1, ks.end()); }
            break;
        case 3:
            if (ks.size() > 2) { std::swap(ks[0], ks[ks.size() / 2]); }
            break;
        default: break;
        }
        return ks;
    }
    static bool build(Set& s, M const& m, unsigned order)
    {
        for (int k : ordered(m, order)) {
            vf::crumb(C::name, "insert(const&)", "build", "target=%s k=%d", show_m(m).c_str(), k);
            Key key(k);
            s.insert(key);
        }
        vf::crumb(C::name, "build", "start-state", "target=%s order=%u", show_m(m).c_str(), order % 4);
        return check_state(s, m);
    }
    template <typename F>
    static void fresh(M const& m0, unsigned order, F&& f)
    {
        Set s = make_set(m0);
        M m   = m0;
        if (!build(s, m, order)) { return; }
        f(s, m);
    }
    // bring the tetl object back to the model's state after a divergence
    static void resync(Set& s, M const& m)
    {
        vf::crumb(C::name, "clear()", "resync", "target=%s", show_m(m).c_str());
        s.clear();
        if constexpr (C::n_states > 1) { s = make_set(m); }
        for (int k : m) {
            vf::crumb(C::name, "insert(const&)", "resync", "target=%s k=%d", show_m(m).c_str(), k);
            Key key(k);
            s.insert(key);
        }
    }

    // -------------------------------------------------------------- lookups
    template <typename S, typename KK>
    static void lookups_one(S& s, M const& m, int k, KK const& key, char const* suffix, bool is_const, char const* extra_sit = "")
    {
        std::string sit = key_sit(m, k) + extra_sit;
        char op[64];
        long long size = (long long)m.size();
        auto name       = [&](char const* base) {
            std::snprintf(op, sizeof op, "%s(%s)%s", base, suffix, is_const ? " const" : "");
            return op;
        };
        bool nontrivial = !m.empty();
        {
            long long e = mpos(m, m.find(k));
            vf::crumb(C::name, name("find"), sit.c_str(), "S=%s k=%d", show_m(m).c_str(), k);
            auto it = s.find(key);
            vf::cover(op, h(m, k), nontrivial);
            eq_pos("ret", pos_of(s, it), e, size);
        }
        if (is_const) {
            vf::crumb(C::name, name("contains"), sit.c_str(), "S=%s k=%d", show_m(m).c_str(), k);
            bool r = s.contains(key);
            vf::cover(op, h(m, k), nontrivial);
            vf::eq_bool("ret", r, m.count(k) != 0);

            vf::crumb(C::name, name("count"), sit.c_str(), "S=%s k=%d", show_m(m).c_str(), k);
            auto c = s.count(key);
            vf::cover(op, h(m, k), nontrivial);
            vf::eq_int("ret", c, m.count(k));
        }
        {
            long long e = mpos(m, m.lower_bound(k));
            vf::crumb(C::name, name("lower_bound"), sit.c_str(), "S=%s k=%d", show_m(m).c_str(), k);
            auto it = s.lower_bound(key);
            vf::cover(op, h(m, k), nontrivial);
            eq_pos("ret", pos_of(s, it), e, size);
        }
        {
            long long e = mpos(m, m.upper_bound(k));
            vf::crumb(C::name, name("upper_bound"), sit.c_str(), "S=%s k=%d", show_m(m).c_str(), k);
            auto it = s.upper_bound(key);
            vf::cover(op, h(m, k), nontrivial);
            eq_pos("ret", pos_of(s, it), e, size);
        }
#if VF_UNIT != 1 && VF_UNIT != 2
        // static_set::equal_range is a hard compile error on the unfixed tree: exercised by unit 6 only
        {
            auto er = m.equal_range(k);
            vf::crumb(C::name, name("equal_range"), sit.c_str(), "S=%s k=%d", show_m(m).c_str(), k);
            auto r = s.equal_range(key);
            vf::cover(op, h(m, k), nontrivial);
            eq_pos("ret.first", pos_of(s, r.first), mpos(m, er.first), size);
            eq_pos("ret.second", pos_of(s, r.second), mpos(m, er.second), size);
        }
#endif
    }
    // heterogeneous lookups with a key that is equivalent to 0, 1 or SEVERAL stored elements; reference: the
    // transparent overloads of std::set<int, MCmp> (MCmp orders HR against int exactly like the tetl comparator)
    static std::string range_key_sit(M const& m, HR hr)
    {
        auto er         = m.equal_range(hr);
        std::size_t cnt = (std::size_t)std::distance(er.first, er.second);
        char const* p   = cnt == 0 ? (er.first != m.end() ? "K-matches-none,has-successor" : "K-matches-none,no-successor")
                        : cnt == 1 ? "K-matches-one"
                                   : "K-matches-several";
        return std::string(p) + "," + fill(m);
    }
    template <typename S, typename R>
    static void check_range(S const& s, M const& m, HR hr, R const& r)
    {
        auto er = m.equal_range(hr);
        eq_pos("ret.first", pos_of(s, r.first), mpos(m, er.first), (long long)m.size());
        eq_pos("ret.second", pos_of(s, r.second), mpos(m, er.second), (long long)m.size());
        vf::eq_int("ret.length", (long long)(r.second - r.first), (long long)std::distance(er.first, er.second));
    }
    template <typename S>
    static void lookups_range(S& s, M const& m, HR hr, bool is_const)
    {
        std::string sit = range_key_sit(m, hr);
        char op[64];
        long long size = (long long)m.size();
        auto name      = [&](char const* base) {
            std::snprintf(op, sizeof op, "%s(K)%s", base, is_const ? " const" : "");
            return op;
        };
        bool nontrivial  = !m.empty();
        std::uint64_t hh = h(m, (std::uint64_t)(hr.lo * 64 + hr.hi), 0x4852);
        auto er          = m.equal_range(hr);
        long long lb = mpos(m, er.first), ub = mpos(m, er.second);
        {
            vf::crumb(C::name, name("find"), sit.c_str(), "S=%s K=[%d,%d]", show_m(m).c_str(), hr.lo, hr.hi);
            auto it = s.find(hr);
            vf::cover(op, hh, nontrivial);
            long long o = pos_of(s, it);
            // std: "an element equivalent to the key" - any element of the run is a correct answer
            if (lb == ub) {
                eq_pos("ret", o, size, size);
            } else if (!(o >= lb && o < ub)) {
                eq_pos("ret", o, lb, size);
            }
        }
        if (is_const) {
            vf::crumb(C::name, name("contains"), sit.c_str(), "S=%s K=[%d,%d]", show_m(m).c_str(), hr.lo, hr.hi);
            bool r = s.contains(hr);
            vf::cover(op, hh, nontrivial);
            vf::eq_bool("ret", r, lb != ub);

            vf::crumb(C::name, name("count"), sit.c_str(), "S=%s K=[%d,%d]", show_m(m).c_str(), hr.lo, hr.hi);
            auto c = s.count(hr);
            vf::cover(op, hh, nontrivial);
            vf::eq_int("ret", c, m.count(hr));
        }
        {
            vf::crumb(C::name, name("lower_bound"), sit.c_str(), "S=%s K=[%d,%d]", show_m(m).c_str(), hr.lo, hr.hi);
            auto it = s.lower_bound(hr);
            vf::cover(op, hh, nontrivial);
            eq_pos("ret", pos_of(s, it), mpos(m, m.lower_bound(hr)), size);
        }
        {
            vf::crumb(C::name, name("upper_bound"), sit.c_str(), "S=%s K=[%d,%d]", show_m(m).c_str(), hr.lo, hr.hi);
            auto it = s.upper_bound(hr);
            vf::cover(op, hh, nontrivial);
            eq_pos("ret", pos_of(s, it), mpos(m, m.upper_bound(hr)), size);
        }
#if VF_UNIT != 1 && VF_UNIT != 2
        {
            vf::crumb(C::name, name("equal_range"), sit.c_str(), "S=%s K=[%d,%d]", show_m(m).c_str(), hr.lo, hr.hi);
            auto r = s.equal_range(hr);
            vf::cover(op, hh, nontrivial);
            check_range(s, m, hr, r);
        }
#endif
    }
    // every range key over 0..U+1 (small universes); a spread of widths for the large ones
    template <typename F>
    static void for_each_range_key(F&& f)
    {
        for (int lo = 0; lo <= U + 1; ++lo) {
            for (int hi = lo; hi <= U + 1; ++hi) {
                int w = hi - lo;
                if (U > 8 && !(w == 0 || w == 1 || w == 2 || w == 5 || w == U + 1) ) { continue; }
                if (U > 8 && w >= 2 && lo % 3 != 0) { continue; }
                f(HR{lo, hi});
            }
        }
    }
    // deep: additionally every heterogeneous range key (several equivalent elements)
    static void op_lookups(Set& s, M const& m, bool deep = false)
    {
        Set const& cs = s;
        for (int k = 0; k <= U + 1; ++k) { // 0 and U+1: below / above every key of the universe
            Key key(k);
            lookups_one(s, m, k, key, "key", false);
            lookups_one(cs, m, k, key, "key", true);
            if constexpr (C::hetero) {
                HK hk{k};
                lookups_one(s, m, k, hk, "K", false);
                lookups_one(cs, m, k, hk, "K", true);
            }
        }
        if (deep) { op_lookups_alias(s, m); }
        if constexpr (C::hetero) {
            if (deep) {
                for_each_range_key([&](HR hr) {
                    lookups_range(s, m, hr, false);
                    lookups_range(cs, m, hr, true);
                });
            }
        }
    }
    // light version: keys below / inside / above the universe (a comparator object in the wrong state answers at
    // least one of them wrongly for every non-empty set) and one wide range key
    static void probe_lookups(Set& s, M const& m)
    {
        Set const& cs = s;
        for (int k : {0, (U + 1) / 2, U + 1}) {
            Key key(k);
            lookups_one(s, m, k, key, "key", false);
            lookups_one(cs, m, k, key, "key", true);
            if constexpr (C::hetero) {
                HK hk{k};
                lookups_one(cs, m, k, hk, "K", true);
            }
        }
        if constexpr (C::hetero) {
            lookups_range(s, m, HR{2, U - 1}, false);
            lookups_range(cs, m, HR{2, U - 1}, true);
        }
    }
    // after an operation that transferred or had to preserve the set (copy/move/swap/construct): it must keep
    // working with ITS comparator object - one insert, and for stateful comparators every lookup
    static void use_after(Set& x, M& xm)
    {
        for (int i = 0; i < U; ++i) {
            int k = 1 + (i + 2) % U;
            if (!xm.count(k) && insert_issuable(xm, k)) {
                op_insert(x, xm, k, 0);
                break;
            }
        }
        if constexpr (C::stateful) { probe_lookups(x, xm); }
    }
    static void op_observers(Set& s, M const& m)
    {
        Set const& cs   = s;
        char const* sit = fill(m);
        std::vector<int> e(m.begin(), m.end());
        std::vector<int> r(m.rbegin(), m.rend());
        auto collect = [&](auto b, auto en) {
            std::vector<int> v;
            for (std::size_t i = 0; b != en && i < cap + 2; ++b, ++i) { v.push_back(kv(*b)); }
            return v;
        };
        auto one = [&](char const* op, std::vector<int> const& got, std::vector<int> const& exp) {
            vf::cover(op, h(m), !m.empty());
            if (got != exp) { vf::eq_str("sequence", show(got), show(exp)); }
        };
        vf::crumb(C::name, "begin()/end()", sit, "S=%s", show_m(m).c_str());
        one("begin()/end()", collect(s.begin(), s.end()), e);
        vf::crumb(C::name, "begin()/end() const", sit, "S=%s", show_m(m).c_str());
        one("begin()/end() const", collect(cs.begin(), cs.end()), e);
        vf::crumb(C::name, "cbegin()/cend()", sit, "S=%s", show_m(m).c_str());
        one("cbegin()/cend()", collect(cs.cbegin(), cs.cend()), e);
        vf::crumb(C::name, "rbegin()/rend()", sit, "S=%s", show_m(m).c_str());
        one("rbegin()/rend()", collect(s.rbegin(), s.rend()), r);
        vf::crumb(C::name, "rbegin()/rend() const", sit, "S=%s", show_m(m).c_str());
        one("rbegin()/rend() const", collect(cs.rbegin(), cs.rend()), r);
        vf::crumb(C::name, "crbegin()/crend()", sit, "S=%s", show_m(m).c_str());
        one("crbegin()/crend()", collect(cs.crbegin(), cs.crend()), r);

        vf::crumb(C::name, "size()/empty()/max_size()", sit, "S=%s", show_m(m).c_str());
        vf::cover("size()/empty()/max_size()", h(m), !m.empty());
        check_state(cs, m);
        if constexpr (C::inline_storage) { vf::eq_int("max_size", cs.max_size(), cap); }

        vf::crumb(C::name, "key_comp()/value_comp()", sit, "S=%s", show_m(m).c_str());
        auto kc = cs.key_comp();
        auto vc = cs.value_comp();
        for (int a = 1; a <= 3; ++a) {
            for (int b = 1; b <= 3; ++b) {
                Key ka(a);
                Key kb(b);
                vf::cover("key_comp()/value_comp()", h(m, a, b), true);
                vf::eq_bool("key_comp", kc(ka, kb), m.key_comp()(a, b));
                vf::eq_bool("value_comp", vc(ka, kb), m.key_comp()(a, b));
            }
        }
    }

    // -------------------------------------------------------------- insert / emplace
    // kind: 0 insert(const&), 1 insert(&&), 2 emplace(args)
    static constexpr char const* ins_name(int kind) { return kind == 0 ? "insert(const&)" : kind == 1 ? "insert(&&)" : "emplace(args)"; }
    static bool insert_issuable(M const& m, int k) { return C::is_static || m.count(k) || m.size() < cap; }
    static bool op_insert(Set& s, M& m, int k, int kind)
    {
        Mark mk;
        std::string sit = key_sit(m, k);
        char const* op  = ins_name(kind);
        bool present    = m.count(k) != 0;
        bool capfail    = !present && m.size() >= cap; // static_set only: must report failure, set unchanged
        vf::crumb(C::name, op, sit.c_str(), "S=%s k=%d", show_m(m).c_str(), k);
        std::uint64_t hh = h(m, k, (std::uint64_t)kind);
        bool e_second    = false;
        long long e_pos  = -1;
        if (!capfail) {
            auto mr  = m.insert(k);
            e_second = mr.second;
            e_pos    = mpos(m, mr.first);
        }
        etl::pair<It, bool> r{};
        if (kind == 0) {
            Key key(k);
            r = s.insert(key);
            if (kv(key) != k) { vf::diverge("lvalue-argument-modified", vf::to_s(kv(key)), vf::to_s(k)); }
        } else if (kind == 1) {
            Key key(k);
            r = s.insert(std::move(key));
        } else {
            r = s.emplace(k);
        }
        vf::cover(op, hh, true);
        vf::eq_bool("ret.second", r.second, e_second);
        if (!capfail) { eq_pos("ret.first", pos_of(s, r.first), e_pos, (long long)m.size()); }
        if (vf::want_sample(op)) { vf::sample(op, "%s: S k=%d -> second=%d, now %s", C::name, k, (int)r.second, show(snap(s)).c_str()); }
        check_state(s, m);
        return mk.clean();
    }

    // kind: 0 insert(hint,const&), 1 insert(hint,&&), 2 emplace_hint(hint,args)
    static constexpr bool has_hint = requires(Set& s, CIt c, Key const& k) { s.insert(c, k); };
    static bool op_hint(Set& s, M& m, int k, std::size_t hp, int kind)
    {
        if constexpr (has_hint) {
            Mark mk;
            char const* op = kind == 0 ? "insert(hint,const&)" : kind == 1 ? "insert(hint,&&)" : "emplace_hint(hint,args)";
            bool good      = mpos(m, m.lower_bound(k)) == (long long)hp;
            std::string sit = key_sit(m, k) + (good ? ",hint=lower_bound" : ",hint-elsewhere");
            vf::crumb(C::name, op, sit.c_str(), "S=%s k=%d hint=begin+%zu", show_m(m).c_str(), k, hp);
            std::uint64_t hh = h(m, k, hp * 4 + (std::uint64_t)kind);
            auto mit         = m.insert(std::next(m.begin(), (long)hp), k);
            long long e_pos  = mpos(m, mit);
            CIt hint         = std::as_const(s).begin() + hp;
            It r{};
            if (kind == 0) {
                Key key(k);
                r = s.insert(hint, key);
            } else if (kind == 1) {
                Key key(k);
                r = s.insert(hint, std::move(key));
            } else {
                r = s.emplace_hint(hint, k);
            }
            vf::cover(op, hh, true);
            eq_pos("ret", pos_of(s, r), e_pos, (long long)m.size());
            check_state(s, m);
            return mk.clean();
        } else {
            return true;
        }
    }

    // model of a range insert: sequential insert with the capacity rule (static_set); flat_set: only issued when it fits
    // which of several distinct-but-equivalent keys inside ONE range gets inserted is unspecified (LWG 2844): never issued
    static bool range_ambiguous(M const& m, std::vector<int> const& seq)
    {
        auto cmp = m.key_comp();
        for (std::size_t i = 0; i < seq.size(); ++i) {
            for (std::size_t j = i + 1; j < seq.size(); ++j) {
                if (seq[i] != seq[j] && !cmp(seq[i], seq[j]) && !cmp(seq[j], seq[i])) { return true; }
            }
        }
        return false;
    }
    static bool range_fits(M const& m, std::vector<int> const& seq)
    {
        M t = m;
        t.insert(seq.begin(), seq.end());
        return t.size() <= cap;
    }
    static std::string range_sit(M const& m, std::vector<int> const& seq)
    {
        M t             = m;
        std::size_t dup = 0;
        for (int k : seq) { dup += t.insert(k).second ? 0 : 1; }
        std::string sit = seq.empty() ? "len=0" : seq.size() == 1 ? "len=1" : "len>=2";
        sit += dup == 0 ? ",all-new" : (dup == seq.size() ? ",all-duplicates" : ",some-duplicates");
        if (t.size() > cap) { sit += ",exceeds-capacity"; }
        return sit + "," + fill(m);
    }
    static void model_range_insert(M& m, std::vector<int> const& seq)
    {
        for (int k : seq) {
            if (m.count(k) || m.size() < cap) { m.insert(k); }
        }
    }
    static bool op_insert_range(Set& s, M& m, std::vector<int> const& seq)
    {
        Mark mk;
        std::string sit = range_sit(m, seq);
        vf::crumb(C::name, "insert(first,last)", sit.c_str(), "S=%s range=%s", show_m(m).c_str(), show(seq).c_str());
        std::uint64_t hh = h(m, vf::fnv_bytes(seq.data(), seq.size() * sizeof(int)), seq.size());
        model_range_insert(m, seq);
        Src<Key> src(seq);
        s.insert(src.cb(), src.ce());
        vf::cover("insert(first,last)", hh, true);
        check_state(s, m);
        return mk.clean();
    }

    // -------------------------------------------------------------- erase
    static bool op_erase_key(Set& s, M& m, int k)
    {
        Mark mk;
        std::string sit = key_sit(m, k);
        vf::crumb(C::name, "erase(key)", sit.c_str(), "S=%s k=%d", show_m(m).c_str(), k);
        std::uint64_t hh = h(m, k);
        auto e           = m.erase(k);
        Key key(k);
        auto r = s.erase(key);
        vf::cover("erase(key)", hh, true);
        vf::eq_int("ret", r, e);
        if (vf::want_sample("erase(key)")) { vf::sample("erase(key)", "%s: k=%d -> %d, now %s", C::name, k, (int)r, show(snap(s)).c_str()); }
        check_state(s, m);
        return mk.clean();
    }
    // heterogeneous erase (C++23 set::erase(K&&)): erases the whole run of equivalent elements; only if tetl provides it
    static constexpr bool has_erase_K = requires(Set& s, HR h) { s.erase(h); };
    static bool op_erase_K(Set& s, M& m, HR hr)
    {
        if constexpr (has_erase_K) {
            Mark mk;
            std::string sit = range_key_sit(m, hr);
            vf::crumb(C::name, "erase(K)", sit.c_str(), "S=%s K=[%d,%d]", show_m(m).c_str(), hr.lo, hr.hi);
            std::uint64_t hh = h(m, (std::uint64_t)(hr.lo * 64 + hr.hi), 0x4853);
            auto er          = m.equal_range(hr);
            auto e           = std::distance(er.first, er.second);
            m.erase(er.first, er.second);
            auto r = s.erase(hr);
            vf::cover("erase(K)", hh, true);
            vf::eq_int("ret", r, e);
            check_state(s, m);
            return mk.clean();
        } else {
            (void)s;
            (void)m;
            (void)hr;
            return true;
        }
    }
    static constexpr bool has_erase_it  = requires(Set& s, It i) { s.erase(i); };
    static constexpr bool has_erase_cit = requires(Set& s, CIt i) { s.erase(i); };
    static bool op_erase_it(Set& s, M& m, std::size_t i, bool constit)
    {
        if (constit ? !has_erase_cit : !has_erase_it) { return true; }
        Mark mk;
        char const* op  = constit ? "erase(const_iterator)" : "erase(iterator)";
        char const* sit = m.size() == 1 ? "pos-only" : i == 0 ? "pos-first" : i + 1 == m.size() ? "pos-last" : "pos-middle";
        vf::crumb(C::name, op, sit, "S=%s pos=begin+%zu", show_m(m).c_str(), i);
        std::uint64_t hh = h(m, i, constit);
        auto mit         = m.erase(std::next(m.begin(), (long)i));
        long long e      = mpos(m, mit);
        It r{};
        if (constit) {
            if constexpr (has_erase_cit) { r = s.erase(std::as_const(s).begin() + i); }
        } else {
            if constexpr (has_erase_it) { r = s.erase(s.begin() + i); }
        }
        vf::cover(op, hh, true);
        if (eq_pos("ret", pos_of(s, r), e, (long long)m.size()) && mit != m.end()) { vf::eq_int("ret.deref", kv(*r), *mit); }
        check_state(s, m);
        return mk.clean();
    }
    static constexpr bool has_erase_range  = requires(Set& s, It i) { s.erase(i, i); };
    static constexpr bool has_erase_crange = requires(Set& s, CIt i) { s.erase(i, i); };
    static bool op_erase_range(Set& s, M& m, std::size_t i, std::size_t j, bool constit)
    {
        if (constit ? !has_erase_crange : !has_erase_range) { return true; }
        Mark mk;
        char const* op  = constit ? "erase(const_iterator,const_iterator)" : "erase(iterator,iterator)";
        std::string sit = j - i == 0 ? "len=0" : j - i == 1 ? "len=1" : "len>=2";
        sit += (i == 0 && j == m.size() && j != 0) ? ",whole-set" : j == m.size() ? ",to-end" : ",inner";
        vf::crumb(C::name, op, sit.c_str(), "S=%s range=[begin+%zu,begin+%zu)", show_m(m).c_str(), i, j);
        std::uint64_t hh = h(m, i * 64 + j, constit);
        auto mit         = m.erase(std::next(m.begin(), (long)i), std::next(m.begin(), (long)j));
        long long e      = mpos(m, mit);
        It r{};
        if (constit) {
            if constexpr (has_erase_crange) { r = s.erase(std::as_const(s).begin() + i, std::as_const(s).begin() + j); }
        } else {
            if constexpr (has_erase_range) { r = s.erase(s.begin() + i, s.begin() + j); }
        }
        vf::cover(op, hh, true);
        if (eq_pos("ret", pos_of(s, r), e, (long long)m.size()) && mit != m.end()) { vf::eq_int("ret.deref", kv(*r), *mit); }
        if (vf::want_sample(op)) { vf::sample(op, "%s: [%zu,%zu) -> now %s", C::name, i, j, show(snap(s)).c_str()); }
        check_state(s, m);
        return mk.clean();
    }
    // -------------------------------------------------------------- arguments aliasing the set's own elements
    // std::set is well defined when a key/value argument is a reference to one of its own elements; the model is
    // driven with the same aliasing (m.erase(*mit), m.insert(*mit)).
    static std::string alias_sit(M const& m, std::size_t i)
    {
        char const* p = m.size() == 1 ? "pos-only" : i == 0 ? "pos-first" : i + 1 == m.size() ? "pos-last" : "pos-middle";
        return std::string("aliases-own-element,") + p + "," + fill(m);
    }
    static bool op_erase_alias(Set& s, M& m, std::size_t i)
    {
        Mark mk;
        std::string sit = alias_sit(m, i);
        vf::crumb(C::name, "erase(key)", sit.c_str(), "S=%s key=*(begin+%zu)", show_m(m).c_str(), i);
        std::uint64_t hh = h(m, i, 0xA11A5);
        auto mit         = std::next(m.begin(), (long)i);
        auto e           = m.erase(*mit);
        Key const& own   = *(std::as_const(s).begin() + i);
        auto r           = s.erase(own);
        vf::cover("erase(key)", hh, true);
        vf::eq_int("ret", r, e);
        check_state(s, m);
        return mk.clean();
    }
    // kind 0 insert(const&), 2 emplace(args): the value is one of the set's own elements -> (iterator to it, false)
    static bool op_insert_alias(Set& s, M& m, std::size_t i, int kind)
    {
        Mark mk;
        std::string sit = alias_sit(m, i);
        char const* op  = ins_name(kind);
        vf::crumb(C::name, op, sit.c_str(), "S=%s value=*(begin+%zu)", show_m(m).c_str(), i);
        std::uint64_t hh = h(m, i, 0xA11A6 + (std::uint64_t)kind);
        auto mr          = m.insert(*std::next(m.begin(), (long)i));
        Key const& own   = *(std::as_const(s).begin() + i);
        etl::pair<It, bool> r{};
        if (kind == 0) {
            r = s.insert(own);
        } else {
            r = s.emplace(own);
        }
        vf::cover(op, hh, true);
        vf::eq_bool("ret.second", r.second, mr.second);
        eq_pos("ret.first", pos_of(s, r.first), mpos(m, mr.first), (long long)m.size());
        check_state(s, m);
        return mk.clean();
    }
    // kind 0 insert(hint,const&), 2 emplace_hint(hint,args)
    static bool op_hint_alias(Set& s, M& m, std::size_t i, std::size_t hp, int kind)
    {
        if constexpr (has_hint) {
            Mark mk;
            std::string sit = alias_sit(m, i) + (hp == i ? ",hint=lower_bound" : ",hint-elsewhere");
            char const* op  = kind == 0 ? "insert(hint,const&)" : "emplace_hint(hint,args)";
            vf::crumb(C::name, op, sit.c_str(), "S=%s value=*(begin+%zu) hint=begin+%zu", show_m(m).c_str(), i, hp);
            std::uint64_t hh = h(m, i * 64 + hp, 0xA11A8 + (std::uint64_t)kind);
            auto mit         = m.insert(std::next(m.begin(), (long)hp), *std::next(m.begin(), (long)i));
            Key const& own   = *(std::as_const(s).begin() + i);
            CIt hint         = std::as_const(s).begin() + hp;
            It r{};
            if (kind == 0) {
                r = s.insert(hint, own);
            } else {
                r = s.emplace_hint(hint, own);
            }
            vf::cover(op, hh, true);
            eq_pos("ret", pos_of(s, r), mpos(m, mit), (long long)m.size());
            check_state(s, m);
            return mk.clean();
        } else {
            return true;
        }
    }
    static void op_lookups_alias(Set& s, M const& m)
    {
        Set const& cs = s;
        for (std::size_t i = 0; i < m.size() && i < cs.size(); ++i) {
            Key const& own = *(cs.begin() + i);
            int k          = *std::next(m.begin(), (long)i);
            lookups_one(s, m, k, own, "key", false, ",aliases-own-element");
            lookups_one(cs, m, k, own, "key", true, ",aliases-own-element");
        }
    }
    static void op_self_assign(M const& m0, unsigned order)
    {
        fresh(m0, order, [&](Set& s, M& m) {
            vf::crumb(C::name, "operator=(set const&)", (std::string("self,") + fill(m)).c_str(), "S=%s", show_m(m).c_str());
            Set const& self = s;
            s               = self;
            vf::cover("operator=(set const&)", h(m, 0xfffff), true);
            if (check_state(s, m)) { use_after(s, m); }
        });
        fresh(m0, order, [&](Set& s, M& m) {
            // self move assignment leaves a valid but unspecified value: only validity is required (sorted, unique, consistent
            // size, comparator state kept is NOT required), then the object must be fully reusable
            vf::crumb(C::name, "operator=(set&&)", (std::string("self,") + fill(m)).c_str(), "S=%s", show_m(m).c_str());
            Set& self = s;
            s         = std::move(self);
            vf::cover("operator=(set&&)", h(m, 0xffffe), true);
            std::vector<int> a = snap(s);
            if (s.size() > cap) { vf::diverge("size-exceeds-capacity", vf::to_su(s.size()), vf::to_su(cap)); }
            vf::eq_int("end-begin", (long long)(s.end() - s.begin()), (long long)s.size());
            if constexpr (C::n_states <= 1) {
                for (std::size_t i = 0; i + 1 < a.size(); ++i) {
                    if (!m.key_comp()(a[i], a[i + 1])) {
                        vf::diverge("order:not-ascending", show(a), "strictly ascending under Compare");
                        break;
                    }
                }
                vf::crumb(C::name, "clear()", "after-self-move", "S=%s", show(a).c_str());
                s.clear();
                M em = like(m);
                if (check_state(s, em)) { use_after(s, em); }
            }
        });
    }

    static bool op_clear(Set& s, M& m)
    {
        Mark mk;
        vf::crumb(C::name, "clear()", fill(m), "S=%s", show_m(m).c_str());
        std::uint64_t hh = h(m);
        m.clear();
        s.clear();
        vf::cover("clear()", hh, true);
        check_state(s, m);
        return mk.clean();
    }
    static constexpr bool has_erase_if = requires(Set& s) { erase_if(s, [](auto const&) { return true; }); };
    static bool op_erase_if(Set& s, M& m, unsigned mask)
    {
        if constexpr (has_erase_if) {
            Mark mk;
            std::size_t hit = 0;
            for (int k : m) { hit += (mask >> (k - 1)) & 1; }
            char const* sit = m.empty() ? "empty" : hit == 0 ? "none-match" : hit == m.size() ? "all-match" : "some-match";
            vf::crumb(C::name, "erase_if(set,pred)", sit, "S=%s pred-mask=0x%x", show_m(m).c_str(), mask);
            std::uint64_t hh = h(m, mask);
            auto e           = std::erase_if(m, [mask](int k) { return (mask >> (k - 1) & 1) != 0; });
            auto r           = erase_if(s, [mask](auto const& x) { return (mask >> (kv(x) - 1) & 1) != 0; });
            vf::cover("erase_if(set,pred)", hh, true);
            vf::eq_int("ret", r, e);
            check_state(s, m);
            return mk.clean();
        } else {
            return true;
        }
    }

    // -------------------------------------------------------------- swap
    // kind 0: member, 1: free function (ADL)
    static bool op_swap(Set& s, M& m, Set& t, M& tm, int kind)
    {
        Mark mk;
        char const* op  = kind == 0 ? "swap(set&)" : "swap(set&,set&)";
        std::string sits = (m.empty() && tm.empty()) ? "both-empty"
                        : (m.empty() || tm.empty()) ? "one-empty"
                        : m.size() == tm.size()     ? "same-size"
                        : m.size() > tm.size()      ? "lhs-larger"
                                                    : "rhs-larger";
        if (state_of(m) != state_of(tm)) { sits += ",comparators-differ"; }
        char const* sit = sits.c_str();
        vf::crumb(C::name, op, sit, "S=%s T=%s", show_m(m).c_str(), show_m(tm).c_str());
        std::uint64_t hh = h(m, mask_of(tm) | ((unsigned)state_of(tm) << 24), (std::uint64_t)kind);
        m.swap(tm);
        if (kind == 0) {
            s.swap(t);
        } else {
            swap(s, t);
        }
        vf::cover(op, hh, true);
        check_state(s, m);
        vf::crumb_sit((std::string(sit) + ",other-side").c_str());
        check_state(t, tm);
        return mk.clean();
    }

    // -------------------------------------------------------------- extract / replace
    static constexpr bool has_extract = requires(Set& s) { std::move(s).extract(); };
    static bool op_extract_replace(Set& s, M& m)
    {
        if constexpr (has_extract) {
            Mark mk;
            vf::crumb(C::name, "extract()", fill(m), "S=%s", show_m(m).c_str());
            std::uint64_t hh = h(m);
            auto c           = std::move(s).extract();
            vf::cover("extract()", hh, true);
            std::vector<int> got;
            for (auto it = c.begin(); it != c.end() && got.size() < cap + 2; ++it) { got.push_back(kv(*it)); }
            std::vector<int> exp(m.begin(), m.end());
            if (got != exp) { vf::eq_str("ret", show(got), show(exp)); }
            vf::crumb_sit((std::string(fill(m)) + ",set-afterwards").c_str());
            M em = like(m); // the comparator object stays
            check_state(s, em); // [flat.set.modifiers]: *this is emptied
            // hand the container back
            char sit[64];
            std::snprintf(sit, sizeof sit, "into-empty,%s", m.empty() ? "cont-empty" : "cont-non-empty");
            vf::crumb(C::name, "replace(container&&)", sit, "cont=%s", show(got).c_str());
            s.replace(std::move(c));
            vf::cover("replace(container&&)", hh, true);
            if (got == exp) {
                check_state(s, m);
            } else {
                resync(s, m);
            }
            return mk.clean();
        } else {
            return true;
        }
    }
    static bool op_replace(Set& s, M& m, M const& tm)
    {
        if constexpr (has_extract) {
            Mark mk;
            char sit[64];
            std::snprintf(sit, sizeof sit, "%s,%s", m.empty() ? "into-empty" : "into-non-empty", tm.empty() ? "cont-empty" : "cont-non-empty");
            vf::crumb(C::name, "replace(container&&)", sit, "S=%s cont=%s", show_m(m).c_str(), show_m(tm).c_str());
            std::uint64_t hh = h(m, mask_of(tm), 1);
            Src<Key> src(std::vector<int>(tm.begin(), tm.end()));
            typename Set::container_type c(src.cb(), src.ce());
            m = tm;
            s.replace(std::move(c));
            vf::cover("replace(container&&)", hh, true);
            check_state(s, m);
            return mk.clean();
        } else {
            return true;
        }
    }

    // -------------------------------------------------------------- constructors from the subset
    static void perms_with_dups(M const& m, std::vector<std::vector<int>>& out, std::size_t maxlen)
    {
        std::vector<int> base(m.begin(), m.end());
        std::sort(base.begin(), base.end());
        do {
            out.push_back(base);
            if (base.size() + 1 <= maxlen) {
                for (std::size_t j = 0; j < base.size(); ++j) {
                    auto v = base;
                    v.push_back(base[j]);
                    out.push_back(v);
                    v = base;
                    v.insert(v.begin(), base[j]);
                    out.push_back(v);
                }
            }
        } while (std::next_permutation(base.begin(), base.end()));
    }
    static char const* seq_sit(std::vector<int> const& seq, M const& m)
    {
        bool sorted = true;
        for (std::size_t i = 0; i + 1 < seq.size(); ++i) { sorted = sorted && m.key_comp()(seq[i], seq[i + 1]); }
        if (seq.empty()) { return "empty"; }
        if (seq.size() != m.size()) { return "with-duplicates"; }
        return sorted ? "sorted-unique" : "unsorted-unique";
    }
    static void op_ctors(M const& m)
    {
        // constructors without a comparator argument value-initialise Compare: expected order = default state
        M const dm = C::stateful ? with_state(m, 0) : m;
        std::vector<std::vector<int>> seqs;
        perms_with_dups(m, seqs, C::inline_storage ? cap : cap + 1);
        for (auto const& seq : seqs) {
            std::uint64_t hs = vf::fnv_bytes(seq.data(), seq.size() * sizeof(int));
            {
                char const* sit = seq_sit(seq, dm);
                vf::crumb(C::name, "set(first,last)", sit, "range=%s", show(seq).c_str());
                Src<Key> src(seq);
                Set s(src.cb(), src.ce());
                vf::cover("set(first,last)", h(dm, hs, seq.size()), true);
                check_state(s, dm);
            }
            if constexpr (has_extract) { // flat_set only
                using Cont = typename Set::container_type;
                {
                    char const* sit = seq_sit(seq, dm);
                    vf::crumb(C::name, "set(container const&)", sit, "cont=%s", show(seq).c_str());
                    Src<Key> src(seq);
                    Cont c(src.cb(), src.ce());
                    Set s(c);
                    vf::cover("set(container const&)", h(dm, hs, seq.size()), true);
                    check_state(s, dm);
                }
                {
                    char const* sit = seq_sit(seq, m);
                    vf::crumb(C::name, "set(first,last,comp)", sit, "range=%s", show(seq).c_str());
                    Src<Key> src(seq);
                    Set s(src.cb(), src.ce(), make_cmp(m));
                    vf::cover("set(first,last,comp)", h(m, hs, seq.size()), true);
                    if (check_state(s, m) && seq.size() == m.size()) {
                        M mm = m;
                        use_after(s, mm);
                    }
                }
            }
        }
        {
            vf::crumb(C::name, "set()", "default", "-");
            Set s;
            M em = model(0);
            vf::cover("set()", h(em), true);
            check_state(s, em);
        }
        if constexpr (has_extract) {
            using Cont = typename Set::container_type;
            std::vector<int> sorted(dm.begin(), dm.end());
            char const* sit = sorted.empty() ? "empty" : "sorted-unique";
            {
                vf::crumb(C::name, "set(sorted_unique,container)", sit, "cont=%s", show(sorted).c_str());
                Src<Key> src(sorted);
                Cont c(src.cb(), src.ce());
                Set s(etl::sorted_unique, std::move(c));
                vf::cover("set(sorted_unique,container)", h(dm), true);
                check_state(s, dm);
                op_lookups(s, dm, true); // a set built this way must answer lookups with the right comparator
            }
            {
                vf::crumb(C::name, "set(sorted_unique,first,last)", sit, "range=%s", show(sorted).c_str());
                Src<Key> src(sorted);
                Set s(etl::sorted_unique, src.cb(), src.ce());
                vf::cover("set(sorted_unique,first,last)", h(dm), true);
                check_state(s, dm);
            }
            {
                std::vector<int> msorted(m.begin(), m.end()); // sorted by the comparator object that is passed along
                vf::crumb(C::name, "set(sorted_unique,first,last,comp)", sit, "range=%s", show(msorted).c_str());
                Src<Key> src(msorted);
                Set s(etl::sorted_unique, src.cb(), src.ce(), make_cmp(m));
                vf::cover("set(sorted_unique,first,last,comp)", h(m), true);
                if (check_state(s, m)) {
                    op_lookups(s, m);
                    M mm = m;
                    use_after(s, mm);
                }
            }
            {
                vf::crumb(C::name, "set(comp)", "default", "-");
                Set s{make_cmp(m)};
                M em = like(m);
                vf::cover("set(comp)", h(em), true);
                if (check_state(s, em)) {
                    // the stored comparator object decides where later elements go
                    for (int k : {2, 5, 3, 1}) {
                        if (em.size() < cap) { op_insert(s, em, k, 0); }
                    }
                    if constexpr (C::stateful) { op_lookups(s, em, false); }
                }
            }
        }
    }

    // -------------------------------------------------------------- copy / move
    static void op_copy_move(M const& m0, unsigned order)
    {
        fresh(m0, order, [&](Set& s, M& m) {
            vf::crumb(C::name, "set(set const&)", fill(m), "S=%s", show_m(m).c_str());
            Set c(s);
            vf::cover("set(set const&)", h(m), true);
            bool ok = check_state(c, m);
            vf::crumb_sit((std::string(fill(m)) + ",source").c_str());
            check_state(s, m);
            if (ok) {
                M cm = m;
                use_after(c, cm); // the copy works on its own, with a copy of the comparator
                vf::crumb(C::name, "set(set const&)", (std::string(fill(m)) + ",source-after-copy-was-modified").c_str(), "S=%s", show_m(m).c_str());
                check_state(s, m);
            }
        });
        fresh(m0, order, [&](Set& s, M& m) {
            vf::crumb(C::name, "set(set&&)", fill(m), "S=%s", show_m(m).c_str());
            Set c(std::move(s));
            vf::cover("set(set&&)", h(m), true);
            if (check_state(c, m)) { use_after(c, m); }
        });
        auto const& subs = subsets(U, cap);
        for (unsigned tcode = 0; tcode < subs.size() * (unsigned)C::n_states; ++tcode) {
            unsigned tmask = subs[tcode / (unsigned)C::n_states];
            M tm0          = model_of(tmask, (int)(tcode % (unsigned)C::n_states));
            char sit[96];
            std::snprintf(sit, sizeof sit, "%s-into-%s%s", m0.empty() ? "empty" : "non-empty", tm0.empty() ? "empty" : "non-empty",
                state_of(m0) != state_of(tm0) ? ",comparators-differ" : "");
            fresh(m0, order, [&](Set& s, M& m) {
                fresh(tm0, order + 1, [&](Set& t, M& tm) {
                    vf::crumb(C::name, "operator=(set const&)", sit, "S=%s T=%s", show_m(m).c_str(), show_m(tm).c_str());
                    t = std::as_const(s);
                    tm = m; // std::set copy assignment copies the comparator object as well
                    vf::cover("operator=(set const&)", h(m, tcode), true);
                    bool ok = check_state(t, tm);
                    vf::crumb_sit((std::string(sit) + ",source").c_str());
                    check_state(s, m);
                    if (ok) { use_after(t, tm); }
                });
            });
            fresh(m0, order, [&](Set& s, M& m) {
                fresh(tm0, order + 1, [&](Set& t, M& tm) {
                    vf::crumb(C::name, "operator=(set&&)", sit, "S=%s T=%s", show_m(m).c_str(), show_m(tm).c_str());
                    t = std::move(s);
                    tm = m;
                    vf::cover("operator=(set&&)", h(m, tcode), true);
                    if (check_state(t, tm)) { use_after(t, tm); }
                });
            });
        }
    }

    // -------------------------------------------------------------- relational operators
    static void op_relational(Set const& s, M const& m, Set const& t, M const& tm)
    {
        bool eq  = (m == tm);
        auto mis = std::mismatch(m.begin(), m.end(), tm.begin(), tm.end());
        char const* sit = eq ? "equal" : mis.first == m.end() ? "lhs-is-prefix" : mis.second == tm.end() ? "rhs-is-prefix" : (*mis.first < *mis.second ? "first-mismatch-less" : "first-mismatch-greater");
        std::uint64_t hh = h(m, mask_of(tm) | ((unsigned)state_of(tm) << 24));
        auto one         = [&](char const* op, bool got, bool exp) {
            vf::crumb(C::name, op, sit, "S=%s T=%s", show_m(m).c_str(), show_m(tm).c_str());
            vf::cover(op, hh, !(m.empty() && tm.empty()));
            vf::eq_bool("ret", got, exp);
        };
        vf::crumb(C::name, "operator==", sit, "S=%s T=%s", show_m(m).c_str(), show_m(tm).c_str());
        one("operator==", s == t, m == tm);
        one("operator!=", s != t, m != tm);
        one("operator<", s < t, m < tm);
        one("operator<=", s <= t, m <= tm);
        one("operator>", s > t, m > tm);
        one("operator>=", s >= t, m >= tm);
    }

    // -------------------------------------------------------------- unit 6 / 7 specials
    static void op_special(M const& m0, unsigned order)
    {
#if VF_UNIT == 6
        fresh(m0, order, [&](Set& s, M& m) {
            Set const& cs = s;
            for (int k = 0; k <= U + 1; ++k) {
                std::string sit = key_sit(m, k);
                auto er         = m.equal_range(k);
                long long size  = (long long)m.size();
                Key key(k);
                {
                    vf::crumb(C::name, "equal_range(key)", sit.c_str(), "S=%s k=%d", show_m(m).c_str(), k);
                    auto r = s.equal_range(key);
                    vf::cover("equal_range(key)", h(m, k), !m.empty());
                    eq_pos("ret.first", pos_of(s, r.first), mpos(m, er.first), size);
                    eq_pos("ret.second", pos_of(s, r.second), mpos(m, er.second), size);
                }
                {
                    vf::crumb(C::name, "equal_range(key) const", sit.c_str(), "S=%s k=%d", show_m(m).c_str(), k);
                    auto r = cs.equal_range(key);
                    vf::cover("equal_range(key) const", h(m, k), !m.empty());
                    eq_pos("ret.first", pos_of(s, r.first), mpos(m, er.first), size);
                    eq_pos("ret.second", pos_of(s, r.second), mpos(m, er.second), size);
                }
                if constexpr (C::hetero) {
                    HK hk{k};
                    {
                        vf::crumb(C::name, "equal_range(K)", sit.c_str(), "S=%s k=%d", show_m(m).c_str(), k);
                        auto r = s.equal_range(hk);
                        vf::cover("equal_range(K)", h(m, k), !m.empty());
                        eq_pos("ret.first", pos_of(s, r.first), mpos(m, er.first), size);
                        eq_pos("ret.second", pos_of(s, r.second), mpos(m, er.second), size);
                    }
                    {
                        vf::crumb(C::name, "equal_range(K) const", sit.c_str(), "S=%s k=%d", show_m(m).c_str(), k);
                        auto r = cs.equal_range(hk);
                        vf::cover("equal_range(K) const", h(m, k), !m.empty());
                        eq_pos("ret.first", pos_of(s, r.first), mpos(m, er.first), size);
                        eq_pos("ret.second", pos_of(s, r.second), mpos(m, er.second), size);
                    }
                }
            }
            // heterogeneous keys equivalent to 0, 1 or several stored elements: the whole run must be returned
            if constexpr (C::hetero) {
                for_each_range_key([&](HR hr) {
                    std::string sit  = range_key_sit(m, hr);
                    std::uint64_t hh = h(m, (std::uint64_t)(hr.lo * 64 + hr.hi), 0x4852);
                    {
                        vf::crumb(C::name, "equal_range(K)", sit.c_str(), "S=%s K=[%d,%d]", show_m(m).c_str(), hr.lo, hr.hi);
                        auto r = s.equal_range(hr);
                        vf::cover("equal_range(K)", hh, !m.empty());
                        check_range(s, m, hr, r);
                    }
                    {
                        vf::crumb(C::name, "equal_range(K) const", sit.c_str(), "S=%s K=[%d,%d]", show_m(m).c_str(), hr.lo, hr.hi);
                        auto r = cs.equal_range(hr);
                        vf::cover("equal_range(K) const", hh, !m.empty());
                        check_range(s, m, hr, r);
                    }
                });
            }
        });
#elif VF_UNIT == 7
        // insert(sorted_unique, first, last): every sorted-unique range R with |S u R| <= capacity
        auto const& subs = subsets(U, cap);
        for (unsigned rmask : subs) {
            M rm = model_of(rmask, state_of(m0));
            std::vector<int> seq(rm.begin(), rm.end());
            if (!range_fits(m0, seq)) { continue; }
            fresh(m0, order, [&](Set& s, M& m) {
                std::string sit = range_sit(m, seq);
                vf::crumb(C::name, "insert(sorted_unique,first,last)", sit.c_str(), "S=%s range=%s", show_m(m).c_str(), show(seq).c_str());
                std::uint64_t hh = h(m, rmask);
                m.insert(seq.begin(), seq.end());
                Src<Key> src(seq);
                s.insert(etl::sorted_unique, src.cb(), src.ce());
                vf::cover("insert(sorted_unique,first,last)", hh, true);
                check_state(s, m);
            });
        }
#else
        (void)m0;
        (void)order;
#endif
    }

    // -------------------------------------------------------------- enumerated case: (start subset, family)
    static void run_enum(vf::Case&, unsigned sub_index, unsigned family)
    {
        auto const& subs = subsets(U, cap);
        unsigned mask    = subs[sub_index / (unsigned)C::n_states];
        M const m0       = model_of(mask, (int)(sub_index % (unsigned)C::n_states));
        unsigned order   = sub_index + family;
        if constexpr (C::tracked) { vf::registry().reset(); }
#if VF_UNIT == 6 || VF_UNIT == 7
        op_special(m0, order); // these units consist of the special family only (keeps their instantiation set small)
        if constexpr (C::tracked) { vf::expect_no_live("end of case"); }
        (void)family;
#else
        switch (family) {
        case F_LOOKUP:
            for (unsigned o = 0; o < 4; ++o) {
                fresh(m0, o, [&](Set& s, M& m) {
                    op_lookups(s, m, o == 0 || o == 3);
                    if (o == 0) { op_observers(s, m); }
                });
            }
            break;
        case F_INSERT:
            for (int kind = 0; kind < 3; ++kind) {
                for (int k = 1; k <= U; ++k) {
                    if (!insert_issuable(m0, k)) { continue; }
                    fresh(m0, order + (unsigned)k, [&](Set& s, M& m) { op_insert(s, m, k, kind); });
                }
            }
            break;
        case F_HINT:
            if constexpr (has_hint) {
                for (int kind = 0; kind < 3; ++kind) {
                    for (int k = 1; k <= U; ++k) {
                        if (!insert_issuable(m0, k)) { continue; }
                        for (std::size_t hp = 0; hp <= m0.size(); ++hp) {
                            fresh(m0, order + (unsigned)k, [&](Set& s, M& m) { op_hint(s, m, k, hp, kind); });
                        }
                    }
                }
            }
            break;
        case F_INSERT_RANGE: {
            // every sequence over the universe of length 0..3
            std::vector<int> seq;
            for (int len = 0; len <= 3; ++len) {
                int total = 1;
                for (int i = 0; i < len; ++i) { total *= U; }
                for (int code = 0; code < total; ++code) {
                    seq.assign((std::size_t)len, 0);
                    int c = code;
                    for (int i = 0; i < len; ++i, c /= U) { seq[(std::size_t)i] = 1 + c % U; }
                    if (!C::is_static && !range_fits(m0, seq)) { continue; }
                    if (range_ambiguous(m0, seq)) { continue; }
                    fresh(m0, order + (unsigned)code, [&](Set& s, M& m) { op_insert_range(s, m, seq); });
                }
            }
            break;
        }
        case F_ERASE_KEY:
            for (int k = 0; k <= U + 1; ++k) {
                fresh(m0, order + (unsigned)k, [&](Set& s, M& m) { op_erase_key(s, m, k); });
            }
            if constexpr (C::hetero && has_erase_K) {
                for_each_range_key([&](HR hr) { fresh(m0, order, [&](Set& s, M& m) { op_erase_K(s, m, hr); }); });
            }
            break;
        case F_ERASE_IT:
            for (int constit = 0; constit < 2; ++constit) {
                for (std::size_t i = 0; i < m0.size(); ++i) {
                    fresh(m0, order + (unsigned)i, [&](Set& s, M& m) { op_erase_it(s, m, i, constit != 0); });
                }
            }
            break;
        case F_ERASE_RANGE:
            for (int constit = 0; constit < 2; ++constit) {
                for (std::size_t i = 0; i <= m0.size(); ++i) {
                    for (std::size_t j = i; j <= m0.size(); ++j) {
                        fresh(m0, order + (unsigned)(i + j), [&](Set& s, M& m) { op_erase_range(s, m, i, j, constit != 0); });
                    }
                }
            }
            break;
        case F_CLEAR:
            for (unsigned o = 0; o < 4; ++o) {
                fresh(m0, o, [&](Set& s, M& m) {
                    op_clear(s, m);
                    // a cleared set must be fully usable again
                    for (int k = U; k >= 1 && m.size() < cap; k -= 2) { op_insert(s, m, k, 0); }
                });
            }
            break;
        case F_SWAP: {
            auto const& all = subsets(U, cap);
            for (int kind = 0; kind < 2; ++kind) {
                for (unsigned tcode = 0; tcode < all.size() * (unsigned)C::n_states; ++tcode) {
                    unsigned tmask = all[tcode / (unsigned)C::n_states];
                    M tm0          = model_of(tmask, (int)(tcode % (unsigned)C::n_states));
                    fresh(m0, order, [&](Set& s, M& m) {
                        fresh(tm0, order + tmask, [&](Set& t, M& tm) {
                            if (op_swap(s, m, t, tm, kind)) {
                                // both sides stay fully functional, each with the comparator it received
                                use_after(s, m);
                                use_after(t, tm);
                                op_erase_key(s, m, 3);
                                op_erase_key(t, tm, 3);
                            }
                        });
                    });
                }
                fresh(m0, order, [&](Set& s, M& m) {
                    char const* op = kind == 0 ? "swap(set&)" : "swap(set&,set&)";
                    vf::crumb(C::name, op, "self", "S=%s", show_m(m).c_str());
                    if (kind == 0) {
                        s.swap(s);
                    } else {
                        swap(s, s);
                    }
                    vf::cover(op, h(m, 0xfffff, (std::uint64_t)kind), true);
                    check_state(s, m);
                });
            }
            break;
        }
        case F_EXTRACT_REPLACE:
            if constexpr (has_extract) {
                fresh(m0, order, [&](Set& s, M& m) { op_extract_replace(s, m); });
                for (unsigned tmask : subsets(U, cap)) {
                    M tm = model_of(tmask, state_of(m0)); // the container must be sorted by the set's own comparator
                    fresh(m0, order + tmask, [&](Set& s, M& m) {
                        if (op_replace(s, m, tm)) { op_lookups(s, m); }
                    });
                }
            }
            break;
        case F_ERASE_IF:
            if constexpr (has_erase_if) {
                for (unsigned pm = 0; pm < (1u << U); ++pm) {
                    fresh(m0, order + pm, [&](Set& s, M& m) { op_erase_if(s, m, pm); });
                }
            }
            break;
        case F_CTOR: op_ctors(m0); break;
        case F_COPY_MOVE: op_copy_move(m0, order); break;
        case F_RELATIONAL:
            fresh(m0, order, [&](Set& s, M& m) {
                for (unsigned tmask : subsets(U, cap)) {
                    for (int tst = 0; tst < C::n_states; ++tst) {
                        M tm0 = model_of(tmask, tst);
                        fresh(tm0, order + tmask, [&](Set& t, M& tm) { op_relational(s, m, t, tm); });
                    }
                }
            });
            break;
        case F_ALIAS:
            for (std::size_t i = 0; i < m0.size(); ++i) {
                fresh(m0, order + (unsigned)i, [&](Set& s, M& m) {
                    if (op_erase_alias(s, m, i)) { use_after(s, m); }
                });
                for (int kind : {0, 2}) {
                    fresh(m0, order + (unsigned)i, [&](Set& s, M& m) { op_insert_alias(s, m, i, kind); });
                    if constexpr (has_hint) {
                        for (std::size_t hp = 0; hp <= m0.size(); ++hp) {
                            fresh(m0, order + (unsigned)i, [&](Set& s, M& m) { op_hint_alias(s, m, i, hp, kind); });
                        }
                    }
                }
            }
            for (unsigned o = 0; o < 2; ++o) {
                fresh(m0, order + o, [&](Set& s, M& m) { op_lookups_alias(s, m); });
            }
            // erase a sub-range, then keep working through the position the returned iterator designates
            // (no iterator stability is assumed: only contents, counts and offsets are compared)
            for (std::size_t i = 0; i <= m0.size(); ++i) {
                for (std::size_t j = i; j <= m0.size(); ++j) {
                    fresh(m0, order + (unsigned)(i + j), [&](Set& s, M& m) {
                        bool c = ((i + j) & 1) != 0;
                        if (!(c ? has_erase_crange : has_erase_range)) { c = !c; }
                        if (op_erase_range(s, m, i, j, c) && i < m.size()) {
                            if (op_erase_alias(s, m, i)) { op_lookups_alias(s, m); }
                        }
                    });
                }
            }
            op_self_assign(m0, order);
            break;
        case F_SPECIAL: op_special(m0, order); break;
        default: break;
        }
        if constexpr (C::tracked) { vf::expect_no_live("end of case"); }
#endif
    }

    // -------------------------------------------------------------- random history
    static void run_random(vf::Case& c)
    {
#if VF_UNIT == 6 || VF_UNIT == 7
        (void)c;
        return;
#else
        if constexpr (C::tracked) { vf::registry().reset(); }
        {
            vf::Rng& r = c.rng;
            // stateful comparators: the two sets start with independently drawn comparator states
            M m   = model(C::n_states > 1 ? (int)r.below(2) : 0);
            M tm  = model(C::n_states > 1 ? (int)r.below(2) : 0);
            Set s = make_set(m);
            Set t = make_set(tm);
            // bias: 0 balanced, 1 insert-heavy (reach full), 2 erase-heavy
            unsigned bias = (unsigned)r.below(3);
            unsigned len  = 40;
            for (unsigned step = 0; step < len; ++step) {
                bool ok = true;
                int k   = (int)r.range(1, U);
                unsigned pick = (unsigned)r.below(100);
                unsigned ins_w = bias == 1 ? 55 : bias == 2 ? 25 : 40;
                if (pick < ins_w) {
                    unsigned which = (unsigned)r.below(8);
                    if (which < 3 && !m.empty() && r.chance(1, 6)) {
                        std::size_t i = (std::size_t)r.below(m.size());
                        if (has_hint && r.coin()) {
                            ok = op_hint_alias(s, m, i, (std::size_t)r.below(m.size() + 1), which == 1 ? 0 : (int)which);
                        } else {
                            ok = op_insert_alias(s, m, i, which == 1 ? 0 : (int)which);
                        }
                    } else if (which < 3) {
                        if (insert_issuable(m, k)) { ok = op_insert(s, m, k, (int)which); }
                    } else if (which < 6) {
                        if (has_hint && insert_issuable(m, k)) {
                            ok = op_hint(s, m, k, (std::size_t)r.below(m.size() + 1), (int)which - 3);
                        } else if (insert_issuable(m, k)) {
                            ok = op_insert(s, m, k, (int)which - 3);
                        }
                    } else {
                        std::vector<int> seq;
                        std::size_t n = (std::size_t)r.below(4);
                        for (std::size_t i = 0; i < n; ++i) { seq.push_back((int)r.range(1, U)); }
                        if ((C::is_static || range_fits(m, seq)) && !range_ambiguous(m, seq)) { ok = op_insert_range(s, m, seq); }
                    }
                } else if (pick < 80) {
                    unsigned which = (unsigned)r.below(10);
                    if (which < 4 && !m.empty() && r.chance(1, 3)) {
                        ok = op_erase_alias(s, m, (std::size_t)r.below(m.size()));
                    } else if (which < 4) {
                        ok = op_erase_key(s, m, (int)r.range(0, U + 1));
                    } else if (which < 6) {
                        if (!m.empty()) { ok = op_erase_it(s, m, (std::size_t)r.below(m.size()), r.coin()); }
                    } else if (which < 8) {
                        std::size_t i = (std::size_t)r.below(m.size() + 1);
                        std::size_t j = i + (std::size_t)r.below(m.size() - i + 1);
                        if (r.chance(2, 3) && j > i + 1) { j = i + 1; } // keep histories from collapsing to empty
                        ok = op_erase_range(s, m, i, j, r.coin());
                    } else if (which < 9) {
                        unsigned mask = (unsigned)r.below(1u << (U > 16 ? 16 : U));
                        if (r.coin()) { mask &= (unsigned)r.next(); }
                        ok = op_erase_if(s, m, mask);
                    } else if (r.chance(1, 4)) {
                        ok = op_clear(s, m);
                    }
                } else if (pick < 90) {
                    op_lookups(s, m, r.chance(1, 3));
                } else if (pick < 95) {
                    ok = op_swap(s, m, t, tm, (int)r.below(2));
                    if (!ok) { resync(t, tm); }
                } else if (pick < 98) {
                    ok = op_extract_replace(s, m);
                } else {
                    op_relational(s, m, t, tm);
                }
                if (!ok) { resync(s, m); }
            }
        }
        if constexpr (C::tracked) { vf::expect_no_live("end of case"); }
#endif
    }
};

// ------------------------------------------------------------------ flat_multiset construction (unit 5)
template <typename C>
struct MDrv {
    using Set  = typename C::Set;
    using Key  = typename C::Key;
    using Cont = typename Set::container_type;
    static constexpr std::size_t cap = C::cap;
    static constexpr int U           = C::universe;

    static bool cmp(int a, int b) { return MCmp{C::mode}(a, b); }

    template <typename S>
    static void check(S& s, std::vector<int> const& exp)
    {
        S const& cs = s;
        vf::eq_int("size", cs.size(), exp.size());
        vf::eq_bool("empty", cs.empty(), exp.empty());
        auto collect = [&](auto b, auto e) {
            std::vector<int> v;
            for (std::size_t i = 0; b != e && i < cap + 2; ++b, ++i) { v.push_back(kv(*b)); }
            return v;
        };
        std::vector<int> a = collect(cs.begin(), cs.end());
        for (std::size_t i = 0; i + 1 < a.size(); ++i) {
            if (cmp(a[i + 1], a[i])) {
                vf::diverge("order:not-weakly-ascending", show(a), "weakly ascending under Compare");
                break;
            }
        }
        if (a != exp) { vf::eq_str("content", show(a), show(exp)); }
        std::vector<int> rexp(exp.rbegin(), exp.rend());
        if (collect(s.begin(), s.end()) != exp) { vf::eq_str("begin()/end()", show(collect(s.begin(), s.end())), show(exp)); }
        if (collect(cs.cbegin(), cs.cend()) != exp) { vf::eq_str("cbegin()/cend()", show(collect(cs.cbegin(), cs.cend())), show(exp)); }
        if (collect(s.rbegin(), s.rend()) != rexp) { vf::eq_str("rbegin()/rend()", show(collect(s.rbegin(), s.rend())), show(rexp)); }
        if (collect(cs.rbegin(), cs.rend()) != rexp) { vf::eq_str("rbegin()/rend() const", show(collect(cs.rbegin(), cs.rend())), show(rexp)); }
        if (collect(cs.crbegin(), cs.crend()) != rexp) { vf::eq_str("crbegin()/crend()", show(collect(cs.crbegin(), cs.crend())), show(rexp)); }
        if constexpr (C::inline_storage) { vf::eq_int("max_size", cs.max_size(), cap); }
        if constexpr (C::tracked && C::inline_storage) { vf::expect_live_in(&s, sizeof s, exp.size()); }
    }
    static char const* sit_of(std::vector<int> const& seq)
    {
        if (seq.empty()) { return "empty"; }
        bool asc = true, dup = false;
        for (std::size_t i = 0; i + 1 < seq.size(); ++i) { asc = asc && !cmp(seq[i + 1], seq[i]); }
        auto t = seq;
        std::sort(t.begin(), t.end());
        dup = std::adjacent_find(t.begin(), t.end()) != t.end();
        if (asc) { return dup ? "sorted,with-duplicates" : "sorted,unique"; }
        return dup ? "unsorted,with-duplicates" : "unsorted,unique";
    }
    static void one(std::vector<int> const& seq)
    {
        if constexpr (C::tracked) { vf::registry().reset(); }
        {
            std::vector<int> exp = seq;
            std::stable_sort(exp.begin(), exp.end(), [](int a, int b) { return cmp(a, b); });
            char const* sit  = sit_of(seq);
            std::uint64_t hh = vf::mix(vf::fnv(C::name), vf::fnv_bytes(seq.data(), seq.size() * sizeof(int), seq.size() + 77));
            {
                vf::crumb(C::name, "multiset(container)", sit, "cont=%s", show(seq).c_str());
                Src<Key> src(seq);
                Cont c(src.cb(), src.ce());
                Set s(std::move(c));
                vf::cover("multiset(container)", hh, !seq.empty());
                check(s, exp);
                if (vf::want_sample("multiset(container)") && seq.size() > 2) { vf::sample("multiset(container)", "%s: %s -> %s", C::name, show(seq).c_str(), show(exp).c_str()); }
            }
            if (sit[0] == 's' || sit[0] == 'e') { // already weakly ascending: the sorted_equivalent constructor is in its domain
                vf::crumb(C::name, "multiset(sorted_equivalent,container)", sit, "cont=%s", show(seq).c_str());
                Src<Key> src(seq);
                Cont c(src.cb(), src.ce());
                Set s(etl::sorted_equivalent, std::move(c));
                vf::cover("multiset(sorted_equivalent,container)", hh, !seq.empty());
                check(s, exp);
            }
        }
        if constexpr (C::tracked) { vf::expect_no_live("end of case"); }
    }
    static void defaults()
    {
        std::vector<int> none;
        {
            vf::crumb(C::name, "multiset()", "default", "-");
            Set s;
            vf::cover("multiset()", vf::fnv(C::name), true);
            check(s, none);
        }
        {
            vf::crumb(C::name, "multiset(comp)", "default", "-");
            Set s{typename Set::key_compare{}};
            vf::cover("multiset(comp)", vf::fnv(C::name), true);
            check(s, none);
        }
    }
    // enumerated: every sequence over {1..U} of length <= cap; case index = sequence number
    static std::uint64_t n_seq()
    {
        std::uint64_t t = 0, c = 1;
        for (std::size_t l = 0; l <= cap; ++l, c *= (std::uint64_t)U) { t += c; }
        return t;
    }
    static std::vector<int> nth(std::uint64_t k)
    {
        std::uint64_t cnt = 1;
        for (std::size_t len = 0; len <= cap; ++len, cnt *= (std::uint64_t)U) {
            if (k < cnt) {
                std::vector<int> s(len);
                for (std::size_t i = 0; i < len; ++i, k /= (std::uint64_t)U) { s[i] = 1 + (int)(k % (std::uint64_t)U); }
                return s;
            }
            k -= cnt;
        }
        return {};
    }
    static void run_enum(vf::Case&, unsigned chunk, unsigned)
    {
        // 64 sequences per case
        std::uint64_t lo = (std::uint64_t)chunk * 64, hi = lo + 64;
        if (hi > n_seq()) { hi = n_seq(); }
        if (chunk == 0) { defaults(); }
        for (std::uint64_t i = lo; i < hi; ++i) { one(nth(i)); }
    }
    static void run_random(vf::Case& c)
    {
        for (int rep = 0; rep < 8; ++rep) {
            std::size_t n = (std::size_t)c.rng.below(cap + 1);
            std::vector<int> seq;
            int span = (int)c.rng.range(1, 40);
            for (std::size_t i = 0; i < n; ++i) { seq.push_back((int)c.rng.range(-span, span)); }
            one(seq);
        }
    }
};

// ------------------------------------------------------------------ entry tables
struct Entry {
    char const* name;
    std::uint64_t n_sub;  // first enumerated dimension (subsets, or chunks for multiset)
    unsigned n_fam;       // second enumerated dimension
    unsigned random_weight;
    void (*run_enum)(vf::Case&, unsigned, unsigned);
    void (*run_random)(vf::Case&);
};

#define DEF_CFG(ID, NAME, KEY, CAP, UNIV, MODE, HET, STATIC, TRACKED, INLINE, ...)                                     \
    struct ID : CfgBase<__VA_ARGS__, KEY, CAP, UNIV, MODE, HET, STATIC, TRACKED, INLINE> {                            \
        static constexpr char const* name = NAME;                                                                      \
    };

template <typename C>
Entry set_entry(bool enumerate, unsigned weight)
{
#if VF_UNIT == 6 || VF_UNIT == 7
    unsigned const nfam = 1;
#else
    unsigned const nfam = F_COUNT;
#endif
    return Entry{C::name, enumerate ? subsets(C::universe, C::cap).size() * (std::size_t)C::n_states : 0, nfam, weight, &Drv<C>::run_enum, &Drv<C>::run_random};
}
template <typename C>
Entry mset_entry(unsigned weight)
{
    return Entry{C::name, (MDrv<C>::n_seq() + 63) / 64, 1, weight, &MDrv<C>::run_enum, &MDrv<C>::run_random};
}

using TK = vf::TCM;

#ifndef VF_PART
    #define VF_PART 0
#endif

// four comparators per (family, capacity): less<int>, greater<int>, less<> (+ heterogeneous key), harness transparent greater
#define SSET4(N, U)                                                                                                    \
    DEF_CFG(SS_less_##N, "static_set<int," #N ",less>", int, N, U, 0, false, true, false, true, etl::static_set<int, N, etl::less<int>>)       \
    DEF_CFG(SS_greater_##N, "static_set<int," #N ",greater>", int, N, U, 1, false, true, false, true, etl::static_set<int, N, etl::greater<int>>) \
    DEF_CFG(SS_tless_##N, "static_set<int," #N ",less<>>", int, N, U, 0, true, true, false, true, etl::static_set<int, N, etl::less<>>)        \
    DEF_CFG(SS_tgreater_##N, "static_set<int," #N ",transparent_greater>", int, N, U, 1, true, true, false, true, etl::static_set<int, N, TGreater>)
#define SSET1(N, U, ID, CMPNAME, MODE, CMP)                                                                            \
    DEF_CFG(SS_##ID##_##N, "static_set<int," #N "," CMPNAME ">", int, N, U, MODE, false, true, false, true, etl::static_set<int, N, CMP>)
#define FSV4(N, U)                                                                                                     \
    DEF_CFG(FS_less_##N, "flat_set<int,static_vector<" #N ">,less>", int, N, U, 0, false, false, false, true, etl::flat_set<int, etl::static_vector<int, N>, etl::less<int>>)          \
    DEF_CFG(FS_greater_##N, "flat_set<int,static_vector<" #N ">,greater>", int, N, U, 1, false, false, false, true, etl::flat_set<int, etl::static_vector<int, N>, etl::greater<int>>)   \
    DEF_CFG(FS_tless_##N, "flat_set<int,static_vector<" #N ">,less<>>", int, N, U, 0, true, false, false, true, etl::flat_set<int, etl::static_vector<int, N>, etl::less<>>)           \
    DEF_CFG(FS_tgreater_##N, "flat_set<int,static_vector<" #N ">,transparent_greater>", int, N, U, 1, true, false, false, true, etl::flat_set<int, etl::static_vector<int, N>, TGreater>)
#define FSV1(N, U, ID, CMPNAME, MODE, CMP)                                                                             \
    DEF_CFG(FS_##ID##_##N, "flat_set<int,static_vector<" #N ">," CMPNAME ">", int, N, U, MODE, false, false, false, true, etl::flat_set<int, etl::static_vector<int, N>, CMP>)
#define FVL4(N, U)                                                                                                     \
    DEF_CFG(FV_less_##N, "flat_set<int,vec_like[" #N "],less>", int, N, U, 0, false, false, false, false, etl::flat_set<int, vec_like<int>, etl::less<int>>)          \
    DEF_CFG(FV_greater_##N, "flat_set<int,vec_like[" #N "],greater>", int, N, U, 1, false, false, false, false, etl::flat_set<int, vec_like<int>, etl::greater<int>>)   \
    DEF_CFG(FV_tless_##N, "flat_set<int,vec_like[" #N "],less<>>", int, N, U, 0, true, false, false, false, etl::flat_set<int, vec_like<int>, etl::less<>>)           \
    DEF_CFG(FV_tgreater_##N, "flat_set<int,vec_like[" #N "],transparent_greater>", int, N, U, 1, true, false, false, false, etl::flat_set<int, vec_like<int>, TGreater>)
#define FVL1(N, U, ID, CMPNAME, MODE, CMP)                                                                             \
    DEF_CFG(FV_##ID##_##N, "flat_set<int,vec_like[" #N "]," CMPNAME ">", int, N, U, MODE, false, false, false, false, etl::flat_set<int, vec_like<int>, CMP>)
#define ENTRIES4(P, N, EN, W) set_entry<P##_less_##N>(EN, W), set_entry<P##_greater_##N>(EN, W), set_entry<P##_tless_##N>(EN, W), set_entry<P##_tgreater_##N>(EN, W)

// ---- unit 1: static_set<int>
#if VF_UNIT == 1 && VF_PART == 0
SSET4(3, 6)
SSET1(1, 6, less, "less", 0, etl::less<int>)
SSET1(2, 6, greater, "greater", 1, etl::greater<int>)
SSET1(3, 6, coarse, "coarse_less", 2, CoarseLess)
std::vector<Entry> entries() { return {ENTRIES4(SS, 3, true, 2), set_entry<SS_less_1>(true, 1), set_entry<SS_greater_2>(true, 1), set_entry<SS_coarse_3>(true, 2)}; }
#elif VF_UNIT == 1 && VF_PART == 1
SSET4(4, 6)
SSET1(4, 6, coarse, "coarse_less", 2, CoarseLess)
std::vector<Entry> entries() { return {ENTRIES4(SS, 4, true, 2), set_entry<SS_coarse_4>(true, 2)}; }
#elif VF_UNIT == 1 && VF_PART == 2
SSET4(16, 18)
SSET1(16, 18, coarse, "coarse_less", 2, CoarseLess)
std::vector<Entry> entries() { return {ENTRIES4(SS, 16, false, 2), set_entry<SS_coarse_16>(false, 2)}; }
#elif VF_UNIT == 1 && VF_PART == 3 // thorough only: larger enumerated scope
SSET1(5, 7, less, "less", 0, etl::less<int>)
SSET1(5, 7, greater, "greater", 1, etl::greater<int>)
std::vector<Entry> entries() { return {set_entry<SS_less_5>(true, 1), set_entry<SS_greater_5>(true, 1)}; }
// ---- unit 2: static_set<Tracked>
#elif VF_UNIT == 2
DEF_CFG(ST_less_3, "static_set<Tracked,3,less>", TK, 3, 6, 0, false, true, true, true, etl::static_set<TK, 3, etl::less<TK>>)
DEF_CFG(ST_less_4, "static_set<Tracked,4,less>", TK, 4, 6, 0, false, true, true, true, etl::static_set<TK, 4, etl::less<TK>>)
DEF_CFG(ST_greater_4, "static_set<Tracked,4,greater>", TK, 4, 6, 1, false, true, true, true, etl::static_set<TK, 4, etl::greater<TK>>)
DEF_CFG(ST_less_16, "static_set<Tracked,16,less>", TK, 16, 18, 0, false, true, true, true, etl::static_set<TK, 16, etl::less<TK>>)
std::vector<Entry> entries()
{
    return {set_entry<ST_less_3>(true, 2), set_entry<ST_less_4>(true, 2), set_entry<ST_greater_4>(true, 2), set_entry<ST_less_16>(false, 3)};
}
// ---- unit 3: flat_set<int, static_vector>
#elif VF_UNIT == 3 && VF_PART == 0
FSV4(3, 6)
FSV1(1, 6, less, "less", 0, etl::less<int>)
FSV1(2, 6, greater, "greater", 1, etl::greater<int>)
FSV1(3, 6, coarse, "coarse_less", 2, CoarseLess)
std::vector<Entry> entries() { return {ENTRIES4(FS, 3, true, 2), set_entry<FS_less_1>(true, 1), set_entry<FS_greater_2>(true, 1), set_entry<FS_coarse_3>(true, 2)}; }
#elif VF_UNIT == 3 && VF_PART == 1
FSV4(4, 6)
FSV1(4, 6, coarse, "coarse_less", 2, CoarseLess)
std::vector<Entry> entries() { return {ENTRIES4(FS, 4, true, 2), set_entry<FS_coarse_4>(true, 2)}; }
#elif VF_UNIT == 3 && VF_PART == 2
FSV4(16, 18)
FSV1(16, 18, coarse, "coarse_less", 2, CoarseLess)
std::vector<Entry> entries() { return {ENTRIES4(FS, 16, false, 2), set_entry<FS_coarse_16>(false, 2)}; }
#elif VF_UNIT == 3 && VF_PART == 3 // thorough only
FSV1(5, 7, less, "less", 0, etl::less<int>)
FSV1(5, 7, greater, "greater", 1, etl::greater<int>)
std::vector<Entry> entries() { return {set_entry<FS_less_5>(true, 1), set_entry<FS_greater_5>(true, 1)}; }
// ---- unit 4: flat_set<int, vec_like>
#elif VF_UNIT == 4 && VF_PART == 0
FVL4(3, 6)
FVL1(3, 6, coarse, "coarse_less", 2, CoarseLess)
std::vector<Entry> entries() { return {ENTRIES4(FV, 3, true, 2), set_entry<FV_coarse_3>(true, 2)}; }
#elif VF_UNIT == 4 && VF_PART == 1
FVL4(4, 6)
std::vector<Entry> entries() { return {ENTRIES4(FV, 4, true, 2)}; }
#elif VF_UNIT == 4 && VF_PART == 2
FVL4(16, 18)
std::vector<Entry> entries() { return {ENTRIES4(FV, 16, false, 2)}; }
// ---- unit 5: flat_multiset
#elif VF_UNIT == 5
DEF_CFG(MS_sv_less, "flat_multiset<int,static_vector<4>,less>", int, 4, 5, 0, false, false, false, true, etl::flat_multiset<int, etl::static_vector<int, 4>, etl::less<int>>)
DEF_CFG(MS_sv_greater, "flat_multiset<int,static_vector<4>,greater>", int, 4, 5, 1, false, false, false, true, etl::flat_multiset<int, etl::static_vector<int, 4>, etl::greater<int>>)
DEF_CFG(MS_sv_tless, "flat_multiset<int,static_vector<4>,less<>>", int, 4, 5, 0, true, false, false, true, etl::flat_multiset<int, etl::static_vector<int, 4>, etl::less<>>)
DEF_CFG(MS_sv_tgreater, "flat_multiset<int,static_vector<5>,transparent_greater>", int, 5, 4, 1, true, false, false, true, etl::flat_multiset<int, etl::static_vector<int, 5>, TGreater>)
DEF_CFG(MS_vl_less, "flat_multiset<int,vec_like[5],less>", int, 5, 4, 0, false, false, false, false, etl::flat_multiset<int, vec_like<int>, etl::less<int>>)
DEF_CFG(MS_vl_greater, "flat_multiset<int,vec_like[4],greater>", int, 4, 5, 1, false, false, false, false, etl::flat_multiset<int, vec_like<int>, etl::greater<int>>)
DEF_CFG(MS_tr_less, "flat_multiset<Tracked,static_vector<4>,less>", TK, 4, 4, 0, false, false, true, true, etl::flat_multiset<TK, etl::static_vector<TK, 4>, etl::less<TK>>)
DEF_CFG(MS_sv_less_16, "flat_multiset<int,static_vector<16>,less>", int, 16, 1, 0, false, false, false, true, etl::flat_multiset<int, etl::static_vector<int, 16>, etl::less<int>>)
DEF_CFG(MS_vl_greater_33, "flat_multiset<int,vec_like[33],greater>", int, 33, 1, 1, false, false, false, false, etl::flat_multiset<int, vec_like<int>, etl::greater<int>>)
DEF_CFG(MS_tr_greater_9, "flat_multiset<Tracked,static_vector<9>,greater>", TK, 9, 1, 1, false, false, true, true, etl::flat_multiset<TK, etl::static_vector<TK, 9>, etl::greater<TK>>)
std::vector<Entry> entries()
{
    return {mset_entry<MS_sv_less>(1), mset_entry<MS_sv_greater>(1), mset_entry<MS_sv_tless>(1), mset_entry<MS_sv_tgreater>(1), mset_entry<MS_vl_less>(1),
        mset_entry<MS_vl_greater>(1), mset_entry<MS_tr_less>(1), mset_entry<MS_sv_less_16>(3), mset_entry<MS_vl_greater_33>(3), mset_entry<MS_tr_greater_9>(3)};
}
// ---- unit 6: static_set::equal_range
#elif VF_UNIT == 6
SSET4(3, 6)
SSET4(4, 6)
SSET1(1, 6, less, "less", 0, etl::less<int>)
SSET1(4, 6, coarse, "coarse_less", 2, CoarseLess)
DEF_CFG(ST_less_4, "static_set<Tracked,4,less>", TK, 4, 6, 0, false, true, true, true, etl::static_set<TK, 4, etl::less<TK>>)
std::vector<Entry> entries()
{
    return {ENTRIES4(SS, 3, true, 1), ENTRIES4(SS, 4, true, 1), set_entry<SS_less_1>(true, 1), set_entry<SS_coarse_4>(true, 1), set_entry<ST_less_4>(true, 1)};
}
// ---- unit 7: flat_set::insert(sorted_unique, first, last)
#elif VF_UNIT == 7
FSV4(3, 6)
FSV4(4, 6)
FSV1(1, 6, less, "less", 0, etl::less<int>)
FSV1(4, 6, coarse, "coarse_less", 2, CoarseLess)
FVL1(4, 6, less, "less", 0, etl::less<int>)
FVL1(4, 6, tgreater, "transparent_greater", 1, TGreater)
std::vector<Entry> entries()
{
    return {ENTRIES4(FS, 3, true, 1), ENTRIES4(FS, 4, true, 1), set_entry<FS_less_1>(true, 1), set_entry<FS_coarse_4>(true, 1), set_entry<FV_less_4>(true, 1),
        set_entry<FV_tgreater_4>(true, 1)};
}
// ---- unit 8: flat_set<Tracked, static_vector>
#elif VF_UNIT == 8
DEF_CFG(FT_less_3, "flat_set<Tracked,static_vector<3>,less>", TK, 3, 6, 0, false, false, true, true, etl::flat_set<TK, etl::static_vector<TK, 3>, etl::less<TK>>)
DEF_CFG(FT_greater_4, "flat_set<Tracked,static_vector<4>,greater>", TK, 4, 6, 1, false, false, true, true, etl::flat_set<TK, etl::static_vector<TK, 4>, etl::greater<TK>>)
DEF_CFG(FT_less_16, "flat_set<Tracked,static_vector<16>,less>", TK, 16, 18, 0, false, false, true, true, etl::flat_set<TK, etl::static_vector<TK, 16>, etl::less<TK>>)
std::vector<Entry> entries()
{
    return {set_entry<FT_less_3>(true, 2), set_entry<FT_greater_4>(true, 2), set_entry<FT_less_16>(false, 3)};
}
// ---- unit 9: comparator with run-time state (default constructible, transparent); flat_set: both states of the stored object
#elif VF_UNIT == 9
DEF_CFG(SD_4, "static_set<int,4,dir_less>", int, 4, 6, 0, true, true, false, true, etl::static_set<int, 4, DirLess>)
DEF_CFG(FD_3, "flat_set<int,static_vector<3>,dir_less>", int, 3, 6, 0, true, false, false, true, etl::flat_set<int, etl::static_vector<int, 3>, DirLess>)
DEF_CFG(FD_4, "flat_set<int,static_vector<4>,dir_less>", int, 4, 6, 0, true, false, false, true, etl::flat_set<int, etl::static_vector<int, 4>, DirLess>)
DEF_CFG(VD_4, "flat_set<int,vec_like[4],dir_less>", int, 4, 6, 0, true, false, false, false, etl::flat_set<int, vec_like<int>, DirLess>)
DEF_CFG(FD_16, "flat_set<int,static_vector<16>,dir_less>", int, 16, 18, 0, true, false, false, true, etl::flat_set<int, etl::static_vector<int, 16>, DirLess>)
std::vector<Entry> entries()
{
    return {set_entry<SD_4>(true, 1), set_entry<FD_3>(true, 2), set_entry<FD_4>(true, 2), set_entry<VD_4>(true, 2), set_entry<FD_16>(false, 3)};
}
#else
    #error "unknown VF_UNIT / VF_PART"
#endif

std::vector<Entry> const& table()
{
    static std::vector<Entry> const t = entries();
    return t;
}

std::uint64_t n_enum_total()
{
    std::uint64_t n = 0;
    for (auto const& e : table()) { n += e.n_sub * e.n_fam; }
    return n;
}

vf::Spec spec(vf::Tier t)
{
    vf::Spec s;
    s.n_enum = n_enum_total();
#if VF_UNIT == 6 || VF_UNIT == 7
    s.n_random = 0;
#elif VF_UNIT == 5
    s.n_random = t == vf::Tier::thorough ? 40000 : 4000;
#else
    s.n_random = t == vf::Tier::thorough ? 60000 : 3000;
#endif
    s.batch      = 32;
    s.timeout_s  = 120;
    s.exhaustive = true;
    return s;
}

void run_case(vf::Case& c)
{
    auto const& t = table();
    if (c.enumerated) {
        std::uint64_t i = c.index;
        for (auto const& e : t) {
            std::uint64_t n = e.n_sub * e.n_fam;
            if (i < n) {
                e.run_enum(c, (unsigned)(i / e.n_fam), (unsigned)(i % e.n_fam));
                return;
            }
            i -= n;
        }
        return;
    }
    unsigned total = 0;
    for (auto const& e : t) { total += e.random_weight; }
    unsigned pick = (unsigned)c.rng.below(total);
    for (auto const& e : t) {
        if (pick < e.random_weight) {
            e.run_random(c);
            return;
        }
        pick -= e.random_weight;
    }
}

} // namespace

#define VF_STR2(x) #x
#define VF_STR(x) VF_STR2(x)
VF_MAIN("C09", "C09_sets_u" VF_STR(VF_UNIT) "p" VF_STR(VF_PART), spec, run_case)
