// C06 - heterogeneous comparisons: the value argument (or the second range) has a type different from the element
//       type and converting in one direction is lossy.  The standard compares `*it == value`, `*it < value`,
//       `value < *it`, `*it1 == *it2` in the types as given (usual arithmetic conversions); an implementation that
//       first converts the element to the value's type (or the value to the element's type) gives other answers.
//       Pairs: double/int, int/unsigned char, long long/int and the three reversed pairs.  Raw pointers, vs libstdc++.
// -DC06_HET_PART=1: pairs 0..2   =2: pairs 3..5
#include "vf.hpp"
#include "vf_contract.hpp"
#include "vf_algo_tests.hpp"

#ifndef C06_HET_PART
    #define C06_HET_PART 1
#endif

namespace c06 {

constexpr long long B32 = 4294967296LL; // 2^32
template <int I>
struct HP;
template <>
struct HP<0> { // 1.5 -> int 1
    using E                            = double;
    using V                            = int;
    static constexpr char const* name  = "ptr<double>/int";
    static constexpr E ev[5]           = {1.5, 1.0, 2.0, -0.5, 2.5};
    static constexpr V vv[5]           = {1, 2, 0, -1, 3};
};
template <>
struct HP<1> { // 257 -> unsigned char 1
    using E                            = int;
    using V                            = unsigned char;
    static constexpr char const* name  = "ptr<int>/unsigned char";
    static constexpr E ev[5]           = {257, 1, 256, 0, 513};
    static constexpr V vv[5]           = {1, 0, 2, 255, 7};
};
template <>
struct HP<2> { // 2^32+5 -> int 5
    using E                            = long long;
    using V                            = int;
    static constexpr char const* name  = "ptr<long long>/int";
    static constexpr E ev[5]           = {B32 + 5, 5, B32, 0, -1};
    static constexpr V vv[5]           = {5, 0, -1, 7, 1};
};
template <>
struct HP<3> { // value 1.5 -> element type int 1
    using E                            = int;
    using V                            = double;
    static constexpr char const* name  = "ptr<int>/double";
    static constexpr E ev[5]           = {1, 2, 0, -1, 3};
    static constexpr V vv[5]           = {1.5, 1.0, 2.0, -0.5, 0.0};
};
template <>
struct HP<4> { // value 257 -> element type unsigned char 1
    using E                            = unsigned char;
    using V                            = int;
    static constexpr char const* name  = "ptr<unsigned char>/int";
    static constexpr E ev[5]           = {1, 0, 255, 2, 200};
    static constexpr V vv[5]           = {257, 1, 256, -1, 255};
};
template <>
struct HP<5> { // value 2^32+5 -> element type int 5
    using E                            = int;
    using V                            = long long;
    static constexpr char const* name  = "ptr<int>/long long";
    static constexpr E ev[5]           = {5, 0, -1, 7, 1};
    static constexpr V vv[5]           = {B32 + 5, 5, B32, -1, 0};
};

template <typename T>
std::string shw(std::vector<T> const& v)
{
    std::string o = "[";
    for (std::size_t i = 0; i < v.size(); ++i) {
        char b[40];
        std::snprintf(b, sizeof b, "%s%.17g", i ? " " : "", (double)v[i]);
        o += b;
    }
    return o + "]";
}
template <typename T>
bool same(Trial& t, char const* name, std::vector<T> const& obs, std::vector<T> const& exp)
{
    if (!t.clean) { return true; }
    if (obs.size() == exp.size() && (obs.empty() || std::memcmp(obs.data(), exp.data(), obs.size() * sizeof(T)) == 0)) { return true; }
    char sym[96];
    std::snprintf(sym, sizeof sym, "%s:%s", name, obs.size() != exp.size() ? "length" : "values-differ");
    vf::diverge(sym, shw(obs), shw(exp));
    return false;
}

// ---------------------------------------------------------------- a range of E searched / compared / modified with values of type V
template <typename P>
void t_value(Ctx& c)
{
    using E = typename P::E;
    using V = typename P::V;
    std::vector<E> m;
    for (auto const& e : c.a) { m.push_back(P::ev[e.key % 5]); }
    std::size_t const n = m.size();
    bool const sorted   = std::is_sorted(m.begin(), m.end());
    std::string const d = "elems=" + shw(m);
    for (Pres pr : pres_for<KPtr>(n)) {
#define HT(OP, H, EXTRA, WR, ...)                                                                                      \
    do {                                                                                                               \
        Trial t(c, P::name, OP, pr, EXTRA, H, "%s value=%.17g", d.c_str(), (double)val);                               \
        Range<E> r(m, pr, WR);                                                                                         \
        E *f = r.lo, *l = r.hi;                                                                                        \
        E const *cf = r.lo, *cl = r.hi;                                                                                \
        (void)f; (void)l; (void)cf; (void)cl;                                                                          \
        __VA_ARGS__;                                                                                                   \
        t.guards(r);                                                                                                   \
        t.done();                                                                                                      \
    } while (0)
        for (int v = 0; v < 5; ++v) {
            V const val = P::vv[v];
            V const nv  = P::vv[(v + 1) % 5];
            auto sf     = std::find(m.begin(), m.end(), val) - m.begin();
            HT("find(f,l,v)", 1 + v, sf == (long)n ? "absent" : "found", false, t.off("ret", t.call([&] { return etl::find(cf, cl, val); }) - cf, sf); same(t, "input", r.get(), m));
            auto sc = std::count(m.begin(), m.end(), val);
            HT("count(f,l,v)", 10 + v, sc == 0 ? "none" : "some", false, t.off("ret", t.call([&] { return etl::count(cf, cl, val); }), sc));
            for (long k = 0; k <= 3 && k <= (long)n + 1; ++k) {
                auto ss = std::search_n(m.begin(), m.end(), k, val) - m.begin();
                HT("search_n(f,l,n,v)", vf::mix(20 + v, k), ss == (long)n ? "absent" : "found", false, t.off("ret", t.call([&] { return etl::search_n(cf, cl, k, val); }) - cf, ss));
            }
            {
                std::vector<E> exp = m;
                auto se            = std::remove(exp.begin(), exp.end(), val) - exp.begin();
                exp.resize((std::size_t)se);
                HT("remove(f,l,v)", 30 + v, se == (long)n ? "none-removed" : "some-removed", true, {
                    auto ret = t.call([&] { return etl::remove(f, l, val); });
                    if (t.off("ret", ret - f, se)) {
                        auto got = r.get();
                        got.resize((std::size_t)se);
                        same(t, "kept-part", got, exp);
                    }
                });
                HT("remove_copy(f,l,d,v)", 40 + v, se == (long)n ? "none-removed" : "some-removed", false, {
                    Sink<E> s(exp.size(), pr);
                    auto ret = t.call([&] { return etl::remove_copy(cf, cl, s.r.lo, val); });
                    t.off("ret", ret - s.r.lo, (long)exp.size());
                    same(t, "output", s.r.get(), exp);
                    t.guards(s.r, "output");
                    same(t, "input", r.get(), m);
                });
            }
            {
                std::vector<E> exp = m;
                std::replace(exp.begin(), exp.end(), val, nv);
                HT("replace(f,l,old,new)", 50 + v, exp == m ? "none" : "some", true, t.call([&] { etl::replace(f, l, val, nv); }); same(t, "range", r.get(), exp));
            }
            {
                std::vector<E> exp = m;
                std::fill(exp.begin(), exp.end(), val);
                HT("fill(f,l,v)", 60 + v, "", true, t.call([&] { etl::fill(f, l, val); }); same(t, "range", r.get(), exp));
                HT("fill_n(d,n,v)", 65 + v, "", true, {
                    auto ret = t.call([&] { return etl::fill_n(f, (long)n, val); });
                    t.off("ret", ret - f, (long)n);
                    same(t, "range", r.get(), exp);
                });
            }
            if (sorted) {
                auto lb = std::lower_bound(m.begin(), m.end(), val) - m.begin();
                auto ub = std::upper_bound(m.begin(), m.end(), val) - m.begin();
                bool bs = std::binary_search(m.begin(), m.end(), val);
                HT("lower_bound(f,l,v)", 70 + v, bs ? "present" : "absent", false, t.off("ret", t.call([&] { return etl::lower_bound(cf, cl, val); }) - cf, lb));
                HT("upper_bound(f,l,v)", 80 + v, bs ? "present" : "absent", false, t.off("ret", t.call([&] { return etl::upper_bound(cf, cl, val); }) - cf, ub));
                HT("binary_search(f,l,v)", 90 + v, bs ? "present" : "absent", false, t.boolean("ret", t.call([&] { return etl::binary_search(cf, cl, val); }), bs));
                HT("equal_range(f,l,v)", 100 + v, bs ? "present" : "absent", false, {
                    auto ep = t.call([&] { return etl::equal_range(cf, cl, val); });
                    t.off("ret.first", ep.first - cf, lb);
                    t.off("ret.second", ep.second - cf, ub);
                });
            }
        }
#undef HT
    }
}

// ---------------------------------------------------------------- a range of A against a range of B
template <typename A, typename B>
void pair_het(Ctx& c, char const* kind, std::vector<A> const& x, std::vector<B> const& y, int which)
{
    std::size_t const nx = x.size(), ny = y.size();
    std::string const d  = "x=" + shw(x) + " y=" + shw(y);
    LenHint lh(nx);
    std::uint64_t const hb = vf::mix(vf::fnv_bytes(x.data(), nx * sizeof(A)), vf::mix(vf::fnv_bytes(y.data(), ny * sizeof(B)), (std::uint64_t)which));
    auto rel = [&] { return nx == ny ? "len2=len1" : (ny < nx ? "len2<len1" : "len2>len1"); };
    for (Pres pr : pres_for<KPtr>(nx)) {
        Pres pr2 = pres2(pr, ny);
#define H2(OP, H, EXTRA, ...)                                                                                          \
    do {                                                                                                               \
        char ex_[64];                                                                                                  \
        std::snprintf(ex_, sizeof ex_, "%s,%s", rel(), EXTRA);                                                         \
        Trial t(c, kind, OP, pr, ex_, vf::mix(hb, H), "%s", d.c_str());                                                \
        Range<A> r1(x, pr, false);                                                                                     \
        Range<B> r2(y, pr2, false);                                                                                    \
        A const *f1 = r1.lo, *l1 = r1.hi;                                                                              \
        B const *f2 = r2.lo, *l2 = r2.hi;                                                                              \
        (void)f1; (void)l1; (void)f2; (void)l2;                                                                        \
        __VA_ARGS__;                                                                                                   \
        t.guards(r1);                                                                                                  \
        t.guards(r2);                                                                                                  \
        t.done();                                                                                                      \
    } while (0)
        bool sl = std::lexicographical_compare(x.begin(), x.end(), y.begin(), y.end());
        H2("lexicographical_compare(f1,l1,f2,l2)", 1, sl ? "true" : "false", t.boolean("ret", t.call([&] { return etl::lexicographical_compare(f1, l1, f2, l2); }), sl));
        bool se = std::equal(x.begin(), x.end(), y.begin(), y.end());
        H2("equal(f1,l1,f2,l2)", 2, se ? "true" : "false", t.boolean("ret", t.call([&] { return etl::equal(f1, l1, f2, l2); }), se));
        auto sp = std::mismatch(x.begin(), x.end(), y.begin(), y.end());
        H2("mismatch(f1,l1,f2,l2)", 3, (sp.first == x.end() || sp.second == y.end()) ? "to-end" : "differ", {
            auto ep = t.call([&] { return etl::mismatch(f1, l1, f2, l2); });
            t.off("ret.first", ep.first - f1, sp.first - x.begin());
            t.off("ret.second", ep.second - f2, sp.second - y.begin());
        });
        bool sq = std::is_permutation(x.begin(), x.end(), y.begin(), y.end());
        H2("is_permutation(f1,l1,f2,l2)", 4, sq ? "true" : "false", t.boolean("ret", t.call([&] { return etl::is_permutation(f1, l1, f2, l2); }), sq));
        auto ss = std::search(x.begin(), x.end(), y.begin(), y.end()) - x.begin();
        H2("search(f,l,sf,sl)", 5, ss == (long)nx ? "absent" : "found", t.off("ret", t.call([&] { return etl::search(f1, l1, f2, l2); }) - f1, ss));
        auto sf = std::find_end(x.begin(), x.end(), y.begin(), y.end()) - x.begin();
        H2("find_end(f,l,sf,sl)", 6, sf == (long)nx ? "absent" : "found", t.off("ret", t.call([&] { return etl::find_end(f1, l1, f2, l2); }) - f1, sf));
        auto so = std::find_first_of(x.begin(), x.end(), y.begin(), y.end()) - x.begin();
        H2("find_first_of(f,l,sf,sl)", 7, so == (long)nx ? "absent" : "found", t.off("ret", t.call([&] { return etl::find_first_of(f1, l1, f2, l2); }) - f1, so));
        if (ny >= nx) {
            std::vector<B> yp(y.begin(), y.begin() + (long)nx);
            bool s3 = std::equal(x.begin(), x.end(), yp.begin());
            auto m3 = std::mismatch(x.begin(), x.end(), yp.begin());
            Trial t(c, kind, "equal(f1,l1,f2)", pr, s3 ? "true" : "false", vf::mix(hb, 8), "%s", d.c_str());
            Range<A> r1(x, pr, false);
            Range<B> r2(yp, pres2(pr, nx), false);
            t.boolean("ret", t.call([&] { return etl::equal((A const*)r1.lo, (A const*)r1.hi, (B const*)r2.lo); }), s3);
            t.guards(r1);
            t.guards(r2);
            t.done();
            Trial t2(c, kind, "mismatch(f1,l1,f2)", pr, m3.first == x.end() ? "to-end" : "differ", vf::mix(hb, 9), "%s", d.c_str());
            Range<A> q1(x, pr, false);
            Range<B> q2(yp, pres2(pr, nx), false);
            auto ep = t2.call([&] { return etl::mismatch((A const*)q1.lo, (A const*)q1.hi, (B const*)q2.lo); });
            t2.off("ret.first", ep.first - q1.lo, m3.first - x.begin());
            t2.off("ret.second", ep.second - q2.lo, m3.second - yp.begin());
            t2.guards(q1);
            t2.guards(q2);
            t2.done();
        }
        if (std::is_sorted(x.begin(), x.end()) && std::is_sorted(y.begin(), y.end())) {
            bool si = std::includes(x.begin(), x.end(), y.begin(), y.end());
            H2("includes(f1,l1,f2,l2)", 10, si ? "true" : "false", t.boolean("ret", t.call([&] { return etl::includes(f1, l1, f2, l2); }), si));
        }
#undef H2
    }
}
template <typename P>
void t_ranges(Ctx& c)
{
    using E = typename P::E;
    using V = typename P::V;
    std::vector<E> a;
    for (auto const& e : c.a) { a.push_back(P::ev[e.key % 5]); }
    static std::string const rev = std::string(P::name) + " (roles exchanged)";
    for (Seq const& nd : c.needles) {
        std::vector<V> b;
        for (auto const& e : nd) { b.push_back(P::vv[e.key % 5]); }
        pair_het<E, V>(c, P::name, a, b, 0);
        pair_het<V, E>(c, rev.c_str(), b, a, 1);
        if (!c.enumerated) {
            std::vector<E> sa = a;
            std::vector<V> sb = b;
            std::sort(sa.begin(), sa.end());
            std::sort(sb.begin(), sb.end());
            pair_het<E, V>(c, P::name, sa, sb, 2);
        }
    }
    // the element sequence against its own image in the other type (converted: equal only where the conversion is exact)
    std::vector<V> img;
    for (E e : a) { img.push_back((V)e); }
    pair_het<E, V>(c, P::name, a, img, 3);
    pair_het<V, E>(c, rev.c_str(), img, a, 4);
}

#if C06_HET_PART == 1
Test const kTests[] = {
    {"double_int_value", t_value<HP<0>>}, {"double_int_ranges", t_ranges<HP<0>>},
    {"int_uchar_value", t_value<HP<1>>}, {"int_uchar_ranges", t_ranges<HP<1>>},
    {"llong_int_value", t_value<HP<2>>}, {"llong_int_ranges", t_ranges<HP<2>>},
};
#else
Test const kTests[] = {
    {"int_double_value", t_value<HP<3>>}, {"int_double_ranges", t_ranges<HP<3>>},
    {"uchar_int_value", t_value<HP<4>>}, {"uchar_int_ranges", t_ranges<HP<4>>},
    {"int_llong_value", t_value<HP<5>>}, {"int_llong_ranges", t_ranges<HP<5>>},
};
#endif
std::size_t const kNumTests = sizeof(kTests) / sizeof(kTests[0]);

} // namespace c06

#if C06_HET_PART == 1
C06_MAIN("C06_hetero_a")
#else
C06_MAIN("C06_hetero_b")
#endif
