// C06 - heterogeneous comparisons: the value argument (or the second range) has a type different from the element
//       type and converting in one direction is lossy.  The standard compares `*it == value`, `*it < value`,
//       `value < *it`, `*it1 == *it2` in the types as given (usual arithmetic conversions); an implementation that
//       first converts the element to the value's type (or the value to the element's type) gives other answers.
//       Pairs: double/int, int/unsigned char, long long/int and the three reversed pairs; and signed/unsigned pairs of
//       equal width (int/unsigned, long long/unsigned long long, short/unsigned short through promotion, both
//       directions) with negative values and values above the signed maximum: the usual arithmetic conversions
//       apply, -1 < 1u is false.  Also the function objects (less, greater, ..., not_equal_to; transparent and typed)
//       called directly with mixed operands.  Raw pointers, vs libstdc++.
// -DC06_HET_PART=1: pairs 0..2   =2: pairs 3..5   =3: pairs 6..8   =4: pairs 9..11
#include "vf.hpp"
#include "vf_contract.hpp"
#include "vf_algo_tests.hpp"

#ifndef C06_HET_PART
    #define C06_HET_PART 1
#endif

namespace c06 {

constexpr long long B32 = 4294967296LL; // 2^32
template <int I>
struct HP;
template <>
struct HP<0> { // 1.5 -> int 1
    using E                            = double;
    using V                            = int;
    static constexpr char const* name  = "ptr<double>/int";
    static constexpr E ev[5]           = {1.5, 1.0, 2.0, -0.5, 2.5};
    static constexpr V vv[5]           = {1, 2, 0, -1, 3};
};
template <>
struct HP<1> { // 257 -> unsigned char 1
    using E                            = int;
    using V                            = unsigned char;
    static constexpr char const* name  = "ptr<int>/unsigned char";
    static constexpr E ev[5]           = {257, 1, 256, 0, 513};
    static constexpr V vv[5]           = {1, 0, 2, 255, 7};
};
template <>
struct HP<2> { // 2^32+5 -> int 5
    using E                            = long long;
    using V                            = int;
    static constexpr char const* name  = "ptr<long long>/int";
    static constexpr E ev[5]           = {B32 + 5, 5, B32, 0, -1};
    static constexpr V vv[5]           = {5, 0, -1, 7, 1};
};
template <>
struct HP<3> { // value 1.5 -> element type int 1
    using E                            = int;
    using V                            = double;
    static constexpr char const* name  = "ptr<int>/double";
    static constexpr E ev[5]           = {1, 2, 0, -1, 3};
    static constexpr V vv[5]           = {1.5, 1.0, 2.0, -0.5, 0.0};
};
template <>
struct HP<4> { // value 257 -> element type unsigned char 1
    using E                            = unsigned char;
    using V                            = int;
    static constexpr char const* name  = "ptr<unsigned char>/int";
    static constexpr E ev[5]           = {1, 0, 255, 2, 200};
    static constexpr V vv[5]           = {257, 1, 256, -1, 255};
};
template <>
struct HP<5> { // value 2^32+5 -> element type int 5
    using E                            = int;
    using V                            = long long;
    static constexpr char const* name  = "ptr<int>/long long";
    static constexpr E ev[5]           = {5, 0, -1, 7, 1};
    static constexpr V vv[5]           = {B32 + 5, 5, B32, -1, 0};
};

template <>
struct HP<6> { // int -1 against unsigned: compared as 4294967295u
    using E                            = int;
    using V                            = unsigned;
    static constexpr char const* name  = "ptr<int>/unsigned";
    static constexpr E ev[5]           = {-1, 0, 1, -2, 2147483647};
    static constexpr V vv[5]           = {4294967295u, 0u, 1u, 2147483648u, 5u};
};
template <>
struct HP<7> {
    using E                            = unsigned;
    using V                            = int;
    static constexpr char const* name  = "ptr<unsigned>/int";
    static constexpr E ev[5]           = {4294967295u, 0u, 1u, 2147483648u, 5u};
    static constexpr V vv[5]           = {-1, 0, 1, -2, 5};
};
template <>
struct HP<8> {
    using E                            = long long;
    using V                            = unsigned long long;
    static constexpr char const* name  = "ptr<long long>/unsigned long long";
    static constexpr E ev[5]           = {-1, 0, 1, -9223372036854775807LL - 1, 7};
    static constexpr V vv[5]           = {18446744073709551615ull, 0ull, 1ull, 9223372036854775808ull, 7ull};
};
template <>
struct HP<9> {
    using E                            = unsigned long long;
    using V                            = long long;
    static constexpr char const* name  = "ptr<unsigned long long>/long long";
    static constexpr E ev[5]           = {18446744073709551615ull, 0ull, 1ull, 9223372036854775808ull, 7ull};
    static constexpr V vv[5]           = {-1, 0, 1, -9223372036854775807LL - 1, 7};
};
template <>
struct HP<10> { // both promoted to int: here -1 < 1 IS true, and 65535 != -1
    using E                            = short;
    using V                            = unsigned short;
    static constexpr char const* name  = "ptr<short>/unsigned short";
    static constexpr E ev[5]           = {-1, 0, 1, -32768, 7};
    static constexpr V vv[5]           = {65535, 0, 1, 32768, 7};
};
template <>
struct HP<11> {
    using E                            = unsigned short;
    using V                            = short;
    static constexpr char const* name  = "ptr<unsigned short>/short";
    static constexpr E ev[5]           = {65535, 0, 1, 32768, 7};
    static constexpr V vv[5]           = {-1, 0, 1, -32768, 7};
};

template <typename T>
std::string shw(std::vector<T> const& v)
{
    std::string o = "[";
    for (std::size_t i = 0; i < v.size(); ++i) {
        char b[40];
        std::snprintf(b, sizeof b, "%s%.17g", i ? " " : "", (double)v[i]);
        o += b;
    }
    return o + "]";
}
template <typename T>
bool same(Trial& t, char const* name, std::vector<T> const& obs, std::vector<T> const& exp)
{
    if (!t.clean) { return true; }
    if (obs.size() == exp.size() && (obs.empty() || std::memcmp(obs.data(), exp.data(), obs.size() * sizeof(T)) == 0)) { return true; }
    char sym[96];
    std::snprintf(sym, sizeof sym, "%s:%s", name, obs.size() != exp.size() ? "length" : "values-differ");
    vf::diverge(sym, shw(obs), shw(exp));
    return false;
}

// ---------------------------------------------------------------- a range of E searched / compared / modified with values of type V
template <typename P>
void t_value(Ctx& c)
{
    using E = typename P::E;
    using V = typename P::V;
    std::vector<E> m;
    for (auto const& e : c.a) { m.push_back(P::ev[e.key % 5]); }
    std::size_t const n = m.size();
    std::string const d = "elems=" + shw(m);
    for (Pres pr : pres_for<KPtr>(n)) {
#define HT(OP, H, EXTRA, WR, ...)                                                                                      \
    do {                                                                                                               \
        Trial t(c, P::name, OP, pr, EXTRA, H, "%s value=%.17g", d.c_str(), (double)val);                               \
        Range<E> r(m, pr, WR);                                                                                         \
        E *f = r.lo, *l = r.hi;                                                                                        \
        E const *cf = r.lo, *cl = r.hi;                                                                                \
        (void)f; (void)l; (void)cf; (void)cl;                                                                          \
        __VA_ARGS__;                                                                                                   \
        t.guards(r);                                                                                                   \
        t.done();                                                                                                      \
    } while (0)
        for (int v = 0; v < 5; ++v) {
            V const val = P::vv[v];
            V const nv  = P::vv[(v + 1) % 5];
            auto sf     = std::find(m.begin(), m.end(), val) - m.begin();
            HT("find(f,l,v)", 1 + v, sf == (long)n ? "absent" : "found", false, t.off("ret", t.call([&] { return etl::find(cf, cl, val); }) - cf, sf); same(t, "input", r.get(), m));
            auto sc = std::count(m.begin(), m.end(), val);
            HT("count(f,l,v)", 10 + v, sc == 0 ? "none" : "some", false, t.off("ret", t.call([&] { return etl::count(cf, cl, val); }), sc));
            for (long k = 0; k <= 3 && k <= (long)n + 1; ++k) {
                auto ss = std::search_n(m.begin(), m.end(), k, val) - m.begin();
                HT("search_n(f,l,n,v)", vf::mix(20 + v, k), ss == (long)n ? "absent" : "found", false, t.off("ret", t.call([&] { return etl::search_n(cf, cl, k, val); }) - cf, ss));
            }
            {
                std::vector<E> exp = m;
                auto se            = std::remove(exp.begin(), exp.end(), val) - exp.begin();
                exp.resize((std::size_t)se);
                HT("remove(f,l,v)", 30 + v, se == (long)n ? "none-removed" : "some-removed", true, {
                    auto ret = t.call([&] { return etl::remove(f, l, val); });
                    if (t.off("ret", ret - f, se)) {
                        auto got = r.get();
                        got.resize((std::size_t)se);
                        same(t, "kept-part", got, exp);
                    }
                });
                HT("remove_copy(f,l,d,v)", 40 + v, se == (long)n ? "none-removed" : "some-removed", false, {
                    Sink<E> s(exp.size(), pr);
                    auto ret = t.call([&] { return etl::remove_copy(cf, cl, s.r.lo, val); });
                    t.off("ret", ret - s.r.lo, (long)exp.size());
                    same(t, "output", s.r.get(), exp);
                    t.guards(s.r, "output");
                    same(t, "input", r.get(), m);
                });
            }
            {
                std::vector<E> exp = m;
                std::replace(exp.begin(), exp.end(), val, nv);
                HT("replace(f,l,old,new)", 50 + v, exp == m ? "none" : "some", true, t.call([&] { etl::replace(f, l, val, nv); }); same(t, "range", r.get(), exp));
            }
            {
                std::vector<E> exp = m;
                std::fill(exp.begin(), exp.end(), val);
                HT("fill(f,l,v)", 60 + v, "", true, t.call([&] { etl::fill(f, l, val); }); same(t, "range", r.get(), exp));
                HT("fill_n(d,n,v)", 65 + v, "", true, {
                    auto ret = t.call([&] { return etl::fill_n(f, (long)n, val); });
                    t.off("ret", ret - f, (long)n);
                    same(t, "range", r.get(), exp);
                });
            }
            // preconditions of the binary searches, evaluated with the mixed-type operator< itself: the range is
            // partitioned w.r.t. e < value and w.r.t. !(value < e), and e < value implies !(value < e)
            bool part = std::is_partitioned(m.begin(), m.end(), [&](E const& e) { return e < val; })
                     && std::is_partitioned(m.begin(), m.end(), [&](E const& e) { return !(val < e); });
            for (E const& e : m) { part = part && !((e < val) && (val < e)); }
            if (part) {
                auto lb = std::lower_bound(m.begin(), m.end(), val) - m.begin();
                auto ub = std::upper_bound(m.begin(), m.end(), val) - m.begin();
                bool bs = std::binary_search(m.begin(), m.end(), val);
                HT("lower_bound(f,l,v)", 70 + v, bs ? "present" : "absent", false, t.off("ret", t.call([&] { return etl::lower_bound(cf, cl, val); }) - cf, lb));
                HT("upper_bound(f,l,v)", 80 + v, bs ? "present" : "absent", false, t.off("ret", t.call([&] { return etl::upper_bound(cf, cl, val); }) - cf, ub));
                HT("binary_search(f,l,v)", 90 + v, bs ? "present" : "absent", false, t.boolean("ret", t.call([&] { return etl::binary_search(cf, cl, val); }), bs));
                HT("equal_range(f,l,v)", 100 + v, bs ? "present" : "absent", false, {
                    auto ep = t.call([&] { return etl::equal_range(cf, cl, val); });
                    t.off("ret.first", ep.first - cf, lb);
                    t.off("ret.second", ep.second - cf, ub);
                });
            }
        }
#undef HT
    }
}

// ---------------------------------------------------------------- a range of A against a range of B
template <typename A, typename B>
void pair_het(Ctx& c, char const* kind, std::vector<A> const& x, std::vector<B> const& y, int which)
{
    std::size_t const nx = x.size(), ny = y.size();
    std::string const d  = "x=" + shw(x) + " y=" + shw(y);
    LenHint lh(nx);
    std::uint64_t const hb = vf::mix(vf::fnv_bytes(x.data(), nx * sizeof(A)), vf::mix(vf::fnv_bytes(y.data(), ny * sizeof(B)), (std::uint64_t)which));
    auto rel = [&] { return nx == ny ? "len2=len1" : (ny < nx ? "len2<len1" : "len2>len1"); };
    for (Pres pr : pres_for<KPtr>(nx)) {
        Pres pr2 = pres2(pr, ny);
#define H2(OP, H, EXTRA, ...)                                                                                          \
    do {                                                                                                               \
        char ex_[64];                                                                                                  \
        std::snprintf(ex_, sizeof ex_, "%s,%s", rel(), EXTRA);                                                         \
        Trial t(c, kind, OP, pr, ex_, vf::mix(hb, H), "%s", d.c_str());                                                \
        Range<A> r1(x, pr, false);                                                                                     \
        Range<B> r2(y, pr2, false);                                                                                    \
        A const *f1 = r1.lo, *l1 = r1.hi;                                                                              \
        B const *f2 = r2.lo, *l2 = r2.hi;                                                                              \
        (void)f1; (void)l1; (void)f2; (void)l2;                                                                        \
        __VA_ARGS__;                                                                                                   \
        t.guards(r1);                                                                                                  \
        t.guards(r2);                                                                                                  \
        t.done();                                                                                                      \
    } while (0)
        bool sl = std::lexicographical_compare(x.begin(), x.end(), y.begin(), y.end());
        H2("lexicographical_compare(f1,l1,f2,l2)", 1, sl ? "true" : "false", t.boolean("ret", t.call([&] { return etl::lexicographical_compare(f1, l1, f2, l2); }), sl));
        bool se = std::equal(x.begin(), x.end(), y.begin(), y.end());
        H2("equal(f1,l1,f2,l2)", 2, se ? "true" : "false", t.boolean("ret", t.call([&] { return etl::equal(f1, l1, f2, l2); }), se));
        auto sp = std::mismatch(x.begin(), x.end(), y.begin(), y.end());
        H2("mismatch(f1,l1,f2,l2)", 3, (sp.first == x.end() || sp.second == y.end()) ? "to-end" : "differ", {
            auto ep = t.call([&] { return etl::mismatch(f1, l1, f2, l2); });
            t.off("ret.first", ep.first - f1, sp.first - x.begin());
            t.off("ret.second", ep.second - f2, sp.second - y.begin());
        });
        bool sq = std::is_permutation(x.begin(), x.end(), y.begin(), y.end());
        H2("is_permutation(f1,l1,f2,l2)", 4, sq ? "true" : "false", t.boolean("ret", t.call([&] { return etl::is_permutation(f1, l1, f2, l2); }), sq));
        auto ss = std::search(x.begin(), x.end(), y.begin(), y.end()) - x.begin();
        H2("search(f,l,sf,sl)", 5, ss == (long)nx ? "absent" : "found", t.off("ret", t.call([&] { return etl::search(f1, l1, f2, l2); }) - f1, ss));
        auto sf = std::find_end(x.begin(), x.end(), y.begin(), y.end()) - x.begin();
        H2("find_end(f,l,sf,sl)", 6, sf == (long)nx ? "absent" : "found", t.off("ret", t.call([&] { return etl::find_end(f1, l1, f2, l2); }) - f1, sf));
        auto so = std::find_first_of(x.begin(), x.end(), y.begin(), y.end()) - x.begin();
        H2("find_first_of(f,l,sf,sl)", 7, so == (long)nx ? "absent" : "found", t.off("ret", t.call([&] { return etl::find_first_of(f1, l1, f2, l2); }) - f1, so));
        if (ny >= nx) {
            std::vector<B> yp(y.begin(), y.begin() + (long)nx);
            bool s3 = std::equal(x.begin(), x.end(), yp.begin());
            auto m3 = std::mismatch(x.begin(), x.end(), yp.begin());
            Trial t(c, kind, "equal(f1,l1,f2)", pr, s3 ? "true" : "false", vf::mix(hb, 8), "%s", d.c_str());
            Range<A> r1(x, pr, false);
            Range<B> r2(yp, pres2(pr, nx), false);
            t.boolean("ret", t.call([&] { return etl::equal((A const*)r1.lo, (A const*)r1.hi, (B const*)r2.lo); }), s3);
            t.guards(r1);
            t.guards(r2);
            t.done();
            Trial t2(c, kind, "mismatch(f1,l1,f2)", pr, m3.first == x.end() ? "to-end" : "differ", vf::mix(hb, 9), "%s", d.c_str());
            Range<A> q1(x, pr, false);
            Range<B> q2(yp, pres2(pr, nx), false);
            auto ep = t2.call([&] { return etl::mismatch((A const*)q1.lo, (A const*)q1.hi, (B const*)q2.lo); });
            t2.off("ret.first", ep.first - q1.lo, m3.first - x.begin());
            t2.off("ret.second", ep.second - q2.lo, m3.second - yp.begin());
            t2.guards(q1);
            t2.guards(q2);
            t2.done();
        }
        // sorted-range algorithms: both ranges sorted in their own type and after conversion to the common type
        // (the cross-range comparisons happen there), otherwise the call has no defined result
        using C = std::common_type_t<A, B>;
        auto csorted = [](auto const& v) {
            for (std::size_t i = 1; i < v.size(); ++i) {
                if (static_cast<C>(v[i]) < static_cast<C>(v[i - 1]) || v[i] < v[i - 1]) { return false; }
            }
            return true;
        };
        if (csorted(x) && csorted(y)) {
            bool si = std::includes(x.begin(), x.end(), y.begin(), y.end());
            H2("includes(f1,l1,f2,l2)", 10, si ? "true" : "false", t.boolean("ret", t.call([&] { return etl::includes(f1, l1, f2, l2); }), si));
            for (int op = 0; op < 5; ++op) {
                std::vector<C> exp;
                auto bi          = std::back_inserter(exp);
                char const* name = "";
                switch (op) {
                case 0: std::merge(x.begin(), x.end(), y.begin(), y.end(), bi); name = "merge(f1,l1,f2,l2,d)"; break;
                case 1: std::set_union(x.begin(), x.end(), y.begin(), y.end(), bi); name = "set_union(f1,l1,f2,l2,d)"; break;
                case 2: std::set_intersection(x.begin(), x.end(), y.begin(), y.end(), bi); name = "set_intersection(f1,l1,f2,l2,d)"; break;
                case 3: std::set_difference(x.begin(), x.end(), y.begin(), y.end(), bi); name = "set_difference(f1,l1,f2,l2,d)"; break;
                default: std::set_symmetric_difference(x.begin(), x.end(), y.begin(), y.end(), bi); name = "set_symmetric_difference(f1,l1,f2,l2,d)"; break;
                }
                H2(name, 20 + op, exp.empty() ? "result-empty" : "result-nonempty", {
                    Sink<C> s(exp.size(), pr);
                    C* dd  = s.r.lo;
                    C* ret = t.call([&] {
                        switch (op) {
                        case 0: return etl::merge(f1, l1, f2, l2, dd);
                        case 1: return etl::set_union(f1, l1, f2, l2, dd);
                        case 2: return etl::set_intersection(f1, l1, f2, l2, dd);
                        case 3: return etl::set_difference(f1, l1, f2, l2, dd);
                        default: return etl::set_symmetric_difference(f1, l1, f2, l2, dd);
                        }
                    });
                    t.off("ret", ret - dd, (long)exp.size());
                    same(t, "output", s.r.get(), exp);
                    t.guards(s.r, "output");
                });
            }
        }
#undef H2
    }
}
template <typename P>
void t_ranges(Ctx& c)
{
    using E = typename P::E;
    using V = typename P::V;
    std::vector<E> a;
    for (auto const& e : c.a) { a.push_back(P::ev[e.key % 5]); }
    static std::string const rev = std::string(P::name) + " (roles exchanged)";
    for (Seq const& nd : c.needles) {
        std::vector<V> b;
        for (auto const& e : nd) { b.push_back(P::vv[e.key % 5]); }
        pair_het<E, V>(c, P::name, a, b, 0);
        pair_het<V, E>(c, rev.c_str(), b, a, 1);
        if (!c.enumerated) {
            std::vector<E> sa = a;
            std::vector<V> sb = b;
            std::sort(sa.begin(), sa.end());
            std::sort(sb.begin(), sb.end());
            pair_het<E, V>(c, P::name, sa, sb, 2);
        }
    }
    // the element sequence against its own image in the other type (converted: equal only where the conversion is exact)
    std::vector<V> img;
    for (E e : a) { img.push_back((V)e); }
    pair_het<E, V>(c, P::name, a, img, 3);
    pair_het<V, E>(c, rev.c_str(), img, a, 4);
}

// ---------------------------------------------------------------- the function objects themselves, mixed operands
template <typename P>
void t_funobj(Ctx& c)
{
    using E = typename P::E;
    using V = typename P::V;
    if (c.a.size() != 1) { return; } // independent of the sequence: once per key is plenty
    for (int i = 0; i < 5; ++i) {
        for (int j = 0; j < 5; ++j) {
            E const e = P::ev[i];
            V const v = P::vv[j];
            char args[96];
            std::snprintf(args, sizeof args, "e=%.17g v=%.17g", (double)e, (double)v);
            {
                Trial t(c, P::name, "less<>/greater<>/less_equal<>/greater_equal<>/equal_to<>/not_equal_to<>", Pres::exact, "transparent", vf::mix(i, j), "%s", args);
                std::vector<long> obs = {etl::less<>{}(e, v), etl::less<>{}(v, e), etl::greater<>{}(e, v), etl::greater<>{}(v, e), etl::less_equal<>{}(e, v),
                    etl::less_equal<>{}(v, e), etl::greater_equal<>{}(e, v), etl::greater_equal<>{}(v, e), etl::equal_to<>{}(e, v), etl::equal_to<>{}(v, e),
                    etl::not_equal_to<>{}(e, v), etl::not_equal_to<>{}(v, e)};
                std::vector<long> exp = {std::less<>{}(e, v), std::less<>{}(v, e), std::greater<>{}(e, v), std::greater<>{}(v, e), std::less_equal<>{}(e, v),
                    std::less_equal<>{}(v, e), std::greater_equal<>{}(e, v), std::greater_equal<>{}(v, e), std::equal_to<>{}(e, v), std::equal_to<>{}(v, e),
                    std::not_equal_to<>{}(e, v), std::not_equal_to<>{}(v, e)};
                t.nums("results[lt,lt',gt,gt',le,le',ge,ge',eq,eq',ne,ne']", obs, exp);
                t.done();
            }
            {
                // typed forms: the argument of the other type is converted to T first
                Trial t(c, P::name, "less<T>/greater<T>/less_equal<T>/greater_equal<T>/equal_to<T>/not_equal_to<T>", Pres::exact, "typed", vf::mix(i, j) + 1, "%s", args);
                std::vector<long> obs = {etl::less<E>{}(e, v), etl::less<V>{}(e, v), etl::greater<E>{}(e, v), etl::greater<V>{}(e, v), etl::less_equal<E>{}(e, v),
                    etl::less_equal<V>{}(e, v), etl::greater_equal<E>{}(e, v), etl::greater_equal<V>{}(e, v), etl::equal_to<E>{}(e, v), etl::equal_to<V>{}(e, v),
                    etl::not_equal_to<E>{}(e, v), etl::not_equal_to<V>{}(e, v)};
                std::vector<long> exp = {std::less<E>{}(e, v), std::less<V>{}(e, v), std::greater<E>{}(e, v), std::greater<V>{}(e, v), std::less_equal<E>{}(e, v),
                    std::less_equal<V>{}(e, v), std::greater_equal<E>{}(e, v), std::greater_equal<V>{}(e, v), std::equal_to<E>{}(e, v), std::equal_to<V>{}(e, v),
                    std::not_equal_to<E>{}(e, v), std::not_equal_to<V>{}(e, v)};
                t.nums("results[lt<E>,lt<V>,gt<E>,gt<V>,le<E>,le<V>,ge<E>,ge<V>,eq<E>,eq<V>,ne<E>,ne<V>]", obs, exp);
                t.done();
            }
        }
    }
}

#define C06_HP_TESTS(I, N) {N "_value", t_value<HP<I>>}, {N "_ranges", t_ranges<HP<I>>}, {N "_funobj", t_funobj<HP<I>>}
#if C06_HET_PART == 3
Test const kTests[] = {C06_HP_TESTS(6, "int_unsigned"), C06_HP_TESTS(7, "unsigned_int"), C06_HP_TESTS(8, "llong_ullong")};
#elif C06_HET_PART == 4
Test const kTests[] = {C06_HP_TESTS(9, "ullong_llong"), C06_HP_TESTS(10, "short_ushort"), C06_HP_TESTS(11, "ushort_short")};
#elif C06_HET_PART == 1
Test const kTests[] = {
    {"double_int_value", t_value<HP<0>>}, {"double_int_ranges", t_ranges<HP<0>>},
    {"int_uchar_value", t_value<HP<1>>}, {"int_uchar_ranges", t_ranges<HP<1>>},
    {"llong_int_value", t_value<HP<2>>}, {"llong_int_ranges", t_ranges<HP<2>>},
    {"double_int_funobj", t_funobj<HP<0>>}, {"int_uchar_funobj", t_funobj<HP<1>>}, {"llong_int_funobj", t_funobj<HP<2>>},
};
#else
Test const kTests[] = {
    {"int_double_value", t_value<HP<3>>}, {"int_double_ranges", t_ranges<HP<3>>},
    {"uchar_int_value", t_value<HP<4>>}, {"uchar_int_ranges", t_ranges<HP<4>>},
    {"int_llong_value", t_value<HP<5>>}, {"int_llong_ranges", t_ranges<HP<5>>},
    {"int_double_funobj", t_funobj<HP<3>>}, {"uchar_int_funobj", t_funobj<HP<4>>}, {"int_llong_funobj", t_funobj<HP<5>>},
};
#endif
std::size_t const kNumTests = sizeof(kTests) / sizeof(kTests[0]);

} // namespace c06

#if C06_HET_PART == 1
C06_MAIN("C06_hetero_a")
#elif C06_HET_PART == 2
C06_MAIN("C06_hetero_b")
#elif C06_HET_PART == 3
C06_MAIN("C06_hetero_c")
#else
C06_MAIN("C06_hetero_d")
#endif
