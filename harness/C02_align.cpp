// C02 - over-aligned element types: every owner must keep its elements at addresses aligned for T (DESIGN 12.6; added after adversary round 3)
// A misaligned object is undefined behaviour even when the stored values come out right on x86.  For element types with extended alignment
// (alignas(32) trivial, alignas(64) with a user-provided destructor, alignas(32) with a default member initialiser) each owner is placed as a
// member behind a single char inside a 128-aligned block - so it sits exactly on its own alignof boundary - and is then filled; the monitor
// compares alignof(owner) with alignof(T), checks the address of every element it can reach, and UBSan's alignment check watches the
// library's own accesses.
#include "vf.hpp"
#include "vf_contract.hpp"

#include <etl/array.hpp>
#include <etl/expected.hpp>
#include <etl/flat_set.hpp>
#include <etl/inplace_vector.hpp>
#include <etl/optional.hpp>
#include <etl/set.hpp>
#include <etl/stack.hpp>
#include <etl/tuple.hpp>
#include <etl/utility.hpp>
#include <etl/variant.hpp>
#include <etl/vector.hpp>

#include <cstdint>
#include <new>

namespace {
struct alignas(32) A32 { // trivial
    int v;
    friend bool operator<(A32 const& a, A32 const& b) { return a.v < b.v; }
    friend bool operator==(A32 const& a, A32 const& b) { return a.v == b.v; }
};
struct alignas(64) A64 { // user-provided destructor: selects the non-trivial storage of the vectors
    int v;
    A64() noexcept : v(0) { }
    A64(int x) noexcept : v(x) { } // NOLINT
    A64(A64 const& o) noexcept : v(o.v) { }
    A64(A64&& o) noexcept : v(o.v) { }
    auto operator=(A64 const& o) noexcept -> A64&
    {
        v = o.v;
        return *this;
    }
    ~A64() { v = -1; }
    friend bool operator<(A64 const& a, A64 const& b) { return a.v < b.v; }
    friend bool operator==(A64 const& a, A64 const& b) { return a.v == b.v; }
};
struct alignas(32) A32I { // default member initialiser: not trivially default constructible, trivially destructible
    int v = 7;
    A32I() = default;
    A32I(int x) noexcept : v(x) { } // NOLINT
    friend bool operator<(A32I const& a, A32I const& b) { return a.v < b.v; }
    friend bool operator==(A32I const& a, A32I const& b) { return a.v == b.v; }
};
template <typename T> constexpr char const* tname();
template <> constexpr char const* tname<A32>() { return "alignas(32)-trivial"; }
template <> constexpr char const* tname<A64>() { return "alignas(64)-nontrivial-dtor"; }
template <> constexpr char const* tname<A32I>() { return "alignas(32)-member-initialiser"; }

template <typename T>
T mk(int v)
{
    T t{};
    t.v = v;
    return t;
}

template <typename Owner>
struct Holder { // the owner starts at offset alignof(Owner): the tightest placement its own alignment allows
    char c;
    Owner o;
};

template <typename T>
void check_addr(char const* what, void const* p)
{
    auto a = reinterpret_cast<std::uintptr_t>(p);
    if (a % alignof(T) != 0) {
        char obs[96];
        std::snprintf(obs, sizeof obs, "%s at an address that is %zu modulo %zu", what, (std::size_t)(a % alignof(T)), alignof(T));
        vf::diverge("element-address:misaligned", obs, "multiple of alignof(T)");
    }
}

// runs `use` on an owner that lives at offset alignof(Owner) of a 128-aligned block
template <typename Owner, typename T, typename Use>
void scenario(char const* owner_name, char const* op, Use use)
{
    char subj[96];
    std::snprintf(subj, sizeof subj, "%s<%s>", owner_name, tname<T>());
    vf::crumb(subj, "alignof(owner)", "-", "alignof(owner)=%zu alignof(T)=%zu sizeof(owner)=%zu", alignof(Owner), alignof(T), sizeof(Owner));
    vf::cover("alignof(owner)", vf::mix(vf::fnv(subj), 1));
    if (alignof(Owner) < alignof(T)) { vf::diverge("alignof(owner):smaller-than-alignof(T)", vf::to_su(alignof(Owner)), vf::to_su(alignof(T))); }
    using H   = Holder<Owner>;
    void* raw = ::operator new(sizeof(H), std::align_val_t(128));
    std::memset(raw, 0xAB, sizeof(H));
    // the Holder is never constructed as a whole (Owner may have no default constructor that we want): only its member subobject is
    auto* where = reinterpret_cast<unsigned char*>(raw) + offsetof(H, o);
    vf::crumb(subj, op, "-", "owner at offset %zu of a 128-aligned block", (std::size_t)offsetof(H, o));
    use(static_cast<void*>(where));
    vf::cover(op, vf::mix(vf::fnv(subj), vf::fnv(op)));
    ::operator delete(raw, std::align_val_t(128));
}

template <typename T>
void all_owners()
{
    scenario<etl::static_vector<T, 3>, T>("static_vector", "emplace_back x3, insert, erase", [](void* w) {
        auto* v = ::new (w) etl::static_vector<T, 3>();
        v->emplace_back(mk<T>(1));
        v->push_back(mk<T>(2));
        v->insert(v->cbegin(), mk<T>(0));
        for (auto& e : *v) { check_addr<T>("static_vector element", &e); }
        check_addr<T>("static_vector data()", v->data());
        v->erase(v->cbegin());
        using V = etl::static_vector<T, 3>;
        v->~V();
    });
    scenario<etl::inplace_vector<T, 3>, T>("inplace_vector", "try_emplace_back x3, copy", [](void* w) {
        using V = etl::inplace_vector<T, 3>;
        auto* v = ::new (w) V();
        v->try_emplace_back(mk<T>(1));
        v->try_push_back(mk<T>(2));
        v->unchecked_emplace_back(mk<T>(3));
        for (auto& e : *v) { check_addr<T>("inplace_vector element", &e); }
        V c(*v);
        for (auto& e : c) { check_addr<T>("inplace_vector element of a copy", &e); }
        v->~V();
    });
    scenario<etl::array<T, 2>, T>("array", "element access", [](void* w) {
        using V = etl::array<T, 2>;
        auto* v = ::new (w) V{};
        for (auto& e : *v) { check_addr<T>("array element", &e); }
        v->~V();
    });
    scenario<etl::optional<T>, T>("optional", "emplace", [](void* w) {
        using V = etl::optional<T>;
        auto* v = ::new (w) V();
        v->emplace(mk<T>(1));
        check_addr<T>("optional value", &**v);
        v->~V();
    });
    scenario<etl::variant<char, T>, T>("variant<char,T>", "emplace<1>", [](void* w) {
        using V = etl::variant<char, T>;
        auto* v = ::new (w) V();
        v->template emplace<1>(mk<T>(1));
        check_addr<T>("variant alternative", etl::get_if<1>(v));
        v->~V();
    });
    scenario<etl::expected<T, char>, T>("expected<T,char>", "value construction", [](void* w) {
        using V = etl::expected<T, char>;
        auto* v = ::new (w) V(etl::in_place, mk<T>(1));
        check_addr<T>("expected value", &**v);
        v->~V();
    });
    scenario<etl::pair<char, T>, T>("pair<char,T>", "member access", [](void* w) {
        using V = etl::pair<char, T>;
        auto* v = ::new (w) V('a', mk<T>(1));
        check_addr<T>("pair.second", &v->second);
        v->~V();
    });
    scenario<etl::tuple<char, T, char>, T>("tuple<char,T,char>", "get<1>", [](void* w) {
        using V = etl::tuple<char, T, char>;
        auto* v = ::new (w) V('a', mk<T>(1), 'b');
        check_addr<T>("tuple element", &etl::get<1>(*v));
        v->~V();
    });
    scenario<etl::static_set<T, 3>, T>("static_set", "insert x3", [](void* w) {
        using V = etl::static_set<T, 3>;
        auto* v = ::new (w) V();
        v->insert(mk<T>(2));
        v->insert(mk<T>(1));
        v->insert(mk<T>(3));
        for (auto& e : *v) { check_addr<T>("static_set element", &e); }
        v->~V();
    });
    scenario<etl::flat_set<T, etl::static_vector<T, 3>>, T>("flat_set<static_vector>", "insert x3", [](void* w) {
        using V = etl::flat_set<T, etl::static_vector<T, 3>>;
        auto* v = ::new (w) V();
        v->insert(mk<T>(2));
        v->insert(mk<T>(1));
        v->insert(mk<T>(3));
        for (auto& e : *v) { check_addr<T>("flat_set element", &e); }
        v->~V();
    });
    scenario<etl::stack<T, etl::static_vector<T, 3>>, T>("stack<static_vector>", "push x2, top", [](void* w) {
        using V = etl::stack<T, etl::static_vector<T, 3>>;
        auto* v = ::new (w) V();
        v->push(mk<T>(1));
        v->push(mk<T>(2));
        check_addr<T>("stack top", &v->top());
        v->~V();
    });
}

vf::Spec spec(vf::Tier)
{
    vf::Spec s;
    s.n_enum     = 3;
    s.n_random   = 0;
    s.batch      = 1;
    s.exhaustive = true;
    return s;
}
void run_case(vf::Case& c)
{
    switch (c.index) {
    case 0: all_owners<A32>(); break;
    case 1: all_owners<A64>(); break;
    default: all_owners<A32I>(); break;
    }
}
} // namespace

VF_MAIN("C02", "C02_align", spec, run_case)
