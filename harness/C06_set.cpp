// C06 - algorithms on sorted ranges: binary searches, includes, merge, set operations  vs libstdc++ (DESIGN 4, C06)
#include "vf.hpp"
#include "vf_contract.hpp"
#include "vf_algo.hpp"

namespace c06 {

// ---------------------------------------------------------------- lower_bound / upper_bound / equal_range / binary_search
template <typename K>
void k_bsearch(Ctx& c)
{
    for (int cm = -1; cm <= 2; ++cm) {
        Comp cmp{cm < 0 ? 0 : cm};
        Seq in;
        if (!sorted_input(c, c.a, cm < 0 ? 0 : cm, in)) { continue; }
        std::size_t const n = in.size();
        std::string const is = show(in, false);
        LenHint lh(n);
        for (Pres pr : pres_for<K>(n)) {
            for (int v = -1; v <= c.maxkey + 1; ++v) {
                El const val{v, -1};
                char op[64];
                std::uint64_t h = vf::mix(vf::mix(hash_seq(in), (std::uint64_t)(v + 2)), (std::uint64_t)(cm + 1));
                bool present    = cm < 0 ? std::binary_search(in.begin(), in.end(), val) : std::binary_search(in.begin(), in.end(), val, cmp);
                char const* ex  = present ? "present" : "absent";
                {
                    auto se = (cm < 0 ? std::lower_bound(in.begin(), in.end(), val) : std::lower_bound(in.begin(), in.end(), val, cmp)) - in.begin();
                    std::snprintf(op, sizeof op, "lower_bound(f,l,v%s)%s", cm < 0 ? "" : ",c", comp_name(cm));
                    Trial t(c, K::name, op, pr, ex, h, "in=%s v=%d", is.c_str(), v);
                    Range<El> r(in, pr, false);
                    auto ee = cm < 0 ? t.call([&] { return etl::lower_bound(B<K>(r), E<K>(r), val); })
                                     : t.call([&] { return etl::lower_bound(B<K>(r), E<K>(r), val, cmp); });
                    t.off("ret", K::raw(ee) - r.lo, se);
                    t.seq("input", r.get(), in);
                    t.guards(r);
                    t.done();
                }
                {
                    auto se = (cm < 0 ? std::upper_bound(in.begin(), in.end(), val) : std::upper_bound(in.begin(), in.end(), val, cmp)) - in.begin();
                    std::snprintf(op, sizeof op, "upper_bound(f,l,v%s)%s", cm < 0 ? "" : ",c", comp_name(cm));
                    Trial t(c, K::name, op, pr, ex, h + 1, "in=%s v=%d", is.c_str(), v);
                    Range<El> r(in, pr, false);
                    auto ee = cm < 0 ? t.call([&] { return etl::upper_bound(B<K>(r), E<K>(r), val); })
                                     : t.call([&] { return etl::upper_bound(B<K>(r), E<K>(r), val, cmp); });
                    t.off("ret", K::raw(ee) - r.lo, se);
                    t.seq("input", r.get(), in);
                    t.guards(r);
                    t.done();
                }
                {
                    auto sp = cm < 0 ? std::equal_range(in.begin(), in.end(), val) : std::equal_range(in.begin(), in.end(), val, cmp);
                    std::snprintf(op, sizeof op, "equal_range(f,l,v%s)%s", cm < 0 ? "" : ",c", comp_name(cm));
                    Trial t(c, K::name, op, pr, ex, h + 2, "in=%s v=%d", is.c_str(), v);
                    Range<El> r(in, pr, false);
                    if (cm < 0) {
                        auto ep = t.call([&] { return etl::equal_range(B<K>(r), E<K>(r), val); });
                        t.off("ret.first", K::raw(ep.first) - r.lo, sp.first - in.begin());
                        t.off("ret.second", K::raw(ep.second) - r.lo, sp.second - in.begin());
                    } else {
                        auto ep = t.call([&] { return etl::equal_range(B<K>(r), E<K>(r), val, cmp); });
                        t.off("ret.first", K::raw(ep.first) - r.lo, sp.first - in.begin());
                        t.off("ret.second", K::raw(ep.second) - r.lo, sp.second - in.begin());
                    }
                    t.seq("input", r.get(), in);
                    t.guards(r);
                    t.done();
                }
                {
                    std::snprintf(op, sizeof op, "binary_search(f,l,v%s)%s", cm < 0 ? "" : ",c", comp_name(cm));
                    Trial t(c, K::name, op, pr, ex, h + 3, "in=%s v=%d", is.c_str(), v);
                    Range<El> r(in, pr, false);
                    bool ee = cm < 0 ? t.call([&] { return etl::binary_search(B<K>(r), E<K>(r), val); })
                                     : t.call([&] { return etl::binary_search(B<K>(r), E<K>(r), val, cmp); });
                    t.boolean("ret", ee, present);
                    t.seq("input", r.get(), in);
                    t.guards(r);
                    t.done();
                }
            }
        }
    }
}
void t_bsearch(Ctx& c)
{
    k_bsearch<KPtr>(c);
    k_bsearch<KFwd>(c);
    C06_FULL(k_bsearch<KRa>(c);)
}

// ---------------------------------------------------------------- includes / merge / set_union / set_intersection / set_difference / set_symmetric_difference
enum SetOp { O_merge, O_union, O_inter, O_diff, O_symdiff, O_count };
inline char const* setop_name(int o)
{
    static char const* const n[] = {"merge", "set_union", "set_intersection", "set_difference", "set_symmetric_difference"};
    return n[o];
}
inline Seq std_setop(int o, Seq const& x, Seq const& y, Comp cmp)
{
    Seq out;
    auto bi = std::back_inserter(out);
    switch (o) {
    case O_merge: std::merge(x.begin(), x.end(), y.begin(), y.end(), bi, cmp); break;
    case O_union: std::set_union(x.begin(), x.end(), y.begin(), y.end(), bi, cmp); break;
    case O_inter: std::set_intersection(x.begin(), x.end(), y.begin(), y.end(), bi, cmp); break;
    case O_diff: std::set_difference(x.begin(), x.end(), y.begin(), y.end(), bi, cmp); break;
    default: std::set_symmetric_difference(x.begin(), x.end(), y.begin(), y.end(), bi, cmp); break;
    }
    return out;
}
template <int OP, typename I1, typename I2, typename D>
auto etl_setop(I1 f1, I1 l1, I2 f2, I2 l2, D d, int cm)
{
    Comp cmp{cm < 0 ? 0 : cm};
    if constexpr (OP == O_merge) {
        return cm < 0 ? etl::merge(f1, l1, f2, l2, d) : etl::merge(f1, l1, f2, l2, d, cmp);
    } else if constexpr (OP == O_union) {
        return cm < 0 ? etl::set_union(f1, l1, f2, l2, d) : etl::set_union(f1, l1, f2, l2, d, cmp);
    } else if constexpr (OP == O_inter) {
        return cm < 0 ? etl::set_intersection(f1, l1, f2, l2, d) : etl::set_intersection(f1, l1, f2, l2, d, cmp);
    } else if constexpr (OP == O_diff) {
        return cm < 0 ? etl::set_difference(f1, l1, f2, l2, d) : etl::set_difference(f1, l1, f2, l2, d, cmp);
    } else {
        return cm < 0 ? etl::set_symmetric_difference(f1, l1, f2, l2, d) : etl::set_symmetric_difference(f1, l1, f2, l2, d, cmp);
    }
}

template <int OP, typename K1, typename K2, typename O>
void setop_trial(Ctx& c, Seq const& x, Seq const& y, int cm)
{
    Comp cmp{cm < 0 ? 0 : cm};
    Seq exp = std_setop(OP, x, y, cmp);
    char op[72];
    std::snprintf(op, sizeof op, "%s(f1,l1,f2,l2,d%s)%s", setop_name(OP), cm < 0 ? "" : ",c", comp_name(cm));
    char const* ex = y.empty() ? "range2-empty" : (exp.empty() ? "result-empty" : "result-nonempty");
    std::string const xs = show(x, false), ys = show(y, false);
    LenHint lh(x.size());
    for (Pres pr : pres_for<K1>(x.size())) {
        Trial t(c, kinds3<K1, K2, O>(), op, pr, ex, vf::mix(vf::mix(hash_seq(x), hash_seq(y)), vf::mix(OP, cm + 1)), "x=%s y=%s", xs.c_str(), ys.c_str());
        Range<El> r1(x, pr, false), r2(y, pres2(pr, y.size()), false);
        Sink<El> s(exp.size(), pr);
        auto ret = t.call([&] { return etl_setop<OP>(B<K1>(r1), E<K1>(r1), B<K2>(r2), E<K2>(r2), O::make(s), cm); });
        t.off("ret", O::off(s, ret), (long)exp.size());
        t.seq("output", s.r.get(), exp);
        t.seq("input1", r1.get(), x);
        t.seq("input2", r2.get(), y);
        t.guards(r1);
        t.guards(r2);
        t.guards(s.r, "output");
        t.done();
    }
}
template <typename K1, typename K2>
void includes_trial(Ctx& c, Seq const& x, Seq const& y, int cm)
{
    Comp cmp{cm < 0 ? 0 : cm};
    bool se = std::includes(x.begin(), x.end(), y.begin(), y.end(), cmp);
    char op[64];
    std::snprintf(op, sizeof op, "includes(f1,l1,f2,l2%s)%s", cm < 0 ? "" : ",c", comp_name(cm));
    char ex[48];
    std::snprintf(ex, sizeof ex, "%s,%s", y.empty() ? "range2-empty" : (y.size() > x.size() ? "range2-longer" : "range2-fits"), se ? "true" : "false");
    std::string const xs = show(x, false), ys = show(y, false);
    LenHint lh(x.size());
    for (Pres pr : pres_for<K1>(x.size())) {
        Trial t(c, kinds2<K1, K2>(), op, pr, ex, vf::mix(vf::mix(hash_seq(x), hash_seq(y)), vf::mix(77, cm + 1)), "x=%s y=%s", xs.c_str(), ys.c_str());
        Range<El> r1(x, pr, false), r2(y, pres2(pr, y.size()), false);
        bool ee = cm < 0 ? t.call([&] { return etl::includes(B<K1>(r1), E<K1>(r1), B<K2>(r2), E<K2>(r2)); })
                         : t.call([&] { return etl::includes(B<K1>(r1), E<K1>(r1), B<K2>(r2), E<K2>(r2), cmp); });
        t.boolean("ret", ee, se);
        t.guards(r1);
        t.guards(r2);
        t.done();
    }
}

template <typename K1, typename K2, typename O>
void k_setops(Ctx& c)
{
    for (int cm = -1; cm <= 2; ++cm) {
        Seq x;
        if (!sorted_input(c, c.a, cm < 0 ? 0 : cm, x)) { continue; }
        for (Seq const& nd : c.needles) {
            Seq y;
            if (!sorted_input(c, nd, cm < 0 ? 0 : cm, y)) { continue; }
            setop_trial<O_merge, K1, K2, O>(c, x, y, cm);
            setop_trial<O_union, K1, K2, O>(c, x, y, cm);
            setop_trial<O_inter, K1, K2, O>(c, x, y, cm);
            setop_trial<O_diff, K1, K2, O>(c, x, y, cm);
            setop_trial<O_symdiff, K1, K2, O>(c, x, y, cm);
            includes_trial<K1, K2>(c, x, y, cm);
            // and with the roles exchanged (short first range, long second range)
            setop_trial<O_merge, K1, K2, O>(c, y, x, cm);
            setop_trial<O_union, K1, K2, O>(c, y, x, cm);
            setop_trial<O_inter, K1, K2, O>(c, y, x, cm);
            setop_trial<O_diff, K1, K2, O>(c, y, x, cm);
            setop_trial<O_symdiff, K1, K2, O>(c, y, x, cm);
            includes_trial<K1, K2>(c, y, x, cm);
        }
    }
}
void t_setops_ptr(Ctx& c) { k_setops<KPtr, KPtr, OPtr>(c); }
void t_setops_in_out(Ctx& c) { k_setops<KIn, KIn, OOut>(c); }
void t_setops_mixed(Ctx& c) { k_setops<KFwd, KIn, OBack>(c); }

Test const kTests[] = {
    {"bsearch", t_bsearch},
    {"setops_ptr", t_setops_ptr},
    {"setops_in_out", t_setops_in_out},
#if !C06_TRUTHY
    {"setops_mixed", t_setops_mixed},
#endif
};
std::size_t const kNumTests = sizeof(kTests) / sizeof(kTests[0]);

} // namespace c06

C06_MAIN(C06_TRUTHY ? "C06_set_truthy" : "C06_set")
