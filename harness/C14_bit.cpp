// C14 - <bit> functions, bit-position helpers and byte-order conversions vs std <bit> / definitional arithmetic
// (DESIGN section 4, C14).  Public tetl API only.
//   -DC14_ROWS=0 : uint8/uint16/uint32 + byte order   -DC14_ROWS=1 : uint64/unsigned long long + byteswap   (split for parallel compiles)
#include "vf.hpp"
#include "vf_contract.hpp"

#include "vf_c14.hpp"

#include <etl/bit.hpp>
#include <etl/cstdint.hpp>
#include <etl/experimental/net/byte_order.hpp>

#include <arpa/inet.h>
#include <array>
#include <bit>
#include <climits>

#ifndef C14_ROWS
    #define C14_ROWS 0
#endif

namespace {
using namespace c14;
namespace net = etl::experimental::net;

template <class U>
char const* bitclass(U x)
{
    if (x == 0) { return "zero"; }
    if (x == U(~U(0))) { return "all-ones"; }
    if (std::has_single_bit(x)) { return x == U(U(1) << (W<U> - 1)) ? "top-bit-only" : "single-bit"; }
    if (U(x >> (W<U> - 1)) != 0) { return "top-bit-set"; }
    return "generic";
}

#define C14_UN(S, SUBJ, OPNAME, RT, DOMX, REFX, IMPLX, SITX)                                                           \
    template <class T>                                                                                                 \
    struct S {                                                                                                         \
        using A = T;                                                                                                   \
        using R = RT;                                                                                                  \
        static constexpr char const* name = OPNAME;                                                                    \
        static std::string subject() { return std::string(SUBJ) + "<" + TN<T>::v + ">"; }                              \
        static bool dom([[maybe_unused]] T x) { return DOMX; }                                                         \
        static R ref(T x) { return REFX; }                                                                             \
        static R impl(T x) { return IMPLX; }                                                                           \
        static char const* sit(T x) { return SITX; }                                                                   \
    }

C14_UN(Popcount, "popcount", "popcount(x)", i128, true, std::popcount(x), etl::popcount(x), bitclass(x));
C14_UN(CountlZero, "countl_zero", "countl_zero(x)", i128, true, std::countl_zero(x), etl::countl_zero(x), bitclass(x));
C14_UN(CountlOne, "countl_one", "countl_one(x)", i128, true, std::countl_one(x), etl::countl_one(x), bitclass(x));
C14_UN(CountrZero, "countr_zero", "countr_zero(x)", i128, true, std::countr_zero(x), etl::countr_zero(x), bitclass(x));
C14_UN(CountrOne, "countr_one", "countr_one(x)", i128, true, std::countr_one(x), etl::countr_one(x), bitclass(x));
C14_UN(BitWidth, "bit_width", "bit_width(x)", i128, true, i128(std::bit_width(x)), i128(etl::bit_width(x)), bitclass(x));
C14_UN(BitFloor, "bit_floor", "bit_floor(x)", i128, true, std::bit_floor(x), etl::bit_floor(x), bitclass(x));
C14_UN(HasSingleBit, "has_single_bit", "has_single_bit(x)", bool, true, std::has_single_bit(x), etl::has_single_bit(x), bitclass(x));
// bit_ceil: the result must be representable (std: UB otherwise)
C14_UN(BitCeil, "bit_ceil", "bit_ceil(x)", i128, (x <= T(T(1) << (W<T> - 1))), std::bit_ceil(x), etl::bit_ceil(x),
    (x == 0 ? "zero" : x == 1 ? "one" : x == T(T(1) << (W<T> - 1)) ? "top-pow2" : std::has_single_bit(x) ? "pow2" : x > T(T(1) << (W<T> - 2)) ? "non-pow2-below-top" : "non-pow2"));

// the portable fallback of popcount only runs in constant evaluation: compile-time tables, compared at run time
template <class T>
struct PopcountConsteval {
    using A = unsigned char; // index
    using R = i128;
    static constexpr char const* name = "popcount(x)[constant-evaluated]";
    static std::string subject() { return std::string("popcount[consteval]<") + TN<T>::v + ">"; }
    static constexpr T arg(unsigned i, unsigned v)
    {
        using ull = unsigned long long;
        switch (v) {
        case 0: return T(i);
        case 1: return T(ull(i) << (W<T> - 8));
        case 2: return T(ull(i) * 0x0101010101010101ull);
        default: return T(~(ull(i) << (W<T> / 2 - 4)));
        }
    }
    static constexpr std::array<unsigned char, 1024> table = [] {
        std::array<unsigned char, 1024> t{};
        for (unsigned v = 0; v < 4; ++v) {
            for (unsigned i = 0; i < 256; ++i) { t[v * 256 + i] = static_cast<unsigned char>(etl::popcount(arg(i, v))); }
        }
        return t;
    }();
    static bool dom(A) { return true; }
    static R ref(A i)
    {
        i128 s = 0;
        for (unsigned v = 0; v < 4; ++v) { s = s * 100 + std::popcount(arg(i, v)); }
        return s;
    }
    static R impl(A i)
    {
        i128 s = 0;
        for (unsigned v = 0; v < 4; ++v) { s = s * 100 + table[v * 256 + i]; }
        return s;
    }
    static char const* sit(A i) { return i == 0 ? "zero-byte" : i == 255 ? "all-ones-byte" : "generic"; }
};

// byteswap for every standard integer type, reference = byte reversal
template <class T>
T bswap_ref(T x)
{
    using U = std::make_unsigned_t<T>;
    U u     = U(x);
    U r     = 0;
    for (unsigned i = 0; i < sizeof(T); ++i) {
        r = U(U(r << (sizeof(T) > 1 ? 8 : 0)) | U(u & 0xFF));
        u = U(u >> (sizeof(T) > 1 ? 8 : 0));
    }
    return T(r);
}
C14_UN(Byteswap, "byteswap", "byteswap(x)", i128, true, bswap_ref(x), etl::byteswap(x),
    (sizeof(T) == 1 ? "single-byte" : bswap_ref(x) == x ? "palindrome" : "generic"));

// host <-> network
C14_UN(Ntoh, "net::ntoh", "ntoh(x)", i128, true,
    (sizeof(T) == 1 ? i128(x) : sizeof(T) == 2 ? i128(ntohs(std::uint16_t(x))) : i128(ntohl(std::uint32_t(x)))), i128(net::ntoh(x)),
    (sizeof(T) == 1 ? "single-byte" : bswap_ref(x) == x ? "palindrome" : "generic"));
C14_UN(Hton, "net::hton", "hton(x)", i128, true,
    (sizeof(T) == 1 ? i128(x) : sizeof(T) == 2 ? i128(htons(std::uint16_t(x))) : i128(htonl(std::uint32_t(x)))), i128(net::hton(x)),
    (sizeof(T) == 1 ? "single-byte" : bswap_ref(x) == x ? "palindrome" : "generic"));
C14_UN(HtonNtoh, "net::hton(ntoh)", "hton(ntoh(x))", i128, true, i128(x), i128(net::hton(net::ntoh(x))), "round-trip");

// ---- rotations: (x, int s)
std::vector<int> const& rot_counts()
{
    static std::vector<int> const v = [] {
        std::vector<int> r;
        for (int s = -130; s <= 130; ++s) { r.push_back(s); }
        for (int s : {INT_MIN, INT_MIN + 1, INT_MIN + 7, INT_MIN + 64, -65536, -65535, -4097, -4096, -1024, -1000, -256, -255, 255, 256, 1000, 1024,
                 4096, 4097, 65535, 65536, INT_MAX - 64, INT_MAX - 63, INT_MAX - 1, INT_MAX}) {
            r.push_back(s);
        }
        return finish_t(std::move(r));
    }();
    return v;
}
template <class T>
char const* rotclass(int s)
{
    if (s == 0) { return "count=0"; }
    if (s % W<T> == 0) { return "count=multiple-of-width"; }
    if (s < 0) { return "count<0"; }
    if (s > W<T>) { return "count>width"; }
    return "0<count<width";
}
int rnd_count(vf::Rng& r)
{
    std::uint64_t m = r.next();
    switch (m & 3) {
    case 0: return int(std::uint32_t(m >> 8));
    case 1: return int((m >> 8) % 521) - 260;
    case 2: return int((m >> 8) % 65) * ((m >> 40) & 1 ? -1 : 1) * int(1 + (m >> 44) % 4);
    default: return rot_counts()[(m >> 8) % rot_counts().size()];
    }
}
#define C14_ROT(S, FN)                                                                                                 \
    template <class T>                                                                                                 \
    struct S {                                                                                                         \
        using A = T;                                                                                                   \
        using B = int;                                                                                                 \
        using R = i128;                                                                                                \
        static constexpr char const* name = #FN "(x,s)";                                                               \
        static std::string subject() { return std::string(#FN "<") + TN<T>::v + ">"; }                                 \
        static std::vector<int> const& yset() { return rot_counts(); }                                                 \
        static void rnd(vf::Rng& r, A& x, B& s)                                                                        \
        {                                                                                                              \
            x = c14::rnd<T>(r);                                                                                        \
            s = rnd_count(r);                                                                                          \
        }                                                                                                              \
        static bool dom(T, int) { return true; }                                                                       \
        static R ref(T x, int s) { return std::FN(x, s); }                                                             \
        static R impl(T x, int s) { return etl::FN(x, s); }                                                            \
        static char const* sit(T, int s) { return rotclass<T>(s); }                                                    \
    }
C14_ROT(Rotl, rotl);
C14_ROT(Rotr, rotr);

// ---- bit positions: (word, pos) with pos < digits
template <class T>
std::vector<T> const& positions()
{
    static std::vector<T> const v = [] {
        std::vector<T> r;
        for (int i = 0; i < W<T>; ++i) { r.push_back(T(i)); }
        return r;
    }();
    return v;
}
template <class T>
char const* posclass(T w, T pos)
{
    bool set = ((unsigned long long)(w) >> unsigned(pos)) & 1ull;
    if (pos == 0) { return set ? "pos=0,bit-set" : "pos=0,bit-clear"; }
    if (pos == T(W<T> - 1)) { return set ? "pos=top,bit-set" : "pos=top,bit-clear"; }
    return set ? "pos=mid,bit-set" : "pos=mid,bit-clear";
}
template <class T>
constexpr unsigned long long bitmask(T pos)
{
    return 1ull << unsigned(pos);
}
#define C14_POS(S, SUBJ, OPNAME, RT, REFX, IMPLX)                                                                      \
    template <class T>                                                                                                 \
    struct S {                                                                                                         \
        using A = T;                                                                                                   \
        using B = T;                                                                                                   \
        using R = RT;                                                                                                  \
        static constexpr char const* name = OPNAME;                                                                    \
        static std::string subject() { return std::string(SUBJ) + "<" + TN<T>::v + ">"; }                              \
        static std::vector<T> const& yset() { return positions<T>(); }                                                 \
        static void rnd(vf::Rng& r, A& w, B& pos)                                                                      \
        {                                                                                                              \
            w   = c14::rnd<T>(r);                                                                                      \
            pos = T(r.below(unsigned(W<T>)));                                                                          \
        }                                                                                                              \
        static bool dom(T, T pos) { return pos < T(W<T>); }                                                            \
        static R ref(T w, T pos) { return REFX; }                                                                      \
        static R impl(T w, T pos) { return IMPLX; }                                                                    \
        static char const* sit(T w, T pos) { return posclass(w, pos); }                                                \
    }
C14_POS(SetBit, "set_bit", "set_bit(word,pos)", i128, i128(T(ull(w) | bitmask(pos))), i128(etl::set_bit(w, pos)));
C14_POS(SetBitTrue, "set_bit[value=true]", "set_bit(word,pos,true)", i128, i128(T(ull(w) | bitmask(pos))), i128(etl::set_bit(w, pos, true)));
C14_POS(SetBitFalse, "set_bit[value=false]", "set_bit(word,pos,false)", i128, i128(T(ull(w) & ~bitmask(pos))), i128(etl::set_bit(w, pos, false)));
C14_POS(ResetBit, "reset_bit", "reset_bit(word,pos)", i128, i128(T(ull(w) & ~bitmask(pos))), i128(etl::reset_bit(w, pos)));
C14_POS(FlipBit, "flip_bit", "flip_bit(word,pos)", i128, i128(T(ull(w) ^ bitmask(pos))), i128(etl::flip_bit(w, pos)));
C14_POS(TestBit, "test_bit", "test_bit(word,pos)", bool, ((ull(w) >> unsigned(pos)) & 1ull) != 0, etl::test_bit(w, pos));

// compile-time position overloads: Pos in {0, 1, W/2, W-2, W-1}; second argument = index into that list
template <class T>
constexpr std::array<unsigned, 5> kPos = {0u, 1u, unsigned(W<T> / 2), unsigned(W<T> - 2), unsigned(W<T> - 1)};
template <class T>
std::vector<T> const& pos_indices()
{
    static std::vector<T> const v = {T(0), T(1), T(2), T(3), T(4)};
    return v;
}
#define C14_TPOS(S, SUBJ, OPNAME, RT, REFX, CALL)                                                                      \
    template <class T>                                                                                                 \
    struct S {                                                                                                         \
        using A = T;                                                                                                   \
        using B = T;                                                                                                   \
        using R = RT;                                                                                                  \
        static constexpr char const* name = OPNAME;                                                                    \
        static std::string subject() { return std::string(SUBJ) + "<" + TN<T>::v + ">"; }                              \
        static std::vector<T> const& yset() { return pos_indices<T>(); }                                               \
        static void rnd(vf::Rng& r, A& w, B& idx)                                                                      \
        {                                                                                                              \
            w   = c14::rnd<T>(r);                                                                                      \
            idx = T(r.below(5));                                                                                       \
        }                                                                                                              \
        static bool dom(T, T idx) { return idx < 5; }                                                                  \
        static R ref(T w, T idx)                                                                                       \
        {                                                                                                              \
            T pos = T(kPos<T>[idx]);                                                                                   \
            return REFX;                                                                                               \
        }                                                                                                              \
        static R impl(T w, T idx)                                                                                      \
        {                                                                                                              \
            switch (idx) {                                                                                             \
            case 0: return R(CALL(0));                                                                                 \
            case 1: return R(CALL(1));                                                                                 \
            case 2: return R(CALL(W<T> / 2));                                                                          \
            case 3: return R(CALL(W<T> - 2));                                                                          \
            default: return R(CALL(W<T> - 1));                                                                         \
            }                                                                                                          \
        }                                                                                                              \
        static char const* sit(T w, T idx) { return posclass(w, T(kPos<T>[idx])); }                                    \
    }
#define CALL_SET(P) etl::set_bit<(P)>(w)
#define CALL_SET_T(P) etl::set_bit<(P)>(w, true)
#define CALL_SET_F(P) etl::set_bit<(P)>(w, false)
#define CALL_RESET(P) etl::reset_bit<(P)>(w)
#define CALL_FLIP(P) etl::flip_bit<(P)>(w)
#define CALL_TEST(P) etl::test_bit<(P)>(w)
C14_TPOS(TSetBit, "set_bit<Pos>", "set_bit<Pos>(word)", i128, i128(T(ull(w) | bitmask(pos))), CALL_SET);
C14_TPOS(TSetBitTrue, "set_bit<Pos>[value=true]", "set_bit<Pos>(word,true)", i128, i128(T(ull(w) | bitmask(pos))), CALL_SET_T);
C14_TPOS(TSetBitFalse, "set_bit<Pos>[value=false]", "set_bit<Pos>(word,false)", i128, i128(T(ull(w) & ~bitmask(pos))), CALL_SET_F);
C14_TPOS(TResetBit, "reset_bit<Pos>", "reset_bit<Pos>(word)", i128, i128(T(ull(w) & ~bitmask(pos))), CALL_RESET);
C14_TPOS(TFlipBit, "flip_bit<Pos>", "flip_bit<Pos>(word)", i128, i128(T(ull(w) ^ bitmask(pos))), CALL_FLIP);
C14_TPOS(TTestBit, "test_bit<Pos>", "test_bit<Pos>(word)", bool, ((ull(w) >> unsigned(pos)) & 1ull) != 0, CALL_TEST);

template <class U>
void reg_unsigned()
{
    reg_unary<Popcount<U>>();
    reg_unary<CountlZero<U>>();
    reg_unary<CountlOne<U>>();
    reg_unary<CountrZero<U>>();
    reg_unary<CountrOne<U>>();
    reg_unary<BitWidth<U>>();
    reg_unary<BitFloor<U>>();
    reg_unary<BitCeil<U>>();
    reg_unary<HasSingleBit<U>>();
    reg_unary<PopcountConsteval<U>>(false);
    reg_binary<Rotl<U>>();
    reg_binary<Rotr<U>>();
    reg_binary<SetBit<U>>();
    reg_binary<SetBitTrue<U>>();
    reg_binary<SetBitFalse<U>>();
    reg_binary<ResetBit<U>>();
    reg_binary<FlipBit<U>>();
    reg_binary<TestBit<U>>();
    reg_binary<TSetBit<U>>();
    reg_binary<TSetBitTrue<U>>();
    reg_binary<TSetBitFalse<U>>();
    reg_binary<TResetBit<U>>();
    reg_binary<TFlipBit<U>>();
    reg_binary<TTestBit<U>>();
}
template <class T>
void reg_net()
{
    reg_unary<Ntoh<T>>();
    reg_unary<Hton<T>>();
    reg_unary<HtonNtoh<T>>();
}
vf::Spec spec(vf::Tier t) { return make_spec(t, 2, 64); }
} // namespace

void c14::register_all()
{
#if C14_ROWS == 0
    reg_unsigned<unsigned char>();
    reg_unsigned<unsigned short>();
    reg_unsigned<unsigned>();
    reg_net<char>();
    reg_net<etl::int8_t>();
    reg_net<etl::uint8_t>();
    reg_net<etl::uint16_t>();
    reg_net<etl::uint32_t>();
#else
    reg_unsigned<unsigned long>();
    reg_unsigned<unsigned long long>();
    reg_unary<Byteswap<signed char>>();
    reg_unary<Byteswap<unsigned char>>();
    reg_unary<Byteswap<short>>();
    reg_unary<Byteswap<unsigned short>>();
    reg_unary<Byteswap<int>>();
    reg_unary<Byteswap<unsigned>>();
    reg_unary<Byteswap<long>>();
    reg_unary<Byteswap<unsigned long>>();
    reg_unary<Byteswap<long long>>();
    reg_unary<Byteswap<unsigned long long>>();
#endif
}

#define C14_STR2(x) #x
#define C14_STR(x) C14_STR2(x)
VF_MAIN("C14", "C14_bit_" C14_STR(C14_ROWS), spec, c14::run_case)
