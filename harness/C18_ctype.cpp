// C18 - cctype / cwctype / div,ldiv,lldiv,imaxdiv,abs,labs,llabs vs glibc in the "C" locale (DESIGN 4, C18).
//
//  * cctype : every function x every argument in [-1 (EOF), 255]          - truth value for is*, value for to*
//  * cwctype: every function x WEOF, every code 0..0x10FFFF (exhaustive), and a sparse sweep of the remaining
//             wint_t values up to 0xFFFFFFFE
//  * cstdlib: div/ldiv/lldiv/imaxdiv on a boundary grid (all pairs; divisor 0 and MIN/-1 excluded: UB in C),
//             abs/labs/llabs on the same grid (MIN excluded: UB in C), plus seeded random operands
// The host functions are called through volatile pointers, arguments go through an optimisation barrier.
#include "vf.hpp"
#include "vf_contract.hpp"
#include "vf_cstr.hpp"

#include <cctype>
#include <cinttypes>
#include <climits>
#include <clocale>
#include <cstdlib>
#include <cwchar>
#include <cwctype>
#include <limits>

#include <etl/cctype.hpp>
#include <etl/cstdlib.hpp>
#include <etl/cwctype.hpp>

namespace {
using vfc::opaque;

// ------------------------------------------------------------------ tables
struct CFn {
    char const* name;
    bool conv; // to* (value compared) vs is* (truth value compared)
    int (*e)(int);
    int (*volatile g)(int);
};
#define CF(n, conv) {#n, conv, [](int c) -> int { return etl::n(c); }, &::n}
CFn CFNS[] = {CF(isalnum, false), CF(isalpha, false), CF(isblank, false), CF(iscntrl, false), CF(isdigit, false), CF(isgraph, false), CF(islower, false),
    CF(isprint, false), CF(ispunct, false), CF(isspace, false), CF(isupper, false), CF(isxdigit, false), CF(tolower, true), CF(toupper, true)};
constexpr unsigned NCF = sizeof CFNS / sizeof CFNS[0];

struct WFn {
    char const* name;
    bool conv;
    long long (*e)(wint_t);
    int (*volatile gi)(wint_t);
    wint_t (*volatile gc)(wint_t);
};
#define WI(n) {#n, false, [](wint_t c) -> long long { return etl::n(c); }, &::n, nullptr}
#define WC(n) {#n, true, [](wint_t c) -> long long { return static_cast<long long>(etl::n(c)); }, nullptr, &::n}
WFn WFNS[] = {WI(iswalnum), WI(iswalpha), WI(iswblank), WI(iswcntrl), WI(iswdigit), WI(iswgraph), WI(iswlower), WI(iswprint), WI(iswpunct), WI(iswspace),
    WI(iswupper), WI(iswxdigit), WC(towlower), WC(towupper)};
constexpr unsigned NWF = sizeof WFNS / sizeof WFNS[0];

constexpr std::uint32_t WCHUNK   = 0x10000;
constexpr std::uint32_t NWCHUNKS = 0x110000 / WCHUNK; // 17
constexpr std::uint32_t NBEYOND  = 16;                // sparse sweep 0x110000..0xFFFFFFFE

// ------------------------------------------------------------------ integer grids
template <typename T>
std::vector<T> grid()
{
    constexpr T MX = std::numeric_limits<T>::max();
    constexpr T MN = std::numeric_limits<T>::min();
    std::vector<T> v{MN, MN + 1, MN + 2, MN / 2 - 1, MN / 2, MN / 2 + 1, -100, -10, -7, -3, -2, -1, 0, 1, 2, 3, 7, 10, 100, MX / 2 - 1, MX / 2, MX / 2 + 1, MX - 2, MX - 1, MX};
    for (unsigned k : {7u, 8u, 15u, 16u, 31u, 32u, 62u}) {
        if (k < sizeof(T) * 8 - 1) {
            T p = static_cast<T>(T(1) << k);
            for (T d : {T(-1), T(0), T(1)}) {
                v.push_back(static_cast<T>(p + d));
                v.push_back(static_cast<T>(-(p + d)));
            }
        }
    }
    return v;
}

struct Layout {
    std::uint64_t cc, wc_small, wc_chunks, wc_beyond, di, dl, dll;
    std::uint64_t total() const { return cc + wc_small + wc_chunks + wc_beyond + di + dl + dll; }
};
Layout layout()
{
    Layout l;
    l.cc        = NCF;
    l.wc_small  = NWF;      // WEOF + 0..0x3FF, one evaluation record each
    l.wc_chunks = NWCHUNKS; // 0x400..0x10FFFF in chunks, every function
    l.wc_beyond = NBEYOND;
    l.di        = grid<int>().size();
    l.dl        = grid<long>().size();
    l.dll       = grid<long long>().size();
    return l;
}
vf::Spec spec(vf::Tier t)
{
    vf::Spec s;
    s.n_enum     = layout().total();
    s.n_random   = t == vf::Tier::thorough ? 20000 : 2000;
    s.batch      = 8;
    s.exhaustive = true;
    return s;
}

char const* ccls(int c) { return c == EOF ? "eof" : (c < 0x80 ? "ascii" : "high"); }
char const* wcls(wint_t c)
{
    if (c == WEOF) { return "weof"; }
    if (c < 0x80) { return "ascii"; }
    if (c < 0x100) { return "latin1"; }
    if (c < 0x10000) { return "bmp"; }
    if (c < 0x110000) { return "astral"; }
    return "beyond-unicode";
}

void check_w(WFn& f, wint_t c, bool record_each)
{
    if (record_each) { vf::crumb("cwctype", f.name, wcls(c), "ch=0x%X", (unsigned)c); }
    if (f.conv) {
        wint_t g    = f.gc(opaque(c));
        long long e = f.e(opaque(c));
        if (e != (long long)g) {
            vf::crumb("cwctype", f.name, wcls(c), "ch=0x%X", (unsigned)c);
            vf::eq_int("ret", e, (long long)g);
        }
    } else {
        bool g = f.gi(opaque(c)) != 0;
        bool e = f.e(opaque(c)) != 0;
        if (e != g) {
            vf::crumb("cwctype", f.name, wcls(c), "ch=0x%X", (unsigned)c);
            vf::eq_bool("ret", e, g);
        }
    }
    if (record_each) { vf::cover(f.name, c, true); }
}

template <typename T>
char const* divcls(T x, T y, char* buf, std::size_t cap)
{
    constexpr T MN = std::numeric_limits<T>::min();
    char const* sx = x == 0 ? "zero" : (x == MN ? "min" : (x < 0 ? "neg" : "pos"));
    char const* sy = y == MN ? "min" : (y < 0 ? "neg" : "pos");
    char const* k  = (x % y == 0) ? "exact" : ((x / y == 0) ? "quot=0" : "inexact");
    std::snprintf(buf, cap, "%s/%s,%s", sx, sy, k);
    return buf;
}

template <typename T>
bool div_defined(T x, T y)
{
    return y != 0 && !(x == std::numeric_limits<T>::min() && y == T(-1));
}

// one (x, y) through every division entry point that takes T
void div_ops(int x, int y)
{
    if (!div_defined(x, y)) { return; }
    char sit[64];
    divcls(x, y, sit, sizeof sit);
    static div_t (*volatile g)(int, int) = &::div;
    vf::crumb("cstdlib", "div(int,int)", sit, "x=%d y=%d", x, y);
    div_t r     = g(opaque(x), opaque(y));
    auto e      = etl::div(opaque(x), opaque(y));
    vf::cover("div(int,int)", vf::mix((std::uint64_t)x, (std::uint64_t)y), x != 0);
    vf::eq_int("quot", e.quot, r.quot);
    vf::eq_int("rem", e.rem, r.rem);
}
void div_ops(long x, long y)
{
    if (!div_defined(x, y)) { return; }
    char sit[64];
    divcls(x, y, sit, sizeof sit);
    static ldiv_t (*volatile g)(long, long) = &::ldiv;
    {
        vf::crumb("cstdlib", "div(long,long)", sit, "x=%ld y=%ld", x, y);
        ldiv_t r = g(opaque(x), opaque(y));
        auto e   = etl::div(opaque(x), opaque(y));
        vf::cover("div(long,long)", vf::mix((std::uint64_t)x, (std::uint64_t)y), x != 0);
        vf::eq_int("quot", e.quot, r.quot);
        vf::eq_int("rem", e.rem, r.rem);
    }
    {
        vf::crumb("cstdlib", "ldiv", sit, "x=%ld y=%ld", x, y);
        ldiv_t r = g(opaque(x), opaque(y));
        auto e   = etl::ldiv(opaque(x), opaque(y));
        vf::cover("ldiv", vf::mix((std::uint64_t)x, (std::uint64_t)y), x != 0);
        vf::eq_int("quot", e.quot, r.quot);
        vf::eq_int("rem", e.rem, r.rem);
    }
}
void div_ops(long long x, long long y)
{
    if (!div_defined(x, y)) { return; }
    char sit[64];
    divcls(x, y, sit, sizeof sit);
    static lldiv_t (*volatile g)(long long, long long)   = &::lldiv;
    static imaxdiv_t (*volatile gm)(intmax_t, intmax_t) = &::imaxdiv;
    {
        vf::crumb("cstdlib", "div(long long,long long)", sit, "x=%lld y=%lld", x, y);
        lldiv_t r = g(opaque(x), opaque(y));
        auto e    = etl::div(opaque(x), opaque(y));
        vf::cover("div(long long,long long)", vf::mix((std::uint64_t)x, (std::uint64_t)y), x != 0);
        vf::eq_int("quot", e.quot, r.quot);
        vf::eq_int("rem", e.rem, r.rem);
    }
    {
        vf::crumb("cstdlib", "lldiv", sit, "x=%lld y=%lld", x, y);
        lldiv_t r = g(opaque(x), opaque(y));
        auto e    = etl::lldiv(opaque(x), opaque(y));
        vf::cover("lldiv", vf::mix((std::uint64_t)x, (std::uint64_t)y), x != 0);
        vf::eq_int("quot", e.quot, r.quot);
        vf::eq_int("rem", e.rem, r.rem);
    }
    {
        vf::crumb("cstdlib", "imaxdiv", sit, "x=%lld y=%lld", x, y);
        imaxdiv_t r = gm(opaque(static_cast<intmax_t>(x)), opaque(static_cast<intmax_t>(y)));
        auto e      = etl::imaxdiv(opaque(static_cast<etl::intmax_t>(x)), opaque(static_cast<etl::intmax_t>(y)));
        vf::cover("imaxdiv", vf::mix((std::uint64_t)x, (std::uint64_t)y), x != 0);
        vf::eq_int("quot", e.quot, r.quot);
        vf::eq_int("rem", e.rem, r.rem);
    }
}

char const* abscls(long long x, long long mx) { return x == 0 ? "zero" : (x == -mx ? "min+1" : (x == mx ? "max" : (x < 0 ? "neg" : "pos"))); }
void abs_ops(int x)
{
    if (x == INT_MIN) { return; }
    static int (*volatile g)(int) = &::abs;
    vf::crumb("cstdlib", "abs(int)", abscls(x, INT_MAX), "x=%d", x);
    int r = g(opaque(x));
    int e = etl::abs(opaque(x));
    vf::cover("abs(int)", (std::uint64_t)x, x != 0);
    vf::eq_int("ret", e, r);
}
void abs_ops(long x)
{
    if (x == LONG_MIN) { return; }
    static long (*volatile g)(long) = &::labs;
    {
        vf::crumb("cstdlib", "labs", abscls(x, LONG_MAX), "x=%ld", x);
        long r = g(opaque(x));
        long e = etl::labs(opaque(x));
        vf::cover("labs", (std::uint64_t)x, x != 0);
        vf::eq_int("ret", e, r);
    }
    {
        vf::crumb("cstdlib", "abs(long)", abscls(x, LONG_MAX), "x=%ld", x);
        long r = g(opaque(x));
        long e = etl::abs(opaque(x));
        vf::cover("abs(long)", (std::uint64_t)x, x != 0);
        vf::eq_int("ret", e, r);
    }
}
void abs_ops(long long x)
{
    if (x == LLONG_MIN) { return; }
    static long long (*volatile g)(long long) = &::llabs;
    {
        vf::crumb("cstdlib", "llabs", abscls(x, LLONG_MAX), "x=%lld", x);
        long long r = g(opaque(x));
        long long e = etl::llabs(opaque(x));
        vf::cover("llabs", (std::uint64_t)x, x != 0);
        vf::eq_int("ret", e, r);
    }
    {
        vf::crumb("cstdlib", "abs(long long)", abscls(x, LLONG_MAX), "x=%lld", x);
        long long r = g(opaque(x));
        long long e = etl::abs(opaque(x));
        vf::cover("abs(long long)", (std::uint64_t)x, x != 0);
        vf::eq_int("ret", e, r);
    }
}

template <typename T>
void grid_case(std::uint64_t k)
{
    std::vector<T> g = grid<T>();
    T x              = g[k];
    if (vf::want_sample("grid")) { vf::sample("grid", "x=%lld against %zu boundary divisors; abs(x)", (long long)x, g.size()); }
    abs_ops(x);
    for (T y : g) { div_ops(x, y); }
}

template <typename T>
T rnd(vf::Rng& r)
{
    unsigned bits = 1 + (unsigned)r.below(sizeof(T) * 8);
    auto u        = r.next();
    if (bits < 64) { u &= (1ull << bits) - 1; }
    T v = static_cast<T>(u);
    if (r.coin()) { v = static_cast<T>(0 - static_cast<std::make_unsigned_t<T>>(v)); }
    return v;
}

void run_case(vf::Case& c)
{
    Layout l = layout();
    if (c.enumerated) {
        std::uint64_t k = c.index;
        if (k < l.cc) {
            CFn& f = CFNS[k];
            if (vf::want_sample("cctype")) { vf::sample("cctype", "%s(c) for every c in [-1,255]", f.name); }
            for (int ch = -1; ch <= 255; ++ch) {
                vf::crumb("cctype", f.name, ccls(ch), "ch=%d", ch);
                int g = f.g(opaque(ch));
                int e = f.e(opaque(ch));
                vf::cover(f.name, (std::uint64_t)(ch + 1), true);
                if (f.conv) {
                    vf::eq_int("ret", e, g);
                } else {
                    vf::eq_bool("ret", e != 0, g != 0);
                }
            }
            return;
        }
        k -= l.cc;
        if (k < l.wc_small) {
            WFn& f = WFNS[k];
            if (vf::want_sample("cwctype")) { vf::sample("cwctype", "%s(c) for WEOF and every c in [0,0x3FF]", f.name); }
            check_w(f, WEOF, true);
            for (wint_t ch = 0; ch < 0x400; ++ch) { check_w(f, ch, true); }
            return;
        }
        k -= l.wc_small;
        if (k < l.wc_chunks) {
            wint_t lo = (wint_t)k * WCHUNK, hi = lo + WCHUNK;
            if (lo < 0x400) { lo = 0x400; }
            if (vf::want_sample("cwctype-sweep")) { vf::sample("cwctype-sweep", "all 14 functions for every c in [0x%X,0x%X)", lo, hi); }
            for (WFn& f : WFNS) {
                vf::crumb("cwctype", f.name, wcls(lo), "chunk [0x%X,0x%X)", lo, hi);
                for (wint_t ch = lo; ch < hi; ++ch) { check_w(f, ch, false); }
                vf::cover_bulk(f.name, hi - lo, lo, hi - lo);
            }
            return;
        }
        k -= l.wc_chunks;
        if (k < l.wc_beyond) {
            // 0x110000 .. 0xFFFFFFFE split in NBEYOND slices, 4096 evenly spaced values + both slice ends
            std::uint64_t span = (0xFFFFFFFFull - 0x110000ull) / NBEYOND;
            std::uint64_t lo   = 0x110000ull + k * span;
            for (WFn& f : WFNS) {
                vf::crumb("cwctype", f.name, "beyond-unicode", "slice from 0x%llX", (unsigned long long)lo);
                std::uint64_t n = 0;
                for (std::uint64_t i = 0; i < 4096; ++i, ++n) { check_w(f, (wint_t)(lo + i * (span / 4096)), false); }
                check_w(f, (wint_t)(lo + span - 1), false);
                vf::cover_bulk(f.name, n + 1, lo, n + 1);
            }
            return;
        }
        k -= l.wc_beyond;
        if (k < l.di) { return grid_case<int>(k); }
        k -= l.di;
        if (k < l.dl) { return grid_case<long>(k); }
        k -= l.dl;
        return grid_case<long long>(k);
    }
    vf::Rng& r = c.rng;
    for (int i = 0; i < 16; ++i) {
        int xi = rnd<int>(r), yi = rnd<int>(r);
        long xl = rnd<long>(r), yl = rnd<long>(r);
        long long xq = rnd<long long>(r), yq = rnd<long long>(r);
        if (i == 0 && vf::want_sample("random")) { vf::sample("random", "div(%d,%d) ldiv(%ld,%ld) lldiv(%lld,%lld)", xi, yi, xl, yl, xq, yq); }
        div_ops(xi, yi);
        div_ops(xl, yl);
        div_ops(xq, yq);
        abs_ops(xi);
        abs_ops(xl);
        abs_ops(xq);
    }
}
} // namespace

int main(int argc, char** argv)
{
    std::setlocale(LC_ALL, "C");
    return vf::run_main(argc, argv, "C18", "C18_ctype", spec, run_case, 24);
}
