// C16 - one-argument <cmath> functions vs glibc libm (DESIGN 4, C16; helpers DESIGN 3.8)
// Build: -DVF_T=float|double -DVF_T_NAME="float"|"double"
//
// Case space (enumerated part, seed independent):
//   case = (function f, sign/exponent block b [, mantissa chunk]) ; every case evaluates etl::f and the
//   libm reference on the block's mantissa plan:
//     float  quick   : both ends (128+128) + boundary mantissas + jittered stride  (~2^15 per block, 2^24 per function)
//     float  thorough: exact/bool/int functions: ALL 2^23 mantissas of the block (=> all 2^32 patterns per function);
//                      approximate functions: every 16th mantissa + boundary mantissas (2^28 per function)
//     double         : every one of the 2 x 2048 exponent blocks x (ends + boundary mantissas + jittered stride)
//     asan flavour   : ends (16+16) + boundary mantissas, breadcrumb before every call
//   random part (seeded): (function, k) -> R bit patterns drawn from a mixture (uniform bits / rounding band / 2^63 band).
// Oracle: exact set -> bit identical (both-NaN relaxation, except fabs/abs which are defined on the sign bit);
//         approximate set -> class equal (NaN/inf/signed zero) and ulp distance <= committed bound (C16_bounds.json);
//         lrint/llrint -> equal wherever C defines the result; isnan/isinf/isfinite/signbit -> equal.
#include "vf.hpp"
#include "vf_contract.hpp"
#include "vf_float.hpp"

#include <etl/cmath.hpp>
#include <etl/limits.hpp>

#include <algorithm>
#include <cmath>
#include <limits>
#include <type_traits>
#include <vector>

#include "C16_common.hpp"

namespace {
using namespace c16;
constexpr unsigned NBLK  = 2 * NEXP;
constexpr unsigned CHUNKS = 8; // float thorough: mantissa chunks per block

enum Kind { EX, EXS, AP, IR, BO };

struct Ctx {
    char const* subject;
    char const* op;
    Kind kind;
    bool sign;
    unsigned e;
    // plan
    bool ranged;
    U lo, hi, step;
    std::vector<U> list; // mantissas (enumerated) or full bit patterns (random, raw=true)
    bool raw;
    char const* blockcls;
    std::uint64_t bound;
    // results
    std::uint64_t n;
    std::uint64_t skipped; // outside the domain where C defines the result (IR)
    std::uint64_t maxulp;
    T maxat;

    template <typename Body>
    [[gnu::always_inline]] void for_each(Body body)
    {
        U const hi_bits = (U(sign) << (MB + fp::Tr<T>::ebits)) | (U(e) << MB);
        if (ranged) {
            for (U m = lo; m < hi; m += step) { body(fp::launder(fp::from_bits<T>(hi_bits | m))); }
        }
        if (raw) {
            for (U u : list) { body(fp::launder(fp::from_bits<T>(u))); }
        } else {
            for (U m : list) { body(fp::launder(fp::from_bits<T>(hi_bits | m))); }
        }
    }
};

void precise_crumb(Ctx const& c, T x)
{
    char a[96];
    fp::show(a, sizeof a, x);
    vf::crumb(c.subject, c.op, fp::arg_class(x), "x=%s", a);
}
#if VF_ASAN
    #define PRE_CALL(c, x) precise_crumb(c, x)
#else
    #define PRE_CALL(c, x) ((void)0)
#endif

[[gnu::noinline]] void report_f(Ctx const& c, T x, T obs, T exp, char const* sym)
{
    char o[96], e[96];
    fp::show(o, sizeof o, obs);
    fp::show(e, sizeof e, exp);
    precise_crumb(c, x);
    vf::diverge(sym, o, e);
}

void report_plain(double obs, double exp, char const* sym)
{
    char o[96], e[96];
    fp::show(o, sizeof o, obs);
    fp::show(e, sizeof e, exp);
    vf::diverge(sym, o, e);
}

[[gnu::noinline]] void mismatch_exact(Ctx& c, T x, T obs, T exp, bool nansign)
{
    char const* sym = fp::exact_symptom(obs, exp, x, nansign);
    if (sym) { report_f(c, x, obs, exp, sym); }
}
[[gnu::noinline]] void mismatch_approx(Ctx& c, T x, T obs, T exp)
{
    char buf[64];
    std::uint64_t ulps = 0;
    char const* sym    = fp::approx_symptom(obs, exp, c.bound, &ulps, buf, sizeof buf);
    if (ulps > c.maxulp) {
        c.maxulp = ulps;
        c.maxat  = x;
    }
    if (sym) { report_f(c, x, obs, exp, sym); }
}

template <typename FE, typename FR>
void run_EX(Ctx& c, FE fe, FR fr)
{
    c.for_each([&](T x) {
        T const r = fr(fp::launder(x));
        PRE_CALL(c, x);
        T const g = fe(x);
        ++c.n;
        if (fp::bits(r) != fp::bits(g)) [[unlikely]] { mismatch_exact(c, x, g, r, false); }
    });
}
template <typename FE, typename FR>
void run_EXS(Ctx& c, FE fe, FR fr)
{
    c.for_each([&](T x) {
        T const r = fr(fp::launder(x));
        PRE_CALL(c, x);
        T const g = fe(x);
        ++c.n;
        if (fp::bits(r) != fp::bits(g)) [[unlikely]] { mismatch_exact(c, x, g, r, true); }
    });
}
template <typename FE, typename FR>
void run_AP(Ctx& c, FE fe, FR fr)
{
    c.for_each([&](T x) {
        T const r = fr(fp::launder(x));
        PRE_CALL(c, x);
        T const g = fe(x);
        ++c.n;
        if (fp::bits(r) != fp::bits(g)) [[unlikely]] { mismatch_approx(c, x, g, r); }
    });
}
// integer-returning: compared only where C defines the result (finite, rounded value representable)
template <typename FE, typename FR>
void run_IR(Ctx& c, FE fe, FR fr)
{
    using R = decltype(fr(T(0)));
    static_assert(sizeof(R) == 8, "LP64 assumed: long and long long are 64 bit");
    c.for_each([&](T x) {
        unsigned const be = fp::biased_exp(x);
        bool const in_dom = be < (unsigned)(BIAS + 63) || (be == (unsigned)(BIAS + 63) && fp::sign(x) && fp::mant(x) == 0);
        if (!in_dom) {
            ++c.skipped;
            return;
        }
        R const r = fr(fp::launder(x));
        PRE_CALL(c, x);
        R const g = fe(x);
        ++c.n;
        if (r != g) [[unlikely]] {
            precise_crumb(c, x);
            vf::eq_int("ret", (long long)g, (long long)r);
        }
    });
}
template <typename FE, typename FR>
void run_BO(Ctx& c, FE fe, FR fr)
{
    c.for_each([&](T x) {
        bool const r = fr(fp::launder(x));
        PRE_CALL(c, x);
        bool const g = fe(x);
        ++c.n;
        if (r != g) [[unlikely]] {
            precise_crumb(c, x);
            vf::eq_bool("ret", g, r);
        }
    });
}

struct Fn {
    char const* subject;
    char const* op;
    Kind kind;
    bool reduced; // secondary spelling of the same function: boundary plan only
    void (*run)(Ctx&);
};

#define FN(KIND, NAME, OPSTR, RED, EEXPR, REXPR)                                                                       \
    Fn{NAME "<" VF_T_NAME ">", OPSTR, KIND, RED,                                                                       \
        [](Ctx& c) { run_##KIND(c, [](T x) { return EEXPR; }, [](T x) { return REXPR; }); }},
#define MAIN(KIND, NAME) FN(KIND, #NAME, #NAME "(" VF_T_NAME ")", false, etl::NAME(x), std::NAME(x))

Fn const kFns[] = {
    // ---- exact set
    MAIN(EX, floor) MAIN(EX, ceil) MAIN(EX, trunc) MAIN(EX, round) MAIN(EX, rint)
    MAIN(EXS, fabs) MAIN(EXS, abs)
    MAIN(IR, lrint) MAIN(IR, llrint)
    MAIN(BO, isnan) MAIN(BO, isinf) MAIN(BO, isfinite) MAIN(BO, signbit)
    // ---- approximate set
    MAIN(AP, sqrt) MAIN(AP, exp) MAIN(AP, log) MAIN(AP, log2) MAIN(AP, log10) MAIN(AP, log1p)
    MAIN(AP, sin) MAIN(AP, cos) MAIN(AP, tan) MAIN(AP, asin) MAIN(AP, acos) MAIN(AP, atan)
    MAIN(AP, sinh) MAIN(AP, cosh) MAIN(AP, tanh) MAIN(AP, asinh) MAIN(AP, acosh) MAIN(AP, atanh)
    MAIN(AP, erf) MAIN(AP, tgamma) MAIN(AP, lgamma)
#if VF_T_IS_FLOAT
    // ---- the f-suffixed spellings (boundary plan)
    #define SUF(KIND, NAME) FN(KIND, #NAME, #NAME "f(float)", true, etl::NAME##f(x), std::NAME(x))
    SUF(EX, floor) SUF(EX, ceil) SUF(EX, trunc) SUF(EX, round) SUF(EX, rint) SUF(EXS, fabs)
    SUF(IR, lrint) SUF(IR, llrint)
    SUF(AP, sqrt) SUF(AP, exp) SUF(AP, log) SUF(AP, log2) SUF(AP, log10) SUF(AP, log1p)
    SUF(AP, sin) SUF(AP, cos) SUF(AP, tan) SUF(AP, asin) SUF(AP, acos) SUF(AP, atan)
    SUF(AP, sinh) SUF(AP, cosh) SUF(AP, tanh) SUF(AP, asinh) SUF(AP, acosh) SUF(AP, atanh)
    SUF(AP, erf) SUF(AP, tgamma) SUF(AP, lgamma)
#endif
};
constexpr unsigned NF = sizeof kFns / sizeof kFns[0];

void plan_list(std::vector<U>& out, unsigned ends, U stride_count)
{
    out.clear();
    for (U i = 0; i < ends; ++i) {
        out.push_back(i);
        out.push_back(MTOP - 1 - i);
    }
    for (U m : boundary_mantissas()) { out.push_back(m); }
    if (stride_count) {
        U const stride = MTOP / stride_count;
        for (U i = 0; i < stride_count; ++i) { out.push_back(i * stride + jit(i) % stride); }
    }
    std::sort(out.begin(), out.end());
    out.erase(std::unique(out.begin(), out.end()), out.end());
}

char const* block_class(bool sign, unsigned e)
{
    if (e == NEXP - 1) { return sign ? "-inf/nan" : "inf/nan"; }
    if (e == 0) { return sign ? "-zero/denormal" : "zero/denormal"; }
    if (e < (unsigned)(BIAS - MB)) { return sign ? "-tiny" : "tiny"; }
    if (e < (unsigned)(BIAS - 1)) { return sign ? "-|x|<1" : "|x|<1"; }
    if (e < (unsigned)(BIAS + MB)) { return sign ? "-(fraction-bits)" : "fraction-bits"; }
    if (e < (unsigned)(BIAS + 63)) { return sign ? (IS_F ? "-(>=2^23)" : "-(>=2^52)") : (IS_F ? ">=2^23" : ">=2^52"); }
    return sign ? "-(>=2^63)" : ">=2^63";
}


// ---------------------------------------------------------------- extras: one enumerated case
// (a) the floating-point constants of etl::numeric_limits<T> that the cmath/complex/midpoint code is built on,
// (b) double unit only: the integral overloads (etl::f(Integer) -> double) against std::f(Integer).
template <typename V>
void limit_fact(char const* name, V obs, V exp)
{
    char op[64];
    std::snprintf(op, sizeof op, "numeric_limits::%s", name);
    vf::crumb("numeric_limits<" VF_T_NAME ">", op, "constant", "%s", name);
    vf::cover(op, vf::fnv(op), true);
    if constexpr (std::is_floating_point_v<V>) {
        char const* sym = fp::exact_symptom(obs, exp, V(-123.25), false);
        if (sym) {
            char o[96], e[96];
            fp::show(o, sizeof o, obs);
            fp::show(e, sizeof e, exp);
            vf::diverge(sym, o, e);
        }
    } else {
        vf::eq_int("value", (long long)obs, (long long)exp);
    }
}
#if !VF_T_IS_FLOAT
int const kInts[] = {0, 1, -1, 2, -2, 3, 4, 5, 7, 10, -10, 16, 17, 100, 170, 171, 172, 709, 710, 1000, -1000, 65535, 16777217, -16777217,
    2147483647, -2147483647 - 1};
template <typename FE, typename FR>
void int_overload(char const* name, bool approx, FE fe, FR fr)
{
    char subj[64], op[64];
    std::snprintf(subj, sizeof subj, "%s<int>", name);
    std::snprintf(op, sizeof op, "%s(int)", name);
    for (int v : kInts) {
        int volatile vv = v;
        auto const r    = fr((int)vv);
        char const* sit = v == 0 ? "n=0" : (v > 0 ? (v > 1000 ? "n-large" : "n>0") : (v < -1000 ? "-n-large" : "n<0"));
        vf::crumb(subj, op, sit, "n=%d", v);
        auto const g = fe((int)vv);
        static_assert(std::is_same_v<decltype(g), decltype(r)>, "integral overload must return what std returns");
        vf::cover(op, vf::mix((std::uint64_t)(unsigned)v, vf::fnv(op)), true);
        if constexpr (std::is_floating_point_v<std::remove_cv_t<decltype(g)>>) {
            if (approx) {
                char buf[64];
                std::uint64_t ulps = 0;
                char const* sym    = fp::approx_symptom((double)g, (double)r, 4, &ulps, buf, sizeof buf);
                if (sym) { report_plain((double)g, (double)r, sym); }
            } else {
                char const* sym = fp::exact_symptom((double)g, (double)r, (double)v, false);
                if (sym) { report_plain((double)g, (double)r, sym); }
            }
        } else {
            if (name[0] == 'l' && (name[1] == 'r' || name[2] == 'r')) { vf::eq_int("ret", (long long)g, (long long)r); }
            else { vf::eq_bool("ret", (bool)g, (bool)r); }
        }
    }
}
#endif
void extras()
{
    using EL = etl::numeric_limits<T>;
    using SL = std::numeric_limits<T>;
    limit_fact("min", EL::min(), SL::min());
    limit_fact("max", EL::max(), SL::max());
    limit_fact("lowest", EL::lowest(), SL::lowest());
    limit_fact("epsilon", EL::epsilon(), SL::epsilon());
    limit_fact("round_error", EL::round_error(), SL::round_error());
    limit_fact("infinity", EL::infinity(), SL::infinity());
    limit_fact("quiet_NaN", EL::quiet_NaN(), SL::quiet_NaN());
    limit_fact("denorm_min", EL::denorm_min(), SL::denorm_min());
    limit_fact("digits", EL::digits, SL::digits);
    limit_fact("max_exponent", EL::max_exponent, SL::max_exponent);
    limit_fact("min_exponent", EL::min_exponent, SL::min_exponent);
    limit_fact("has_infinity", (int)EL::has_infinity, (int)SL::has_infinity);
    limit_fact("has_quiet_NaN", (int)EL::has_quiet_NaN, (int)SL::has_quiet_NaN);
    limit_fact("is_iec559", (int)EL::is_iec559, (int)SL::is_iec559);
#if !VF_T_IS_FLOAT
    #define IO(NAME, APPROX) int_overload(#NAME, APPROX, [](int n) { return etl::NAME(n); }, [](int n) { return std::NAME(n); });
    IO(floor, false) IO(ceil, false) IO(trunc, false) IO(round, false) IO(rint, false) IO(lrint, false) IO(llrint, false)
    IO(isnan, false) IO(isinf, false)
    IO(sqrt, true) IO(exp, true) IO(log, true) IO(log2, true) IO(log10, true) IO(log1p, true) IO(sin, true) IO(cos, true) IO(tan, true)
    IO(asin, true) IO(acos, true) IO(atan, true) IO(sinh, true) IO(cosh, true) IO(tanh, true) IO(asinh, true) IO(acosh, true)
    IO(atanh, true) IO(erf, true) IO(tgamma, true) IO(lgamma, true)
    #undef IO
#endif
}

bool full_sweep(vf::Tier t) { return IS_F && t == vf::Tier::thorough && !VF_ASAN; }
unsigned chunks(vf::Tier t) { return full_sweep(t) ? CHUNKS : 1; }
unsigned random_cases_per_fn(vf::Tier t)
{
    if (VF_ASAN) { return 4; }
    if (t == vf::Tier::thorough) { return IS_F ? 16 : 160; }
    return 16;
}
unsigned random_per_case(vf::Tier t)
{
    if (VF_ASAN) { return 256; }
    return t == vf::Tier::thorough ? 65536 : 4096;
}

vf::Spec spec(vf::Tier t)
{
    vf::Spec s;
    s.n_enum     = (std::uint64_t)NF * NBLK * chunks(t) + 1; // + the extras case
    s.n_random   = (std::uint64_t)NF * random_cases_per_fn(t);
    s.batch      = full_sweep(t) ? 16 : (VF_ASAN ? 1024 : 64); // forking an ASan process is expensive
    s.timeout_s  = 900;
    s.exhaustive = true;
    return s;
}

void run_case(vf::Case& c)
{
    Ctx x{};
    unsigned f;
    std::uint64_t first_hash;
    if (c.enumerated && c.index == (std::uint64_t)NF * NBLK * chunks(c.tier)) {
        extras();
        return;
    }
    if (c.enumerated) {
        unsigned const ch = chunks(c.tier);
        f                 = (unsigned)(c.index / ((std::uint64_t)NBLK * ch));
        unsigned const r  = (unsigned)(c.index % ((std::uint64_t)NBLK * ch));
        unsigned const b  = r / ch;
        unsigned const k  = r % ch;
        x.sign            = b >= NEXP;
        x.e               = b % NEXP;
        Fn const& fn      = kFns[f];
        bool const reduced = VF_ASAN || fn.reduced;
        if (full_sweep(c.tier) && !reduced) {
            x.ranged = true;
            x.lo     = (MTOP / ch) * k;
            x.hi     = (MTOP / ch) * (k + 1);
            x.step   = fn.kind == AP ? 16 : 1;
            if (fn.kind == AP) {
                x.lo += k; // different residue per chunk
                for (U m : boundary_mantissas()) {
                    if (m >= (MTOP / ch) * k && m < x.hi && (m < x.lo || (m - x.lo) % 16 != 0)) { x.list.push_back(m); }
                }
            }
        } else if (reduced) {
            if (k != 0) { return; }
            // double has 4096 blocks: the boundary-plan strata keep every 16th exponent, both ends and the
            // whole band 2^-64 .. 2^66 where rounding / integer conversion / overflow thresholds live
            if (!IS_F && !(x.e % 16 == 0 || x.e < 4 || x.e >= NEXP - 3 || (x.e >= (unsigned)(BIAS - 64) && x.e <= (unsigned)(BIAS + 66)))) {
                return;
            }
            plan_list(x.list, 16, 0);
        } else if (IS_F) {
            plan_list(x.list, 128, (U(1) << 15) - 256 - (U)boundary_mantissas().size());
        } else {
            plan_list(x.list, 32, c.tier == vf::Tier::thorough ? 16384 : 1024);
        }
        x.blockcls = block_class(x.sign, x.e);
        first_hash = vf::mix(c.index, 0xC16);
    } else {
        unsigned const per = random_cases_per_fn(c.tier);
        f                  = (unsigned)(c.index / per);
        x.raw              = true;
        unsigned const n   = kFns[f].reduced ? 256 : random_per_case(c.tier);
        x.list.reserve(n);
        for (unsigned i = 0; i < n; ++i) { x.list.push_back(random_pattern(c.rng)); }
        x.blockcls = "random";
        first_hash = vf::mix(c.index, vf::g().seed);
    }
    Fn const& fn = kFns[f];
    x.subject    = fn.subject;
    x.op         = fn.op;
    x.kind       = fn.kind;
    if (fn.kind == AP && !need_bound(fn.subject, fn.op, &x.bound)) { return; }
    vf::crumb(x.subject, x.op, x.blockcls, "sign=%d biased-exponent=%u %s n=%zu", (int)x.sign, x.e,
        x.ranged ? "ranged" : (x.raw ? "random patterns" : "mantissa plan"), x.list.size());
    fn.run(x);
    // distinct inputs: enumerated blocks are pairwise disjoint; the random part may repeat enumerated patterns
    // and is therefore not counted as distinct at all (conservative)
    fp::cover_block(x.op, x.n, first_hash, c.enumerated ? x.n : 0);
    if (vf::want_sample(x.op)) {
        if (c.enumerated) {
            char lo[96], hi[96];
            fp::show(lo, sizeof lo, make(x.sign, x.e, x.ranged ? x.lo : (x.list.empty() ? U(0) : x.list.front())));
            fp::show(hi, sizeof hi, make(x.sign, x.e, x.ranged ? x.hi - 1 : (x.list.empty() ? U(0) : x.list.back())));
            vf::sample(x.op, "%s block sign=%d biased-exponent=%u (%s), x from %s to %s: %llu arguments compared with libm, %llu skipped (result not defined by C)",
                x.subject, (int)x.sign, x.e, x.blockcls, lo, hi, (unsigned long long)x.n, (unsigned long long)x.skipped);
        } else {
            char a[96];
            fp::show(a, sizeof a, fp::from_bits<T>(x.list.empty() ? U(0) : x.list[0]));
            vf::sample(x.op, "%s seeded random bit patterns (first: %s): %llu compared with libm, %llu skipped (result not defined by C)",
                x.subject, a, (unsigned long long)x.n, (unsigned long long)x.skipped);
        }
    }
    if (x.maxulp) {
        char a[96];
        fp::show(a, sizeof a, x.maxat);
        note_maxulp(x.subject, x.maxulp, a);
    }
}
} // namespace

VF_MAIN("C16", "C16_unary_" VF_T_NAME, spec, run_case)
