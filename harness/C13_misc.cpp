// C13_misc.cpp - twin tables for C-string functions, integer <-> text conversion and chrono conversions.
// -DC13_GRP=
//   0 cstring searching/comparing  strlen strcmp strncmp strchr strrchr strspn strcspn strpbrk strstr
//   1 cstring writing              strcpy strncpy strcat strncat (digest of the destination buffer)
//   2 to_chars                     int8(all)/int32/int64/uint64 boundary values x bases x buffer sizes
//   3 from_chars / to_integer      string table x bases x {int8, uint8, int32, uint64}
//   4 chrono calendar              sys_days <-> year_month_day, weekday, is_leap, ok(), year_month_day_last
//   5 chrono durations             duration_cast / floor / ceil / round between period pairs, abs
//   6 to_chars / from_chars / to_integer for the remaining signed types (short, long; long long text)
#include "vf.hpp"
#include "vf_contract.hpp"

#include "vf_c13.hpp"

#include <etl/charconv.hpp>
#include <etl/chrono.hpp>
#include <etl/cstring.hpp>
#include <etl/string_view.hpp>
#include <etl/strings.hpp>

#include <climits>

#ifndef C13_GRP
    #define C13_GRP 0
#endif

namespace {
using namespace c13;

// =================================================================== strings
struct SArg {
    char a[6];
    char b[6];
    int n; // count for the strn* functions, character for strchr/strrchr
};
constexpr int slen(char const* s)
{
    int n = 0;
    while (s[n] != 0) { ++n; }
    return n;
}
constexpr char alphabet[] = {'a', 'b', static_cast<char>(0xE9)};
// all strings over the alphabet of length 0..MaxLen
template <int MaxLen>
constexpr auto all_strings()
{
    constexpr int count = MaxLen == 3 ? 40 : MaxLen == 2 ? 13 : 4;
    struct S {
        char s[6];
    };
    std::array<S, count> r{};
    int k = 0;
    for (int len = 0; len <= MaxLen; ++len) {
        int total = 1;
        for (int i = 0; i < len; ++i) { total *= 3; }
        for (int code = 0; code < total; ++code) {
            int c = code;
            for (int i = 0; i < len; ++i) {
                r[k].s[i] = alphabet[c % 3];
                c /= 3;
            }
            ++k;
        }
    }
    return r;
}
// pairs (a, b) with a, b up to length 3, n unused
constexpr auto pair_strings()
{
    constexpr auto ss = all_strings<3>();
    std::array<SArg, ss.size() * ss.size()> r{};
    for (std::size_t i = 0; i < ss.size(); ++i) {
        for (std::size_t j = 0; j < ss.size(); ++j) {
            for (int k = 0; k < 6; ++k) {
                r[i * ss.size() + j].a[k] = ss[i].s[k];
                r[i * ss.size() + j].b[k] = ss[j].s[k];
            }
        }
    }
    return r;
}
// pairs up to length 2 x n in 0..5
constexpr auto pair_strings_n()
{
    constexpr auto ss = all_strings<2>();
    std::array<SArg, ss.size() * ss.size() * 6> r{};
    std::size_t o = 0;
    for (std::size_t i = 0; i < ss.size(); ++i) {
        for (std::size_t j = 0; j < ss.size(); ++j) {
            for (int n = 0; n < 6; ++n) {
                for (int k = 0; k < 6; ++k) {
                    r[o].a[k] = ss[i].s[k];
                    r[o].b[k] = ss[j].s[k];
                }
                r[o].n = n;
                ++o;
            }
        }
    }
    return r;
}
// strings up to length 3 x searched character (int, as passed to strchr)
constexpr int needles[] = {'a', 'b', 0xE9 - 256 /* (char)0xE9 as int */, 0xE9, 0, 'c', 'a' + 256, -1};
constexpr auto string_chars()
{
    constexpr auto ss        = all_strings<3>();
    constexpr std::size_t NN = sizeof needles / sizeof needles[0];
    std::array<SArg, ss.size() * NN> r{};
    for (std::size_t i = 0; i < ss.size(); ++i) {
        for (std::size_t j = 0; j < NN; ++j) {
            for (int k = 0; k < 6; ++k) { r[i * NN + j].a[k] = ss[i].s[k]; }
            r[i * NN + j].n = needles[j];
        }
    }
    return r;
}
#if C13_GRP == 0 || C13_GRP == 1
inline constexpr auto tabSS = pair_strings();
inline constexpr auto tabSN = pair_strings_n();
inline constexpr auto tabSC = string_chars();
#endif

inline std::string show_str(char const* s)
{
    std::string o = "\"";
    for (; *s; ++s) {
        char b[8];
        if ((unsigned char)*s >= 0x80) {
            std::snprintf(b, sizeof b, "\\x%02X", (unsigned char)*s);
            o += b;
        } else {
            o += *s;
        }
    }
    return o + "\"";
}
inline char const* len_class(int n) { return n == 0 ? "empty" : n == 1 ? "len1" : "len>=2"; }
struct ClsSS {
    static char const* sit(SArg const& p)
    {
        static char buf[64];
        int const la = slen(p.a), lb = slen(p.b);
        bool hi = false;
        for (int i = 0; i < la; ++i) { hi |= (unsigned char)p.a[i] >= 0x80; }
        for (int i = 0; i < lb; ++i) { hi |= (unsigned char)p.b[i] >= 0x80; }
        bool const eq  = std::strcmp(p.a, p.b) == 0;
        bool const pre = !eq && (std::strncmp(p.a, p.b, (std::size_t)(la < lb ? la : lb)) == 0);
        std::snprintf(buf, sizeof buf, "a:%s,b:%s,%s%s", len_class(la), len_class(lb), eq ? "equal" : pre ? "one-is-prefix" : "differ",
            hi ? ",has>=0x80" : "");
        return buf;
    }
    static std::string show(SArg const& p) { return show_str(p.a) + ", " + show_str(p.b); }
    static std::uint64_t hash(SArg const& p) { return vf::fnv_bytes(&p, 12); }
    static void const* arg0(SArg const&) { return nullptr; }
};
struct ClsSN {
    static char const* sit(SArg const& p)
    {
        static char buf[80];
        int const la = slen(p.a), lb = slen(p.b);
        int const mn = la < lb ? la : lb;
        std::snprintf(buf, sizeof buf, "a:%s,b:%s,%s", len_class(la), len_class(lb),
            p.n == 0 ? "n=0" : p.n <= mn ? "n<=min-len" : p.n <= (la > lb ? la : lb) ? "n<=max-len" : "n>max-len");
        return buf;
    }
    static std::string show(SArg const& p) { return show_str(p.a) + ", " + show_str(p.b) + ", " + std::to_string(p.n); }
    static std::uint64_t hash(SArg const& p) { return vf::fnv_bytes(&p, sizeof p); }
    static void const* arg0(SArg const&) { return nullptr; }
};
struct ClsSC {
    static char const* sit(SArg const& p)
    {
        static char buf[64];
        bool found = false;
        for (int i = 0; p.a[i]; ++i) { found |= p.a[i] == (char)p.n; }
        char const* cc = p.n == 0 ? "ch=NUL" : (p.n < 0 || p.n > 255) ? "ch-outside-uchar" : p.n >= 0x80 ? "ch>=0x80" : "ch-ascii";
        std::snprintf(buf, sizeof buf, "%s,%s,%s", len_class(slen(p.a)), cc, found ? "present" : "absent");
        return buf;
    }
    static std::string show(SArg const& p) { return show_str(p.a) + ", " + std::to_string(p.n); }
    static std::uint64_t hash(SArg const& p) { return vf::mix(vf::fnv_bytes(p.a, 6), (std::uint64_t)(unsigned)p.n); }
    static void const* arg0(SArg const&) { return nullptr; }
};

constexpr long long off(char const* base, char const* p) { return p == nullptr ? -1 : p - base; }

struct F_strlen {
    static constexpr char const* name = "strlen";
    constexpr auto operator()(SArg const& p) const { return etl::strlen(p.a); }
};
struct F_strcmp {
    static constexpr char const* name = "strcmp";
    constexpr auto operator()(SArg const& p) const { return etl::strcmp(p.a, p.b); }
};
struct F_strncmp {
    static constexpr char const* name = "strncmp";
    constexpr auto operator()(SArg const& p) const { return etl::strncmp(p.a, p.b, static_cast<etl::size_t>(p.n)); }
};
// strncmp on unterminated arrays of exactly n characters: reading the (n+1)-th character is out of bounds, which the
// constant evaluator rejects (not-constant-evaluable) and ASan reports at run time
template <int N>
constexpr int strncmp_exact(SArg const& p)
{
    char xa[N ? N : 1]{};
    char xb[N ? N : 1]{};
    for (int i = 0; i < N; ++i) {
        xa[i] = p.a[i];
        xb[i] = p.b[i];
    }
    return etl::strncmp(xa, xb, static_cast<etl::size_t>(N));
}
struct F_strncmp_exact {
    static constexpr char const* name = "strncmp[unterminated arrays of exactly n chars]";
    constexpr auto operator()(SArg const& p) const
    {
        int const la = slen(p.a), lb = slen(p.b);
        int n        = p.n < la ? p.n : la;
        n            = n < lb ? n : lb;
        switch (n) {
        case 0: return strncmp_exact<0>(p);
        case 1: return strncmp_exact<1>(p);
        case 2: return strncmp_exact<2>(p);
        default: return strncmp_exact<3>(p);
        }
    }
};
struct F_strchr {
    static constexpr char const* name = "strchr";
    constexpr auto operator()(SArg const& p) const { return off(p.a, etl::strchr(p.a, p.n)); }
};
struct F_strrchr {
    static constexpr char const* name = "strrchr";
    constexpr auto operator()(SArg const& p) const { return off(p.a, etl::strrchr(p.a, p.n)); }
};
struct F_strspn {
    static constexpr char const* name = "strspn";
    constexpr auto operator()(SArg const& p) const { return etl::strspn(p.a, p.b); }
};
struct F_strcspn {
    static constexpr char const* name = "strcspn";
    constexpr auto operator()(SArg const& p) const { return etl::strcspn(p.a, p.b); }
};
struct F_strpbrk {
    static constexpr char const* name = "strpbrk";
    constexpr auto operator()(SArg const& p) const { return off(p.a, etl::strpbrk(p.a, p.b)); }
};
struct F_strstr {
    static constexpr char const* name = "strstr";
    constexpr auto operator()(SArg const& p) const { return off(p.a, etl::strstr(p.a, p.b)); }
};

// writing functions: destination of 12 bytes pre-filled with 0x7E; digest = the 12 bytes + returned offset
constexpr Digest<3> buf_digest(char const* d, long long ret)
{
    Digest<3> r{};
    for (int i = 0; i < 12; ++i) { r.w[i / 8] |= static_cast<std::uint64_t>(static_cast<unsigned char>(d[i])) << (8 * (i % 8)); }
    r.w[2] = static_cast<std::uint64_t>(ret);
    return r;
}
struct F_strcpy {
    static constexpr char const* name = "strcpy";
    constexpr auto operator()(SArg const& p) const
    {
        char d[12] = {0x7E, 0x7E, 0x7E, 0x7E, 0x7E, 0x7E, 0x7E, 0x7E, 0x7E, 0x7E, 0x7E, 0x7E};
        auto* r    = etl::strcpy(d, p.a);
        return buf_digest(d, r - d);
    }
};
struct F_strncpy {
    static constexpr char const* name = "strncpy";
    constexpr auto operator()(SArg const& p) const
    {
        char d[12] = {0x7E, 0x7E, 0x7E, 0x7E, 0x7E, 0x7E, 0x7E, 0x7E, 0x7E, 0x7E, 0x7E, 0x7E};
        auto* r    = etl::strncpy(d, p.a, static_cast<etl::size_t>(p.n));
        return buf_digest(d, r - d);
    }
};
struct F_strcat {
    static constexpr char const* name = "strcat";
    constexpr auto operator()(SArg const& p) const
    {
        char d[12] = {0x7E, 0x7E, 0x7E, 0x7E, 0x7E, 0x7E, 0x7E, 0x7E, 0x7E, 0x7E, 0x7E, 0x7E};
        int i      = 0;
        for (; p.a[i]; ++i) { d[i] = p.a[i]; }
        d[i]    = 0;
        auto* r = etl::strcat(d, p.b);
        return buf_digest(d, r - d);
    }
};
struct F_strncat {
    static constexpr char const* name = "strncat";
    constexpr auto operator()(SArg const& p) const
    {
        char d[12] = {0x7E, 0x7E, 0x7E, 0x7E, 0x7E, 0x7E, 0x7E, 0x7E, 0x7E, 0x7E, 0x7E, 0x7E};
        int i      = 0;
        for (; p.a[i]; ++i) { d[i] = p.a[i]; }
        d[i]    = 0;
        auto* r = etl::strncat(d, p.b, static_cast<etl::size_t>(p.n));
        return buf_digest(d, r - d);
    }
};

// =================================================================== to_chars
template <typename I>
struct TCArg {
    I v;
    int base;
    int cap; // buffer size handed to to_chars
};
template <typename I>
constexpr int chars_needed(I v, int base)
{
    int n = 0;
    using UL = unsigned long long;
    UL m = v < 0 ? UL(0) - static_cast<UL>(static_cast<long long>(v)) : static_cast<UL>(v);
    if (v < 0) { ++n; }
    do {
        ++n;
        m /= static_cast<UL>(base);
    } while (m != 0);
    return n;
}
template <typename I, std::size_t CAP>
struct VBag {
    I v[CAP]{};
    std::size_t n = 0;
    constexpr void add(I x)
    {
        for (std::size_t i = 0; i < n; ++i) {
            if (v[i] == x) { return; }
        }
        v[n++] = x;
    }
};
template <typename I>
constexpr auto conv_values()
{
    using L = std::numeric_limits<I>;
    VBag<I, 400> b;
    if constexpr (sizeof(I) == 1) {
        for (int i = L::min(); i <= L::max(); ++i) { b.add(static_cast<I>(i)); }
    } else {
        b.add(0);
        b.add(L::min());
        b.add(static_cast<I>(L::min() + 1));
        b.add(L::max());
        b.add(static_cast<I>(L::max() - 1));
        for (int k = 0; k < L::digits; k += (k < 10 ? 1 : 3)) {
            I const p = static_cast<I>(I{1} << k);
            b.add(p);
            b.add(static_cast<I>(p - 1));
            if constexpr (std::is_signed_v<I>) {
                b.add(static_cast<I>(-p));
                b.add(static_cast<I>(-p + 1));
            }
        }
        I t = 1;
        for (int k = 0; k < L::digits10; ++k) {
            t = static_cast<I>(t * 10);
            b.add(t);
            b.add(static_cast<I>(t - 1));
            b.add(static_cast<I>(t + 1));
            if constexpr (std::is_signed_v<I>) {
                b.add(static_cast<I>(-t));
                b.add(static_cast<I>(-t + 1));
            }
        }
    }
    return b;
}
constexpr int bases[] = {2, 8, 10, 16, 36};
template <typename I>
constexpr auto to_chars_table()
{
    constexpr auto vb = conv_values<I>();
    std::array<TCArg<I>, vb.n * 5 * 5> r{};
    std::size_t o = 0;
    for (std::size_t i = 0; i < vb.n; ++i) {
        for (int base : bases) {
            int const need   = chars_needed(vb.v[i], base);
            int const caps[] = {0, need - 1, need, need + 1, 70};
            for (int cap : caps) { r[o++] = TCArg<I>{vb.v[i], base, cap}; }
        }
    }
    return r;
}
template <typename I>
struct ClsTC {
    static char const* sit(TCArg<I> const& p)
    {
        static char buf[64];
        int const need = chars_needed(p.v, p.base);
        char const* vc = p.v == 0 ? "0" : p.v == std::numeric_limits<I>::min() && std::is_signed_v<I> ? "min" : p.v == std::numeric_limits<I>::max() ? "max"
                       : p.v < 0                                                                         ? "neg"
                                                                                                         : "pos";
        char const* cc = p.cap == 0 ? "cap=0" : p.cap < need ? "cap=need-1" : p.cap == need ? "cap=need" : p.cap == need + 1 ? "cap=need+1" : "cap=large";
        std::snprintf(buf, sizeof buf, "%s,base=%d,%s", vc, p.base, cc);
        return buf;
    }
    static std::string show(TCArg<I> const& p)
    {
        return (std::is_signed_v<I> ? std::to_string((long long)p.v) : std::to_string((unsigned long long)p.v)) + ", base " + std::to_string(p.base)
             + ", cap " + std::to_string(p.cap);
    }
    static std::uint64_t hash(TCArg<I> const& p) { return vf::mix(vf::mix((std::uint64_t)p.v, (std::uint64_t)p.base), (std::uint64_t)p.cap); }
    static void const* arg0(TCArg<I> const&) { return nullptr; }
};
constexpr std::uint64_t fnv_c(char const* p, int n)
{
    std::uint64_t h = 1469598103934665603ull;
    for (int i = 0; i < n; ++i) { h = (h ^ static_cast<unsigned char>(p[i])) * 1099511628211ull; }
    return h;
}
template <typename I>
struct F_to_chars {
    static constexpr char const* name = "to_chars";
    constexpr auto operator()(TCArg<I> const& p) const
    {
        char buf[72]{};
        for (auto& c : buf) { c = 0x7E; }
        auto const r = etl::to_chars(buf, buf + p.cap, p.v, p.base);
        // ec, offset of ptr, hash of the WHOLE buffer (bytes past the result must stay 0x7E)
        return Digest<3>{{static_cast<std::uint64_t>(static_cast<int>(r.ec)), static_cast<std::uint64_t>(r.ptr - buf), fnv_c(buf, 72)}};
    }
};

// =================================================================== from_chars / to_integer
struct FCArg {
    char s[24];
    int len;
    int base;
};
constexpr char const* const fc_strings[] = {"", "0", "-0", "+0", "1", "-1", "+1", "7", "9", "12", "-12", "+12", "127", "128", "-128", "-129", "255", "256",
    "-255", "-256", "32767", "32768", "-32768", "65535", "65536", "2147483647", "2147483648", "-2147483648", "-2147483649", "4294967295",
    "4294967296", "9223372036854775807", "9223372036854775808", "-9223372036854775808", "-9223372036854775809", "18446744073709551615",
    "18446744073709551616", "99999999999999999999", "000", "007", "0008", "-007", "00000000000000000000001", "a", "f", "z", "A", "F", "Z", "ff",
    "FF", "fF", "-ff", "7f", "80", "-80", "zz", "ZZ", "1z", "g", "1g", "0x10", "0X10", "0b1", "x", "-", "+", "--1", "-+1", "+-1", "++1", " 1", "1 ",
    "\t1", "1\n", "1.5", "1e3", "12a", "12 34", "1_000", "1,000", "-a", "- 1", "1111111", "11111111", "111111111", "-10000000", "-10000001", "377",
    "400", "-200", "-201", "3w", "3x", "-3k", "-3l", "1y2p0ij32e8e7", "3w5e11264sgsf", "3w5e11264sgsg", "zzzzzzzzzzzzz",
    "1111111111111111111111111111111", "11111111111111111111111111111111", "111111111111111111111111111111111"};
constexpr auto from_chars_table()
{
    constexpr std::size_t NS = sizeof fc_strings / sizeof fc_strings[0];
    std::array<FCArg, NS * 5> r{};
    std::size_t o = 0;
    for (std::size_t i = 0; i < NS; ++i) {
        for (int base : bases) {
            FCArg a{};
            int n = 0;
            // the longest strings are truncated to the 23 characters the argument holds (still an overflow candidate)
            for (; fc_strings[i][n] != 0 && n < 23; ++n) { a.s[n] = fc_strings[i][n]; }
            a.len  = n;
            a.base = base;
            r[o++] = a;
        }
    }
    return r;
}
constexpr int digit_of(char c)
{
    if (c >= '0' && c <= '9') { return c - '0'; }
    if (c >= 'a' && c <= 'z') { return c - 'a' + 10; }
    if (c >= 'A' && c <= 'Z') { return c - 'A' + 10; }
    return 99;
}
template <typename I>
struct ClsFC {
    static char const* sit(FCArg const& p)
    {
        static char buf[96];
        char const* lead = p.len == 0 ? "empty" : p.s[0] == '-' ? "minus" : p.s[0] == '+' ? "plus" : (p.s[0] == ' ' || p.s[0] == '\t') ? "space"
                         : digit_of(p.s[0]) < p.base                                                                                  ? "digit"
                                                                                                                                      : "non-digit";
        int i            = (p.len > 0 && (p.s[0] == '-' || p.s[0] == '+')) ? 1 : 0;
        bool const neg   = p.len > 0 && p.s[0] == '-';
        int nd           = 0;
        __int128 v       = 0;
        bool huge        = false;
        for (; i < p.len && digit_of(p.s[i]) < p.base; ++i, ++nd) {
            v = v * p.base + digit_of(p.s[i]);
            if (v > ((__int128)1 << 100)) { huge = true; v = (__int128)1 << 100; }
        }
        char const* body = nd == 0 ? "no-digits" : i == p.len ? "all-digits" : "digits-then-junk";
        if (neg) { v = -v; }
        char const* fit = nd == 0 ? "n/a" : (huge || v > (__int128)std::numeric_limits<I>::max() || v < (__int128)std::numeric_limits<I>::min())
                                          ? (neg ? "below-min" : "above-max")
                                          : (v == (__int128)std::numeric_limits<I>::max() ? "=max" : (neg && v == (__int128)std::numeric_limits<I>::min()) ? "=min" : "fits");
        std::snprintf(buf, sizeof buf, "lead:%s,%s,%s,base=%d", lead, body, fit, p.base);
        return buf;
    }
    static std::string show(FCArg const& p) { return show_str(p.s) + ", base " + std::to_string(p.base); }
    static std::uint64_t hash(FCArg const& p) { return vf::mix(vf::fnv_bytes(p.s, 24), (std::uint64_t)p.base); }
    static void const* arg0(FCArg const&) { return nullptr; }
};
template <typename I>
struct F_from_chars {
    static constexpr char const* name = "from_chars";
    constexpr auto operator()(FCArg const& p) const
    {
        I v          = static_cast<I>(77);
        auto const r = etl::from_chars(p.s, p.s + p.len, v, p.base);
        return Digest<3>{{static_cast<std::uint64_t>(static_cast<int>(r.ec)), static_cast<std::uint64_t>(r.ptr - p.s),
            static_cast<std::uint64_t>(static_cast<long long>(v))}};
    }
};
template <typename I>
struct F_to_integer {
    static constexpr char const* name = "strings::to_integer";
    constexpr auto operator()(FCArg const& p) const
    {
        auto const r = etl::strings::to_integer<I>(etl::string_view{p.s, static_cast<etl::size_t>(p.len)}, static_cast<I>(p.base));
        return Digest<3>{{static_cast<std::uint64_t>(static_cast<int>(r.error)), static_cast<std::uint64_t>(r.end - p.s),
            static_cast<std::uint64_t>(static_cast<long long>(r.value))}};
    }
};

#if C13_GRP == 2
inline constexpr auto tabTC8  = to_chars_table<signed char>();
inline constexpr auto tabTCu8 = to_chars_table<unsigned char>();
inline constexpr auto tabTC32 = to_chars_table<int>();
inline constexpr auto tabTC64 = to_chars_table<long long>();
inline constexpr auto tabTCu64 = to_chars_table<unsigned long long>();
#endif
#if C13_GRP == 3 || C13_GRP == 6
inline constexpr auto tabFC = from_chars_table();
#endif
#if C13_GRP == 6
// the remaining signed types (minimum / maximum of short and long in value and text form)
inline constexpr auto tabTC16  = to_chars_table<short>();
inline constexpr auto tabTCl   = to_chars_table<long>();
inline constexpr auto tabTCu16 = to_chars_table<unsigned short>();
#endif

// =================================================================== chrono
namespace ch = etl::chrono;
struct DArg {
    int days;
};
struct YArg {
    int y;
    unsigned m;
    unsigned d;
};
struct NArg {
    long long n;
};
// harness-side civil arithmetic (Howard Hinnant's algorithms), only used to build the tables and the labels
constexpr int h_days_from_civil(int y, unsigned m, unsigned d)
{
    y -= m <= 2;
    int const era      = (y >= 0 ? y : y - 399) / 400;
    unsigned const yoe = static_cast<unsigned>(y - era * 400);
    unsigned const doy = (153 * (m > 2 ? m - 3 : m + 9) + 2) / 5 + d - 1;
    unsigned const doe = yoe * 365 + yoe / 4 - yoe / 100 + doy;
    return era * 146097 + static_cast<int>(doe) - 719468;
}
constexpr bool h_leap(int y) { return y % 4 == 0 && (y % 100 != 0 || y % 400 == 0); }
constexpr unsigned h_last(int y, unsigned m)
{
    constexpr unsigned char t[] = {31, 28, 31, 30, 31, 30, 31, 31, 30, 31, 30, 31};
    return m == 2 && h_leap(y) ? 29U : t[m - 1];
}
constexpr int cal_years[] = {-32767, -32766, -401, -400, -399, -101, -100, -99, -5, -4, -3, -1, 0, 1, 3, 4, 5, 99, 100, 101, 399, 400, 401, 1599, 1600,
    1601, 1899, 1900, 1901, 1969, 1970, 1971, 1999, 2000, 2001, 2023, 2024, 2025, 2099, 2100, 2101, 2399, 2400, 2401, 32766, 32767};
constexpr auto days_table()
{
    VBag<int, 900> b;
    for (int y : cal_years) {
        b.add(h_days_from_civil(y, 1, 1));
        b.add(h_days_from_civil(y, 2, 28));
        b.add(h_days_from_civil(y, 2, h_last(y, 2)));
        b.add(h_days_from_civil(y, 3, 1));
        b.add(h_days_from_civil(y, 12, 31));
        b.add(h_days_from_civil(y, 7, 4));
    }
    for (int k = -3; k <= 6; ++k) {
        b.add(-719468 + k * 146097 - 1);
        b.add(-719468 + k * 146097);
        b.add(-719468 + k * 146097 + 1);
    }
    for (int d = -8; d <= 8; ++d) { b.add(d); }
    std::array<DArg, 900> r{};
    for (std::size_t i = 0; i < b.n; ++i) { r[i].days = b.v[i]; }
    return std::pair{r, b.n};
}
constexpr auto days_pair = days_table();
constexpr auto days_final()
{
    std::array<DArg, days_pair.second> r{};
    for (std::size_t i = 0; i < r.size(); ++i) { r[i] = days_pair.first[i]; }
    return r;
}
constexpr auto ymd_valid_table()
{
    constexpr std::size_t NY = sizeof cal_years / sizeof cal_years[0];
    std::array<YArg, NY * 12 * 3> r{};
    std::size_t o = 0;
    for (int y : cal_years) {
        for (unsigned m = 1; m <= 12; ++m) {
            r[o++] = YArg{y, m, 1};
            r[o++] = YArg{y, m, 15};
            r[o++] = YArg{y, m, h_last(y, m)};
        }
    }
    return r;
}
constexpr auto ymd_any_table()
{
    constexpr int ys[]      = {-32767, -1, 0, 1900, 2000, 2023, 2024, 32767};
    constexpr unsigned ds[] = {0, 1, 28, 29, 30, 31, 32, 99};
    std::array<YArg, 8 * 14 * 8> r{};
    std::size_t o = 0;
    for (int y : ys) {
        for (unsigned m = 0; m <= 13; ++m) {
            for (unsigned d : ds) { r[o++] = YArg{y, m, d}; }
        }
    }
    return r;
}
constexpr auto ticks_table()
{
    VBag<long long, 200> b;
    long long const vs[] = {0, 1, 2, 499, 500, 501, 999, 1000, 1001, 1499, 1500, 1501, 2499, 2500, 2501, 3500, 29999, 30000, 30001, 59999, 60000, 60001, 89999,
        90000, 90001, 150000, 3599999, 3600000, 86399999, 86400000, 2147483647LL, 2147483648LL, 2147483647000LL, 2147483647500LL, 128849018879999LL,
        9007199254740993LL, 9223372036854775LL, 9223372036854775807LL / 1000 * 1000, 9223372036854775807LL - 1, 9223372036854775807LL};
    for (auto v : vs) {
        b.add(v);
        b.add(-v);
    }
    b.add(LLONG_MIN);
    b.add(LLONG_MIN + 1);
    std::array<NArg, 200> r{};
    for (std::size_t i = 0; i < b.n; ++i) { r[i].n = b.v[i]; }
    return std::pair{r, b.n};
}
constexpr auto ticks_pair = ticks_table();
constexpr auto ticks_final()
{
    std::array<NArg, ticks_pair.second> r{};
    for (std::size_t i = 0; i < r.size(); ++i) { r[i] = ticks_pair.first[i]; }
    return r;
}
#if C13_GRP == 4
inline constexpr auto tabDays = days_final();
inline constexpr auto tabYMD   = ymd_valid_table();
inline constexpr auto tabYMDx  = ymd_any_table();
#endif
#if C13_GRP == 5
inline constexpr auto tabTicks = ticks_final();
#endif

struct ClsD {
    static char const* sit(DArg const& p)
    {
        int const z = p.days;
        if (z == 0) { return "epoch"; }
        int const r = ((z + 719468) % 146097 + 146097) % 146097;
        if (r == 0 || r == 146096 || r == 1) { return z < 0 ? "era-boundary,before-epoch" : "era-boundary,after-epoch"; }
        if (z < -719468) { return "before-0000-03-01"; }
        return z < 0 ? "before-epoch" : "after-epoch";
    }
    static std::string show(DArg const& p) { return std::to_string(p.days) + " days"; }
    static std::uint64_t hash(DArg const& p) { return vf::mix(0xda, (std::uint64_t)(unsigned)p.days); }
    static void const* arg0(DArg const&) { return nullptr; }
};
struct ClsY {
    static char const* sit(YArg const& p)
    {
        static char buf[80];
        bool const okm = p.m >= 1 && p.m <= 12;
        char const* dc = !okm ? "month-invalid" : p.d == 0 ? "day=0" : p.d > h_last(p.y, p.m) ? "day>last" : p.d == h_last(p.y, p.m) ? "day=last" : "day<last";
        std::snprintf(buf, sizeof buf, "%s,%s,%s%s", p.y < 0 ? "year<0" : p.y == 0 ? "year=0" : "year>0", h_leap(p.y) ? "leap" : "common", dc,
            okm && p.m <= 2 ? ",jan-feb" : "");
        return buf;
    }
    static std::string show(YArg const& p) { return std::to_string(p.y) + "-" + std::to_string(p.m) + "-" + std::to_string(p.d); }
    static std::uint64_t hash(YArg const& p) { return vf::mix(vf::mix((std::uint64_t)(unsigned)p.y, p.m), p.d); }
    static void const* arg0(YArg const&) { return nullptr; }
};
struct ClsN {
    static char const* sit(NArg const& p)
    {
        static char buf[64];
        long long const n = p.n;
        long long const r = n % 1000;
        char const* rc    = r == 0 ? "multiple-of-1000" : (r == 500 || r == -500) ? "tie-at-1000" : (r > 0 ? (r < 500 ? "below-half" : "above-half") : (r > -500 ? "below-half" : "above-half"));
        std::snprintf(buf, sizeof buf, "%s,%s", n == 0 ? "zero" : n == LLONG_MIN ? "min" : n == LLONG_MAX ? "max" : n < 0 ? "neg" : "pos", rc);
        return buf;
    }
    static std::string show(NArg const& p) { return std::to_string(p.n); }
    static std::uint64_t hash(NArg const& p) { return vf::mix(0x7c, (std::uint64_t)p.n); }
    static void const* arg0(NArg const&) { return nullptr; }
};

constexpr long long pack_ymd(ch::year_month_day const& ymd)
{
    return (static_cast<long long>(static_cast<int>(ymd.year())) + 40000) * 100000 + static_cast<long long>(static_cast<unsigned>(ymd.month())) * 1000
         + static_cast<long long>(static_cast<unsigned>(ymd.day()));
}
struct F_civil_from_days {
    static constexpr char const* name = "year_month_day(sys_days)";
    constexpr auto operator()(DArg const& p) const { return pack_ymd(ch::year_month_day{ch::sys_days{ch::days{p.days}}}); }
};
struct F_weekday {
    static constexpr char const* name = "weekday(sys_days)";
    constexpr auto operator()(DArg const& p) const { return ch::weekday{ch::sys_days{ch::days{p.days}}}.c_encoding(); }
};
struct F_days_from_civil {
    static constexpr char const* name = "sys_days(year_month_day)";
    constexpr auto operator()(YArg const& p) const
    {
        auto const ymd = ch::year_month_day{ch::year{p.y}, ch::month{p.m}, ch::day{p.d}};
        return static_cast<long long>(static_cast<ch::sys_days>(ymd).time_since_epoch().count());
    }
};
struct F_ymd_ok {
    static constexpr char const* name = "year_month_day::ok";
    constexpr auto operator()(YArg const& p) const { return ch::year_month_day{ch::year{p.y}, ch::month{p.m}, ch::day{p.d}}.ok(); }
};
struct F_is_leap {
    static constexpr char const* name = "year::is_leap";
    constexpr auto operator()(YArg const& p) const { return ch::year{p.y}.is_leap(); }
};
struct F_ymd_last {
    static constexpr char const* name = "year_month_day_last::day";
    static bool in_domain(YArg const& p) { return p.m >= 1 && p.m <= 12; }
    constexpr auto operator()(YArg const& p) const
    {
        return static_cast<unsigned>(ch::year_month_day_last{ch::year{p.y}, ch::month_day_last{ch::month{p.m}}}.day());
    }
};
struct F_roundtrip {
    static constexpr char const* name = "sys_days(year_month_day(sys_days))";
    constexpr auto operator()(DArg const& p) const
    {
        auto const ymd = ch::year_month_day{ch::sys_days{ch::days{p.days}}};
        return static_cast<long long>(static_cast<ch::sys_days>(ymd).time_since_epoch().count());
    }
};

using third = ch::duration<long long, etl::ratio<1, 3>>;
inline bool fits32(long long v) { return v >= INT_MIN && v <= INT_MAX; }
#define DUR(ID, NAME, EXPR, DOMAIN)                                                                                     \
    struct ID {                                                                                                        \
        static constexpr char const* name = NAME;                                                                      \
        static bool in_domain(NArg const& p)                                                                           \
        {                                                                                                              \
            [[maybe_unused]] long long const n = p.n;                                                                  \
            return DOMAIN;                                                                                             \
        }                                                                                                              \
        constexpr auto operator()(NArg const& p) const { return static_cast<long long>((EXPR).count()); }              \
    };
// domains: every intermediate of the *specified* computation is representable ([time.duration.cast]: the
// multiplication/division happens in the common type of the reps and intmax_t; ceil/round add one tick)
DUR(F_cast_ms_s, "duration_cast<seconds>(milliseconds)", ch::duration_cast<ch::seconds>(ch::milliseconds{p.n}), true)
DUR(F_floor_ms_s, "floor<seconds>(milliseconds)", ch::floor<ch::seconds>(ch::milliseconds{p.n}), n > LLONG_MIN + 1000)
DUR(F_ceil_ms_s, "ceil<seconds>(milliseconds)", ch::ceil<ch::seconds>(ch::milliseconds{p.n}), n < LLONG_MAX - 1000)
DUR(F_round_ms_s, "round<seconds>(milliseconds)", ch::round<ch::seconds>(ch::milliseconds{p.n}), n > LLONG_MIN + 2000 && n < LLONG_MAX - 2000)
DUR(F_cast_s_ms, "duration_cast<milliseconds>(seconds)", ch::duration_cast<ch::milliseconds>(ch::seconds{p.n}), n >= LLONG_MIN / 1000 && n <= LLONG_MAX / 1000)
DUR(F_cast_ms_min, "duration_cast<minutes>(milliseconds)", ch::duration_cast<ch::minutes>(ch::milliseconds{p.n}), fits32(n / 60000))
DUR(F_floor_ms_min, "floor<minutes>(milliseconds)", ch::floor<ch::minutes>(ch::milliseconds{p.n}), fits32(n / 60000 - 1) && fits32(n / 60000 + 1))
DUR(F_round_ms_min, "round<minutes>(milliseconds)", ch::round<ch::minutes>(ch::milliseconds{p.n}), fits32(n / 60000 - 2) && fits32(n / 60000 + 2))
DUR(F_cast_ms_third, "duration_cast<duration<ratio<1,3>>>(milliseconds)", ch::duration_cast<third>(ch::milliseconds{p.n}), n >= LLONG_MIN / 3 && n <= LLONG_MAX / 3)
DUR(F_round_third_s, "round<seconds>(duration<ratio<1,3>>)", ch::round<ch::seconds>(third{p.n}), n > LLONG_MIN + 6 && n < LLONG_MAX - 6)
DUR(F_abs_ms, "abs(milliseconds)", ch::abs(ch::milliseconds{p.n}), n != LLONG_MIN)

// =================================================================== registry
#define EN(SUBJ, F, TAB, CLS) make_entry<F, TAB, CLS, 128>(SUBJ)

std::vector<Entry> const& entries()
{
    static std::vector<Entry> const es = {
#if C13_GRP == 0
    EN("strlen", F_strlen, tabSS, ClsSS),
    EN("strcmp", F_strcmp, tabSS, ClsSS),
    EN("strncmp", F_strncmp, tabSN, ClsSN),
    EN("strncmp[exact]", F_strncmp_exact, tabSN, ClsSN),
    EN("strchr", F_strchr, tabSC, ClsSC),
    EN("strrchr", F_strrchr, tabSC, ClsSC),
    EN("strspn", F_strspn, tabSS, ClsSS),
    EN("strcspn", F_strcspn, tabSS, ClsSS),
    EN("strpbrk", F_strpbrk, tabSS, ClsSS),
    EN("strstr", F_strstr, tabSS, ClsSS),
#elif C13_GRP == 1
    EN("strcpy", F_strcpy, tabSS, ClsSS),
    EN("strncpy", F_strncpy, tabSN, ClsSN),
    EN("strcat", F_strcat, tabSS, ClsSS),
    EN("strncat", F_strncat, tabSN, ClsSN),
#elif C13_GRP == 2
    EN("to_chars<int8>", F_to_chars<signed char>, tabTC8, ClsTC<signed char>),
    EN("to_chars<uint8>", F_to_chars<unsigned char>, tabTCu8, ClsTC<unsigned char>),
    EN("to_chars<int32>", F_to_chars<int>, tabTC32, ClsTC<int>),
    EN("to_chars<int64>", F_to_chars<long long>, tabTC64, ClsTC<long long>),
    EN("to_chars<uint64>", F_to_chars<unsigned long long>, tabTCu64, ClsTC<unsigned long long>),
#elif C13_GRP == 3
    EN("from_chars<int8>", F_from_chars<signed char>, tabFC, ClsFC<signed char>),
    EN("from_chars<uint8>", F_from_chars<unsigned char>, tabFC, ClsFC<unsigned char>),
    EN("from_chars<int32>", F_from_chars<int>, tabFC, ClsFC<int>),
    EN("from_chars<uint64>", F_from_chars<unsigned long long>, tabFC, ClsFC<unsigned long long>),
    EN("strings::to_integer<int8>", F_to_integer<signed char>, tabFC, ClsFC<signed char>),
    EN("strings::to_integer<int32>", F_to_integer<int>, tabFC, ClsFC<int>),
    EN("strings::to_integer<uint64>", F_to_integer<unsigned long long>, tabFC, ClsFC<unsigned long long>),
#elif C13_GRP == 6
    EN("to_chars<int16>", F_to_chars<short>, tabTC16, ClsTC<short>),
    EN("to_chars<long>", F_to_chars<long>, tabTCl, ClsTC<long>),
    EN("to_chars<uint16>", F_to_chars<unsigned short>, tabTCu16, ClsTC<unsigned short>),
    EN("from_chars<int16>", F_from_chars<short>, tabFC, ClsFC<short>),
    EN("from_chars<long>", F_from_chars<long>, tabFC, ClsFC<long>),
    EN("from_chars<int64>", F_from_chars<long long>, tabFC, ClsFC<long long>),
    EN("from_chars<uint16>", F_from_chars<unsigned short>, tabFC, ClsFC<unsigned short>),
    EN("strings::to_integer<int16>", F_to_integer<short>, tabFC, ClsFC<short>),
    EN("strings::to_integer<int64>", F_to_integer<long long>, tabFC, ClsFC<long long>),
#elif C13_GRP == 4
    EN("chrono::year_month_day(sys_days)", F_civil_from_days, tabDays, ClsD),
    EN("chrono::weekday(sys_days)", F_weekday, tabDays, ClsD),
    EN("chrono::sys_days(ymd(sys_days))", F_roundtrip, tabDays, ClsD),
    EN("chrono::sys_days(year_month_day)", F_days_from_civil, tabYMD, ClsY),
    EN("chrono::year_month_day::ok", F_ymd_ok, tabYMDx, ClsY),
    EN("chrono::year::is_leap", F_is_leap, tabYMD, ClsY),
    EN("chrono::year_month_day_last::day", F_ymd_last, tabYMD, ClsY),
#elif C13_GRP == 5
    EN("chrono::duration_cast<s>(ms)", F_cast_ms_s, tabTicks, ClsN),
    EN("chrono::floor<s>(ms)", F_floor_ms_s, tabTicks, ClsN),
    EN("chrono::ceil<s>(ms)", F_ceil_ms_s, tabTicks, ClsN),
    EN("chrono::round<s>(ms)", F_round_ms_s, tabTicks, ClsN),
    EN("chrono::duration_cast<ms>(s)", F_cast_s_ms, tabTicks, ClsN),
    EN("chrono::duration_cast<min>(ms)", F_cast_ms_min, tabTicks, ClsN),
    EN("chrono::floor<min>(ms)", F_floor_ms_min, tabTicks, ClsN),
    EN("chrono::round<min>(ms)", F_round_ms_min, tabTicks, ClsN),
    EN("chrono::duration_cast<1/3s>(ms)", F_cast_ms_third, tabTicks, ClsN),
    EN("chrono::round<s>(1/3s)", F_round_third_s, tabTicks, ClsN),
    EN("chrono::abs(ms)", F_abs_ms, tabTicks, ClsN),
#endif
};
    return es;
}

vf::Spec spec(vf::Tier)
{
    vf::Spec s;
    s.n_enum     = total_cases(entries());
    s.n_random   = 0;
    s.batch      = 1;
    s.exhaustive = true;
    return s;
}
void run_case(vf::Case& c) { run_case_index(entries(), c.index); }

} // namespace

VF_MAIN("C13", "C13_misc", spec, run_case)
