// C07 - etl::optional<T&> (P2988) behaves like the model "a pointer that is null or points at the bound object":
// rebinding assignment, emplace, reset, swap, copies, converting construction from optional<U&> / optional<U>,
// the six relations (value based, as for optional<T>) against optional<T&>, optional<T>, nullopt and plain values.
// libstdc++ 12 has no std::optional<T&>; the reference for the relations is std::optional<V> built from the model pointer.
#include "vf.hpp"
#include "vf_contract.hpp"
#include "vf_tracked.hpp"

#include "vf_c07.hpp"

namespace {
using namespace c07;

struct DTCM : TCM {
    using TCM::TCM;
};

template <typename T>
struct RTraits;
template <>
struct RTraits<int> {
    using value = int;
    using alt   = void; // no other optional<U&> converts to optional<int&>
    static constexpr char const* name = "optional<int&>";
    static constexpr bool writable    = true;
};
template <>
struct RTraits<int const> {
    using value = int;
    using alt   = int; // optional<int&> -> optional<int const&>
    static constexpr char const* name = "optional<int const&>";
    static constexpr bool writable    = false;
};
template <>
struct RTraits<TCM> {
    using value = TCM;
    using alt   = DTCM; // optional<Derived&> -> optional<Base&>
    static constexpr char const* name = "optional<tracked-cm&>";
    static constexpr bool writable    = true;
};

enum Op : unsigned {
    rEmplace,
    rReset,
    rAssignNullopt,
    rAssignLvalue,
    rAssignOptConst,
    rAssignOptRv,
    rSelfAssign,
    rSwapMember,
    rSwapAdl,
    rSwapSelf,
    rCopyCtor,
    rMoveCtor,
    rCtorFromAltRef,
    rCtorFromValueOpt,
    rWriteThrough,
    rRelOptRef,
    rRelValueOpt,
    rRelNullopt,
    rRelValue,
    kOpCount
};
constexpr OpInfo info(Op op)
{
    switch (op) {
    case rEmplace: return {"emplace(T&)", aY | aM};
    case rReset: return {"reset()", aM};
    case rAssignNullopt: return {"operator=(nullopt)", aM};
    case rAssignLvalue: return {"operator=(T&) rebind", aY | aM};
    case rAssignOptConst: return {"operator=(optional const&)", aY | aM};
    case rAssignOptRv: return {"operator=(optional&&)", aY | aM};
    case rSelfAssign: return {"operator=(self const&)", aM};
    case rSwapMember: return {"swap(other)", aY | aM};
    case rSwapAdl: return {"swap(a,b)", aY | aM};
    case rSwapSelf: return {"swap(self)", aM};
    case rCopyCtor: return {"ctor(optional const&)", 0};
    case rMoveCtor: return {"ctor(optional&&)", aM};
    case rCtorFromAltRef: return {"ctor(optional<U&> const&)", aY};
    case rCtorFromValueOpt: return {"ctor(optional<U> const&) binds contained value", aY};
    case rWriteThrough: return {"*opt = v (write through)", aV | aM};
    case rRelOptRef: return {"relational(optional<T&>,optional<T&>)", aY};
    case rRelValueOpt: return {"relational(optional<T&>,optional<T>)", aY};
    case rRelNullopt: return {"relational(optional<T&>,nullopt)", 0};
    case rRelValue: return {"relational(optional<T&>,value)", aV};
    default: return {"?", 0};
    }
}
template <typename T>
constexpr bool applicable(Op op)
{
    switch (op) {
    case rCtorFromAltRef: return !std::is_void_v<typename RTraits<T>::alt>;
    case rCtorFromValueOpt: return std::is_const_v<T> && std::is_same_v<std::remove_const_t<T>, int>;
    case rWriteThrough: return RTraits<T>::writable;
    case kOpCount: return false;
    default: return true;
    }
}

constexpr int kTargets           = 4;
constexpr int kTargetValue[4]    = {0, 1, 2, 1}; // two distinct objects with equal values: identity vs value

template <typename T>
struct RefSubject {
    using V   = typename RTraits<T>::value; // non-const object type
    using O   = etl::optional<T&>;
    using Alt = typename RTraits<T>::alt;
    using AltStore = std::conditional_t<std::is_void_v<Alt>, V, Alt>;
    struct Table {
        Op ops[kOpCount]{};
        unsigned n = 0;
    };
    static constexpr Table make_table()
    {
        Table t;
        for (unsigned k = 0; k < kOpCount; ++k) {
            if (applicable<T>((Op)k)) { t.ops[t.n++] = (Op)k; }
        }
        return t;
    }
    static constexpr Table table   = make_table();
    static constexpr unsigned kOps = table.n;
    static bool is_mutator(unsigned w) { return (info(table.ops[w]).args & aM) != 0; }
    static constexpr Mutators<Table, OpInfo (*)(Op)> muts{table, &info};
    static unsigned n_mutators() { return muts.n; }
    static unsigned mutator_at(unsigned k) { return muts.idx[k]; }

    AltStore tg[kTargets] = {AltStore(kTargetValue[0]), AltStore(kTargetValue[1]), AltStore(kTargetValue[2]), AltStore(kTargetValue[3])};
    O* x = nullptr;
    T* m = nullptr; // the model
    std::uint64_t nh = vf::fnv(RTraits<T>::name);

    RefSubject() = default;
    RefSubject(RefSubject const&)            = delete;
    RefSubject& operator=(RefSubject const&) = delete;
    ~RefSubject() { delete x; }
    char const* name() const { return RTraits<T>::name; }
    static char const* not_provided()
    {
        return "value() value_or() and_then() or_else() transform() make_optional; converting assignment and construction from non-const optional lvalues are hard errors (probe units)";
    }
    static char const* label(Op op)
    {
        static std::string labs[kOpCount];
        if (labs[op].empty()) { labs[op] = std::string(RTraits<T>::name) + " " + info(op).name; }
        return labs[op].c_str();
    }
    T* target(int y) { return y == 0 ? nullptr : static_cast<T*>(&tg[y - 1]); }
    int state() const
    {
        if (m == nullptr) { return 0; }
        for (int k = 0; k < kTargets; ++k) {
            if (static_cast<T const*>(&tg[k]) == m) { return k + 1; }
        }
        return -1;
    }
    O mk(int y) { return y == 0 ? O() : O(*target(y)); }
    std::optional<V> mval(T* p) const { return p ? std::optional<V>(std::in_place, (int)enc(*p)) : std::nullopt; }

    void check_opt(char const* what_has, char const* what_ptr, O const& o, T* p)
    {
        vf::eq_bool(what_has, o.has_value(), p != nullptr);
        if (o.operator->() != p) { vf::diverge(what_ptr, o.operator->() == nullptr ? "null" : "some other object", p ? "the model's object" : "null"); }
    }
    bool battery()
    {
        O const& o = *x;
        bool ok    = true;
        ok &= vf::eq_bool("has_value", o.has_value(), m != nullptr);
        ok &= vf::eq_bool("operator bool", static_cast<bool>(o), m != nullptr);
        if (o.operator->() != m) {
            vf::diverge("operator->:wrong-object", o.operator->() == nullptr ? "null" : "some other object", m ? "the bound object" : "null");
            ok = false;
        }
        if (m != nullptr && o.has_value()) {
            if (&*o != m) {
                vf::diverge("operator*:wrong-object", "some other object", "the bound object");
                ok = false;
            }
            ok &= vf::eq_int("value", enc(*o), enc(*m));
        }
        return ok;
    }
    void resync()
    {
        delete x;
        x = m ? new O(*m) : new O();
    }

    void init(vf::Chooser& ch, unsigned /*nv*/)
    {
        int form = (int)ch.pick(3);
        int y    = form == 2 ? 1 + (int)ch.pick(kTargets) : 0;
        static constexpr char const* fn[3] = {"ctor()", "ctor(nullopt)", "ctor(T&)"};
        vf::crumb(name(), fn[form], form == 2 ? "->bound" : "->empty", "y=%d", y);
        m = target(y);
        x = form == 0 ? new O() : form == 1 ? new O(etl::nullopt) : new O(*m);
        static std::string labs[3];
        if (labs[form].empty()) { labs[form] = std::string(RTraits<T>::name) + " " + fn[form]; }
        vf::cover(labs[form].c_str(), vf::mix(nh, vf::mix(form, y)), true);
        if (!battery()) { resync(); }
    }

    template <typename A, typename B>
    void rel_check(A const& a, B const& b, std::optional<V> const& ma, auto const& mb)
    {
        Obs eo, so;
        rel6(eo, a, b);
        rel6(so, ma, mb);
        compare(eo, so);
    }

    void step(unsigned w, vf::Chooser& ch, unsigned nv)
    {
        Op op      = table.ops[w];
        OpInfo inf = info(op);
        Args a;
        if (inf.args & aV) { a.v = (int)ch.pick(nv); }
        if (inf.args & aY) { a.y = (int)ch.pick(op == rEmplace || op == rAssignLvalue ? kTargets : kTargets + 1) + (op == rEmplace || op == rAssignLvalue ? 1 : 0); }
        int st = state();
        char sit[96];
        int n = std::snprintf(sit, sizeof sit, "%s", st == 0 ? "empty" : "bound");
        if (inf.args & aY) {
            n += std::snprintf(sit + n, sizeof sit - n, ",other-%s", a.y == 0 ? "empty" : (a.y == st ? "same-object" : (st > 0 && kTargetValue[a.y - 1] == kTargetValue[st - 1] ? "equal-value-other-object" : "bound")));
        }
        vf::crumb(name(), inf.name, sit, "state=%d v=%d y=%d (state: 0 empty, k+1 bound to object k with values {0,1,2,1})", st, a.v, a.y);
        O& o = *x;
        switch (op) {
        case rEmplace: {
            O& ret = o.emplace(*target(a.y));
            vf::eq_bool("returns-self", &ret == &o, true);
            m = target(a.y);
            break;
        }
        case rReset:
            o.reset();
            m = nullptr;
            break;
        case rAssignNullopt: {
            O& ret = (o = etl::nullopt);
            vf::eq_bool("returns-self", &ret == &o, true);
            m = nullptr;
            break;
        }
        case rAssignLvalue: {
            T* old       = m;
            long long ov = old ? enc(*old) : 0;
            o            = *target(a.y);
            m            = target(a.y);
            if (old) { vf::eq_int("rebinding-leaves-old-object-untouched", enc(*old), ov); }
            break;
        }
        case rAssignOptConst: {
            O const other = mk(a.y);
            O& ret        = (o = other);
            vf::eq_bool("returns-self", &ret == &o, true);
            m = target(a.y);
            check_opt("src.has_value", "src.pointer", other, target(a.y));
            break;
        }
        case rAssignOptRv: {
            O other = mk(a.y);
            o       = static_cast<O&&>(other);
            m       = target(a.y);
            break;
        }
        case rSelfAssign: {
            O const& self = o;
            o             = self;
            break;
        }
        case rSwapMember: {
            O other = mk(a.y);
            o.swap(other);
            check_opt("other.has_value", "other.pointer", other, m);
            m = target(a.y);
            break;
        }
        case rSwapAdl: {
            O other = mk(a.y);
            using etl::swap;
            swap(o, other);
            check_opt("other.has_value", "other.pointer", other, m);
            m = target(a.y);
            break;
        }
        case rSwapSelf: o.swap(o); break;
        case rCopyCtor: {
            O c(o);
            check_opt("copy.has_value", "copy.pointer", c, m);
            break;
        }
        case rMoveCtor: {
            O c(static_cast<O&&>(o));
            check_opt("moved-to.has_value", "moved-to.pointer", c, m);
            break;
        }
        case rCtorFromAltRef:
            if constexpr (!std::is_void_v<Alt>) {
                using OA       = etl::optional<Alt&>;
                OA const other = a.y == 0 ? OA() : OA(tg[a.y - 1]);
                O c(other);
                check_opt("converted.has_value", "converted.pointer", c, target(a.y));
                check_opt("src.has_value", "src.pointer", mk(a.y), target(a.y));
            }
            break;
        case rCtorFromValueOpt:
            if constexpr (std::is_const_v<T> && std::is_same_v<V, int>) {
                using OV = etl::optional<int>;
                OV const src = a.y == 0 ? OV() : OV(kTargetValue[a.y - 1]);
                O c(src);
                vf::eq_bool("converted.has_value", c.has_value(), a.y != 0);
                if (a.y != 0 && c.has_value()) { vf::eq_bool("converted-binds-contained-value", c.operator->() == src.operator->(), true); }
            }
            break;
        case rWriteThrough:
            if constexpr (RTraits<T>::writable) {
                if (m != nullptr) {
                    long long before = enc(*m);
                    *o               = V(a.v + 40);
                    vf::eq_int("target-after-write", enc(*m), a.v + 40);
                    *m = V((int)before);
                }
            }
            break;
        case rRelOptRef: {
            O const other = mk(a.y);
            rel_check(static_cast<O const&>(o), other, mval(m), mval(target(a.y)));
            break;
        }
        case rRelValueOpt: {
            etl::optional<V> const other = a.y == 0 ? etl::optional<V>() : etl::optional<V>(etl::in_place, kTargetValue[a.y - 1]);
            rel_check(static_cast<O const&>(o), other, mval(m), mval(target(a.y)));
            break;
        }
        case rRelNullopt: {
            O const& co = o;
            vf::eq_bool("a==nullopt", co == etl::nullopt, m == nullptr);
            vf::eq_bool("nullopt==a", etl::nullopt == co, m == nullptr);
            vf::eq_bool("a!=nullopt", co != etl::nullopt, m != nullptr);
            vf::eq_bool("nullopt!=a", etl::nullopt != co, m != nullptr);
            vf::eq_bool("a<nullopt", co < etl::nullopt, false);
            vf::eq_bool("nullopt<a", etl::nullopt < co, m != nullptr);
            break;
        }
        case rRelValue: {
            V const val(a.v);
            rel_check(static_cast<O const&>(o), val, mval(m), val);
            break;
        }
        default: break;
        }
        std::uint64_t h = vf::mix(vf::mix(nh, (std::uint64_t)st), vf::mix(op, vf::mix(a.v, a.y)));
        vf::cover(label(op), h, true);
        if (!battery()) { resync(); }
    }
};

static_assert(std::is_same_v<etl::optional<int&>::value_type, int&>);

using S0 = RefSubject<int>;
using S1 = RefSubject<int const>;
using S2 = RefSubject<TCM>;
constexpr unsigned kCases = S0::kOps + S1::kOps + S2::kOps;

vf::Spec spec(vf::Tier t)
{
    vf::Spec s;
    s.n_enum     = kCases;
    s.n_random   = t == vf::Tier::thorough ? 20000 : 1500;
    s.batch      = 1;
    s.timeout_s  = t == vf::Tier::thorough ? 3000 : 600;
    s.exhaustive = true;
    return s;
}
void run_case(vf::Case& c)
{
    bool th        = c.tier == vf::Tier::thorough;
    unsigned depth = th ? 4 : 3;
    if (c.enumerated) {
        unsigned i = (unsigned)c.index;
        if (i < S0::kOps) {
            enumerate_first_op<S0>(i, depth, 3);
        } else if (i < S0::kOps + S1::kOps) {
            enumerate_first_op<S1>(i - S0::kOps, depth, 3);
        } else {
            enumerate_first_op<S2>(i - S0::kOps - S1::kOps, depth, 3);
        }
    } else {
        switch (c.rng.below(3)) {
        case 0: random_history<S0>(c.rng, 50, 3); break;
        case 1: random_history<S1>(c.rng, 50, 3); break;
        default: random_history<S2>(c.rng, 50, 3); break;
        }
    }
}
} // namespace

VF_MAIN("C07", "C07_optref", spec, run_case)
