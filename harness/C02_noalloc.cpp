// C02 (b,c) - "never calls a dynamic allocator / reads no uninitialised value": a broad valid-use workload over
// containers, strings, views, algorithms, charconv, C-string functions, bit/numeric helpers, optional/variant,
// inplace_function and sets.  Flavours: `alloc` (allocator trap: malloc family + operator new are interposed and an
// entry while a library call is on the stack is an `alloc` record), `vg` (valgrind memcheck: uninitialised-value
// and invalid-access reports become crash records classified vg:*), `asan` (plain sanitizer run).
// The workload keeps its own state in fixed arrays: the harness itself allocates nothing inside a guarded call.
#include "vf.hpp"
#include "vf_contract.hpp"

#include <etl/algorithm.hpp>
#include <etl/array.hpp>
#include <etl/bit.hpp>
#include <etl/bitset.hpp>
#include <etl/cctype.hpp>
#include <etl/charconv.hpp>
#include <etl/chrono.hpp>
#include <etl/cstdlib.hpp>
#include <etl/cstring.hpp>
#include <etl/expected.hpp>
#include <etl/flat_set.hpp>
#include <etl/functional.hpp>
#include <etl/inplace_vector.hpp>
#include <etl/numeric.hpp>
#include <etl/optional.hpp>
#include <etl/set.hpp>
#include <etl/span.hpp>
#include <etl/stack.hpp>
#include <etl/string.hpp>
#include <etl/string_view.hpp>
#include <etl/tuple.hpp>
#include <etl/utility.hpp>
#include <etl/variant.hpp>
#include <etl/vector.hpp>

namespace trap {
static int depth                = 0; // > 0 while a guarded library call is on the stack
static unsigned long hits       = 0; // allocator entries seen with depth > 0
static unsigned long entries    = 0; // allocator entries seen at all (sanity: the trap is live)
static char last_fn[32]         = "";
inline void note(char const* fn)
{
    ++entries;
    if (depth > 0) {
        ++hits;
        std::strncpy(last_fn, fn, sizeof last_fn - 1);
    }
}
} // namespace trap

#if defined(VF_ALLOC_TRAP)
extern "C" {
void* __libc_malloc(size_t);
void __libc_free(void*);
void* __libc_calloc(size_t, size_t);
void* __libc_realloc(void*, size_t);
void* __libc_memalign(size_t, size_t);
void* malloc(size_t n)
{
    trap::note("malloc");
    return __libc_malloc(n);
}
void free(void* p) { __libc_free(p); }
void* calloc(size_t a, size_t b)
{
    trap::note("calloc");
    return __libc_calloc(a, b);
}
void* realloc(void* p, size_t n)
{
    trap::note("realloc");
    return __libc_realloc(p, n);
}
void* aligned_alloc(size_t al, size_t n)
{
    trap::note("aligned_alloc");
    return __libc_memalign(al, n);
}
int posix_memalign(void** out, size_t al, size_t n)
{
    trap::note("posix_memalign");
    *out = __libc_memalign(al, n);
    return *out ? 0 : 12;
}
void* memalign(size_t al, size_t n)
{
    trap::note("memalign");
    return __libc_memalign(al, n);
}
}
void* operator new(std::size_t n)
{
    trap::note("operator new");
    return __libc_malloc(n ? n : 1);
}
void* operator new[](std::size_t n)
{
    trap::note("operator new[]");
    return __libc_malloc(n ? n : 1);
}
void* operator new(std::size_t n, std::align_val_t al)
{
    trap::note("operator new(align)");
    return __libc_memalign((size_t)al, n ? n : 1);
}
void* operator new[](std::size_t n, std::align_val_t al)
{
    trap::note("operator new[](align)");
    return __libc_memalign((size_t)al, n ? n : 1);
}
void operator delete(void* p) noexcept { __libc_free(p); }
void operator delete[](void* p) noexcept { __libc_free(p); }
void operator delete(void* p, std::size_t) noexcept { __libc_free(p); }
void operator delete[](void* p, std::size_t) noexcept { __libc_free(p); }
void operator delete(void* p, std::align_val_t) noexcept { __libc_free(p); }
void operator delete[](void* p, std::align_val_t) noexcept { __libc_free(p); }
void operator delete(void* p, std::size_t, std::align_val_t) noexcept { __libc_free(p); }
void operator delete[](void* p, std::size_t, std::align_val_t) noexcept { __libc_free(p); }
#endif

namespace {
volatile long long g_sink = 0;
template <typename X>
inline void sink(X const& x)
{
    if constexpr (std::is_arithmetic_v<X> || std::is_enum_v<X>) {
        g_sink = g_sink + (long long)x;
    } else if constexpr (std::is_pointer_v<X>) {
        g_sink = g_sink + (long long)(x != nullptr);
    } else {
        g_sink = g_sink + (long long)sizeof(x);
    }
}

struct NT { // non-trivial element without any allocation of its own
    int v;
    NT() noexcept : v(0) { }
    NT(int x) noexcept : v(x) { } // NOLINT
    NT(NT const& o) noexcept : v(o.v) { }
    NT(NT&& o) noexcept : v(o.v) { o.v = -1; }
    NT& operator=(NT const& o) noexcept
    {
        v = o.v;
        return *this;
    }
    NT& operator=(NT&& o) noexcept
    {
        v   = o.v;
        o.v = -1;
        return *this;
    }
    ~NT() { v = -2; }
    friend bool operator==(NT const& a, NT const& b) { return a.v == b.v; }
    friend bool operator<(NT const& a, NT const& b) { return a.v < b.v; }
};

#define G(SUBJ, OP, ...)                                                                                               \
    do {                                                                                                               \
        vf::crumb(SUBJ, OP, "valid-use", "step %u", step);                                                             \
        unsigned long before_ = trap::hits;                                                                            \
        ++trap::depth;                                                                                                 \
        { __VA_ARGS__; }                                                                                               \
        --trap::depth;                                                                                                 \
        vf::cover(OP, vf::mix(hseed, step), true);                                                                     \
        if (trap::hits != before_) { vf::record("alloc", "allocator-entered-during-library-call", trap::last_fn, "no dynamic allocation"); } \
    } while (0)

void workload(vf::Rng& rng, unsigned steps, std::uint64_t hseed)
{
    etl::static_vector<int, 16> vi;
    etl::static_vector<NT, 8> vn;
    etl::inplace_vector<NT, 8> iv{};
    etl::inplace_string<31> s31;
    etl::inplace_string<7> s7;
    etl::inplace_wstring<20> ws;
    etl::bitset<70> bs;
    etl::optional<NT> opt;
    etl::variant<int, NT, char> var;
    etl::static_set<int, 8> sset;
    etl::flat_set<int, etl::static_vector<int, 8>> fset;
    etl::inplace_function<int(int), 32> fn;
    etl::stack<int, etl::static_vector<int, 8>> stk;
    int arr[300];
    int arr2[300];
    int out[600]  = {};
    char text[64] = {};
    for (int i = 0; i < 300; ++i) {
        arr[i]  = (int)rng.below(10);
        arr2[i] = (int)rng.below(10);
    }
    for (unsigned step = 0; step < steps; ++step) {
        unsigned w = (unsigned)rng.below(60);
        int v      = (int)rng.below(10);
        int n      = rng.chance(1, 4) ? 65 + (int)rng.below(230) : 1 + (int)rng.below(23); // some long inputs: size-dependent code paths (thresholds, buffers)
        switch (w) {
        case 0: G("static_vector<int,16>", "push_back", if (!vi.full()) { vi.push_back(v); }); break;
        case 1: G("static_vector<int,16>", "insert(pos,value)", if (!vi.full()) { vi.insert(vi.begin() + (std::ptrdiff_t)rng.below(vi.size() + 1), v); }); break;
        case 2: G("static_vector<int,16>", "erase(pos)", if (!vi.empty()) { vi.erase(vi.begin() + (std::ptrdiff_t)rng.below(vi.size())); }); break;
        case 3: G("static_vector<int,16>", "resize(n)", vi.resize(rng.below(17))); break;
        case 4: G("static_vector<int,16>", "insert(pos,n,x)", if (vi.size() + 3 <= 16) { vi.insert(vi.begin(), 3, v); }); break;
        case 5: G("static_vector<int,16>", "copy+swap+compare", { auto c = vi; c.swap(vi); sink(c == vi); sink(c < vi); }); break;
        case 6: G("static_vector<nt,8>", "emplace_back", if (!vn.full()) { vn.emplace_back(v); }); break;
        case 7: G("static_vector<nt,8>", "insert(pos,T&&)", if (!vn.full()) { vn.insert(vn.begin() + (std::ptrdiff_t)rng.below(vn.size() + 1), NT(v)); }); break;
        case 8: G("static_vector<nt,8>", "erase(first,last)", if (vn.size() >= 2) { vn.erase(vn.begin(), vn.begin() + 2); }); break;
        case 9: G("static_vector<nt,8>", "copy/move/assign", { auto c = vn; auto m = etl::move(c); vn = m; vn = etl::move(m); }); break;
        case 10: G("static_vector<nt,8>", "erase_if", sink(etl::erase_if(vn, [v](NT const& x) { return x.v == v; }))); break;
        case 11: G("inplace_vector<nt,8>", "try_emplace_back/pop_back", { if (iv.try_emplace_back(v) == nullptr) { iv.pop_back(); } }); break;
        case 12: G("inplace_vector<nt,8>", "copy/move construct", { auto c = iv; auto m = etl::move(c); sink(m.size()); }); break;
        case 13: G("inplace_string<31>", "append(ptr)", s31.append("ab")); break;
        case 14: G("inplace_string<31>", "insert(index,count,ch)", if (s31.size() + 2 <= 31) { s31.insert(rng.below(s31.size() + 1), 2, 'x'); }); break;
        case 15: G("inplace_string<31>", "erase(index,count)", if (!s31.empty()) { s31.erase(rng.below(s31.size()), 2); }); break;
        case 16: G("inplace_string<31>", "find/rfind/find_first_of", { sink(s31.find("ab")); sink(s31.rfind('x', etl::inplace_string<31>::npos)); sink(s31.find_first_of("xb", 1)); sink(s31.find_last_not_of("a")); }); break;
        case 17: G("inplace_string<31>", "substr/compare/starts_with", { auto t = s31.substr(s31.size() / 2); sink(t.compare(s31)); sink(s31.starts_with("ab")); sink(s31.ends_with('x')); sink(s31 == t); }); break;
        case 18: G("inplace_string<31>", "resize/clear/assign", { s31.resize(rng.below(32), 'q'); if (rng.coin()) { s31.assign(3, 'z'); } }); break;
        case 19: G("inplace_string<7>", "push_back/pop_back/+=", { if (!s7.full()) { s7.push_back('a'); } else { s7.pop_back(); } s7 += 'b'; }); break;
        case 20: G("inplace_string<7>", "swap/operator+", { etl::inplace_string<7> o("xy"); o.swap(s7); if (s7.size() + o.size() <= 7) { auto p = s7 + o; sink(p.size()); } }); break;
        case 21: G("inplace_wstring<20>", "append/find/erase", { ws.append(L"ab"); sink(ws.find(L'b')); if (ws.size() > 10) { ws.erase(0, 5); } }); break;
        case 22: G("string_view", "searches", { etl::string_view sv(s31.data(), s31.size()); sink(sv.find("b")); sink(sv.rfind("a")); sink(sv.find_first_not_of("ab")); sink(sv.find_last_of("xq")); sink(sv.compare("abc")); sink(sv.substr(sv.size() / 2).size()); sink(sv.starts_with("a")); }); break;
        case 23: G("algorithm", "sort", etl::sort(arr, arr + n)); break;
        case 24: G("algorithm", "stable_sort", etl::stable_sort(arr2, arr2 + n)); break;
        case 25: G("algorithm", "rotate/reverse", { etl::rotate(arr, arr + n / 2, arr + n); etl::reverse(arr2, arr2 + n); }); break;
        case 26: G("algorithm", "unique/remove", { sink(etl::unique(arr, arr + n) - arr); sink(etl::remove(arr2, arr2 + n, v) - arr2); }); break;
        case 27: G("algorithm", "partition/stable_partition", { sink(etl::partition(arr, arr + n, [](int x) { return x % 2 == 0; }) - arr); sink(etl::stable_partition(arr2, arr2 + n, [](int x) { return x < 5; }) - arr2); }); break;
        case 28: G("algorithm", "nth_element/partial_sort", { etl::nth_element(arr, arr + n / 2, arr + n); etl::partial_sort(arr2, arr2 + n / 2, arr2 + n); }); break;
        case 29: G("algorithm", "merge/set_union/set_intersection", { etl::sort(arr, arr + n); etl::sort(arr2, arr2 + n); sink(etl::merge(arr, arr + n, arr2, arr2 + n, out) - out); sink(etl::set_union(arr, arr + n, arr2, arr2 + n, out) - out); sink(etl::set_intersection(arr, arr + n, arr2, arr2 + n, out) - out); sink(etl::set_difference(arr, arr + n, arr2, arr2 + n, out) - out); sink(etl::includes(arr, arr + n, arr2, arr2 + n)); }); break;
        case 30: G("algorithm", "inplace_merge", { etl::sort(arr, arr + n / 2); etl::sort(arr + n / 2, arr + n); etl::inplace_merge(arr, arr + n / 2, arr + n); }); break;
        case 31: G("algorithm", "binary searches", { etl::sort(arr, arr + n); sink(etl::lower_bound(arr, arr + n, v) - arr); sink(etl::upper_bound(arr, arr + n, v) - arr); sink(etl::binary_search(arr, arr + n, v)); auto er = etl::equal_range(arr, arr + n, v); sink(er.second - er.first); }); break;
        case 32: G("algorithm", "search/find_end/mismatch/equal", { sink(etl::search(arr, arr + n, arr2, arr2 + 2) - arr); sink(etl::find_end(arr, arr + n, arr2, arr2 + 2) - arr); sink(etl::mismatch(arr, arr + n, arr2).first - arr); sink(etl::equal(arr, arr + n, arr2)); sink(etl::find_first_of(arr, arr + n, arr2, arr2 + 3) - arr); sink(etl::adjacent_find(arr, arr + n) - arr); }); break;
        case 33: G("algorithm", "min/max/count/any/all", { sink(*etl::min_element(arr, arr + n)); sink(*etl::max_element(arr, arr + n)); auto mm = etl::minmax_element(arr, arr + n); sink(*mm.first); sink(etl::count(arr, arr + n, v)); sink(etl::any_of(arr, arr + n, [v](int x) { return x == v; })); sink(etl::is_sorted(arr, arr + n)); sink(etl::is_permutation(arr, arr + n, arr2)); sink(etl::lexicographical_compare(arr, arr + n, arr2, arr2 + n)); }); break;
        case 34: G("algorithm", "copy/transform/fill/shift_left", { etl::copy(arr, arr + n, out); etl::copy_backward(arr, arr + n, out + n); etl::transform(arr, arr + n, out, [](int x) { return x + 1; }); etl::fill_n(out, 3, v); if (n > 2) { sink(etl::shift_left(arr2, arr2 + n, 1) - arr2); } etl::replace(arr, arr + n, v, v + 1); etl::swap_ranges(arr, arr + n, arr2); etl::reverse_copy(arr, arr + n, out); etl::rotate_copy(arr, arr + n / 2, arr + n, out); sink(etl::unique_copy(arr, arr + n, out) - out); sink(etl::copy_if(arr, arr + n, out, [](int x) { return x > 3; }) - out); }); break;
        case 35: G("algorithm", "insertion/bubble/gnome/merge sort", { etl::insertion_sort(arr, arr + n); etl::bubble_sort(arr2, arr2 + n); etl::gnome_sort(out, out + n); etl::merge_sort(arr, arr + n); }); break;
        case 36: G("numeric", "accumulate/inner_product/partial_sum/iota/gcd", { sink(etl::accumulate(arr, arr + n, 0)); sink(etl::inner_product(arr, arr + n, arr2, 0)); etl::partial_sum(arr, arr + n, out); etl::adjacent_difference(arr, arr + n, out); etl::iota(out, out + n, v); sink(etl::reduce(arr, arr + n)); sink(etl::gcd(v + 1, n)); sink(etl::midpoint(v, n)); sink(etl::add_sat(v, n)); }); break;
        case 37: G("charconv", "to_chars/from_chars", { auto r = etl::to_chars(text, text + sizeof text, (long long)v * 1234567 - n, 2 + (int)rng.below(35)); long long back = 0; auto r2 = etl::from_chars(text, r.ptr, back, 10); sink(back); sink(r2.ptr); }); break;
        case 38: G("string", "to_string/stoi/atoi/strtol", { auto t = etl::to_string<24>(v * 7919 - n); sink(etl::stoi(etl::string_view(t.data(), t.size()))); sink(etl::atoi(t.c_str())); char const* e = nullptr; sink(etl::strtol(t.c_str(), &e, 10)); sink(e); }); break;
        case 39: G("cstring", "strlen/strcmp/strchr/memcpy/memmove/memset", { etl::memset(text, 'a', 20); text[20] = 0; sink(etl::strlen(text)); sink(etl::strcmp(text, "aaaa")); sink(etl::strchr(text, 'a')); etl::memmove(text + 2, text, 10); etl::memcpy(text + 30, text, 10); sink(etl::memcmp(text, text + 30, 10)); sink(etl::strncmp(text, text + 30, 5)); sink(etl::strspn(text, "a")); }); break;
        case 40: G("cctype", "classification", { for (int c = -1; c < 256; c += 7) { sink(etl::isalpha(c)); sink(etl::isdigit(c)); sink(etl::isspace(c)); sink(etl::toupper(c)); sink(etl::tolower(c)); sink(etl::ispunct(c)); } }); break;
        case 41: G("bit", "popcount/rotl/bit_ceil/byteswap", { unsigned u = (unsigned)v * 2654435761u + (unsigned)n; sink(etl::popcount(u)); sink(etl::rotl(u, n)); sink(etl::rotr(u, -n)); sink(etl::countl_zero(u)); sink(etl::countr_one(u)); sink(etl::bit_width(u)); sink(etl::bit_floor(u)); sink(etl::has_single_bit(u)); sink(etl::byteswap(u)); sink(etl::bit_ceil(u >> 2)); }); break;
        case 42: G("bitset<70>", "set/flip/count/all/shift-free ops", { bs.set((std::size_t)rng.below(70)); bs.flip((std::size_t)rng.below(70)); sink(bs.count()); sink(bs.all()); sink(bs.any()); sink(bs.test(69)); auto c = ~bs; c &= bs; c |= bs; c ^= bs; sink(c == bs); if (rng.chance(1, 8)) { bs.flip(); } if (rng.chance(1, 8)) { bs.reset(); } }); break;
        case 43: G("optional<nt>", "emplace/reset/assign/swap", { if (rng.coin()) { opt.emplace(v); } else { opt.reset(); } etl::optional<NT> o(v); o.swap(opt); opt = o; sink(opt.has_value()); sink(opt.value_or(NT(1)).v); }); break;
        case 44: G("variant<int,nt,char>", "emplace/assign/visit", { if (v % 3 == 0) { var = v; } else if (v % 3 == 1) { var = NT(v); } else { var.emplace<2>('c'); } auto c = var; var = c; sink(var.index()); sink(etl::visit([](auto const& x) { return (int)sizeof(x); }, var)); sink(etl::holds_alternative<int>(var)); }); break;
        case 45: G("static_set<int,8>", "insert/erase/find", { if (!sset.full()) { sset.insert(v); } sink(sset.contains(v)); sink(sset.find(v) != sset.end()); if (sset.full()) { sset.erase(sset.begin()); } sink(sset.size()); }); break;
        case 46: G("flat_set<int,static_vector<8>>", "insert/erase/find", { if (fset.size() < 8) { fset.insert(v); } sink(fset.contains(v)); sink(fset.count(v)); if (fset.size() == 8) { fset.erase(fset.begin()); } sink(fset.lower_bound(v) - fset.begin()); }); break;
        case 47: G("inplace_function<int(int),32>", "assign/copy/call/swap", { NT cap(v); fn = [cap](int x) { return cap.v + x; }; auto c = fn; sink(c(1)); etl::inplace_function<int(int), 32> o; o.swap(c); sink(static_cast<bool>(c)); sink(o(2)); if (rng.chance(1, 4)) { fn = nullptr; } }); break;
        case 48: G("stack<int,static_vector<8>>", "push/pop/top", { if (stk.size() < 8) { stk.push(v); } else { stk.pop(); } if (!stk.empty()) { sink(stk.top()); } }); break;
        case 49: G("chrono", "calendar/duration", { etl::chrono::sys_days d{etl::chrono::days{v * 1000 - 3000 + n}}; etl::chrono::year_month_day ymd{d}; sink((int)ymd.year()); sink((unsigned)ymd.month()); sink(ymd.ok()); etl::chrono::sys_days back{ymd}; sink(back.time_since_epoch().count()); auto ms = etl::chrono::milliseconds{v * 1000 + n}; sink(etl::chrono::duration_cast<etl::chrono::seconds>(ms).count()); sink(etl::chrono::floor<etl::chrono::seconds>(ms).count()); sink(etl::chrono::ceil<etl::chrono::seconds>(ms).count()); sink(etl::chrono::round<etl::chrono::seconds>(ms).count()); }); break;
        case 50: G("span<int>", "subviews", { etl::span<int> sp(arr, (std::size_t)n); sink(sp.first((std::size_t)n / 2).size()); sink(sp.last(1).front()); sink(sp.subspan(1).size()); sink(sp[(std::size_t)n - 1]); }); break;
        case 51: G("pair/tuple", "construct/compare/swap/get", { etl::pair<int, NT> p(v, NT(n)); auto q = p; q.swap(p); sink(p == q); sink(p < q); etl::tuple<int, NT, char> t(v, NT(n), 'c'); auto u = t; sink(etl::get<0>(u)); sink(etl::get<1>(u).v); sink(t == u); }); break;
        case 52: G("expected<nt,int>", "construct/emplace/value_or", { etl::expected<NT, int> e(etl::in_place, v); sink(e.has_value()); e.emplace(n); sink((*e).v); etl::expected<NT, int> f(etl::unexpect, 3); sink(f.error()); sink(f.value_or(NT(2)).v); }); break;
        case 53: G("numeric", "saturate/cmp/in_range", { sink(etl::saturate_cast<signed char>(v * 100)); sink(etl::cmp_less(-1, 1u)); sink(etl::in_range<unsigned char>(v * 50)); sink(etl::div_sat(v, n)); sink(etl::lcm(v + 1, n)); }); break;
        case 54: G("static_vector<int,16>", "assign(first,last)/ctor(range)", { vi.assign(arr, arr + (n > 16 ? 16 : n)); etl::static_vector<int, 16> c(arr2, arr2 + 5); sink(c.size()); }); break;
        case 55: G("algorithm", "remove_if/replace_if/generate/for_each", { sink(etl::remove_if(arr, arr + n, [](int x) { return x == 3; }) - arr); etl::replace_if(arr2, arr2 + n, [](int x) { return x > 7; }, 0); int k = 0; etl::generate(out, out + n, [&k] { return k++; }); etl::for_each(out, out + n, [](int& x) { x *= 2; }); sink(etl::partition_point(out, out + n, [](int x) { return x < 10; }) - out); }); break;
        case 56: G("inplace_string<31>", "replace (same length)/copy/erase(c,value)", { if (s31.size() >= 4) { s31.replace(0, 2, etl::inplace_string<31>("zz")); } char buf[8]; sink(s31.copy(buf, 4, 0)); sink(etl::erase(s31, 'q')); }); break;
        case 57: G("cstring", "strcpy/strcat/strstr/strrchr", { char a[32]; etl::strcpy(a, "hello"); etl::strcat(a, " world"); char const* ca = a; sink(etl::strstr(ca, "wor")); sink(etl::strrchr(ca, 'o')); sink(etl::strpbrk(ca, "xyzw")); etl::strncpy(a + 16, a, 8); }); break;
        case 58: G("static_set<int,8>", "copy/compare/lower_bound", { auto c = sset; sink(c == sset); sink(c.lower_bound(v) != c.end()); sink(c.upper_bound(v) != c.end()); c.clear(); sink(c.empty()); }); break;
        default: G("inplace_vector<nt,8>", "clear/refill", { iv.clear(); for (int i = 0; i < 5; ++i) { iv.unchecked_emplace_back(i + v); } sink(iv.back().v); }); break;
        }
    }
}

vf::Spec spec(vf::Tier t)
{
    vf::Spec s;
    s.n_enum     = 0;
    s.n_random   = t == vf::Tier::thorough ? 20000 : 2000;
    s.batch      = 16;
    s.timeout_s  = 300;
    return s;
}
void run_case(vf::Case& c)
{
#if defined(VF_ALLOC_TRAP)
    { // self-test of the trap: an allocation inside a guard must be seen, otherwise the flavour proves nothing
        unsigned long before = trap::hits;
        ++trap::depth;
        void* volatile p = std::malloc(8);
        std::free(p);
        --trap::depth;
        if (trap::hits == before) {
            vf::crumb("allocator-trap", "self-test", "-", "-");
            vf::record("inconclusive", "trap-not-live", "malloc inside a guard was not intercepted", "intercepted");
        }
    }
#endif
    workload(c.rng, 120, c.id);
    if (vf::want_sample("workload")) { vf::sample("workload", "case %llu: 120 random valid library calls over 60 operation groups (containers, strings, algorithms, charconv, bit, sets, function wrappers)", (unsigned long long)c.id); }
}
} // namespace

VF_MAIN("C02", "C02_noalloc", spec, run_case)
