// C01 - floating-point elements: comparison operators and value-based erasure must use the elements' own == and < (DESIGN 12.6; added after
// adversary round 4).  +0.0 == -0.0 although the bytes differ, and NaN != NaN although the bytes are equal: a bytewise shortcut in operator== /
// erase is invisible for every integer or class element type.  Every ordered pair of sequences of length <= 3 over {+0, -0, 1, NaN, -NaN, inf}
// is compared with all six operators on static_vector, stack<static_vector> and (where provided) inplace_vector, against std::vector; free
// erase / erase_if are run with every value of the alphabet.
// Build: -DVF_FP=float|double
#include "vf.hpp"
#include "vf_contract.hpp"

#include <etl/inplace_vector.hpp>
#include <etl/stack.hpp>
#include <etl/vector.hpp>

#include <cmath>
#include <limits>
#include <string>
#include <vector>

#ifndef VF_FP
    #define VF_FP double
    #define VF_FP_NAME "double"
#endif

namespace {
using T = VF_FP;
using M = std::vector<T>;
constexpr unsigned A    = 6;
constexpr unsigned LMAX = 3;
T alpha(unsigned i)
{
    switch (i) {
    case 0: return T(0);
    case 1: return -T(0);
    case 2: return T(1);
    case 3: return std::numeric_limits<T>::quiet_NaN();
    case 4: return -std::numeric_limits<T>::quiet_NaN();
    default: return std::numeric_limits<T>::infinity();
    }
}
char const* aname(unsigned i)
{
    static char const* const n[] = {"+0", "-0", "1", "nan", "-nan", "inf"};
    return n[i];
}
constexpr unsigned count_seq()
{
    unsigned t = 0, c = 1;
    for (unsigned l = 0; l <= LMAX; ++l, c *= A) { t += c; }
    return t;
}
constexpr unsigned NSEQ = count_seq(); // 259
std::vector<unsigned> nth(unsigned k)
{
    unsigned cnt = 1;
    for (unsigned len = 0;; ++len, cnt *= A) {
        if (k < cnt) {
            std::vector<unsigned> r(len);
            for (unsigned i = 0; i < len; ++i) {
                r[len - 1 - i] = k % A;
                k /= A;
            }
            return r;
        }
        k -= cnt;
    }
}
std::string show(std::vector<unsigned> const& s)
{
    std::string o = "[";
    for (std::size_t i = 0; i < s.size(); ++i) { o += (i ? "," : "") + std::string(aname(s[i])); }
    return o + "]";
}
M model(std::vector<unsigned> const& s)
{
    M m;
    for (unsigned i : s) { m.push_back(alpha(i)); }
    return m;
}
char const* cls(std::vector<unsigned> const& a, std::vector<unsigned> const& b)
{
    bool nan = false, zeros = false;
    for (std::size_t i = 0; i < a.size() && i < b.size(); ++i) {
        if (a[i] == 3 || a[i] == 4 || b[i] == 3 || b[i] == 4) { nan = true; }
        if (a[i] + b[i] == 1 && a[i] != b[i]) { zeros = true; }
    }
    return nan ? (zeros ? "nan-and-signed-zeros-at-same-index" : "nan-at-common-index") : (zeros ? "+0-vs--0-at-same-index" : "ordinary");
}
std::string bits(M const& m)
{
    std::string o;
    for (T x : m) {
        char b[40];
        std::snprintf(b, sizeof b, "%s%g", std::signbit(x) ? "-" : "+", (double)std::fabs(x));
        o += b;
        o += ' ';
    }
    return o;
}

template <typename V>
void fill(V& v, M const& m)
{
    for (T x : m) { v.push_back(x); }
}
template <typename V>
void fill_iv(V& v, M const& m)
{
    for (T x : m) { v.unchecked_push_back(x); }
}

template <typename X, typename Y>
void six(char const* subj, char const* sit, char const* desc, X const& a, X const& b, Y const& ma, Y const& mb, std::uint64_t h)
{
#define REL(OPNAME, OP)                                                                                                                                     \
    do {                                                                                                                                                    \
        if constexpr (requires { a OP b; }) {                                                                                                               \
            vf::crumb(subj, OPNAME, sit, "%s", desc);                                                                                                       \
            bool ev = (a OP b);                                                                                                                             \
            vf::cover(OPNAME, vf::mix(h, vf::fnv(OPNAME)));                                                                                                 \
            vf::eq_bool("ret", ev, (ma OP mb));                                                                                                             \
        }                                                                                                                                                   \
    } while (0)
    REL("operator==", ==);
    REL("operator!=", !=);
    REL("operator<", <);
    REL("operator<=", <=);
    REL("operator>", >);
    REL("operator>=", >=);
#undef REL
}

vf::Spec spec(vf::Tier)
{
    vf::Spec s;
    s.n_enum     = NSEQ;
    s.n_random   = 0;
    s.batch      = 8;
    s.exhaustive = true;
    return s;
}

void run_case(vf::Case& c)
{
    auto sa = nth((unsigned)c.index);
    M ma    = model(sa);
    if (vf::want_sample("row")) { vf::sample("row", "%s against all %u sequences: six relations on static_vector/stack/inplace_vector, erase/erase_if with every value", show(sa).c_str(), NSEQ); }
    for (unsigned k = 0; k < NSEQ; ++k) {
        auto sb = nth(k);
        M mb    = model(sb);
        std::string desc = "a=" + show(sa) + " b=" + show(sb);
        char const* sit  = cls(sa, sb);
        std::uint64_t h  = vf::mix(c.index, k);
        {
            etl::static_vector<T, LMAX> a, b;
            fill(a, ma);
            fill(b, mb);
            six("static_vector<" VF_FP_NAME ",3>", sit, desc.c_str(), a, b, ma, mb, h);
        }
        {
            etl::static_vector<T, 8> a, b; // spare capacity: unused slots must not take part
            fill(a, ma);
            fill(b, mb);
            six("static_vector<" VF_FP_NAME ",8>", sit, desc.c_str(), a, b, ma, mb, h);
        }
        {
            using St = etl::stack<T, etl::static_vector<T, LMAX>>;
            St a, b;
            for (T x : ma) { a.push(x); }
            for (T x : mb) { b.push(x); }
            six("stack<" VF_FP_NAME ",static_vector<3>>", sit, desc.c_str(), a, b, ma, mb, h);
        }
        {
            etl::inplace_vector<T, LMAX> a{}, b{};
            fill_iv(a, ma);
            fill_iv(b, mb);
            six("inplace_vector<" VF_FP_NAME ",3>", sit, desc.c_str(), a, b, ma, mb, h);
        }
    }
    // a vector against its own copy and against itself
    {
        etl::static_vector<T, LMAX> a;
        fill(a, ma);
        auto cp          = a;
        std::string desc = "a=" + show(sa) + " b=copy of a";
        six("static_vector<" VF_FP_NAME ",3>", cls(sa, sa), desc.c_str(), a, cp, ma, ma, vf::mix(c.index, 7777));
        desc = "a=" + show(sa) + " b=a itself";
        char so[96];
        std::snprintf(so, sizeof so, "same-object,%s", cls(sa, sa));
        six("static_vector<" VF_FP_NAME ",3>", so, desc.c_str(), a, a, ma, ma, vf::mix(c.index, 8888));
    }
    // value-based erasure
    for (unsigned v = 0; v < A; ++v) {
        T x = alpha(v);
        {
            etl::static_vector<T, LMAX> a;
            fill(a, ma);
            M m = ma;
            char sit[64];
            std::snprintf(sit, sizeof sit, "value=%s", aname(v));
            vf::crumb("static_vector<" VF_FP_NAME ",3>", "erase(c,value)", sit, "a=%s", show(sa).c_str());
            auto re = etl::erase(a, x);
            auto rs = std::erase(m, x);
            vf::cover("erase(c,value)", vf::mix(c.index, 100 + v));
            vf::eq_int("ret", re, rs);
            vf::eq_str("elements", bits(M(a.begin(), a.end())), bits(m));
        }
        {
            etl::static_vector<T, LMAX> a;
            fill(a, ma);
            M m = ma;
            char sit[64];
            std::snprintf(sit, sizeof sit, "pred=(== %s)", aname(v));
            vf::crumb("static_vector<" VF_FP_NAME ",3>", "erase_if(c,pred)", sit, "a=%s", show(sa).c_str());
            auto re = etl::erase_if(a, [x](T y) { return y == x; });
            auto rs = std::erase_if(m, [x](T y) { return y == x; });
            vf::cover("erase_if(c,pred)", vf::mix(c.index, 200 + v));
            vf::eq_int("ret", re, rs);
            vf::eq_str("elements", bits(M(a.begin(), a.end())), bits(m));
        }
    }
}
} // namespace

VF_MAIN("C01", "C01_fp_" VF_FP_NAME, spec, run_case)
