// vf_algo.hpp - shared scaffolding of the C06 harness units (algorithms vs libstdc++).
//   El            element with key + identity tag; every copy/move/compare reports its addresses to the monitor
//   Comp/Eq/Pred  run-time parameterised comparators / predicates (address-checked)
//   Range<T>      a sequence materialised in harness memory (exact-size block, embedded between guard
//                 elements, or the null range) and registered with the monitor
//   K*            iterator kinds (raw pointer and the wrappers of vf_iter.hpp)
//   Trial         one library call: breadcrumb, call guard, oracle comparisons, coverage
//   run_case/spec case space: (sequence, test) pairs - all sequences up to a length bound over {0,1,2}
//                 for every test of the unit, then seeded random longer sequences
#pragma once
#include "vf.hpp"
#include "vf_iter.hpp"

#include <etl/algorithm.hpp>
#include <etl/functional.hpp>
#include <etl/iterator.hpp>
#include <etl/numeric.hpp>
#include <etl/utility.hpp>

#include <algorithm>
#include <cstdarg>
#include <functional>
#include <numeric>
#include <string>
#include <vector>

namespace c06 {
namespace vi = vf::it;

constexpr int MOVED      = -99; // key of a moved-from element
constexpr int SELF_MOVED = -98; // key of an element of the self-move-destructive type after x = move(x)

// ------------------------------------------------------------------ predicate / comparator result types
// C06_TRUTHY=1 builds drive every predicate-taking algorithm with results that are boolean-testable but are
// neither bool nor 0/1: unary predicates, equivalences and El's operator== return int masks (4, -1, 2048, -8
// for "true"), comparators and El's operator< return a class with an implicit conversion to bool.
#ifndef C06_TRUTHY
    #define C06_TRUTHY 0
#endif
struct Flag {
    int v;
    operator bool() const { return v != 0; }
};
inline int truthy(bool b, int salt)
{
    static int const t[4] = {4, -1, 2048, -8};
    return b ? t[salt & 3] : 0;
}
template <typename R>
inline R mk_result(bool b, int salt)
{
    if constexpr (std::is_same_v<R, bool>) {
        return b;
    } else if constexpr (std::is_same_v<R, int>) {
        return truthy(b, salt);
    } else {
        return R{truthy(b, salt)};
    }
}
#if C06_TRUTHY
using PredResult = int;
using EqResult   = int;
using CompResult = Flag;
#else
using PredResult = bool;
using EqResult   = bool;
using CompResult = bool;
#endif

// ------------------------------------------------------------------ element
struct El {
    int key;
    int tag;
    El() noexcept : key(-7), tag(-7) { }
    El(int k, int t) noexcept : key(k), tag(t) { }
    El(El const& o) noexcept : key(o.key), tag(o.tag) { vi::touch_read(&o, sizeof o, "copy-from-outside-range"); }
    El(El&& o) noexcept : key(o.key), tag(o.tag)
    {
        vi::touch_write(&o, sizeof o, "move-from-outside-range");
        o.key = MOVED;
    }
    El& operator=(El const& o) noexcept
    {
        vi::touch_read(&o, sizeof o, "copy-from-outside-range");
        vi::touch_write(this, sizeof o, "write-outside-range");
        key = o.key;
        tag = o.tag;
        return *this;
    }
    El& operator=(El&& o) noexcept
    {
        vi::touch_write(&o, sizeof o, "move-from-outside-range");
        vi::touch_write(this, sizeof o, "write-outside-range");
        if (this != &o) { // libstdc++'s unique/remove self-move-assign, so that has to be harmless
            key   = o.key;
            tag   = o.tag;
            o.key = MOVED;
        }
        return *this;
    }
    friend EqResult operator==(El const& a, El const& b)
    {
        vi::touch_read(&a, sizeof a, "pred-outside-range");
        vi::touch_read(&b, sizeof b, "pred-outside-range");
        vi::mon().pred_calls++;
        return mk_result<EqResult>(a.key == b.key, a.key);
    }
    friend bool operator!=(El const& a, El const& b) { return !(a == b); }
    friend CompResult operator<(El const& a, El const& b)
    {
        vi::touch_read(&a, sizeof a, "pred-outside-range");
        vi::touch_read(&b, sizeof b, "pred-outside-range");
        vi::mon().pred_calls++;
        return mk_result<CompResult>(a.key < b.key, a.key + b.key);
    }
};
using Seq = std::vector<El>;

inline std::string show(Seq const& s, bool tags = true)
{
    std::string o = "[";
    for (std::size_t i = 0; i < s.size(); ++i) {
        if (i) { o += ' '; }
        if (s[i].key == MOVED) {
            o += "mv";
        } else if (s[i].key == SELF_MOVED) {
            o += "selfmv";
        } else {
            o += std::to_string(s[i].key);
        }
        if (tags) {
            o += '#';
            o += std::to_string(s[i].tag);
        }
    }
    return o + "]";
}
inline std::string show(std::vector<long long> const& s)
{
    std::string o = "[";
    for (std::size_t i = 0; i < s.size(); ++i) {
        if (i) { o += ' '; }
        o += std::to_string(s[i]);
    }
    return o + "]";
}
inline std::uint64_t hash_seq(Seq const& s)
{
    std::uint64_t h = 0x1234567 + s.size();
    for (auto const& e : s) { h = vf::mix(h, (std::uint64_t)(e.key + 100)); }
    return h;
}

// ------------------------------------------------------------------ comparators / predicates
// Comp: strict weak orders. mode 0 less, 1 greater, 2 "mod 2" (0 and 2 equivalent, before 1)
struct Comp {
    int mode = 0;
    template <typename T>
    CompResult operator()(T const& a, T const& b) const
    {
        vi::touch_read(&a, sizeof a, "pred-outside-range");
        vi::touch_read(&b, sizeof b, "pred-outside-range");
        vi::mon().pred_calls++;
        bool r = false;
        switch (mode) {
        case 0: r = a.key < b.key; break;
        case 1: r = a.key > b.key; break;
        default: r = (a.key & 1) < (b.key & 1); break;
        }
        return mk_result<CompResult>(r, a.key + 2 * b.key);
    }
};
inline char const* comp_name(int mode)
{
    switch (mode) {
    case -1: return "";
    case 0: return "/less";
    case 1: return "/greater";
    default: return "/mod2";
    }
}
// Eq: equivalence predicates. mode 0 key equality, 1 equality mod 2
struct Eq {
    int mode = 0;
    template <typename T>
    EqResult operator()(T const& a, T const& b) const
    {
        vi::touch_read(&a, sizeof a, "pred-outside-range");
        vi::touch_read(&b, sizeof b, "pred-outside-range");
        vi::mon().pred_calls++;
        return mk_result<EqResult>(mode == 0 ? a.key == b.key : (a.key & 1) == (b.key & 1), a.key + b.key);
    }
};
inline char const* eq_name(int mode)
{
    switch (mode) {
    case -1: return "";
    case 0: return "/eq";
    default: return "/eqmod2";
    }
}
// Pred: unary. mode 0 key==arg, 1 key<arg, 2 key%2==arg
struct Pred {
    int mode = 0;
    int arg  = 0;
    template <typename T>
    PredResult operator()(T const& a) const
    {
        vi::touch_read(&a, sizeof a, "pred-outside-range");
        vi::mon().pred_calls++;
        bool r = false;
        switch (mode) {
        case 0: r = a.key == arg; break;
        case 1: r = a.key < arg; break;
        default: r = (a.key & 1) == arg; break;
        }
        return mk_result<PredResult>(r, a.key + (a.tag & 1));
    }
};
struct PredSpec {
    int mode;
    int arg;
    char const* name;
};
inline PredSpec const kPreds[] = {{0, 0, "==0"}, {0, 1, "==1"}, {0, 2, "==2"}, {0, 3, "==3"}, {1, 1, "<1"}, {1, 2, "<2"},
    {2, 0, "even"}, {2, 1, "odd"}};

// ------------------------------------------------------------------ iterator kinds
struct KPtr {
    static constexpr char const* name = "ptr";
    static constexpr bool wrapper     = false;
    template <typename T>
    using it = T*;
    template <typename T>
    static T* make(T* p, vi::Desc<T>*)
    {
        return p;
    }
    template <typename T>
    static T* raw(T* i)
    {
        return i;
    }
};
// pointer to const: the non-modifying algorithms must not need mutable access
struct KCPtr {
    static constexpr char const* name = "const_ptr";
    static constexpr bool wrapper     = false;
    template <typename T>
    using it = T const*;
    template <typename T>
    static T const* make(T* p, vi::Desc<T>*)
    {
        return p;
    }
    template <typename T>
    static T const* raw(T const* i)
    {
        return i;
    }
};
#define C06_KIND(NAME, TMPL, STR)                                                                                      \
    struct NAME {                                                                                                      \
        static constexpr char const* name = STR;                                                                       \
        static constexpr bool wrapper     = true;                                                                      \
        template <typename T>                                                                                          \
        using it = vi::TMPL<T>;                                                                                        \
        template <typename T>                                                                                          \
        static vi::TMPL<T> make(T* p, vi::Desc<T>* d)                                                                  \
        {                                                                                                              \
            return vi::TMPL<T>{p, d};                                                                                  \
        }                                                                                                              \
        template <typename T>                                                                                          \
        static T* raw(vi::TMPL<T> const& i)                                                                            \
        {                                                                                                              \
            return i.p;                                                                                                \
        }                                                                                                              \
    }
C06_KIND(KFwd, fwd_it, "fwd_it");
C06_KIND(KBidi, bidi_it, "bidi_it");
C06_KIND(KRa, ra_it, "ra_it");
C06_KIND(KIn, in_it, "in_it");
C06_KIND(KOut, out_it, "out_it");

// ------------------------------------------------------------------ ranges
enum class Pres { exact, embedded, null };
inline char const* pres_name(Pres p) { return p == Pres::exact ? "exact" : (p == Pres::embedded ? "embedded" : "null"); }

template <typename T>
inline T guard_value(int i);
template <>
inline El guard_value<El>(int i)
{
    return El{i & 1, -1000 - i}; // plausible keys, so that an over-read produces a wrong answer
}
template <>
inline long long guard_value<long long>(int i)
{
    return 1000003LL + i;
}
template <>
inline int guard_value<int>(int i)
{
    return 100003 + i;
}
template <>
inline unsigned char guard_value<unsigned char>(int i)
{
    return (unsigned char)(201 + i);
}
template <>
inline signed char guard_value<signed char>(int i)
{
    return (signed char)((i & 1) ? -1 : 1);
}
template <>
inline char guard_value<char>(int i)
{
    return (char)((i & 1) ? 0xE9 : 'a');
}
template <>
inline short guard_value<short>(int i)
{
    return (short)((i & 1) ? -300 : 256);
}
template <>
inline float guard_value<float>(int i)
{
    return (i & 1) ? -0.0f : 1.5f;
}
template <>
inline double guard_value<double>(int i)
{
    return (i & 1) ? 1.0 : 2.0;
}
template <>
inline unsigned guard_value<unsigned>(int i)
{
    return (i & 1) ? 4294967295u : 1u;
}
template <>
inline unsigned long long guard_value<unsigned long long>(int i)
{
    return (i & 1) ? ~0ull : 1ull;
}
template <>
inline unsigned short guard_value<unsigned short>(int i)
{
    return (unsigned short)((i & 1) ? 65535 : 1);
}
inline bool same_obj(unsigned a, unsigned b) { return a == b; }
inline bool same_obj(unsigned long long a, unsigned long long b) { return a == b; }
inline bool same_obj(unsigned short a, unsigned short b) { return a == b; }
inline bool same_obj(double a, double b) { return std::memcmp(&a, &b, sizeof a) == 0; }
inline bool same_obj(signed char a, signed char b) { return a == b; }
inline bool same_obj(char a, char b) { return a == b; }
inline bool same_obj(short a, short b) { return a == b; }
inline bool same_obj(float a, float b) { return std::memcmp(&a, &b, sizeof a) == 0; }
inline bool same_obj(El const& a, El const& b) { return a.key == b.key && a.tag == b.tag; }
inline bool same_obj(long long a, long long b) { return a == b; }
inline bool same_obj(int a, int b) { return a == b; }
inline bool same_obj(unsigned char a, unsigned char b) { return a == b; }

template <typename T>
struct Range {
    static constexpr std::size_t PAD = 2;
    vf::Buf<T> buf;
    T* lo;
    T* hi;
    std::size_t n;
    Pres pres;
    vi::Desc<T> desc;

    static std::size_t alloc_n(std::size_t n, Pres p) { return p == Pres::embedded ? n + 2 * PAD : (p == Pres::null ? 0 : n); }

    Range(std::vector<T> const& v, Pres p, bool writable = true) : buf(alloc_n(v.size(), p)), n(v.size()), pres(p)
    {
        if (p == Pres::null) {
            lo = hi = nullptr;
        } else if (p == Pres::exact) {
            lo = buf.data();
            hi = lo + n;
        } else {
            lo = buf.data() + PAD;
            hi = lo + n;
            for (std::size_t i = 0; i < PAD; ++i) {
                new (buf.data() + i) T(guard_value<T>((int)i));
                new (hi + i) T(guard_value<T>((int)(PAD + i)));
            }
        }
        for (std::size_t i = 0; i < n; ++i) { new (lo + i) T(v[i]); }
        desc.reset(lo, hi);
        if (p != Pres::null) {
            vi::add_block(buf.data(), buf.data() + buf.size());
            vi::add_handed(lo, hi, writable);
        }
    }
    // a fresh, filled output area of n elements
    Range(std::size_t count, T const& fill, Pres p) : Range(std::vector<T>(count, fill), p, true) { }

    template <typename K>
    typename K::template it<T> at(std::size_t i)
    {
        return K::template make<T>(lo ? lo + i : nullptr, &desc);
    }
    template <typename K>
    typename K::template it<T> b()
    {
        return at<K>(0);
    }
    template <typename K>
    typename K::template it<T> e()
    {
        return at<K>(n);
    }
    void fresh() { desc.reset(lo, hi); }
    std::vector<T> get() const { return lo ? std::vector<T>(lo, hi) : std::vector<T>(); }
    bool guards_ok() const
    {
        if (pres != Pres::embedded) { return true; }
        for (std::size_t i = 0; i < PAD; ++i) {
            if (!same_obj(buf.data()[i], guard_value<T>((int)i))) { return false; }
            if (!same_obj(hi[i], guard_value<T>((int)(PAD + i)))) { return false; }
        }
        return true;
    }
};

inline char const* lencls(std::size_t n) { return n == 0 ? "len0" : (n == 1 ? "len1" : "len2+"); }

// presentations for a kind and a length
template <typename K>
inline std::vector<Pres> pres_for(std::size_t n)
{
    std::vector<Pres> v;
    if (!K::wrapper) { v.push_back(Pres::exact); }
    v.push_back(Pres::embedded);
    if (n == 0) { v.push_back(Pres::null); }
    return v;
}
inline Pres pres2(Pres p, std::size_t n2) { return p == Pres::null ? (n2 == 0 ? Pres::null : Pres::exact) : p; }

// ------------------------------------------------------------------ context of one case
struct Ctx {
    Seq a;
    std::vector<Seq> needles;
    std::string a_str;
    std::uint64_t hash = 0;
    bool enumerated    = true;
    vf::Rng* rng       = nullptr;
    vf::Tier tier      = vf::Tier::quick;
    int maxkey         = 2; // largest key in the alphabet
};

// two-range tests set this to the length of the *first* range when that is not c.a
inline std::size_t& len_hint()
{
    static std::size_t h = (std::size_t)-1;
    return h;
}
struct LenHint {
    explicit LenHint(std::size_t n) { len_hint() = n; }
    ~LenHint() { len_hint() = (std::size_t)-1; }
};

// ------------------------------------------------------------------ one library call
struct Trial {
    char sit[96];
    char label[80];
    bool clean = true;
    bool nontrivial;
    std::uint64_t base;

#if defined(__GNUC__)
    __attribute__((format(printf, 8, 9)))
#endif
    Trial(Ctx const& c, char const* kind, char const* op, Pres pr, char const* extra, std::uint64_t h, char const* fmt, ...)
    {
        vi::clear_ranges();
        std::size_t const ln = len_hint() != (std::size_t)-1 ? len_hint() : c.a.size();
        std::snprintf(sit, sizeof sit, "%s,%s%s%s", pres_name(pr), lencls(ln), extra[0] ? "," : "", extra);
        char args[400];
        va_list ap;
        va_start(ap, fmt);
        std::vsnprintf(args, sizeof args, fmt, ap);
        va_end(ap);
        vf::crumb(kind, op, sit, "a=%s %s", c.a_str.c_str(), args);
        std::snprintf(label, sizeof label, "%s<%s>", op, kind);
        nontrivial = ln != 0;
        base       = vf::mix(vf::mix(c.hash, h), (std::uint64_t)pr + 11);
    }
    template <typename F>
    auto call(F&& f)
    {
        if constexpr (std::is_void_v<decltype(f())>) {
            {
                vi::CallGuard g;
                f();
            }
            clean = vi::finish_call();
        } else {
            auto r = [&] {
                vi::CallGuard g;
                return f();
            }();
            clean = vi::finish_call();
            return r;
        }
    }
    // comparisons are skipped after an iterator/range violation: the call's results are then meaningless
    bool off(char const* name, long long obs, long long exp) { return !clean || vf::eq_int(name, obs, exp); }
    bool boolean(char const* name, bool obs, bool exp) { return !clean || vf::eq_bool(name, obs, exp); }
    // sequences: keys first (what every algorithm specifies), then identity tags (stability / which source element)
    bool seq(char const* name, Seq const& obs, Seq const& exp, bool with_tags = true)
    {
        if (!clean) { return true; }
        char sym[96];
        if (obs.size() != exp.size()) {
            std::snprintf(sym, sizeof sym, "%s:length%+d", name, (int)obs.size() - (int)exp.size());
            vf::diverge(sym, show(obs), show(exp));
            return false;
        }
        bool keys = true, tags = true, moved = false, selfmoved = false;
        for (std::size_t i = 0; i < obs.size(); ++i) {
            if (obs[i].key != exp[i].key) { keys = false; }
            if (obs[i].tag != exp[i].tag) { tags = false; }
            if (obs[i].key == MOVED && exp[i].key != MOVED) { moved = true; }
            if (obs[i].key == SELF_MOVED) { selfmoved = true; }
        }
        if (keys && (tags || !with_tags)) { return true; }
        std::snprintf(sym, sizeof sym, "%s:%s", name,
            selfmoved ? "holds-self-move-assigned-element" : (moved ? "holds-moved-from-element" : (!keys ? "values-differ" : "identity-differs")));
        vf::diverge(sym, show(obs), show(exp));
        return false;
    }
    template <typename T>
    bool nums(char const* name, std::vector<T> const& obs, std::vector<T> const& exp)
    {
        if (!clean) { return true; }
        if (obs == exp) { return true; }
        char sym[96];
        std::snprintf(sym, sizeof sym, "%s:%s", name, obs.size() != exp.size() ? "length" : "values-differ");
        vf::diverge(sym, show(std::vector<long long>(obs.begin(), obs.end())), show(std::vector<long long>(exp.begin(), exp.end())));
        return false;
    }
    // same multiset of (key, tag): nothing lost, duplicated or invented
    bool permutation(char const* name, Seq obs, Seq exp)
    {
        if (!clean) { return true; }
        auto lt = [](El const& x, El const& y) { return x.tag != y.tag ? x.tag < y.tag : x.key < y.key; };
        Seq o2 = obs, e2 = exp;
        std::sort(o2.begin(), o2.end(), lt);
        std::sort(e2.begin(), e2.end(), lt);
        bool same = o2.size() == e2.size();
        for (std::size_t i = 0; same && i < o2.size(); ++i) { same = same_obj(o2[i], e2[i]); }
        if (same) { return true; }
        char sym[96];
        std::snprintf(sym, sizeof sym, "%s:not-a-permutation-of-input", name);
        vf::diverge(sym, show(obs), show(exp));
        return false;
    }
    bool require(char const* sym, bool ok, std::string const& obs, std::string const& exp)
    {
        if (!clean || ok) { return true; }
        vf::diverge(sym, obs, exp);
        return false;
    }
    template <typename T>
    void guards(Range<T>& r, char const* what = "range")
    {
        if (!r.guards_ok()) { vf::diverge("guard-element-outside-range-modified", what, "untouched"); }
        r.buf.check(what);
    }
    void done(std::uint64_t h = 0) { vf::cover(label, vf::mix(base, h), nontrivial); }
};

// ------------------------------------------------------------------ small helpers used by every unit
template <typename K, typename T>
auto B(Range<T>& r)
{
    return r.template at<K>(0);
}
template <typename K, typename T>
auto E(Range<T>& r)
{
    return r.template at<K>(r.n);
}
template <typename K, typename T>
auto AT(Range<T>& r, std::size_t i)
{
    return r.template at<K>(i);
}
template <typename K1, typename K2>
char const* kinds2()
{
    static std::string s = std::string(K1::name) + "+" + K2::name;
    return s.c_str();
}
template <typename K1, typename K2, typename K3>
char const* kinds3()
{
    static std::string s = std::string(K1::name) + "+" + K2::name + "->" + K3::name;
    return s.c_str();
}
template <typename K1, typename K2>
char const* kinds_io()
{
    static std::string s = std::string(K1::name) + "->" + K2::name;
    return s.c_str();
}
#define FIN(t, r)                                                                                                      \
    do {                                                                                                               \
        (t).seq("input", (r).get(), c.a);                                                                              \
        (t).guards(r);                                                                                                 \
        (t).done();                                                                                                    \
    } while (0)

// ------------------------------------------------------------------ output sinks
template <typename T>
inline T fresh_value();
template <>
inline El fresh_value<El>()
{
    return El{-5, -5};
}
template <>
inline long long fresh_value<long long>()
{
    return -5;
}
template <>
inline int fresh_value<int>()
{
    return -5;
}
template <>
inline unsigned char fresh_value<unsigned char>()
{
    return 250;
}
template <>
inline unsigned fresh_value<unsigned>()
{
    return 777777u;
}
template <>
inline unsigned long long fresh_value<unsigned long long>()
{
    return 777777777ull;
}
template <>
inline unsigned short fresh_value<unsigned short>()
{
    return 7777;
}
template <>
inline double fresh_value<double>()
{
    return 4321.25;
}
template <>
inline signed char fresh_value<signed char>()
{
    return 99;
}
template <>
inline char fresh_value<char>()
{
    return 'Z';
}
template <>
inline short fresh_value<short>()
{
    return 12345;
}
template <>
inline float fresh_value<float>()
{
    return 1234.5f;
}
// minimal push_back container over a Range, for etl::back_insert_iterator
template <typename T>
struct PushVec {
    using value_type = T;
    Range<T>* r;
    std::size_t n = 0;
    void push_back(T const& v)
    {
        if (n >= r->n) {
            vi::violation("back_inserter:push-past-expected-size");
            return;
        }
        r->lo[n++] = v;
    }
    void push_back(T&& v)
    {
        if (n >= r->n) {
            vi::violation("back_inserter:push-past-expected-size");
            return;
        }
        r->lo[n++] = std::move(v);
    }
};
// an output area of exactly `cap` fresh elements (what the reference wrote), so that any surplus write is caught
template <typename T>
struct Sink {
    Range<T> r;
    PushVec<T> pv;
    Sink(std::size_t cap, Pres p) : r(cap, fresh_value<T>(), pres2(p, cap)), pv{&r, 0} { }
};
struct OPtr {
    static constexpr char const* name = "ptr";
    template <typename T>
    static T* make(Sink<T>& s)
    {
        return s.r.lo;
    }
    template <typename T>
    static long off(Sink<T>& s, T* it)
    {
        return it - s.r.lo;
    }
};
struct OOut {
    static constexpr char const* name = "out_it";
    template <typename T>
    static vi::out_it<T> make(Sink<T>& s)
    {
        return vi::out_it<T>{s.r.lo, &s.r.desc};
    }
    template <typename T>
    static long off(Sink<T>& s, vi::out_it<T> const& it)
    {
        return it.p - s.r.lo;
    }
};
struct OBack {
    static constexpr char const* name = "back_inserter";
    template <typename T>
    static etl::back_insert_iterator<PushVec<T>> make(Sink<T>& s)
    {
        return etl::back_inserter(s.pv);
    }
    template <typename T>
    static long off(Sink<T>& s, etl::back_insert_iterator<PushVec<T>> const&)
    {
        return (long)s.pv.n;
    }
};

// ------------------------------------------------------------------ sequences
// k-th sequence over keys {0..A-1}, lengths 0..maxlen, shortlex
inline Seq nth_seq(std::uint64_t k, unsigned A, unsigned maxlen, int tag0 = 0)
{
    std::uint64_t cnt = 1;
    for (unsigned len = 0; len <= maxlen; ++len, cnt *= A) {
        if (k < cnt) {
            Seq s(len);
            for (unsigned i = 0; i < len; ++i) {
                s[len - 1 - i] = El{(int)(k % A), 0};
                k /= A;
            }
            for (unsigned i = 0; i < len; ++i) { s[i].tag = tag0 + (int)i; }
            return s;
        }
        k -= cnt;
    }
    return {};
}
inline std::uint64_t count_seqs(unsigned A, unsigned maxlen)
{
    std::uint64_t t = 0, c = 1;
    for (unsigned l = 0; l <= maxlen; ++l, c *= A) { t += c; }
    return t;
}
inline bool sorted_by(Seq const& s, int mode) { return std::is_sorted(s.begin(), s.end(), Comp{mode}); }
// sorted input for comparator `mode`: enumerated part uses only sequences that already are sorted
// (every sorted sequence of the scope is itself enumerated); random part sorts a copy
inline bool sorted_input(Ctx const& c, Seq const& s, int mode, Seq& out)
{
    if (sorted_by(s, mode)) {
        out = s;
        return true;
    }
    if (c.enumerated) { return false; }
    out = s;
    std::stable_sort(out.begin(), out.end(), Comp{mode});
    return true;
}

// statements that only the full (bool-result) builds instantiate: the truthy pass keeps the pointer and the weakest kinds
#if C06_TRUTHY
    #define C06_FULL(...)
#else
    #define C06_FULL(...) __VA_ARGS__
#endif

struct Test {
    char const* name;
    void (*fn)(Ctx&);
};

#ifndef C06_BULK
    #define C06_BULK 0
#endif
#ifndef C06_SMALL
    #define C06_SMALL 0
#endif
struct Dims {
    unsigned maxlen;
    unsigned needle;
    unsigned rnd_per_test;
};
inline Dims dims(vf::Tier t)
{
    if (C06_TRUTHY || C06_SMALL) { return t == vf::Tier::thorough ? Dims{5, 3, 400} : Dims{4, 2, 40}; } // additional passes, smaller scope
    if (C06_BULK) { return Dims{7, 4, 1000}; }
    return t == vf::Tier::thorough ? Dims{6, 4, 4000} : Dims{5, 3, 120};
}

// the unit provides these
extern Test const kTests[];
extern std::size_t const kNumTests;

inline vf::Spec spec(vf::Tier t)
{
    Dims d = dims(t);
    vf::Spec s;
    s.n_enum     = count_seqs(3, d.maxlen) * kNumTests;
    s.n_random   = (std::uint64_t)d.rnd_per_test * kNumTests;
    s.batch      = 16;
    s.timeout_s  = 20;
    s.exhaustive = true;
    return s;
}

inline void run_case(vf::Case& c)
{
    Dims d = dims(c.tier);
    Ctx x;
    x.tier        = c.tier;
    x.rng         = &c.rng;
    x.enumerated  = c.enumerated;
    Test const& t = kTests[c.index % kNumTests];
    if (c.enumerated) {
        x.a              = nth_seq(c.index / kNumTests, 3, d.maxlen);
        std::uint64_t nn = count_seqs(3, d.needle);
        for (std::uint64_t k = 0; k < nn; ++k) { x.needles.push_back(nth_seq(k, 3, d.needle, 100)); }
    } else {
        unsigned A     = 3 + (unsigned)c.rng.below(2);
        x.maxkey       = (int)A - 1;
        std::size_t len = (std::size_t)c.rng.below(c.rng.chance(1, 4) ? 25 : 13);
        for (std::size_t i = 0; i < len; ++i) { x.a.push_back(El{(int)c.rng.below(A), (int)i}); }
        x.needles.push_back({});
        for (int k = 0; k < 6; ++k) {
            Seq n;
            if (len > 0 && k < 4) {
                std::size_t from = (std::size_t)c.rng.below(len), l = (std::size_t)c.rng.below(6);
                for (std::size_t i = from; i < len && i < from + l; ++i) { n.push_back(x.a[i]); }
                if (k >= 2 && !n.empty()) { n[c.rng.below(n.size())].key = (int)c.rng.below(A); }
            } else {
                std::size_t l = (std::size_t)c.rng.below(k == 5 ? len + 3 : 7);
                for (std::size_t i = 0; i < l; ++i) { n.push_back(El{(int)c.rng.below(A), 0}); }
            }
            for (std::size_t i = 0; i < n.size(); ++i) { n[i].tag = 100 + (int)i; }
            x.needles.push_back(n);
        }
    }
    x.a_str = show(x.a, false);
    x.hash  = hash_seq(x.a);
    if (x.a.size() >= 3 && vf::want_sample(t.name)) {
        vf::sample(t.name, "%s on a=%s (%s), %zu second ranges/needles", t.name, x.a_str.c_str(), c.enumerated ? "enumerated" : "random",
            x.needles.size());
    }
    t.fn(x);
}

} // namespace c06

#define C06_MAIN(UNIT)                                                                                                 \
    int main(int argc, char** argv) { return vf::run_main(argc, argv, "C06", UNIT, c06::spec, c06::run_case, 23); }
