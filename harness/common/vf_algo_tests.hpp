// vf_algo_tests.hpp - C06 test templates shared between the main units and the compile-probe unit
// (C06_probe.cpp instantiates them with the iterator categories that do not compile on the unfixed tree).
#pragma once
#include "vf_algo.hpp"

namespace c06 {

inline char const* ncls(long k, std::size_t n)
{
    return k < 0 ? "n<0" : (k == 0 ? "n=0" : (k < (long)n ? "0<n<len" : (k == (long)n ? "n=len" : "n>len")));
}
inline bool is_sorted_keys(Seq const& s, int cm)
{
    Comp cmp{cm < 0 ? 0 : cm};
    for (std::size_t i = 1; i < s.size(); ++i) {
        if (cmp(s[i], s[i - 1])) { return false; }
    }
    return true;
}

// ---------------------------------------------------------------- search_n (pointer instantiation; forward iterators: see C06_probe)
template <typename K>
void k_search_n(Ctx& c)
{
    std::size_t const n = c.a.size();
    Seq const& m        = c.a;
    for (Pres pr : pres_for<K>(n)) {
        for (long cnt = -1; cnt <= (long)n + 1; ++cnt) {
            for (int v = 0; v <= c.maxkey + 1; ++v) {
                for (int em = -1; em <= 1; ++em) {
                    Eq eq{em < 0 ? 0 : em};
                    El val{v, -1};
                    auto se = (em < 0 ? std::search_n(m.begin(), m.end(), cnt, val) : std::search_n(m.begin(), m.end(), cnt, val, eq)) - m.begin();
                    char op[64], ex[48];
                    std::snprintf(op, sizeof op, "search_n(f,l,n,v%s)%s", em < 0 ? "" : ",p", eq_name(em));
                    std::snprintf(ex, sizeof ex, "%s,%s", cnt < 0 ? "n<0" : (cnt == 0 ? "n=0" : (cnt == 1 ? "n=1" : (cnt > (long)n ? "n>len" : "n>=2"))),
                        se == (long)n ? "absent" : "found");
                    Trial t(c, K::name, op, pr, ex, vf::mix((std::uint64_t)(cnt + 2), vf::mix(v, em + 1)), "n=%ld v=%d", cnt, v);
                    Range<El> r(c.a, pr, false);
                    auto ee = em < 0 ? t.call([&] { return etl::search_n(B<K>(r), E<K>(r), cnt, val); })
                                     : t.call([&] { return etl::search_n(B<K>(r), E<K>(r), cnt, val, eq); });
                    t.off("ret", K::raw(ee) - r.lo, se);
                    FIN(t, r);
                }
            }
        }
    }
}
// ---------------------------------------------------------------- unique_copy
template <typename K, typename O>
void k_unique_copy(Ctx& c)
{
    std::size_t const n = c.a.size();
    Seq const& m        = c.a;
    char const* kk      = kinds_io<K, O>();
    for (Pres pr : pres_for<K>(n)) {
        for (int em = -1; em <= 1; ++em) {
            Eq eq{em < 0 ? 0 : em};
            Seq exp;
            if (em < 0) {
                std::unique_copy(m.begin(), m.end(), std::back_inserter(exp));
            } else {
                std::unique_copy(m.begin(), m.end(), std::back_inserter(exp), eq);
            }
            char op[64];
            std::snprintf(op, sizeof op, "unique_copy(f,l,d%s)%s", em < 0 ? "" : ",p", eq_name(em));
            Trial t(c, kk, op, pr, exp.size() == n ? "no-duplicates" : "duplicates", 400 + em, "-");
            Range<El> r(c.a, pr, false);
            Sink<El> s(exp.size(), pr);
            auto ret = em < 0 ? t.call([&] { return etl::unique_copy(B<K>(r), E<K>(r), O::make(s)); })
                              : t.call([&] { return etl::unique_copy(B<K>(r), E<K>(r), O::make(s), eq); });
            t.off("ret", O::off(s, ret), (long)exp.size());
            t.seq("output", s.r.get(), exp);
            t.guards(s.r, "output");
            FIN(t, r);
        }
    }
}

// ---------------------------------------------------------------- shift_right
template <typename K>
void k_shift_right(Ctx& c)
{
    std::size_t const n = c.a.size();
    Seq const& m        = c.a;
    for (Pres pr : pres_for<K>(n)) {
        for (long k = 0; k <= (long)n + 1; ++k) { // n < 0 violates the precondition
            Seq exp = m;
            auto se = std::shift_right(exp.begin(), exp.end(), k) - exp.begin();
            Trial t(c, K::name, "shift_right(f,l,n)", pr, ncls(k, n), 10 + (std::uint64_t)k, "n=%ld", k);
            Range<El> r(c.a, pr, true);
            auto ret = t.call([&] { return etl::shift_right(B<K>(r), E<K>(r), k); });
            long eo  = K::raw(ret) - r.lo;
            if (t.off("ret", eo, se)) {
                Seq got = r.get();
                t.seq("shifted-part", Seq(got.begin() + se, got.end()), Seq(exp.begin() + se, exp.end()));
                if (k == 0 || k >= (long)n) { t.seq("range(no-op)", r.get(), m); }
            }
            t.guards(r);
            t.done();
        }
    }
}

// ---------------------------------------------------------------- stable_partition
template <typename K>
void k_stable_partition(Ctx& c)
{
    std::size_t const n = c.a.size();
    Seq const& m        = c.a;
    for (Pres pr : pres_for<K>(n)) {
        for (auto const& ps : kPreds) {
            Pred p{ps.mode, ps.arg};
            long cnt       = std::count_if(m.begin(), m.end(), p);
            char const* ex = cnt == 0 ? "none-true" : (cnt == (long)n ? "all-true" : "mixed");
            {
                Seq exp = m;
                auto se = std::stable_partition(exp.begin(), exp.end(), p) - exp.begin();
                Trial t(c, K::name, "stable_partition(f,l,p)", pr, ex, vf::mix(ps.mode + 10, ps.arg), "pred %s", ps.name);
                Range<El> r(c.a, pr, true);
                auto ret = t.call([&] { return etl::stable_partition(B<K>(r), E<K>(r), p); });
                t.off("ret", K::raw(ret) - r.lo, se);
                t.seq("range", r.get(), exp);
                t.guards(r);
                t.done();
            }
        }
    }
}

// ---------------------------------------------------------------- inplace_merge (pointer / random access; bidirectional: C06_probe)
template <typename K>
void k_inplace_merge(Ctx& c)
{
    std::size_t const n = c.a.size();
    for (int cm = -1; cm <= 2; ++cm) {
        Comp cmp{cm < 0 ? 0 : cm};
        for (std::size_t mid = 0; mid <= n; ++mid) {
            Seq in = c.a;
            bool halves_sorted = is_sorted_keys(Seq(in.begin(), in.begin() + (long)mid), cm) && is_sorted_keys(Seq(in.begin() + (long)mid, in.end()), cm);
            if (!halves_sorted) {
                if (c.enumerated) { continue; }
                std::stable_sort(in.begin(), in.begin() + (long)mid, cmp);
                std::stable_sort(in.begin() + (long)mid, in.end(), cmp);
            }
            Seq exp = in;
            std::inplace_merge(exp.begin(), exp.begin() + (long)mid, exp.end(), cmp);
            char op[64];
            std::snprintf(op, sizeof op, "inplace_merge(f,m,l%s)%s", cm < 0 ? "" : ",c", comp_name(cm));
            for (Pres pr : pres_for<K>(n)) {
                Trial t(c, K::name, op, pr, mid == 0 ? "mid=first" : (mid == n ? "mid=last" : "mid-inner"), vf::mix(vf::mix(mid, cm + 1), hash_seq(in)), "in=%s mid=%zu",
                    show(in, false).c_str(), mid);
                Range<El> r(in, pr, true);
                if (cm < 0) {
                    t.call([&] { etl::inplace_merge(B<K>(r), AT<K>(r, mid), E<K>(r)); });
                } else {
                    t.call([&] { etl::inplace_merge(B<K>(r), AT<K>(r, mid), E<K>(r), cmp); });
                }
                t.seq("range", r.get(), exp);
                t.guards(r);
                t.done();
            }
        }
    }
}
} // namespace c06
